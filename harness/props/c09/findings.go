package c09

import (
	"strings"

	"wzverif/internal/kit"
)

// Known findings of C09. A trigger is a predicate on (state before the op, op); the interpreter evaluates it while it
// runs the history (see the cand lists in run.go / ops.go) and marks an absorbed failure with "[kf:<id>]", so that the
// predicate below is decidable from the failure record. A failure of a clause the finding does not list, or at an op for
// which the trigger does not hold, carries no marker and is reported as a violation.
const (
	kfColStruct   = "KF-C09-colstruct"
	kfInsRow      = "KF-C09-insrow-template"
	kfRowVM       = "KF-C09-rowedit-vmerge"
	kfMergeOver   = "KF-C09-merge-over-merged"
	kfRangeAtomic = "KF-C09-mergerange-atomic"
	kfMergeVPhys  = "KF-C09-vmerge-physical"
	kfIter        = "KF-C09-iter-row0"
	kfCopy        = "KF-C09-copytable"
	kfDelColEmpty = "KF-C09-delcol-empties-row"
	kfAppColRow0  = "KF-C09-appendcol-row0"
)

func marked(id string) func(Case, kit.Failure) bool {
	return func(c Case, f kit.Failure) bool { return strings.HasPrefix(f.Detail, "[kf:"+id+"] ") }
}

var findings = []kit.Finding[Case]{
	{ID: kfColStruct, Clause: "C09.G3", Trigger: marked(kfColStruct),
		Desc: "DeleteColumn/DeleteColumns (and, for vMerge pairing only, InsertColumn/AppendColumn) on a table with a horizontally merged cell remove/insert the physical cell with that index in every row: a row loses a spanned cell (or its only cell) while the grid loses one column, vertical-merge partners end up at different grid columns"},
	{ID: kfInsRow, Clause: "C09.G3.span", Trigger: marked(kfInsRow),
		Desc: "InsertRow/AppendRow build the new row from the physical cells of row 0: when row 0 contains a horizontally merged cell the new row is short (spans fewer columns than the grid)"},
	{ID: kfRowVM, Clause: "C09.G3.vmerge", Trigger: marked(kfRowVM),
		Desc: "InsertRow inside a vertical merge and DeleteRow(s) of the rows above a continuation cell ignore vMerge: the continuation cell is left under a cell that is not part of a merge (or in the first row)"},
	{ID: kfMergeOver, Clause: "C09.G3", Trigger: marked(kfMergeOver),
		Desc: "MergeCellsHorizontal/MergeCellsRange over cells that are already merged count physical cells, not grid columns, and ignore vMerge roles: the row spans fewer columns than the grid, continuation cells lose their matching start"},
	{ID: kfRangeAtomic, Clause: "C09.G2", Trigger: marked(kfRangeAtomic),
		Desc: "MergeCellsRange merges row by row and validates each row only when it reaches it: on rows of different shape it returns an error with the earlier rows already merged"},
	{ID: kfMergeVPhys, Clause: "C09.G", Trigger: marked(kfMergeVPhys),
		Desc: "MergeCellsVertical (also as part of MergeCellsRange) and the vertical part of UnmergeCells address physical cell indexes, not grid columns: on rows of different shape the continuation ends up under a cell at another grid column / with another span, or is left behind by unmerge"},
	{ID: kfIter, Clause: "C09.G5", Trigger: marked(kfIter),
		Desc: "NewCellIterator/ForEach/FindCells/ForEachInRow size every row from row 0: on rows of different physical length they fail half-way or skip cells"},
	{ID: kfDelColEmpty, Clause: "C09.G3.nonempty", Trigger: marked(kfDelColEmpty),
		Desc: "DeleteColumn/DeleteColumns check 'at least one column must remain' against row 0 only: on a table read from a file whose later row has no more cells than the call deletes (ragged rows) the call succeeds and leaves that row without any cell"},
	{ID: kfAppColRow0, Clause: "C09.G4.cols", Trigger: marked(kfAppColRow0),
		Desc: "AppendColumn takes 'the end of the table' from the number of cells of row 0: on a table read from a file in which another row has more cells than row 0 (ragged rows) the new cell is inserted into the middle of the longer rows and their existing cells move one column to the right"},
	{ID: kfCopy, Clause: "C09.G6", Trigger: marked(kfCopy),
		Desc: "CopyTable shares Properties, Grid, row/cell/paragraph/run property pointers with the original, drops nested tables and xml:space: the copy is neither equal nor independent"},
}

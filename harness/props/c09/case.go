package c09

import (
	"fmt"
	"os"

	"pgregory.net/rapid"
)

// Op is one call of the table API. I holds selectors / numbers, S strings, F a variant (format, flag bits).
// Selectors are state independent and resolved by the interpreter against the current size (see (*exec).sel).
type Op struct {
	K string   `json:"k"`
	I []int    `json:"i,omitempty"`
	S []string `json:"s,omitempty"`
	F int      `json:"f,omitempty"`
}

// Case is the whole generated input: how the table is created and the history applied to it.
type Case struct {
	Via       string     `json:"via"` // create | add | open (the table is read from a .docx built from Open)
	Rows      int        `json:"rows"`
	Cols      int        `json:"cols"`
	Width     int        `json:"width"`
	ColWidths []int      `json:"col_widths,omitempty"`
	Data      [][]string `json:"data,omitempty"`
	Open      *OpenSpec  `json:"open,omitempty"`
	Ops       []Op       `json:"ops"`
	Motif     bool       `json:"motif,omitempty"` // the history contains a seam motif (informational: labels only)
}

// OpenSpec describes a w:tbl of a .docx written by another producer: the table under test is what
// document.OpenFromMemory makes of it. This is the only way to a table whose rows have different numbers of
// cells ("ragged rows" of the statement's quantifier), and to merged cells / nested tables that pre-exist.
type OpenSpec struct {
	Grid []int        `json:"grid"` // one w:gridCol per entry (its width)
	Rows [][]OpenCell `json:"rows"` // the w:tc of every w:tr; the spans of a row sum to <= len(Grid)
}

// OpenCell is one w:tc.
type OpenCell struct {
	T      []string `json:"t"`                // one w:p per entry ("" = a paragraph without a run)
	Span   int      `json:"span,omitempty"`   // w:gridSpan (0 = absent, 1 = written although it is the default)
	VM     string   `json:"vm,omitempty"`     // restart | continue | empty (<w:vMerge/>, which means continue)
	NoPr   bool     `json:"nopr,omitempty"`   // the cell has no w:tcPr (only without span / vMerge)
	Nested int      `json:"nested,omitempty"` // > 0: a nested 1-row table of that many cells precedes the paragraphs
	NoW    bool     `json:"now,omitempty"`    // the w:tcPr (when there is one) holds no w:tcW: only w:gridSpan / w:vMerge, or nothing
}

func (c OpenCell) span() int {
	if c.Span < 1 {
		return 1
	}
	return c.Span
}

var structKinds = []string{"insrow", "insrow", "approw", "delrow", "delrow", "delrows", "inscol", "inscol", "appcol", "delcol", "delcol", "delcols"}
var cellKinds = []string{"settext", "settext", "settext", "setftext", "addftext", "setfmt", "clrcontent", "clrfmt", "addpara", "addpara", "addfpara", "clrparas",
	"addlist", "nested", "nested", "nested", "nested", "padding", "textdir", "shade", "borders", "rmborders"}
var mergeKinds = []string{"mergeh", "mergeh", "mergeh", "mergev", "mergev", "merger", "merger", "unmerge", "unmerge", "unmerge"}
var readKinds = []string{"get", "get", "iter", "iter", "range", "range", "eachrow", "eachcol", "find", "save"}
var rowKinds = []string{"rowheight", "rowheightrange", "header", "headerrows", "keeptogether", "keepnext", "rowget"}
var tableKinds = []string{"clear", "tstyle", "tstyle"}

var oddTexts = []string{"", "", " ", "中文", "a<b&c>d", "x\ny", "😀", "dup", "dup", "  lead", "trail  ", "{{x}}"}

type caseGen struct {
	t   *rapid.T
	k   int
	big bool // the start table has ten or more rows or columns
}

// u draws a uniformly distributed value of 0..n-1. rapid's own integer generators are biased towards small values
// and bounds, which is wrong for class choices; a raw draw is therefore spread with the splitmix64 finalizer.
func (g *caseGen) u(label string, n int) int {
	z := rapid.Uint64().Draw(g.t, label) + 0x9e3779b97f4a7c15
	z = (z ^ (z >> 30)) * 0xbf58476d1ce4e5b9
	z = (z ^ (z >> 27)) * 0x94d049bb133111eb
	z ^= z >> 31
	return int(z % uint64(n))
}

func pickOf[T any](g *caseGen, label string, xs []T) T { return xs[g.u(label, len(xs))] }

func (g *caseGen) text() string {
	if g.u("txk", 9+1) < 7 {
		g.k++
		return fmt.Sprintf("v%d", g.k)
	}
	return pickOf(g, "odd", oddTexts)
}

func (g *caseGen) texts(min, max int) []string {
	n := (min + g.u("nd", max-(min)+1))
	out := make([]string, n)
	for i := range out {
		out[i] = g.text()
	}
	return out
}

// endBase: selectors from endBase on count valid indexes from the end (endBase -> n-1, endBase+1 -> n-2, ...; see (*exec).sel).
const endBase = 1 << 20

// sel draws a selector: negative values and three residues of 32 are the out-of-range classes (see (*exec).sel);
// every other value is a valid index, counted from the start (any index of a table of up to 96 rows / columns) or,
// one in sixteen, from the end (the last, the last but one, ...).
func (g *caseGen) sel() int {
	if g.u("neg", 39+1) == 0 {
		return -(1 + g.u("negv", 2-1+1))
	}
	if g.u("end", 16) == 0 {
		return endBase + g.u("endk", 4)
	}
	return g.u("sel", 32*96-1+1)
}

// broad draws the two ends of a range that covers the table but for at most two positions at either end (the
// whole row / column, all but the first, all but the last two, ...), whatever the size of the table is.
func (g *caseGen) broad() (int, int) {
	return 32*g.u("bra", 3) + 3, endBase + g.u("brb", 3)
}

// ends draws the two ends of a range: independent selectors or, one in six (one in three on a table that starts
// with ten or more rows or columns, where two independent indexes seldom lie ten apart), a broad range.
func (g *caseGen) ends() (int, int) {
	if w := g.u("br", 6); w == 0 || (g.big && w == 1) {
		return g.broad()
	}
	return g.sel(), g.sel()
}

// dlen draws a data-length selector (see (*exec).data): longer than the table, empty, exact, or any shorter length.
func (g *caseGen) dlen() int { return g.u("dlen", 10*100-1+1) }

func (g *caseGen) inv() int {
	if g.u("inv", 11+1) == 0 {
		return 1
	}
	return 0
}

func (g *caseGen) width() int { return pickOf(g, "w", []int{500, 1000, 1440, 2000, 3000}) }

func (g *caseGen) op(k string) Op {
	o := Op{K: k}
	switch k {
	case "insrow":
		o.I = []int{g.sel(), g.dlen()}
		o.S = g.texts(1, 7)
	case "approw":
		o.I = []int{g.dlen()}
		o.S = g.texts(1, 7)
	case "delrow", "delcol", "eachrow", "eachcol", "rowget":
		o.I = []int{g.sel()}
	case "delrows", "delcols", "headerrows":
		a, b := g.ends()
		o.I = []int{a, b}
		o.F = g.inv()
	case "inscol":
		o.I = []int{g.sel(), g.width(), g.dlen()}
		o.S = g.texts(1, 7)
	case "appcol":
		o.I = []int{g.width(), g.dlen()}
		o.S = g.texts(1, 7)
	case "settext", "addpara":
		o.I = []int{g.sel(), g.sel()}
		o.S = []string{g.text()}
	case "setftext", "addftext", "addfpara":
		o.I = []int{g.sel(), g.sel()}
		o.S = []string{g.text()}
		o.F = g.u("tf", len(textFormats))
	case "setfmt":
		o.I = []int{g.sel(), g.sel()}
		o.F = g.u("cf", len(cellFormats))
	case "clrcontent", "clrfmt", "clrparas", "padding", "rmborders", "get", "unmerge":
		o.I = []int{g.sel(), g.sel()}
	case "textdir", "shade", "borders":
		o.I = []int{g.sel(), g.sel()}
		o.F = g.u("var", 3+1)
	case "addlist":
		o.I = []int{g.sel(), g.sel()}
		o.S = g.texts(0, 3)
		if g.u("ll", 12) == 0 { // a list of ten or more items
			o.S = g.texts(9, 12)
		}
		o.F = g.u("lt", 7+1)
	case "nested":
		nr, nc := g.u("nr", 3+1), g.u("nc", 3+1)
		if g.u("nbig", 16) == 0 { // a nested table of ten or more columns
			nc = 10 + g.u("nbc", 3)
		}
		if g.u("nz", 4+1) > 0 { // mostly valid sizes
			if nr == 0 {
				nr = 1
			}
			if nc == 0 {
				nc = 2
			}
		}
		o.I = []int{g.sel(), g.sel(), nr, nc}
		o.S = g.texts(0, 4)
		o.F = pickOf(g, "nw", []int{0, 0, 0, 1, 1, 2})
	case "mergeh":
		a, b := g.ends()
		o.I = []int{g.sel(), a, b}
		o.F = g.inv()
	case "mergev":
		a, b := g.ends()
		o.I = []int{a, b, g.sel()}
		o.F = g.inv()
	case "merger":
		ra, rb := g.ends()
		ca, cb := g.ends()
		o.I = []int{ra, rb, ca, cb}
		o.F = g.inv() | g.inv()<<1
	case "range":
		ra, rb := g.ends()
		ca, cb := g.ends()
		o.I = []int{ra, ca, rb, cb}
		o.F = g.inv() | g.inv()<<1
	case "rowheight":
		o.I = []int{g.sel(), g.u("h", 60+1)}
		o.F = g.u("rule", 2+1)
	case "rowheightrange":
		a, b := g.ends()
		o.I = []int{a, b, g.u("h", 60+1)}
		o.F = g.inv()
	case "header", "keeptogether", "keepnext":
		o.I = []int{g.sel()}
		o.F = g.u("on", 1+1)
	case "tstyle":
		o.F = g.u("ts", 5+1)
	case "copy":
		o.F = g.u("cm", 1+1)
	case "find":
		o.S = []string{pickOf(g, "fs", []string{"v1", "v2", "v", "dup", "", "1", "zzz"})}
		o.F = g.u("ex", 1+1)
	}
	return o
}

// openText draws a cell text that survives the trip through an XML part unchanged (no line breaks, no
// leading / trailing blanks: what the reader does with those is C03's subject, not this check's).
func (g *caseGen) openText() string {
	if g.u("otk", 10) < 7 {
		g.k++
		return fmt.Sprintf("v%d", g.k)
	}
	return pickOf(g, "oodd", []string{"", "", "中文", "a<b&c>d", "dup", "dup", "{{x}}"})
}

// openSpec draws a table as another producer writes it: 1-5 grid columns, 1-5 rows (one in seven: 10-14 grid columns,
// 2-4 rows, cells that span most of a row - w:gridSpan of two digits -, consecutive rows of one layout and a vertical
// merge of the widest cell); ragged (some rows with
// fewer cells than the grid, no row wider than the grid, at least one row as wide as the grid) or full;
// with or without horizontally merged cells (w:gridSpan); sometimes one vertical merge that is valid in
// grid terms (continuations written as val="continue" or as the bare <w:vMerge/>), a nested table, cells
// without w:tcPr, cells of two paragraphs, paragraphs without runs.
func (g *caseGen) openSpec() *OpenSpec {
	G, R := 1+g.u("og", 5), 1+g.u("or", 5)
	mode := g.u("om", 10)
	ragged, spans := mode < 8, mode >= 6 && mode <= 8
	wide := g.u("owide", 7) == 0 // a grid of ten or more columns, where w:gridSpan can have two digits
	if wide {
		G, R = 10+g.u("owg", 5), 2+g.u("owr", 3)
		mode = g.u("owm", 10)
		ragged, spans = mode < 3, true
	}
	if ragged {
		if G < 2 {
			G = 2 + g.u("og2", 3)
		}
		if R < 2 {
			R = 2 + g.u("or2", 3)
		}
	}
	o := &OpenSpec{}
	for i := 0; i < G; i++ {
		o.Grid = append(o.Grid, g.width())
	}
	widths := make([]int, R)
	for i := range widths {
		widths[i] = G
		if ragged {
			widths[i] = 1 + g.u("ow", G)
		}
	}
	if ragged {
		full := g.u("of", R)
		short := (full + 1 + g.u("os", R-1)) % R
		widths[full] = G
		if widths[short] == G {
			widths[short] = 1 + g.u("osw", G-1)
		}
	}
	cell := func() OpenCell {
		c := OpenCell{T: []string{g.openText()}}
		switch g.u("op", 10) {
		case 0:
			c.T = append(c.T, g.openText())
		case 1:
			c.T = []string{""}
		}
		return c
	}
	for i := 0; i < R; i++ {
		var row []OpenCell
		if wide && i > 0 && widths[i] == widths[i-1] && g.u("osame", 2) == 0 {
			// the layout of the row above (fresh contents): the rows of a vertically merged block look like this
			for _, a := range o.Rows[i-1] {
				c := cell()
				c.Span, c.NoPr = a.Span, a.NoPr
				row = append(row, c)
			}
			o.Rows = append(o.Rows, row)
			continue
		}
		for rem := widths[i]; rem > 0; {
			c := cell()
			switch {
			case wide && rem >= 2 && g.u("ospw", 10) < 3:
				c.Span = rem - g.u("ospr", min(rem-1, 4)) // most of what is left of the row: 10 or more at the start of a row
			case spans && rem >= 2 && g.u("osp", 10) < 3:
				c.Span = 2 + g.u("ospn", min(rem, 3)-1)
			case g.u("onp", 10) < 3:
				c.NoPr = true
			case spans && g.u("osp1", 8) == 0:
				c.Span = 1 // the default, written explicitly
			}
			if !c.NoPr && g.u("onow", 4) == 0 {
				c.NoW = true
			}
			rem -= c.span()
			row = append(row, c)
		}
		o.Rows = append(o.Rows, row)
	}
	if (wide || g.u("ovm", 4) == 0) && R >= 2 { // one vertical merge, valid in grid terms
		a := g.u("ova", R-1)
		j := g.u("ovj", len(o.Rows[a]))
		if wide { // the widest cell of the row
			for k := range o.Rows[a] {
				if o.Rows[a][k].span() > o.Rows[a][j].span() {
					j = k
				}
			}
		}
		start := func(row []OpenCell, j int) int {
			s := 0
			for k := 0; k < j; k++ {
				s += row[k].span()
			}
			return s
		}
		s0, sp0 := start(o.Rows[a], j), o.Rows[a][j].span()
		want := 1 + g.u("ovl", R-1-a)
		for i := a + 1; i <= a+want; i++ {
			hit := -1
			for k := range o.Rows[i] {
				if start(o.Rows[i], k) == s0 && o.Rows[i][k].span() == sp0 {
					hit = k
				}
			}
			if hit < 0 {
				break
			}
			o.Rows[i][hit].VM = pickOf(g, "ovf", []string{"continue", "empty"})
			o.Rows[i][hit].NoPr = false
			o.Rows[a][j].VM, o.Rows[a][j].NoPr = "restart", false
		}
	}
	if g.u("onest", 6) == 0 {
		i := g.u("oni", R)
		o.Rows[i][g.u("onj", len(o.Rows[i]))].Nested = 1 + g.u("onc", 2)
	}
	return o
}

// motif draws a short run of calls whose positions depend on one another, which independent selectors all but
// never produce: two merged blocks that touch - the second directly below the first, starting at the same grid
// column (2 in 3), or directly right of it, starting in the same row - each 1-3 rows high and 1-3 columns wide
// (a block of one cell is no merge), made by MergeCellsRange or, where the block is one row / one column, by
// MergeCellsHorizontal / MergeCellsVertical, in either order; then one call at the seam between them: a row or a
// column deleted / inserted at the first or last line of a block (single or as a range across the seam), or a
// block unmerged. rows x cols is the start size of the table; the blocks lie inside it.
func (g *caseGen) motif(rows, cols int) []Op {
	v := func(k int) int { return 32*k + 3 } // the selector of the valid index k
	below := g.u("mbelow", 3) < 2
	r0, c0 := g.u("mr0", 2), g.u("mc0", 2)
	h1, w1 := 1+g.u("mh1", 3), 1+g.u("mw1", 3)
	h2, w2 := 1+g.u("mh2", 3), 1+g.u("mw2", 3)
	fit := func(x *int, lim int) {
		if *x > lim {
			*x = lim
		}
		if *x < 1 {
			*x = 1
		}
	}
	var r1, c1 int // top left cell of the second block
	if below {
		fit(&h1, rows-r0-1)
		fit(&h2, rows-r0-h1)
		fit(&w1, cols-c0)
		fit(&w2, cols-c0)
		r1, c1 = r0+h1, c0
	} else {
		fit(&w1, cols-c0-1)
		fit(&w2, cols-c0-w1)
		fit(&h1, rows-r0)
		fit(&h2, rows-r0)
		r1, c1 = r0, c0+w1
	}
	block := func(r, c, h, w int, shift int) (Op, bool) {
		c -= shift // physical index: the cells of the block left of this one in the same rows have become one
		specific := g.u("mspec", 2) == 0
		switch {
		case h == 1 && w == 1:
			return Op{}, false
		case h == 1 && specific:
			return Op{K: "mergeh", I: []int{v(r), v(c), v(c + w - 1)}}, true
		case w == 1 && specific:
			return Op{K: "mergev", I: []int{v(r), v(r + h - 1), v(c)}}, true
		}
		return Op{K: "merger", I: []int{v(r), v(r + h - 1), v(c), v(c + w - 1)}}, true
	}
	var out []Op
	first := g.u("morder", 4) > 0 // mostly the upper / left block first
	shift := 0
	if !below && first && g.u("mphys", 2) == 0 {
		shift = w1 - 1 // address the right block by the physical index it has after the left block was merged (rows of the left block only)
	}
	a, okA := block(r0, c0, h1, w1, 0)
	b, okB := block(r1, c1, h2, w2, shift)
	if !first {
		a, okA, b, okB = b, okB, a, okA
	}
	if okA {
		out = append(out, a)
	}
	if okB {
		out = append(out, b)
	}
	// the seam: a line of the first or of the second block
	rowLines := []int{r0, r0 + h1 - 1, r1, r1 + h2 - 1}
	colLines := []int{c0, c0 + w1 - 1, c1, c1 + w2 - 1}
	rl, cl := pickOf(g, "mrl", rowLines), pickOf(g, "mcl", colLines)
	if below && g.u("mseam", 2) == 0 {
		rl = r1 - g.u("mseamd", 2) // the last row of the upper block or the first row of the lower one
	}
	var e Op
	switch g.u("medit", 12) {
	case 0, 1, 2:
		e = Op{K: "delrow", I: []int{v(rl)}}
	case 3, 4:
		lo := rl - g.u("mlo", 2)
		if lo < 0 {
			lo = 0
		}
		e = Op{K: "delrows", I: []int{v(lo), v(rl)}}
	case 5, 6:
		e = Op{K: "insrow", I: []int{v(rl), g.dlen()}, S: g.texts(1, 4)}
	case 7:
		e = Op{K: "delcol", I: []int{v(cl)}}
	case 8:
		lo := cl - g.u("mlo", 2)
		if lo < 0 {
			lo = 0
		}
		e = Op{K: "delcols", I: []int{v(lo), v(cl)}}
	case 9:
		e = Op{K: "inscol", I: []int{v(cl), g.width(), g.dlen()}, S: g.texts(1, 4)}
	case 10:
		e = Op{K: "unmerge", I: []int{v(r0), v(c0)}}
	default:
		e = Op{K: "unmerge", I: []int{v(r1), v(c1)}}
	}
	return append(out, e)
}

func genCase(t *rapid.T) Case {
	g := &caseGen{t: t}
	c := Case{
		Via:   pickOf(g, "via", []string{"create", "add"}),
		Rows:  (1 + g.u("rows", 6-1+1)),
		Cols:  (1 + g.u("cols", 6-1+1)),
		Width: pickOf(g, "width", []int{9000, 6000, 100, 0, 8640}),
	}
	// sizes past the single digits (and past 16 / 32 / 64), rarely, so that the quick tier stays cheap: a table of ten
	// or more columns is where a cell can span ten or more grid columns and where an index has two digits
	switch dim := g.u("dim", 100); {
	case dim < 11: // wide
		c.Cols = pickOf(g, "wcols", []int{7, 8, 9, 10, 10, 11, 11, 12, 12, 12, 13, 14, 15, 16, 17, 20, 21})
		c.Rows = 1 + g.u("wrows", 5)
	case dim < 12: // very wide
		c.Cols = pickOf(g, "vwcols", []int{31, 32, 33, 63, 64, 65})
		c.Rows = 1 + g.u("vwrows", 3)
	case dim < 17: // tall
		c.Rows = pickOf(g, "trows", []int{7, 9, 10, 10, 11, 11, 12, 12, 13, 16, 17, 33, 65})
		c.Cols = 1 + g.u("tcols", 4)
	}
	// one case in six carries a seam motif (see (*caseGen).motif): two merged blocks that touch, then an edit at the seam
	motif := g.u("motif", 6) == 0 && os.Getenv("C09_NOMOTIF") != "1"
	if motif {
		c.Rows, c.Cols = 4+g.u("mrows", 3), 3+g.u("mcols", 3)
	}
	if !motif && g.u("src", 5) == 0 && os.Getenv("C09_NOOPEN") != "1" { // a fifth of the other cases start from a table read from a file
		o := g.openSpec()
		c = Case{Via: "open", Rows: len(o.Rows), Cols: len(o.Grid), Open: o}
	}
	switch wm := g.u("wm", 19+1); {
	case c.Open != nil:
	default:
		switch wm {
		case 0: // wrong number of widths: CreateTable must refuse
			c.ColWidths = make([]int, c.Cols+pickOf(g, "wd", []int{-1, 1, 2}))
			for i := range c.ColWidths {
				c.ColWidths[i] = g.width()
			}
			if len(c.ColWidths) == 0 { // an empty list means "derive", not "wrong"
				c.ColWidths = []int{1000, 1000}
				if c.Cols == 2 {
					c.ColWidths = []int{1000, 1000, 1000}
				}
			}
		case 1, 2, 3, 4, 5, 6, 7:
			c.ColWidths = make([]int, c.Cols)
			for i := range c.ColWidths {
				c.ColWidths[i] = g.width()
			}
		}
	}
	dm := g.u("dm", 9+1)
	if c.Open != nil {
		dm = 0
	}
	switch dm {
	case 0, 1: // none
	case 2, 3, 4, 5: // full
		for i := 0; i < c.Rows; i++ {
			row := make([]string, c.Cols)
			for j := range row {
				row[j] = g.text()
			}
			c.Data = append(c.Data, row)
		}
	default: // ragged: fewer/more rows, shorter/longer rows
		nr := g.u("dr", c.Rows+1+1)
		for i := 0; i < nr; i++ {
			c.Data = append(c.Data, g.texts(0, c.Cols+1))
		}
		if c.Data == nil {
			c.Data = [][]string{}
		}
	}
	// the history: three rapid slices (so that the shrinker can drop ops) of together 1..30 ops, 15 on average
	one := rapid.Custom(func(t *rapid.T) Op {
		h := &caseGen{t: t, k: g.k, big: c.Rows >= 10 || c.Cols >= 10}
		var k string
		switch w := h.u("grp", 100); {
		case w < 28:
			k = pickOf(h, "sk", structKinds)
		case w < 50:
			k = pickOf(h, "ck", cellKinds)
		case w < 75:
			k = pickOf(h, "mk", mergeKinds)
		case w < 87:
			k = pickOf(h, "rk", readKinds)
		case w < 91:
			k = pickOf(h, "wk", rowKinds)
		case w < 94:
			k = pickOf(h, "tk", tableKinds)
		default:
			k = "copy"
		}
		o := h.op(k)
		g.k = h.k
		return o
	})
	c.Ops = rapid.SliceOfN(one, 1, 12).Draw(t, "ops1")
	c.Ops = append(c.Ops, rapid.SliceOfN(one, 0, 10).Draw(t, "ops2")...)
	c.Ops = append(c.Ops, rapid.SliceOfN(one, 0, 8).Draw(t, "ops3")...)
	if motif {
		m := g.motif(c.Rows, c.Cols)
		p := 0
		if g.u("mlate", 2) == 0 {
			p = g.u("mpos", len(c.Ops)+1)
		}
		ops := append([]Op{}, c.Ops[:p]...)
		ops = append(ops, m...)
		c.Ops = append(ops, c.Ops[p:]...)
		c.Motif = true
	}
	return c
}

package c09

// The interpreter: executes a Case against the real table API and judges every step against the
// property statement (clauses G1-G6). The state before an op is kept as an independent deep copy
// ("pre"); every expectation is phrased as "post = f(pre, arguments)", which by induction over the
// history is the plain rows-by-columns model of the statement.

import (
	"fmt"
	"os"
	"strings"

	"github.com/zerx-lab/wordZero/pkg/document"

	"wzverif/internal/kit"
)

// debugAbsorbed (C09_DEBUG=1) prints every failure that an open finding absorbed, for triage of the triggers.
var debugAbsorbed = os.Getenv("C09_DEBUG") == "1"

// debugTrace (C09_TRACE=1) prints every resolved call, its outcome and the table after it (reading a replay).
var debugTrace = os.Getenv("C09_TRACE") == "1"

const (
	mustOK = iota
	mustErr
	either
)

// cand is a known finding whose trigger holds for (state before the op, op); it may absorb the listed clauses.
type cand struct {
	id      string
	clauses []string
}

type exec struct {
	res  *kit.Result
	open map[string]bool
	doc  *document.Document
	t    *document.Table // table under test
	pre  *document.Table // independent copy taken before the current op
	sh   shape           // shape of pre
	i    int
	op   Op
	desc string // resolved call, for messages

	absorbed bool // a failure of the current op was attributed to an open finding -> roll the table back
	stop     bool // unattributed failure -> end of case
	status   string

	frozen, frozenSnap *document.Table // original of a CopyTable whose copy became the table under test
	inDoc              *document.Table // the table that checkSaved has found in / put into the body of doc

	structOK, mergeOK, nestedOK, rejectedOOR, rollbacks, copyRollbacks, copies int
	oor                                                                        bool // an argument of the current op was outside the table
	everMerged, everNonRect                                                    bool
	opened, startRagged, everViolating                                         bool            // start table read from a file / with ragged rows; some state broke G3 before the call
	preViol                                                                    map[string]bool // G3 clauses that pre violates
	raggedRejected, raggedAccepted                                             int             // structural edits on a ragged state
	shapeSig                                                                   []string
}

func (x *exec) fail(clause string, cands []cand, format string, a ...interface{}) {
	msg := fmt.Sprintf(format, a...)
	for _, cd := range cands {
		if !x.open[cd.id] {
			continue
		}
		for _, p := range cd.clauses {
			if strings.HasPrefix(clause, p) {
				x.res.Fail(clause, "[kf:%s] op %d %s: %s | before: %s", cd.id, x.i, x.desc, msg, render(x.pre))
				x.res.Count("absorbed:"+cd.id, 1)
				x.absorbed = true
				if debugAbsorbed {
					fmt.Fprintf(os.Stderr, "ABSORBED %s %s: op %d %s: %s | before: %s | after: %s\n", cd.id, clause, x.i, x.desc, msg, render(x.pre), render(x.t))
				}
				return
			}
		}
	}
	if x.pre != nil {
		x.res.Fail(clause, "op %d %s: %s | before: %s | after: %s", x.i, x.desc, msg, render(x.pre), render(x.t))
	} else {
		x.res.Fail(clause, "%s: %s", x.desc, msg)
	}
	x.stop = true
}

func (x *exec) done() bool { return x.stop || x.absorbed }

// sel resolves a state-independent selector against the current size n:
// negative -> itself (-1, -2); from endBase on -> a valid index counted from the end (n-1, n-2, ...);
// residues 0,1,2 of 32 -> n, n+1, -1; everything else -> a valid index.
func (x *exec) sel(s, n int) int {
	if s < 0 {
		x.res.Label("pos:negative")
		x.oor = true
		return s
	}
	if s >= endBase {
		if n <= 0 {
			return 0
		}
		return n - 1 - (s-endBase)%n
	}
	switch s % 32 {
	case 0:
		x.res.Label("pos:n")
		return n
	case 1:
		x.res.Label("pos:n+1")
		x.oor = true
		return n + 1
	case 2:
		x.res.Label("pos:negative")
		x.oor = true
		return -1
	}
	if n <= 0 {
		return 0
	}
	return (s / 32) % n
}

// data builds the data argument of a row/column insertion from the op's string pool: the length selector picks
// n+1 (longer than the table), 0, n, or any length 0..n.
func (x *exec) data(pool []string, s, n int) []string {
	l := 0
	switch s % 10 {
	case 0:
		l = n + 1
	case 1:
		l = 0
	case 2, 3:
		l = n
	default:
		l = (s / 10) % (n + 1)
	}
	if len(pool) == 0 {
		pool = []string{""}
	}
	out := make([]string, l)
	for i := range out {
		out[i] = pool[i%len(pool)] + strings.Repeat("'", i/len(pool))
	}
	return out
}

// rng orders two resolved positions: ascending unless the op asks for an inverted range.
func (x *exec) rng(a, b int, inv bool) (int, int) {
	if (!inv && a > b) || (inv && a < b) {
		a, b = b, a
	}
	if a > b {
		x.res.Label("range:inverted")
		x.oor = true
	}
	return a, b
}

// call runs one API call: G1 (no panic), the accept/reject expectation (decision clause) and G2 (an error leaves
// the table deep-equal to pre). It returns true when the call succeeded and the success clauses are to be evaluated.
func (x *exec) call(want int, decision string, cands []cand, f func() error) bool {
	var err error
	x.res.Eval("C09.G1")
	if p, st := kit.Try(func() { err = f() }); p != nil {
		x.status = "panic"
		x.fail("C09.G1", cands, "panicked: %v [%s]", p, st)
		return false
	}
	if want != either {
		x.res.Eval(decision)
	}
	if err != nil {
		x.status = "err"
		if want == mustOK {
			x.fail(decision, cands, "was rejected (%v) although every argument is inside the table", err)
			if x.done() {
				return false
			}
		}
		if want == mustErr || x.oor {
			x.rejectedOOR++
		}
		x.res.Eval("C09.G2")
		if d := DeepEqualNorm(x.t, x.pre); d != "" {
			x.fail("C09.G2", cands, "returned the error %q but changed the table at %s", err, d)
		}
		return false
	}
	x.status = "ok"
	if want == mustErr {
		x.fail(decision, cands, "was accepted although it has to be refused: an argument lies outside the table (%d rows, %d grid columns) or the call would leave no row / no column", x.sh.R, x.sh.G)
		return false
	}
	return true
}

// checkInvariants is G3 after a successful call. A table read from a file can arrive with rows that do not span
// its grid (ragged rows); no single call can be asked to repair that, so an invariant that did not hold before the
// call is not demanded after it - every invariant that did hold must still hold (a call must not make a row ragged,
// strip a cell of its paragraphs or orphan a continuation cell on a table that was sound in that respect).
func (x *exec) checkInvariants(cands []cand) {
	x.res.Eval("C09.G3")
	counted := false
	for _, v := range invariants(x.t) {
		if x.preViol[v.clause] {
			if !counted {
				x.res.Count("G3-clause-not-demanded:violated-before-the-call", 1)
				counted = true
			}
			continue
		}
		x.fail(v.clause, cands, "%s", v.detail)
		return
	}
}

// frameSame: table properties and (unless grid is false) the grid are what they were.
func (x *exec) frameSame(clause string, cands []cand, grid bool) {
	if d := DeepEqualNorm(x.t.Properties, x.pre.Properties); d != "" {
		x.fail(clause, cands, "the table properties changed at %s", d)
		return
	}
	if grid {
		if d := DeepEqualNorm(x.t.Grid, x.pre.Grid); d != "" {
			x.fail(clause, cands, "the grid changed at %s", d)
		}
	}
}

// accessors is the G5 sweep: counts and GetCellText of every unambiguously addressed cell agree with the structure.
func (x *exec) accessors(cands []cand) {
	t := x.t
	x.res.Eval("C09.G5.count")
	if n := t.GetRowCount(); n != len(t.Rows) {
		x.fail("C09.G5.count", cands, "GetRowCount()=%d, the table has %d rows", n, len(t.Rows))
		return
	}
	sh := describe(t)
	if sh.rect {
		if n := t.GetColumnCount(); n != sh.G {
			x.fail("C09.G5.count", cands, "GetColumnCount()=%d on a rectangular table of %d grid columns", n, sh.G)
			return
		}
	}
	x.res.Eval("C09.G5.text")
	for i := range t.Rows {
		row := &t.Rows[i]
		for j := range row.Cells {
			got, err := t.GetCellText(i, j)
			if err != nil || got != cellText(&row.Cells[j]) {
				x.fail("C09.G5.text", cands, "GetCellText(%d,%d)=%q,%v; the cell holds %q", i, j, got, err, cellText(&row.Cells[j]))
				return
			}
			if span(&row.Cells[j]) != 1 {
				break // right of a spanned cell physical index and grid column differ: the address is ambiguous
			}
		}
	}
	for _, rc := range [][2]int{{len(t.Rows), 0}, {-1, 0}, {0, sh.G}, {0, -1}} {
		if _, err := t.GetCellText(rc[0], rc[1]); err == nil {
			x.fail("C09.G5.text", cands, "GetCellText(%d,%d) succeeded on a table of %d rows and %d grid columns", rc[0], rc[1], len(t.Rows), sh.G)
			return
		}
	}
}

// addr classifies a cell address against pre. want: mustErr when it is outside under every reading (row outside,
// column negative or >= grid width), mustOK when it is inside under the physical and the grid reading, else either.
// known: physical index and grid column name the same cell (no spanned cell to its left).
func (x *exec) addr(r, c int) (want int, known bool) {
	sh := x.sh
	if r < 0 || r >= sh.R || c < 0 || c >= sh.G {
		return mustErr, false
	}
	if c < sh.phys[r] {
		return mustOK, noSpanBefore(&x.pre.Rows[r], c)
	}
	return either, false
}

// onlyCellChanged is the isolation clause of cell-level ops: no row or cell was added or removed, the frame is
// untouched and no cell other than the addressed one differs from pre. It returns the addressed (or, when the
// address is ambiguous, the single changed) cell before and after.
func (x *exec) onlyCellChanged(r, c int, known bool) (p, q *document.TableCell) {
	const cl = "C09.G4.cell"
	x.res.Eval(cl)
	t, pre := x.t, x.pre
	if len(t.Rows) != len(pre.Rows) {
		x.fail(cl, nil, "a cell-level call changed the number of rows %d -> %d", len(pre.Rows), len(t.Rows))
		return
	}
	x.frameSame(cl, nil, true)
	if x.done() {
		return
	}
	type rc struct{ i, j int }
	var changed []rc
	for i := range t.Rows {
		if d := DeepEqualNorm(t.Rows[i].Properties, pre.Rows[i].Properties); d != "" {
			x.fail(cl, nil, "the properties of row %d changed at %s", i, d)
			return
		}
		if len(t.Rows[i].Cells) != len(pre.Rows[i].Cells) {
			x.fail(cl, nil, "a cell-level call changed the number of cells of row %d: %d -> %d", i, len(pre.Rows[i].Cells), len(t.Rows[i].Cells))
			return
		}
		for j := range t.Rows[i].Cells {
			if known && i == r && j == c {
				continue
			}
			if d := DeepEqualNorm(&t.Rows[i].Cells[j], &pre.Rows[i].Cells[j]); d != "" {
				if known {
					x.fail(cl, nil, "cell (%d,%d), which is not the addressed cell (%d,%d), changed at %s", i, j, r, c, d)
					return
				}
				changed = append(changed, rc{i, j})
			}
		}
	}
	if known {
		return &pre.Rows[r].Cells[c], &t.Rows[r].Cells[c]
	}
	if len(changed) > 1 {
		x.fail(cl, nil, "%d cells changed (%v) in a call that addresses one cell", len(changed), changed)
		return
	}
	if len(changed) == 1 {
		if changed[0].i != r {
			x.fail(cl, nil, "cell %v changed, the call addressed row %d", changed[0], r)
			return
		}
		return &pre.Rows[changed[0].i].Cells[changed[0].j], &t.Rows[changed[0].i].Cells[changed[0].j]
	}
	return nil, nil
}

// cellOp is the common path of the calls that address one cell.
func (x *exec) cellOp(r, c int, argErr bool, f func() error, check func(p, q *document.TableCell)) {
	want, known := x.addr(r, c)
	if argErr {
		want = mustErr
	}
	if !x.call(want, "C09.G4.decision", nil, f) {
		return
	}
	x.checkInvariants(nil)
	if x.done() {
		return
	}
	x.accessors(nil)
	if x.done() {
		return
	}
	p, q := x.onlyCellChanged(r, c, known)
	if x.done() || p == nil || check == nil {
		return
	}
	x.res.Eval("C09.G4.content")
	check(p, q)
}

// withRoles returns a copy of row pre in which every cell that continues a vertical merge carries the
// vertical-merge marker of the corresponding cell of post.
func withRoles(pre, post *document.TableRow) *document.TableRow {
	out := DeepCopy(pre)
	for j := range out.Cells {
		if vm(&out.Cells[j]) == "continue" && j < len(post.Cells) && out.Cells[j].Properties != nil {
			out.Cells[j].Properties.VMerge = nil
			if post.Cells[j].Properties != nil {
				out.Cells[j].Properties.VMerge = DeepCopy(post.Cells[j].Properties.VMerge)
			}
		}
	}
	return out
}

func hasContinue(row *document.TableRow) bool {
	for j := range row.Cells {
		if vm(&row.Cells[j]) == "continue" {
			return true
		}
	}
	return false
}

// subseq reports whether a is a subsequence of b with at most extra additional elements in b.
func subseq(a, b []string, extra int) bool {
	if len(b)-len(a) > extra || len(b) < len(a) {
		return false
	}
	i := 0
	for _, s := range b {
		if i < len(a) && a[i] == s {
			i++
		}
	}
	return i == len(a)
}

func sigs(row *document.TableRow) []string {
	out := make([]string, len(row.Cells))
	for j := range row.Cells {
		out[j] = sig(&row.Cells[j])
	}
	return out
}

// ---------------------------------------------------------------------------------------------------------
// structural ops

func (x *exec) insertRow(pos int, data []string, app bool) {
	sh, t, pre := x.sh, x.t, x.pre
	want := either
	switch {
	case pos < 0 || pos > sh.R:
		want = mustErr
	case len(data) <= sh.phys[0]:
		want = mustOK
	default:
		x.res.Label("data:longer-than-table")
	}
	var cands []cand
	if !sh.plain[0] {
		cands = append(cands, cand{kfInsRow, []string{"C09.G3.span"}})
	}
	if pos >= 0 && pos < sh.R && hasContinue(&pre.Rows[pos]) {
		cands = append(cands, cand{kfRowVM, []string{"C09.G3.vmerge"}})
	}
	if !x.call(want, "C09.G4.decision", cands, func() error {
		if app {
			return t.AppendRow(data)
		}
		return t.InsertRow(pos, data)
	}) {
		return
	}
	x.structOK++
	x.checkInvariants(cands)
	if x.done() {
		return
	}
	x.accessors(cands)
	if x.done() {
		return
	}
	x.res.Eval("C09.G4.rows")
	if len(t.Rows) != sh.R+1 {
		x.fail("C09.G4.rows", cands, "the table has %d rows after inserting one into %d", len(t.Rows), sh.R)
		return
	}
	for i := 0; i < sh.R; i++ {
		j := i
		if i >= pos {
			j = i + 1
		}
		if d := DeepEqualNorm(&t.Rows[j], &pre.Rows[i]); d != "" {
			x.fail("C09.G4.rows", cands, "row %d (now row %d) was not the target of the call but changed at %s", i, j, d)
			return
		}
	}
	x.frameSame("C09.G4.rows", cands, true)
	if x.done() {
		return
	}
	if x.preViol["C09.G3.span"] {
		// G3 is not demanded of the rows that were ragged before the call; the row this call made must span the grid
		x.res.Eval("C09.G3.span")
		sum := 0
		for j := range t.Rows[pos].Cells {
			sum += span(&t.Rows[pos].Cells[j])
		}
		if sum != sh.G {
			x.fail("C09.G3.span", cands, "the new row %d spans %d grid columns (%d physical cells), the grid declares %d", pos, sum, len(t.Rows[pos].Cells), sh.G)
			return
		}
	}
	if pos < sh.R && hasContinue(&pre.Rows[pos]) {
		// the new row lies inside a vertical merge: its cells may have to join the merge (span, role, no text);
		// the statement fixes the invariants (checked above), not which of the given data survive
		x.res.Label("insert-inside-vertical-merge")
		return
	}
	if sh.plain[0] {
		x.res.Eval("C09.G4.newrow")
		nr := &t.Rows[pos]
		if len(nr.Cells) != sh.G {
			x.fail("C09.G4.newrow", cands, "the new row has %d cells, the table has %d columns", len(nr.Cells), sh.G)
			return
		}
		for j := range nr.Cells {
			w := ""
			if j < len(data) {
				w = data[j]
			}
			if got := cellText(&nr.Cells[j]); got != w {
				x.fail("C09.G4.newrow", cands, "new cell (%d,%d) holds %q, the call gave %q", pos, j, got, w)
				return
			}
		}
	}
}

func (x *exec) deleteRows(s, e int, single bool) {
	sh, t, pre := x.sh, x.t, x.pre
	want := mustOK
	if s < 0 || e >= sh.R || s > e || sh.R-(e-s+1) < 1 {
		want = mustErr
	}
	var cands []cand
	if want == mustOK && e+1 < sh.R && hasContinue(&pre.Rows[e+1]) {
		cands = append(cands, cand{kfRowVM, []string{"C09.G3.vmerge"}})
	}
	if !x.call(want, "C09.G4.decision", cands, func() error {
		if single {
			return t.DeleteRow(s)
		}
		return t.DeleteRows(s, e)
	}) {
		return
	}
	x.structOK++
	if s > 0 && e+1 < sh.R && hasContinue(&pre.Rows[e+1]) {
		for j := range pre.Rows[s-1].Cells {
			if vm(&pre.Rows[s-1].Cells[j]) != "" {
				x.res.Label("delrows:continuation-row-moves-under-a-row-with-a-merged-cell")
				break
			}
		}
	}
	x.checkInvariants(cands)
	if x.done() {
		return
	}
	x.accessors(cands)
	if x.done() {
		return
	}
	x.res.Eval("C09.G4.rows")
	k := e - s + 1
	if len(t.Rows) != sh.R-k {
		x.fail("C09.G4.rows", cands, "the table has %d rows after deleting %d of %d", len(t.Rows), k, sh.R)
		return
	}
	for i := 0; i < sh.R; i++ {
		if i >= s && i <= e {
			continue
		}
		j := i
		if i > e {
			j = i - k
		}
		was := &pre.Rows[i]
		if i == e+1 && hasContinue(was) {
			// the deletion cut a vertical merge: the continuation cells of the first surviving row may take another
			// vertical-merge role (G3 says which are valid); everything else of the row stays
			was = withRoles(was, &t.Rows[j])
		}
		if d := DeepEqualNorm(&t.Rows[j], was); d != "" {
			x.fail("C09.G4.rows", cands, "row %d (now row %d) was not deleted but changed at %s", i, j, d)
			return
		}
	}
	x.frameSame("C09.G4.rows", cands, true)
}

func (x *exec) insertColumn(pos int, data []string, width int, app bool) {
	sh, t, pre := x.sh, x.t, x.pre
	want := either
	var cands []cand
	if sh.rect {
		switch {
		case pos < 0 || pos > sh.G:
			want = mustErr
		case len(data) <= sh.R:
			want = mustOK
		default:
			x.res.Label("data:longer-than-table")
		}
	} else {
		if pos < 0 || pos > sh.G {
			want = mustErr
		}
		cands = append(cands, cand{kfColStruct, []string{"C09.G3.vmerge"}})
	}
	if app {
		for i := range sh.phys {
			if sh.phys[i] > sh.phys[0] { // AppendColumn and a row longer than row 0
				cands = append(cands, cand{kfAppColRow0, []string{"C09.G4.cols"}})
				break
			}
		}
	}
	if !x.call(want, "C09.G4.decision", cands, func() error {
		if app {
			return t.AppendColumn(data, width)
		}
		return t.InsertColumn(pos, data, width)
	}) {
		return
	}
	x.structOK++
	x.checkInvariants(cands)
	if x.done() {
		return
	}
	x.accessors(cands)
	if x.done() {
		return
	}
	x.res.Eval("C09.G4.cols")
	const cl = "C09.G4.cols"
	if d := DeepEqualNorm(t.Properties, pre.Properties); d != "" {
		x.fail(cl, cands, "the table properties changed at %s", d)
		return
	}
	if len(t.Rows) != sh.R {
		x.fail(cl, cands, "the number of rows changed %d -> %d", sh.R, len(t.Rows))
		return
	}
	if len(t.Grid.Cols) != sh.G+1 {
		x.fail(cl, cands, "the grid declares %d columns after inserting one into %d", len(t.Grid.Cols), sh.G)
		return
	}
	keptInOrder := func(i int) bool {
		if !subseq(sigs(&pre.Rows[i]), sigs(&t.Rows[i]), 1) {
			x.fail(cl, cands, "row %d: the pre-existing cells %v are not kept in order in %v", i, sigs(&pre.Rows[i]), sigs(&t.Rows[i]))
			return false
		}
		return true
	}
	if !sh.rect && !sh.nospan {
		for i := range t.Rows {
			if !keptInOrder(i) {
				return
			}
		}
		return
	}
	// no cell spans more than one grid column: a column index names the same cell under every reading, the plain
	// rows-by-columns model applies to every row that reaches the position (on ragged rows too)
	if !sh.rect {
		x.res.Label("ragged:column-edit-judged-by-the-plain-model")
	}
	for g := 0; g < sh.G && sh.rect; g++ { // on ragged rows the grid is not what the rows span: which grid column is the new one is left open
		j := g
		if g >= pos {
			j = g + 1
		}
		if d := DeepEqualNorm(&t.Grid.Cols[j], &pre.Grid.Cols[g]); d != "" {
			x.fail(cl, cands, "grid column %d (now %d) changed at %s", g, j, d)
			return
		}
	}
	for i := range t.Rows {
		if d := DeepEqualNorm(t.Rows[i].Properties, pre.Rows[i].Properties); d != "" {
			x.fail(cl, cands, "the properties of row %d changed at %s", i, d)
			return
		}
		n := sh.phys[i]
		if pos > n { // the row does not reach the position: the model does not say where (or whether) it gets a cell
			if !keptInOrder(i) {
				return
			}
			continue
		}
		if len(t.Rows[i].Cells) != n+1 {
			x.fail(cl, cands, "row %d has %d cells after inserting a column into %d", i, len(t.Rows[i].Cells), n)
			return
		}
		for g := 0; g < n; g++ {
			j := g
			if g >= pos {
				j = g + 1
			}
			if d := DeepEqualNorm(&t.Rows[i].Cells[j], &pre.Rows[i].Cells[g]); d != "" {
				x.fail(cl, cands, "cell (%d,%d) (now column %d) was not the target of the call but changed at %s", i, g, j, d)
				return
			}
		}
		w := ""
		if i < len(data) {
			w = data[i]
		}
		if got := cellText(&t.Rows[i].Cells[pos]); got != w {
			x.fail(cl, cands, "new cell (%d,%d) holds %q, the call gave %q", i, pos, got, w)
			return
		}
	}
}

func (x *exec) deleteColumns(s, e int, single bool) {
	sh, t, pre := x.sh, x.t, x.pre
	want := mustOK
	if s < 0 || e >= sh.G || s > e || sh.G-(e-s+1) < 1 {
		want = mustErr
	}
	var cands []cand
	if !sh.rect {
		if want == mustOK {
			want = either
		}
		cands = append(cands, cand{kfColStruct, []string{"C09.G3.span", "C09.G3.nonempty", "C09.G3.vmerge"}})
	}
	if want != mustErr {
		for i := range sh.phys {
			if sh.phys[i] <= e-s+1 { // the call deletes as many cells as this row has
				cands = append(cands, cand{kfDelColEmpty, []string{"C09.G3.nonempty"}})
				break
			}
		}
	}
	if !x.call(want, "C09.G4.decision", cands, func() error {
		if single {
			return t.DeleteColumn(s)
		}
		return t.DeleteColumns(s, e)
	}) {
		return
	}
	x.structOK++
	x.checkInvariants(cands)
	if x.done() {
		return
	}
	x.accessors(cands)
	if x.done() {
		return
	}
	x.res.Eval("C09.G4.cols")
	const cl = "C09.G4.cols"
	k := e - s + 1
	if d := DeepEqualNorm(t.Properties, pre.Properties); d != "" {
		x.fail(cl, cands, "the table properties changed at %s", d)
		return
	}
	if len(t.Rows) != sh.R {
		x.fail(cl, cands, "the number of rows changed %d -> %d", sh.R, len(t.Rows))
		return
	}
	if len(t.Grid.Cols) != sh.G-k {
		x.fail(cl, cands, "the grid declares %d columns after deleting %d of %d", len(t.Grid.Cols), k, sh.G)
		return
	}
	remainInOrder := func(i int) bool {
		if !subseq(sigs(&t.Rows[i]), sigs(&pre.Rows[i]), k) {
			x.fail(cl, cands, "row %d: the remaining cells %v are not the pre-existing cells %v in order", i, sigs(&t.Rows[i]), sigs(&pre.Rows[i]))
			return false
		}
		return true
	}
	if !sh.rect && !sh.nospan {
		for i := range t.Rows {
			if !remainInOrder(i) {
				return
			}
		}
		return
	}
	// no cell spans more than one grid column: the plain model applies to every row that holds the whole range
	if !sh.rect {
		x.res.Label("ragged:column-edit-judged-by-the-plain-model")
	}
	for g := 0; g < sh.G && sh.rect; g++ {
		if g >= s && g <= e {
			continue
		}
		j := g
		if g > e {
			j = g - k
		}
		if d := DeepEqualNorm(&t.Grid.Cols[j], &pre.Grid.Cols[g]); d != "" {
			x.fail(cl, cands, "grid column %d (now %d) changed at %s", g, j, d)
			return
		}
	}
	for i := range t.Rows {
		if d := DeepEqualNorm(t.Rows[i].Properties, pre.Rows[i].Properties); d != "" {
			x.fail(cl, cands, "the properties of row %d changed at %s", i, d)
			return
		}
		n := sh.phys[i]
		if e >= n { // the row does not hold the whole range: the model does not say which of its cells go
			if !remainInOrder(i) {
				return
			}
			continue
		}
		if len(t.Rows[i].Cells) != n-k {
			x.fail(cl, cands, "row %d has %d cells after deleting %d columns of %d", i, len(t.Rows[i].Cells), k, n)
			return
		}
		for g := 0; g < n; g++ {
			if g >= s && g <= e {
				continue
			}
			j := g
			if g > e {
				j = g - k
			}
			if d := DeepEqualNorm(&t.Rows[i].Cells[j], &pre.Rows[i].Cells[g]); d != "" {
				x.fail(cl, cands, "cell (%d,%d) (now column %d) was not deleted but changed at %s", i, g, j, d)
				return
			}
		}
	}
}

// ---------------------------------------------------------------------------------------------------------
// merges

// mergedInRange: some physical cell a..b of the row is already part of a merge.
func mergedInRange(row *document.TableRow, a, b int) bool {
	for j := a; j <= b && j < len(row.Cells); j++ {
		if j < 0 {
			continue
		}
		if span(&row.Cells[j]) != 1 || vm(&row.Cells[j]) != "" {
			return true
		}
	}
	return false
}

func (x *exec) rowsSameExcept(clause string, cands []cand, lo, hi int) {
	t, pre := x.t, x.pre
	if len(t.Rows) != len(pre.Rows) {
		x.fail(clause, cands, "the number of rows changed %d -> %d", len(pre.Rows), len(t.Rows))
		return
	}
	for i := range t.Rows {
		if i >= lo && i <= hi {
			continue
		}
		if d := DeepEqualNorm(&t.Rows[i], &pre.Rows[i]); d != "" {
			x.fail(clause, cands, "row %d is outside the merged range but changed at %s", i, d)
			return
		}
	}
	x.frameSame(clause, cands, true)
}

func (x *exec) mergeH(r, a, b int) {
	sh, t, pre := x.sh, x.t, x.pre
	want := either
	exact := false
	var cands []cand
	switch {
	case r < 0 || r >= sh.R || a < 0 || a > b || b >= sh.G:
		want = mustErr
	case a == b:
		x.res.Label("range:single-cell")
	default:
		if mergedInRange(&pre.Rows[r], a, b) {
			cands = append(cands, cand{kfMergeOver, []string{"C09.G3.span", "C09.G3.vmerge"}})
		} else if sh.plain[r] {
			want, exact = mustOK, true
		}
	}
	if !x.call(want, "C09.G4.decision", cands, func() error { return t.MergeCellsHorizontal(r, a, b) }) {
		return
	}
	x.mergeOK++
	x.checkInvariants(cands)
	if x.done() {
		return
	}
	x.accessors(cands)
	if x.done() {
		return
	}
	const cl = "C09.G4.merge"
	x.res.Eval(cl)
	x.rowsSameExcept(cl, cands, r, r)
	if x.done() {
		return
	}
	row, prow := &t.Rows[r], &pre.Rows[r]
	if d := DeepEqualNorm(row.Properties, prow.Properties); d != "" {
		x.fail(cl, cands, "the properties of row %d changed at %s", r, d)
		return
	}
	if !exact {
		return
	}
	if len(row.Cells) != sh.G-(b-a) {
		x.fail(cl, cands, "row %d has %d cells after merging columns %d..%d of %d", r, len(row.Cells), a, b, sh.G)
		return
	}
	for j := 0; j < a; j++ {
		if d := DeepEqualNorm(&row.Cells[j], &prow.Cells[j]); d != "" {
			x.fail(cl, cands, "cell (%d,%d) is left of the merged range but changed at %s", r, j, d)
			return
		}
	}
	for j := b + 1; j < sh.G; j++ {
		if d := DeepEqualNorm(&row.Cells[j-(b-a)], &prow.Cells[j]); d != "" {
			x.fail(cl, cands, "cell (%d,%d) is right of the merged range but changed at %s", r, j, d)
			return
		}
	}
	if sp := span(&row.Cells[a]); sp != b-a+1 {
		x.fail(cl, cands, "the merged cell (%d,%d) spans %d grid columns, the call merged %d", r, a, sp, b-a+1)
	}
}

// vlayout: (grid start, span) of physical cell c in every row a..b, "" when they all agree.
func vlayout(t *document.Table, a, b, c int) string {
	first := ""
	for i := a; i <= b && i < len(t.Rows); i++ {
		if i < 0 {
			continue
		}
		cur := "absent"
		if c >= 0 && c < len(t.Rows[i].Cells) {
			cur = fmt.Sprintf("%d+%d", gridStart(&t.Rows[i], c), span(&t.Rows[i].Cells[c]))
		}
		if first == "" {
			first = cur
		} else if cur != first {
			return fmt.Sprintf("row %d: %s, row %d: %s", a, first, i, cur)
		}
	}
	return ""
}

func (x *exec) mergeV(a, b, c int) {
	sh, t, pre := x.sh, x.t, x.pre
	want := either
	exact := false
	var cands []cand
	switch {
	case a < 0 || b >= sh.R || a > b || c < 0 || c >= sh.G:
		want = mustErr
	case a == b:
		x.res.Label("range:single-cell")
	default:
		allPlain := true
		for i := a; i <= b; i++ {
			allPlain = allPlain && sh.plain[i]
		}
		if allPlain {
			want, exact = mustOK, true
		}
		if vlayout(pre, a, b, c) != "" {
			cands = append(cands, cand{kfMergeVPhys, []string{"C09.G3.vmerge"}})
		}
	}
	if !x.call(want, "C09.G4.decision", cands, func() error { return t.MergeCellsVertical(a, b, c) }) {
		return
	}
	x.mergeOK++
	x.checkInvariants(cands)
	if x.done() {
		return
	}
	x.accessors(cands)
	if x.done() {
		return
	}
	const cl = "C09.G4.merge"
	x.res.Eval(cl)
	x.rowsSameExcept(cl, cands, a, b)
	if x.done() {
		return
	}
	for i := a; i <= b; i++ {
		row, prow := &t.Rows[i], &pre.Rows[i]
		if len(row.Cells) != len(prow.Cells) {
			x.fail(cl, cands, "a vertical merge changed the number of cells of row %d: %d -> %d", i, len(prow.Cells), len(row.Cells))
			return
		}
		if !exact {
			continue
		}
		for j := range row.Cells {
			if j == c {
				continue
			}
			if d := DeepEqualNorm(&row.Cells[j], &prow.Cells[j]); d != "" {
				x.fail(cl, cands, "cell (%d,%d) is not in the merged column %d but changed at %s", i, j, c, d)
				return
			}
		}
		w := "continue"
		if i == a {
			w = "restart"
		}
		if got := vm(&row.Cells[c]); got != w {
			x.fail(cl, cands, "cell (%d,%d) has the vertical-merge role %q after merging rows %d..%d, expected %q", i, c, got, a, b, w)
			return
		}
	}
}

// rlayout: (grid start of physical cell ca, grid columns covered by physical cells ca..cb) in every row ra..rb,
// "" when they all agree (the vertical part of a range merge then pairs cells of one grid column and one span).
func rlayout(t *document.Table, ra, rb, ca, cb int) string {
	first := ""
	for i := ra; i <= rb && i < len(t.Rows); i++ {
		if i < 0 {
			continue
		}
		row := &t.Rows[i]
		cur := "absent"
		if ca >= 0 && cb < len(row.Cells) {
			w := 0
			for j := ca; j <= cb; j++ {
				w += span(&row.Cells[j])
			}
			cur = fmt.Sprintf("%d+%d", gridStart(row, ca), w)
		}
		if first == "" {
			first = cur
		} else if cur != first {
			return fmt.Sprintf("row %d: %s, row %d: %s", ra, first, i, cur)
		}
	}
	return ""
}

func (x *exec) mergeRange(ra, rb, ca, cb int) {
	sh, t, pre := x.sh, x.t, x.pre
	want := either
	exact := false
	var cands []cand
	switch {
	case ra >= 0 && ra == rb && ca == cb:
		x.res.Label("range:single-cell") // degenerate: refusing or doing nothing are both fine
	case ra < 0 || rb >= sh.R || ra > rb || ca < 0 || ca > cb || cb >= sh.G:
		want = mustErr
	default:
		allPlain, over := true, false
		for i := ra; i <= rb; i++ {
			allPlain = allPlain && sh.plain[i]
			over = over || mergedInRange(&pre.Rows[i], ca, cb)
		}
		if !allPlain {
			cands = append(cands, cand{kfRangeAtomic, []string{"C09.G2"}})
		}
		if rlayout(pre, ra, rb, ca, cb) != "" {
			cands = append(cands, cand{kfMergeVPhys, []string{"C09.G3.vmerge"}})
		}
		if over {
			cands = append(cands, cand{kfMergeOver, []string{"C09.G3.span", "C09.G3.vmerge"}})
		}
		if allPlain && !over {
			want, exact = mustOK, true
		}
	}
	if !x.call(want, "C09.G4.decision", cands, func() error { return t.MergeCellsRange(ra, rb, ca, cb) }) {
		return
	}
	x.mergeOK++
	x.checkInvariants(cands)
	if x.done() {
		return
	}
	x.accessors(cands)
	if x.done() {
		return
	}
	const cl = "C09.G4.merge"
	x.res.Eval(cl)
	x.rowsSameExcept(cl, cands, ra, rb)
	if x.done() || !exact {
		return
	}
	k := cb - ca
	for i := ra; i <= rb; i++ {
		row, prow := &t.Rows[i], &pre.Rows[i]
		if len(row.Cells) != sh.G-k {
			x.fail(cl, cands, "row %d has %d cells after merging columns %d..%d of %d", i, len(row.Cells), ca, cb, sh.G)
			return
		}
		for j := 0; j < ca; j++ {
			if d := DeepEqualNorm(&row.Cells[j], &prow.Cells[j]); d != "" {
				x.fail(cl, cands, "cell (%d,%d) is left of the merged range but changed at %s", i, j, d)
				return
			}
		}
		for j := cb + 1; j < sh.G; j++ {
			if d := DeepEqualNorm(&row.Cells[j-k], &prow.Cells[j]); d != "" {
				x.fail(cl, cands, "cell (%d,%d) is right of the merged range but changed at %s", i, j, d)
				return
			}
		}
		if sp := span(&row.Cells[ca]); sp != k+1 {
			x.fail(cl, cands, "the merged cell (%d,%d) spans %d grid columns, the call merged %d", i, ca, sp, k+1)
			return
		}
		w := ""
		if ra < rb {
			w = "continue"
			if i == ra {
				w = "restart"
			}
		}
		if got := vm(&row.Cells[ca]); got != w {
			x.fail(cl, cands, "cell (%d,%d) has the vertical-merge role %q after merging rows %d..%d, expected %q", i, ca, got, ra, rb, w)
			return
		}
	}
}

func (x *exec) unmerge(r, c int) {
	sh, t, pre := x.sh, x.t, x.pre
	want, known := x.addr(r, c)
	var cands []cand
	var pc *document.TableCell
	if want == mustOK {
		pc = &pre.Rows[r].Cells[c]
		if !(known && (span(pc) != 1 || vm(pc) != "")) {
			want = either // not merged (or ambiguous address): refusing and doing nothing are both fine
		}
		if vm(pc) != "" && vlayout(pre, r, sh.R-1, c) != "" {
			cands = append(cands, cand{kfMergeVPhys, []string{"C09.G3.vmerge", "C09.G4.unmerge"}})
		}
	}
	if !x.call(want, "C09.G4.decision", cands, func() error { return t.UnmergeCells(r, c) }) {
		return
	}
	x.checkInvariants(cands)
	if x.done() {
		return
	}
	x.accessors(cands)
	if x.done() {
		return
	}
	const cl = "C09.G4.unmerge"
	x.res.Eval(cl)
	if len(t.Rows) != sh.R {
		x.fail(cl, cands, "the number of rows changed %d -> %d", sh.R, len(t.Rows))
		return
	}
	x.frameSame(cl, cands, true)
	if x.done() || !known || pc == nil {
		return
	}
	sp, v := span(pc), vm(pc)
	gs := gridStart(&pre.Rows[r], c)
	chain := v != ""
	for i := range t.Rows {
		row, prow := &t.Rows[i], &pre.Rows[i]
		if d := DeepEqualNorm(row.Properties, prow.Properties); d != "" {
			x.fail(cl, cands, "the properties of row %d changed at %s", i, d)
			return
		}
		if i == r {
			if len(row.Cells) != len(prow.Cells)+sp-1 {
				x.fail(cl, cands, "row %d has %d cells after unmerging a cell of span %d in a row of %d cells", r, len(row.Cells), sp, len(prow.Cells))
				return
			}
			for j := range prow.Cells {
				k := j
				if j > c {
					k = j + sp - 1
				}
				if j == c {
					continue
				}
				if d := DeepEqualNorm(&row.Cells[k], &prow.Cells[j]); d != "" {
					x.fail(cl, cands, "cell (%d,%d) is not part of the unmerged cell but changed at %s", r, j, d)
					return
				}
			}
			if span(&row.Cells[c]) != 1 || vm(&row.Cells[c]) != "" {
				x.fail(cl, cands, "cell (%d,%d) still has span %d / vertical-merge role %q after UnmergeCells succeeded", r, c, span(&row.Cells[c]), vm(&row.Cells[c]))
				return
			}
			continue
		}
		if len(row.Cells) != len(prow.Cells) {
			x.fail(cl, cands, "the number of cells of row %d changed %d -> %d", i, len(prow.Cells), len(row.Cells))
			return
		}
		if i < r {
			if d := DeepEqualNorm(row, prow); d != "" {
				x.fail(cl, cands, "row %d lies above the unmerged cell but changed at %s", i, d)
				return
			}
			continue
		}
		// rows below: only the continuation cells of the same vertical merge may change (lose their role)
		part := -1
		if chain {
			for j := range prow.Cells {
				if gridStart(prow, j) == gs && span(&prow.Cells[j]) == sp && vm(&prow.Cells[j]) == "continue" {
					part = j
				}
			}
			if part < 0 {
				chain = false
			}
		}
		for j := range row.Cells {
			d := DeepEqualNorm(&row.Cells[j], &prow.Cells[j])
			if d == "" {
				continue
			}
			if j != part {
				x.fail(cl, cands, "cell (%d,%d) is not part of the unmerged region but changed at %s", i, j, d)
				return
			}
			if cellText(&row.Cells[j]) != cellText(&prow.Cells[j]) || span(&row.Cells[j]) != sp {
				x.fail(cl, cands, "continuation cell (%d,%d) changed more than its vertical-merge role (%s)", i, j, d)
				return
			}
		}
	}
}

// ---------------------------------------------------------------------------------------------------------
// CopyTable (G6)

func (x *exec) copyTable(mode int) {
	t, pre := x.t, x.pre
	x.copies++
	cands := []cand{{kfCopy, []string{"C09.G6.equal", "C09.G6.shared", "C09.G6.indep"}}}
	var cp *document.Table
	x.res.Eval("C09.G1")
	if p, st := kit.Try(func() { cp = t.CopyTable() }); p != nil {
		x.fail("C09.G1", nil, "CopyTable panicked: %v [%s]", p, st)
		return
	}
	x.status = "ok"
	x.res.Eval("C09.G6.pure")
	if d := DeepEqualNorm(t, pre); d != "" {
		x.fail("C09.G6.pure", nil, "CopyTable changed its receiver at %s", d)
		return
	}
	if cp == nil {
		x.fail("C09.G6.equal", nil, "CopyTable returned nil")
		return
	}
	x.res.Eval("C09.G6.equal")
	if d := DeepEqualNorm(cp, t); d != "" {
		x.fail("C09.G6.equal", cands, "the copy differs from the original at %s", d)
	}
	if !x.stop {
		x.res.Eval("C09.G6.shared")
		if sh := SharedPointers(t, cp); len(sh) > 0 {
			n := len(sh)
			if n > 6 {
				sh = sh[:6]
			}
			x.fail("C09.G6.shared", cands, "the copy shares %d pieces of storage with the original, e.g. %v", n, sh)
		}
	}
	if !x.stop {
		x.res.Eval("C09.G6.indep")
		probe := cp
		if mode == 1 {
			probe = t.CopyTable() // cp itself stays intact, it becomes the table under test
		}
		if p, _ := kit.Try(func() { MutateAll(probe) }); p != nil {
			x.fail("C09.G6.indep", nil, "harness: mutating the copy panicked: %v", p)
			return
		}
		if d := DeepEqualNorm(t, pre); d != "" {
			x.fail("C09.G6.indep", cands, "changing every field of the copy changed the original at %s", d)
		}
	}
	if x.done() {
		return
	}
	if mode == 1 {
		// the history continues on the copy; the original must stay what it was
		x.frozen, x.frozenSnap = t, pre
		x.t = cp
		x.res.Label("copy:continued-on-copy")
	}
}

func (x *exec) checkFrozen() {
	if x.frozen == nil {
		return
	}
	x.res.Eval("C09.G6.later")
	if d := DeepEqualNorm(x.frozen, x.frozenSnap); d != "" {
		x.fail("C09.G6.later", nil, "a call on the copy changed the original at %s", d)
	}
}

package c09

// Read-only observers of a document.Table value and the grid invariants of the property statement.
// They read the exported fields only; no accessor of the library is used to judge the library.

import (
	"fmt"
	"strconv"
	"strings"

	"github.com/zerx-lab/wordZero/pkg/document"
)

// span is the number of grid columns a physical cell covers (w:gridSpan, default 1; 0 = unreadable).
func span(c *document.TableCell) int {
	if c.Properties == nil || c.Properties.GridSpan == nil || c.Properties.GridSpan.Val == "" {
		return 1
	}
	n, err := strconv.Atoi(strings.TrimSpace(c.Properties.GridSpan.Val))
	if err != nil || n < 1 {
		return 0
	}
	return n
}

// vm is the vertical-merge role of a cell: "", "restart" or "continue" (an empty w:vMerge means continue).
func vm(c *document.TableCell) string {
	if c.Properties == nil || c.Properties.VMerge == nil {
		return ""
	}
	switch c.Properties.VMerge.Val {
	case "restart":
		return "restart"
	case "continue", "":
		return "continue"
	}
	return "?" + c.Properties.VMerge.Val
}

func paraText(p *document.Paragraph) string {
	var b strings.Builder
	for i := range p.Runs {
		b.WriteString(p.Runs[i].Text.Content)
	}
	return b.String()
}

// cellText is the text of a cell as the API documents it: all runs of all paragraphs, paragraphs joined by "\n".
func cellText(c *document.TableCell) string {
	parts := make([]string, len(c.Paragraphs))
	for i := range c.Paragraphs {
		parts[i] = paraText(&c.Paragraphs[i])
	}
	return strings.Join(parts, "\n")
}

// simple reports whether the cell holds one paragraph with at most one run (where "the text of the cell" is unambiguous).
func simple(c *document.TableCell) bool {
	return len(c.Paragraphs) == 1 && len(c.Paragraphs[0].Runs) <= 1
}

// sig is a content signature of a cell that ignores its width and span (used for the weak per-row sequence rule).
func sig(c *document.TableCell) string {
	return fmt.Sprintf("%q/%dp/%dt/%s", cellText(c), len(c.Paragraphs), len(c.Tables), vm(c))
}

// shape is what the interpreter needs to know about the state before an op.
type shape struct {
	R, G    int
	phys    []int  // physical cells per row
	plain   []bool // the row has exactly G cells, all of span 1
	rect    bool   // every row plain
	nospan  bool   // every cell has span 1: physical index = grid column in every row (rows may still be ragged)
	merged  bool   // some cell has span > 1 or a vertical-merge role
	maxSpan int    // the widest cell
}

func describe(t *document.Table) shape {
	s := shape{R: len(t.Rows), rect: true, nospan: true}
	if t.Grid != nil {
		s.G = len(t.Grid.Cols)
	}
	for i := range t.Rows {
		cells := t.Rows[i].Cells
		s.phys = append(s.phys, len(cells))
		pl := len(cells) == s.G
		for j := range cells {
			if sp := span(&cells[j]); sp > s.maxSpan {
				s.maxSpan = sp
			}
			if span(&cells[j]) != 1 {
				pl = false
				s.merged = true
				s.nospan = false
			}
			if vm(&cells[j]) != "" {
				s.merged = true
			}
		}
		s.plain = append(s.plain, pl)
		if !pl {
			s.rect = false
		}
	}
	if t.Grid == nil {
		s.rect = false
	}
	return s
}

// gridStart returns the grid column at which physical cell j of the row starts.
func gridStart(row *document.TableRow, j int) int {
	g := 0
	for k := 0; k < j && k < len(row.Cells); k++ {
		g += span(&row.Cells[k])
	}
	return g
}

// noSpanBefore: every physical cell left of index j has span 1, i.e. physical index j and grid column j name the same cell.
func noSpanBefore(row *document.TableRow, j int) bool {
	for k := 0; k < j && k < len(row.Cells); k++ {
		if span(&row.Cells[k]) != 1 {
			return false
		}
	}
	return true
}

type viol struct{ clause, detail string }

// invariants evaluates the grid clauses of the statement on t.
func invariants(t *document.Table) []viol {
	var out []viol
	if len(t.Rows) == 0 {
		return append(out, viol{"C09.G3.nonempty", "the table has no rows"})
	}
	if t.Grid == nil {
		return append(out, viol{"C09.G3.span", "the table has no grid"})
	}
	g := len(t.Grid.Cols)
	for i := range t.Rows {
		cells := t.Rows[i].Cells
		if len(cells) == 0 {
			out = append(out, viol{"C09.G3.nonempty", fmt.Sprintf("row %d has no cells", i)})
			continue
		}
		sum := 0
		for j := range cells {
			sp := span(&cells[j])
			if sp == 0 {
				out = append(out, viol{"C09.G3.span", fmt.Sprintf("cell (%d,%d) has the unreadable gridSpan %q", i, j, cells[j].Properties.GridSpan.Val)})
			}
			sum += sp
			if len(cells[j].Paragraphs) == 0 {
				out = append(out, viol{"C09.G3.para", fmt.Sprintf("cell (%d,%d) has no paragraph", i, j)})
			}
			if r := vm(&cells[j]); strings.HasPrefix(r, "?") {
				out = append(out, viol{"C09.G3.vmerge", fmt.Sprintf("cell (%d,%d) has the vMerge value %q", i, j, r[1:])})
			}
		}
		if sum != g {
			out = append(out, viol{"C09.G3.span", fmt.Sprintf("row %d spans %d grid columns (%d physical cells), the grid declares %d", i, sum, len(cells), g)})
		}
	}
	for i := range t.Rows {
		cells := t.Rows[i].Cells
		start := 0
		for j := range cells {
			sp := span(&cells[j])
			if vm(&cells[j]) == "continue" {
				if i == 0 {
					out = append(out, viol{"C09.G3.vmerge", fmt.Sprintf("cell (0,%d) continues a vertical merge but is in the first row", j)})
				} else {
					above := &t.Rows[i-1]
					found := false
					as := 0
					for k := range above.Cells {
						if as == start {
							found = true
							if span(&above.Cells[k]) != sp {
								out = append(out, viol{"C09.G3.vmerge", fmt.Sprintf("cell (%d,%d) at grid column %d continues a vertical merge with span %d, the cell above has span %d", i, j, start, sp, span(&above.Cells[k]))})
							} else if r := vm(&above.Cells[k]); r != "restart" && r != "continue" {
								out = append(out, viol{"C09.G3.vmerge", fmt.Sprintf("cell (%d,%d) at grid column %d continues a vertical merge, the cell above (%d,%d) is not part of one", i, j, start, i-1, k)})
							}
							break
						}
						as += span(&above.Cells[k])
					}
					if !found {
						out = append(out, viol{"C09.G3.vmerge", fmt.Sprintf("cell (%d,%d) at grid column %d continues a vertical merge, no cell of row %d starts at that grid column", i, j, start, i-1)})
					}
				}
			}
			start += sp
		}
	}
	return out
}

func render(t *document.Table) string {
	var b strings.Builder
	g := -1
	if t.Grid != nil {
		g = len(t.Grid.Cols)
	}
	fmt.Fprintf(&b, "grid=%d", g)
	for i := range t.Rows {
		b.WriteString(" |")
		for j := range t.Rows[i].Cells {
			c := &t.Rows[i].Cells[j]
			fmt.Fprintf(&b, " %q", clip(cellText(c)))
			if sp := span(c); sp != 1 {
				fmt.Fprintf(&b, "*%d", sp)
			}
			switch vm(c) {
			case "restart":
				b.WriteString("^")
			case "continue":
				b.WriteString("v")
			}
		}
	}
	s := b.String()
	if len(s) > 500 {
		s = s[:500] + "…"
	}
	return s
}

package c09

// Start tables read from a file. The .docx is written here with string templates and archive/zip only (nothing
// of pkg/document), so that the table under test is whatever document.OpenFromMemory makes of a w:tbl another
// producer wrote: rows with different numbers of w:tc, w:gridSpan / w:vMerge that pre-exist, nested tables,
// cells without w:tcPr, paragraphs without runs.

import (
	"archive/zip"
	"bytes"
	"fmt"
	"io"
	"strings"

	"github.com/zerx-lab/wordZero/pkg/document"
)

const (
	nsW        = "http://schemas.openxmlformats.org/wordprocessingml/2006/main"
	openCT     = `<?xml version="1.0" encoding="UTF-8" standalone="yes"?><Types xmlns="http://schemas.openxmlformats.org/package/2006/content-types"><Default Extension="rels" ContentType="application/vnd.openxmlformats-package.relationships+xml"/><Default Extension="xml" ContentType="application/xml"/><Override PartName="/word/document.xml" ContentType="application/vnd.openxmlformats-officedocument.wordprocessingml.document.main+xml"/></Types>`
	openRels   = `<?xml version="1.0" encoding="UTF-8" standalone="yes"?><Relationships xmlns="http://schemas.openxmlformats.org/package/2006/relationships"><Relationship Id="rId1" Type="http://schemas.openxmlformats.org/officeDocument/2006/relationships/officeDocument" Target="word/document.xml"/></Relationships>`
	nestedText = "nested"
)

func xmlEsc(s string) string {
	return strings.NewReplacer("&", "&amp;", "<", "&lt;", ">", "&gt;", `"`, "&quot;").Replace(s)
}

func writePara(b *strings.Builder, text string) {
	if text == "" {
		b.WriteString(`<w:p/>`)
		return
	}
	fmt.Fprintf(b, `<w:p><w:r><w:t xml:space="preserve">%s</w:t></w:r></w:p>`, xmlEsc(text))
}

// tableXML renders the w:tbl of the description.
func (o *OpenSpec) tableXML() string {
	var b strings.Builder
	total := 0
	for _, w := range o.Grid {
		total += w
	}
	fmt.Fprintf(&b, `<w:tbl><w:tblPr><w:tblW w:w="%d" w:type="dxa"/></w:tblPr><w:tblGrid>`, total)
	for _, w := range o.Grid {
		fmt.Fprintf(&b, `<w:gridCol w:w="%d"/>`, w)
	}
	b.WriteString(`</w:tblGrid>`)
	for _, row := range o.Rows {
		b.WriteString(`<w:tr>`)
		g := 0
		for _, c := range row {
			b.WriteString(`<w:tc>`)
			if !c.NoPr || c.Span >= 1 || c.VM != "" {
				w := 0
				for k := g; k < g+c.span() && k < len(o.Grid); k++ {
					w += o.Grid[k]
				}
				b.WriteString(`<w:tcPr>`)
				if !c.NoW { // w:tcW is optional; some producers write only the merge markers
					fmt.Fprintf(&b, `<w:tcW w:w="%d" w:type="dxa"/>`, w)
				}
				if c.Span >= 1 { // 1 = the explicit <w:gridSpan w:val="1"/> some producers write on every cell
					fmt.Fprintf(&b, `<w:gridSpan w:val="%d"/>`, c.Span)
				}
				switch c.VM {
				case "restart", "continue":
					fmt.Fprintf(&b, `<w:vMerge w:val="%s"/>`, c.VM)
				case "empty":
					b.WriteString(`<w:vMerge/>`)
				}
				b.WriteString(`</w:tcPr>`)
			}
			if c.Nested > 0 {
				b.WriteString(`<w:tbl><w:tblPr><w:tblW w:w="0" w:type="auto"/></w:tblPr><w:tblGrid>`)
				for k := 0; k < c.Nested; k++ {
					b.WriteString(`<w:gridCol w:w="600"/>`)
				}
				b.WriteString(`</w:tblGrid><w:tr>`)
				for k := 0; k < c.Nested; k++ {
					b.WriteString(`<w:tc><w:tcPr><w:tcW w:w="600" w:type="dxa"/></w:tcPr>`)
					writePara(&b, fmt.Sprintf("%s%d", nestedText, k))
					b.WriteString(`</w:tc>`)
				}
				b.WriteString(`</w:tr></w:tbl>`)
			}
			for _, t := range c.T {
				writePara(&b, t)
			}
			if len(c.T) == 0 {
				b.WriteString(`<w:p/>`)
			}
			b.WriteString(`</w:tc>`)
			g += c.span()
		}
		b.WriteString(`</w:tr>`)
	}
	b.WriteString(`</w:tbl>`)
	return b.String()
}

// docx renders the smallest package around the table: content types, package relationships, main part.
func (o *OpenSpec) docx() ([]byte, error) {
	main := `<?xml version="1.0" encoding="UTF-8" standalone="yes"?><w:document xmlns:w="` + nsW + `"><w:body>` +
		o.tableXML() + `<w:p/><w:sectPr/></w:body></w:document>`
	var buf bytes.Buffer
	zw := zip.NewWriter(&buf)
	for _, e := range [][2]string{{"[Content_Types].xml", openCT}, {"_rels/.rels", openRels}, {"word/document.xml", main}} {
		f, err := zw.CreateHeader(&zip.FileHeader{Name: e[0], Method: zip.Store})
		if err != nil {
			return nil, err
		}
		if _, err := f.Write([]byte(e[1])); err != nil {
			return nil, err
		}
	}
	if err := zw.Close(); err != nil {
		return nil, err
	}
	return buf.Bytes(), nil
}

// valid: the description is inside the domain (hand-written and shrunk cases pass through here too): at least one
// grid column and one row, every row with at least one cell and not wider than the grid, span/vMerge values known.
func (o *OpenSpec) valid() string {
	if o == nil || len(o.Grid) == 0 || len(o.Rows) == 0 {
		return "no grid column or no row"
	}
	for i, row := range o.Rows {
		if len(row) == 0 {
			return fmt.Sprintf("row %d has no cell", i)
		}
		sum := 0
		for j, c := range row {
			sum += c.span()
			switch c.VM {
			case "", "restart", "continue", "empty":
			default:
				return fmt.Sprintf("cell (%d,%d): unknown vMerge form %q", i, j, c.VM)
			}
			if c.Nested < 0 || c.Span < 0 {
				return fmt.Sprintf("cell (%d,%d): negative count", i, j)
			}
		}
		if sum > len(o.Grid) {
			return fmt.Sprintf("row %d spans %d grid columns of %d", i, sum, len(o.Grid))
		}
	}
	return ""
}

func (o *OpenSpec) ragged() bool {
	for _, row := range o.Rows {
		sum := 0
		for _, c := range row {
			sum += c.span()
		}
		if sum != len(o.Grid) {
			return true
		}
	}
	return false
}

// openTable opens the package and returns the document and its only table. mismatch is non-empty when the reader
// did not deliver the table that was written (its subject is C03/C04; such a case is counted and left alone).
func openTable(o *OpenSpec) (doc *document.Document, t *document.Table, mismatch string, err error) {
	raw, err := o.docx()
	if err != nil {
		return nil, nil, "", err
	}
	doc, err = document.OpenFromMemory(io.NopCloser(bytes.NewReader(raw)))
	if err != nil {
		return nil, nil, "", err
	}
	tabs := doc.Body.GetTables()
	if len(tabs) != 1 {
		return doc, nil, fmt.Sprintf("the body has %d tables, 1 was written", len(tabs)), nil
	}
	t = tabs[0]
	if t.Grid == nil || len(t.Grid.Cols) != len(o.Grid) {
		return doc, t, "the grid was not read as written", nil
	}
	if len(t.Rows) != len(o.Rows) {
		return doc, t, fmt.Sprintf("%d rows read, %d written", len(t.Rows), len(o.Rows)), nil
	}
	for i, row := range o.Rows {
		if len(t.Rows[i].Cells) != len(row) {
			return doc, t, fmt.Sprintf("row %d: %d cells read, %d written", i, len(t.Rows[i].Cells), len(row)), nil
		}
		for j, c := range row {
			got := &t.Rows[i].Cells[j]
			wantVM := c.VM
			if wantVM == "empty" {
				wantVM = "continue"
			}
			texts := c.T
			if len(texts) == 0 {
				texts = []string{""}
			}
			switch {
			case span(got) != c.span():
				return doc, t, fmt.Sprintf("cell (%d,%d): span %d read, %d written", i, j, span(got), c.span()), nil
			case vm(got) != wantVM:
				return doc, t, fmt.Sprintf("cell (%d,%d): vertical-merge role %q read, %q written", i, j, vm(got), wantVM), nil
			case cellText(got) != strings.Join(texts, "\n"):
				return doc, t, fmt.Sprintf("cell (%d,%d): text %q read, %q written", i, j, cellText(got), strings.Join(texts, "\n")), nil
			case len(got.Paragraphs) != len(texts):
				return doc, t, fmt.Sprintf("cell (%d,%d): %d paragraphs read, %d written", i, j, len(got.Paragraphs), len(texts)), nil
			case (c.Nested > 0) != (len(got.Tables) == 1) || (c.Nested == 0 && len(got.Tables) != 0):
				return doc, t, fmt.Sprintf("cell (%d,%d): %d nested tables read", i, j, len(got.Tables)), nil
			}
		}
	}
	return doc, t, "", nil
}

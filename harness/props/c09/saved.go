package c09

// The third observation point of the property: the w:tbl in the saved main part. The document that holds the
// table under test is serialised with Document.ToBytes; the package is read back with archive/zip and
// encoding/xml only (nothing of pkg/document), the table is reduced to (grid columns; per cell: w:gridSpan,
// w:vMerge, number of w:p) and the grid clauses of the statement are evaluated on that reduction. A clause is
// demanded of the saved table when it holds for the table in memory (a state that arrived ragged is not made
// well-formed by saving it).

import (
	"archive/zip"
	"bytes"
	"encoding/xml"
	"fmt"
	"io"
	"os"
	"strings"

	"github.com/zerx-lab/wordZero/pkg/document"

	"wzverif/internal/kit"
)

// noSave (C09_NOSAVE=1) switches the saved-part clause off (sensitivity and cost measurements).
var noSave = os.Getenv("C09_NOSAVE") == "1"

type savedCell struct {
	span    string // raw w:val of w:gridSpan, "" = absent
	hasSpan bool
	vm      string // "", "restart", "continue" (bare w:vMerge = continue), or the raw value
	hasVM   bool
	paras   int
}

type savedTable struct {
	grid    int
	hasGrid bool
	rows    [][]savedCell
}

func attrVal(el xml.StartElement, local string) (string, bool) {
	for _, a := range el.Attr {
		if a.Name.Local == local {
			return a.Value, true
		}
	}
	return "", false
}

// parseSavedTbl consumes the tokens of one w:tbl (its start element has been read).
func parseSavedTbl(dec *xml.Decoder) (*savedTable, error) {
	t := &savedTable{}
	for {
		tok, err := dec.Token()
		if err != nil {
			return nil, err
		}
		switch el := tok.(type) {
		case xml.EndElement:
			return t, nil
		case xml.StartElement:
			switch el.Name.Local {
			case "tblGrid":
				t.hasGrid = true
				n, err := countChildren(dec, "gridCol")
				if err != nil {
					return nil, err
				}
				t.grid = n
			case "tr":
				row, err := parseSavedRow(dec)
				if err != nil {
					return nil, err
				}
				t.rows = append(t.rows, row)
			default:
				if err := dec.Skip(); err != nil {
					return nil, err
				}
			}
		}
	}
}

func countChildren(dec *xml.Decoder, local string) (int, error) {
	n := 0
	for {
		tok, err := dec.Token()
		if err != nil {
			return 0, err
		}
		switch el := tok.(type) {
		case xml.EndElement:
			return n, nil
		case xml.StartElement:
			if el.Name.Local == local {
				n++
			}
			if err := dec.Skip(); err != nil {
				return 0, err
			}
		}
	}
}

func parseSavedRow(dec *xml.Decoder) ([]savedCell, error) {
	row := []savedCell{}
	for {
		tok, err := dec.Token()
		if err != nil {
			return nil, err
		}
		switch el := tok.(type) {
		case xml.EndElement:
			return row, nil
		case xml.StartElement:
			if el.Name.Local != "tc" {
				if err := dec.Skip(); err != nil {
					return nil, err
				}
				continue
			}
			c, err := parseSavedCell(dec)
			if err != nil {
				return nil, err
			}
			row = append(row, c)
		}
	}
}

func parseSavedCell(dec *xml.Decoder) (savedCell, error) {
	var c savedCell
	for {
		tok, err := dec.Token()
		if err != nil {
			return c, err
		}
		switch el := tok.(type) {
		case xml.EndElement:
			return c, nil
		case xml.StartElement:
			switch el.Name.Local {
			case "tcPr":
				if err := parseSavedTcPr(dec, &c); err != nil {
					return c, err
				}
			case "p":
				c.paras++
				if err := dec.Skip(); err != nil {
					return c, err
				}
			default: // nested tables and everything else: not part of this cell's grid role
				if err := dec.Skip(); err != nil {
					return c, err
				}
			}
		}
	}
}

func parseSavedTcPr(dec *xml.Decoder, c *savedCell) error {
	for {
		tok, err := dec.Token()
		if err != nil {
			return err
		}
		switch el := tok.(type) {
		case xml.EndElement:
			return nil
		case xml.StartElement:
			switch el.Name.Local {
			case "gridSpan":
				c.hasSpan = true
				c.span, _ = attrVal(el, "val")
			case "vMerge":
				c.hasVM = true
				v, ok := attrVal(el, "val")
				if !ok || v == "" {
					v = "continue"
				}
				c.vm = v
			}
			if err := dec.Skip(); err != nil {
				return err
			}
		}
	}
}

// savedBodyTables returns the reductions of the w:tbl elements that are direct children of w:body, in order.
func savedBodyTables(raw []byte) ([]*savedTable, error) {
	zr, err := zip.NewReader(bytes.NewReader(raw), int64(len(raw)))
	if err != nil {
		return nil, err
	}
	var main []byte
	for _, f := range zr.File {
		if f.Name == "word/document.xml" {
			rc, err := f.Open()
			if err != nil {
				return nil, err
			}
			main, err = io.ReadAll(rc)
			rc.Close()
			if err != nil {
				return nil, err
			}
		}
	}
	if main == nil {
		return nil, fmt.Errorf("the saved package has no word/document.xml")
	}
	dec := xml.NewDecoder(bytes.NewReader(main))
	var out []*savedTable
	depth := 0 // 1 = inside w:document, 2 = inside w:body
	for {
		tok, err := dec.Token()
		if err == io.EOF {
			return out, nil
		}
		if err != nil {
			return nil, err
		}
		switch el := tok.(type) {
		case xml.StartElement:
			switch {
			case depth == 0 && el.Name.Local == "document", depth == 1 && el.Name.Local == "body":
				depth++
			case depth == 2 && el.Name.Local == "tbl":
				t, err := parseSavedTbl(dec)
				if err != nil {
					return nil, err
				}
				out = append(out, t)
			default:
				if err := dec.Skip(); err != nil {
					return nil, err
				}
			}
		case xml.EndElement:
			depth--
		}
	}
}

// asTable rebuilds a bare document.Table value (grid, spans, roles, paragraph counts) from the reduction, so that
// the one evaluator of the grid clauses (invariants) judges memory and file alike.
func (s *savedTable) asTable() *document.Table {
	t := &document.Table{}
	if s.hasGrid {
		t.Grid = &document.TableGrid{Cols: make([]document.TableGridCol, s.grid)}
	}
	for _, row := range s.rows {
		r := document.TableRow{}
		for _, c := range row {
			cell := document.TableCell{Paragraphs: make([]document.Paragraph, c.paras)}
			if c.hasSpan || c.hasVM {
				cell.Properties = &document.TableCellProperties{}
				if c.hasSpan {
					cell.Properties.GridSpan = &document.GridSpan{Val: c.span}
				}
				if c.hasVM {
					cell.Properties.VMerge = &document.VMerge{Val: c.vm}
				}
			}
			r.Cells = append(r.Cells, cell)
		}
		t.Rows = append(t.Rows, r)
	}
	return t
}

// savedFragment reduces a serialised w:tbl element (no package around it).
func savedFragment(raw []byte) (*savedTable, error) {
	dec := xml.NewDecoder(bytes.NewReader(raw))
	for {
		tok, err := dec.Token()
		if err != nil {
			return nil, err
		}
		if el, ok := tok.(xml.StartElement); ok {
			if el.Name.Local != "tbl" {
				return nil, fmt.Errorf("the serialised element is %s, not w:tbl", el.Name.Local)
			}
			return parseSavedTbl(dec)
		}
	}
}

// checkSaved evaluates the grid clauses on the w:tbl as it is written. full: the document that holds the table is
// serialised with Document.ToBytes and the table is taken from word/document.xml of that package; otherwise (the
// cheap form, a tenth of the cost) the table alone is given to encoding/xml, which is the encoder call the main
// part is produced with (Body.MarshalXML encodes its elements one by one). when names the moment for the message.
func (x *exec) checkSaved(when string, full bool) {
	if x.t == nil || x.doc == nil || noSave {
		return
	}
	var st *document.Table
	if full {
		if x.inDoc != x.t {
			found := false
			for _, tb := range x.doc.Body.GetTables() {
				if tb == x.t {
					found = true
				}
			}
			if !found {
				x.doc.Body.AddElement(x.t) // a table from CreateTable / CopyTable: put it into the body, as a caller does before saving
			}
			x.inDoc = x.t
		}
		var raw []byte
		var err error
		if p, _ := kit.Try(func() { raw, err = x.doc.ToBytes() }); p != nil || err != nil {
			x.res.Count("save-failed-not-judged", 1) // saving as such is the subject of C01/C05
			return
		}
		tabs, err := savedBodyTables(raw)
		if err != nil || len(tabs) == 0 {
			x.res.Count("saved-part-unreadable-not-judged", 1)
			return
		}
		idx := -1
		for i, tb := range x.doc.Body.GetTables() {
			if tb == x.t {
				idx = i
			}
		}
		if idx < 0 || idx >= len(tabs) {
			x.res.Count("saved-table-not-located-not-judged", 1)
			return
		}
		st = tabs[idx].asTable()
		x.res.Label("saved:judged-in-the-package")
	} else {
		var raw []byte
		var err error
		if p, _ := kit.Try(func() { raw, err = xml.Marshal(x.t) }); p != nil || err != nil {
			x.res.Count("save-failed-not-judged", 1)
			return
		}
		s, err := savedFragment(raw)
		if err != nil {
			x.res.Count("saved-part-unreadable-not-judged", 1)
			return
		}
		st = s.asTable()
		x.res.Label("saved:judged-as-element")
	}
	memViol := map[string]bool{}
	for _, v := range invariants(x.t) {
		memViol[v.clause] = true
	}
	x.res.Eval("C09.G3.saved")
	for _, v := range invariants(st) {
		if memViol[v.clause] {
			x.res.Count("G3-saved-clause-not-demanded:violated-in-memory", 1)
			continue
		}
		clause := "C09.G3.saved." + strings.TrimPrefix(v.clause, "C09.G3.")
		x.res.Fail(clause, "written at %s: in the serialised w:tbl %s | in memory: %s | written: %s", when, v.detail, render(x.t), render(st))
		x.stop = true
		return
	}
}

package c09

// Reflection helpers of the C09 oracle: an independent deep copy, a normalising deep comparison
// that names the first differing path, the set of storage shared by two values, and a mutator
// that changes every reachable leaf. None of them calls into the library under test.

import (
	"encoding/xml"
	"fmt"
	"reflect"
	"unsafe"

	"github.com/zerx-lab/wordZero/pkg/document"
)

var (
	xmlNameType = reflect.TypeOf(xml.Name{})
	textType    = reflect.TypeOf(document.Text{})
)

// field returns field i of the (addressable or not) struct value v in a form that can be read and,
// when v is addressable, written even if the field is unexported.
func field(v reflect.Value, i int) reflect.Value {
	f := v.Field(i)
	if f.CanInterface() || !f.CanAddr() {
		return f
	}
	return reflect.NewAt(f.Type(), unsafe.Pointer(f.UnsafeAddr())).Elem()
}

// DeepCopy returns a value equal to v that shares no pointer target, slice array or map with it.
// Aliasing inside v (two pointers to one target) is reproduced inside the copy.
func DeepCopy[T any](v T) T {
	src := reflect.ValueOf(&v).Elem()
	dst := reflect.New(src.Type()).Elem()
	copyInto(dst, src, map[unsafe.Pointer]reflect.Value{})
	return dst.Interface().(T)
}

func copyInto(dst, src reflect.Value, memo map[unsafe.Pointer]reflect.Value) {
	switch src.Kind() {
	case reflect.Ptr:
		if src.IsNil() {
			return
		}
		key := src.UnsafePointer()
		if src.Type().Elem().Size() > 0 {
			if m, ok := memo[key]; ok && m.Type() == src.Type() {
				dst.Set(m)
				return
			}
		}
		n := reflect.New(src.Type().Elem())
		if src.Type().Elem().Size() > 0 {
			memo[key] = n
		}
		copyInto(n.Elem(), src.Elem(), memo)
		dst.Set(n)
	case reflect.Slice:
		if src.IsNil() {
			return
		}
		n := reflect.MakeSlice(src.Type(), src.Len(), src.Len())
		for i := 0; i < src.Len(); i++ {
			copyInto(n.Index(i), src.Index(i), memo)
		}
		dst.Set(n)
	case reflect.Array:
		for i := 0; i < src.Len(); i++ {
			copyInto(dst.Index(i), src.Index(i), memo)
		}
	case reflect.Struct:
		// src may be unaddressable (map value, interface content): work on an addressable clone
		if !src.CanAddr() {
			c := reflect.New(src.Type()).Elem()
			c.Set(src)
			src = c
		}
		for i := 0; i < src.NumField(); i++ {
			copyInto(field(dst, i), field(src, i), memo)
		}
	case reflect.Map:
		if src.IsNil() {
			return
		}
		n := reflect.MakeMapWithSize(src.Type(), src.Len())
		it := src.MapRange()
		for it.Next() {
			k := reflect.New(src.Type().Key()).Elem()
			copyInto(k, it.Key(), memo)
			e := reflect.New(src.Type().Elem()).Elem()
			copyInto(e, it.Value(), memo)
			n.SetMapIndex(k, e)
		}
		dst.Set(n)
	case reflect.Interface:
		if src.IsNil() {
			return
		}
		e := reflect.New(src.Elem().Type()).Elem()
		copyInto(e, src.Elem(), memo)
		dst.Set(e)
	default:
		dst.Set(src)
	}
}

// DeepEqualNorm compares two values structurally and returns "" when they are equal, otherwise the
// path of the first difference. Normalisations: a nil slice equals an empty one, fields named XMLName
// of type xml.Name are ignored, Text.Space is ignored when both contents are empty.
func DeepEqualNorm(a, b interface{}) string {
	va, vb := reflect.ValueOf(a), reflect.ValueOf(b)
	// equality is the common case: decide it without building paths, describe a difference in a second pass
	if differ(false).diff(va, vb, "") == "" {
		return ""
	}
	if d := differ(true).diff(va, vb, ""); d != "" {
		return d
	}
	return "(difference without a path)"
}

// differ(true) tracks the path of the difference, differ(false) only reports "!".
type differ bool

func (t differ) sub(path, seg string) string {
	if !t {
		return ""
	}
	return path + seg
}

func (t differ) idx(path string, i interface{}) string {
	if !t {
		return ""
	}
	return fmt.Sprintf("%s[%v]", path, i)
}

func (t differ) say(path, format string, a ...interface{}) string {
	if !t {
		return "!"
	}
	return path + ": " + fmt.Sprintf(format, a...)
}

type fieldMeta struct {
	name string
	skip bool // XMLName
}

var metaCache = map[reflect.Type][]fieldMeta{}

func metaOf(t reflect.Type) []fieldMeta {
	if m, ok := metaCache[t]; ok {
		return m
	}
	m := make([]fieldMeta, t.NumField())
	for i := range m {
		f := t.Field(i)
		m[i] = fieldMeta{name: f.Name, skip: f.Name == "XMLName" && f.Type == xmlNameType}
	}
	metaCache[t] = m
	return m
}

func (t differ) diff(a, b reflect.Value, path string) string {
	if a.IsValid() != b.IsValid() {
		return t.say(path, "one side is absent")
	}
	if !a.IsValid() {
		return ""
	}
	if a.Type() != b.Type() {
		return t.say(path, "type %s vs %s", a.Type(), b.Type())
	}
	switch a.Kind() {
	case reflect.Ptr, reflect.Interface:
		if a.IsNil() || b.IsNil() {
			if a.IsNil() != b.IsNil() {
				return t.say(path, "nil=%v vs nil=%v", a.IsNil(), b.IsNil())
			}
			return ""
		}
		return t.diff(a.Elem(), b.Elem(), path)
	case reflect.Slice, reflect.Array:
		if a.Len() != b.Len() {
			return t.say(path, "length %d vs %d", a.Len(), b.Len())
		}
		for i := 0; i < a.Len(); i++ {
			if d := t.diff(a.Index(i), b.Index(i), t.idx(path, i)); d != "" {
				return d
			}
		}
		return ""
	case reflect.Struct:
		ty := a.Type()
		if !a.CanAddr() {
			c := reflect.New(ty).Elem()
			c.Set(a)
			a = c
		}
		if !b.CanAddr() {
			c := reflect.New(ty).Elem()
			c.Set(b)
			b = c
		}
		skipSpace := false
		if ty == textType {
			skipSpace = a.FieldByName("Content").String() == "" && b.FieldByName("Content").String() == ""
		}
		for i, f := range metaOf(ty) {
			if f.skip || (skipSpace && f.name == "Space") {
				continue
			}
			if d := t.diff(field(a, i), field(b, i), t.sub(path, "."+f.name)); d != "" {
				return d
			}
		}
		return ""
	case reflect.Map:
		if a.Len() != b.Len() {
			return t.say(path, "map size %d vs %d", a.Len(), b.Len())
		}
		it := a.MapRange()
		for it.Next() {
			bv := b.MapIndex(it.Key())
			if !bv.IsValid() {
				return t.say(path, "key %v missing", it.Key())
			}
			if d := t.diff(it.Value(), bv, t.idx(path, it.Key())); d != "" {
				return d
			}
		}
		return ""
	case reflect.String:
		if a.String() != b.String() {
			return t.say(path, "%q vs %q", clip(a.String()), clip(b.String()))
		}
	case reflect.Bool:
		if a.Bool() != b.Bool() {
			return t.say(path, "%v vs %v", a.Bool(), b.Bool())
		}
	case reflect.Int, reflect.Int8, reflect.Int16, reflect.Int32, reflect.Int64:
		if a.Int() != b.Int() {
			return t.say(path, "%d vs %d", a.Int(), b.Int())
		}
	case reflect.Uint, reflect.Uint8, reflect.Uint16, reflect.Uint32, reflect.Uint64, reflect.Uintptr:
		if a.Uint() != b.Uint() {
			return t.say(path, "%d vs %d", a.Uint(), b.Uint())
		}
	case reflect.Float32, reflect.Float64:
		if a.Float() != b.Float() {
			return t.say(path, "%v vs %v", a.Float(), b.Float())
		}
	case reflect.Func, reflect.Chan, reflect.UnsafePointer:
		if a.Pointer() != b.Pointer() {
			return t.say(path, "different reference")
		}
	}
	return ""
}

func clip(s string) string {
	if len(s) > 60 {
		return s[:60] + "…"
	}
	return s
}

// storage walks v and calls fn for every piece of mutable storage it owns: pointer targets, slice
// elements and maps (zero-size targets have no identity and are skipped).
func storage(v reflect.Value, path string, seen map[unsafe.Pointer]bool, fn func(p unsafe.Pointer, path string)) {
	switch v.Kind() {
	case reflect.Ptr:
		if v.IsNil() {
			return
		}
		if v.Type().Elem().Size() > 0 {
			p := v.UnsafePointer()
			fn(p, path)
			if seen[p] {
				return
			}
			seen[p] = true
		}
		storage(v.Elem(), path, seen, fn)
	case reflect.Slice:
		if v.IsNil() {
			return
		}
		for i := 0; i < v.Len(); i++ {
			e := v.Index(i)
			if e.Type().Size() > 0 {
				fn(unsafe.Pointer(e.UnsafeAddr()), sub(path, "[%d]", i))
			}
			storage(e, sub(path, "[%d]", i), seen, fn)
		}
	case reflect.Array:
		for i := 0; i < v.Len(); i++ {
			storage(v.Index(i), sub(path, "[%d]", i), seen, fn)
		}
	case reflect.Struct:
		if !v.CanAddr() {
			c := reflect.New(v.Type()).Elem()
			c.Set(v)
			v = c
		}
		for i := 0; i < v.NumField(); i++ {
			if path == noPath {
				storage(field(v, i), noPath, seen, fn)
				continue
			}
			storage(field(v, i), path+"."+v.Type().Field(i).Name, seen, fn)
		}
	case reflect.Map:
		if v.IsNil() {
			return
		}
		fn(v.UnsafePointer(), path)
		it := v.MapRange()
		for it.Next() {
			storage(it.Value(), sub(path, "[%v]", it.Key()), seen, fn)
		}
	case reflect.Interface:
		if !v.IsNil() {
			storage(v.Elem(), path, seen, fn)
		}
	}
}

// noPath as the path of a walk: the walk does not build paths (they are only needed to report a shared piece).
const noPath = "\x00"

func sub(path, format string, a interface{}) string {
	if path == noPath {
		return noPath
	}
	return path + fmt.Sprintf(format, a)
}

// SharedPointers returns the paths (in b) of storage reachable from both a and b.
func SharedPointers(a, b interface{}) []string {
	// first without paths (the common case: nothing is shared), the walk with paths only to report
	mine := map[unsafe.Pointer]bool{}
	storage(reflect.ValueOf(a), noPath, map[unsafe.Pointer]bool{}, func(p unsafe.Pointer, _ string) { mine[p] = true })
	shared := false
	storage(reflect.ValueOf(b), noPath, map[unsafe.Pointer]bool{}, func(p unsafe.Pointer, _ string) { shared = shared || mine[p] })
	if !shared {
		return nil
	}
	owned := map[unsafe.Pointer]string{}
	storage(reflect.ValueOf(a), "", map[unsafe.Pointer]bool{}, func(p unsafe.Pointer, path string) {
		if _, ok := owned[p]; !ok {
			owned[p] = path
		}
	})
	var out []string
	dup := map[unsafe.Pointer]bool{}
	storage(reflect.ValueOf(b), "", map[unsafe.Pointer]bool{}, func(p unsafe.Pointer, path string) {
		if _, ok := owned[p]; ok && !dup[p] {
			dup[p] = true
			out = append(out, path)
		}
	})
	return out
}

// MutateAll changes every leaf (string, number, bool) reachable from v through pointers, slices,
// arrays and struct fields, in place, and returns the number of leaves changed.
func MutateAll(v interface{}) int {
	n := 0
	mutate(reflect.ValueOf(v), map[unsafe.Pointer]bool{}, &n)
	return n
}

func mutate(v reflect.Value, seen map[unsafe.Pointer]bool, n *int) {
	switch v.Kind() {
	case reflect.Ptr:
		if v.IsNil() {
			return
		}
		if v.Type().Elem().Size() > 0 {
			if seen[v.UnsafePointer()] {
				return
			}
			seen[v.UnsafePointer()] = true
		}
		mutate(v.Elem(), seen, n)
	case reflect.Slice, reflect.Array:
		for i := 0; i < v.Len(); i++ {
			mutate(v.Index(i), seen, n)
		}
	case reflect.Struct:
		if !v.CanAddr() {
			return
		}
		for i := 0; i < v.NumField(); i++ {
			mutate(field(v, i), seen, n)
		}
	case reflect.Interface:
		if !v.IsNil() && v.Elem().Kind() == reflect.Ptr {
			mutate(v.Elem(), seen, n)
		}
	case reflect.String:
		if v.CanSet() {
			v.SetString(v.String() + "~")
			*n++
		}
	case reflect.Bool:
		if v.CanSet() {
			v.SetBool(!v.Bool())
			*n++
		}
	case reflect.Int, reflect.Int8, reflect.Int16, reflect.Int32, reflect.Int64:
		if v.CanSet() {
			v.SetInt(v.Int() + 1)
			*n++
		}
	case reflect.Uint, reflect.Uint8, reflect.Uint16, reflect.Uint32, reflect.Uint64:
		if v.CanSet() {
			v.SetUint(v.Uint() + 1)
			*n++
		}
	case reflect.Float32, reflect.Float64:
		if v.CanSet() {
			v.SetFloat(v.Float() + 1)
			*n++
		}
	}
}

package c09

import (
	"os"
	"runtime/debug"
	"strconv"
	"testing"

	"github.com/zerx-lab/wordZero/pkg/document"

	"wzverif/internal/kit"
)

func TestMain(m *testing.M) {
	document.SetGlobalLevel(document.LogLevelSilent)
	if os.Getenv("GOGC") == "" {
		// every step deep-copies the table: the heap is small and short-lived, collecting it at the default rate costs
		// half of the run on a loaded machine
		debug.SetGCPercent(800)
	}
	kit.TestMain(m, 6200, 150000)
}

// v is a selector that resolves to the valid index k (k < size), n to the size itself (see (*exec).sel).
func v(k int) int { return 32*k + 3 }

const n = 0

// e is a selector that resolves to the k-th valid index from the end (e(0) = the last one).
func e(k int) int { return endBase + k }

func grid(r, c int) [][]string {
	out := make([][]string, r)
	for i := range out {
		for j := 0; j < c; j++ {
			out[i] = append(out[i], string(rune('a'+i))+strconv.Itoa(j))
		}
	}
	return out
}

// fixed are hand-written histories on rectangular tables that every run executes first: the plain row/column
// model at its bounds, merge / unmerge round trips, cell writes into a cell with several paragraphs.
func fixed() []Case {
	if os.Getenv("C09_NOFIXED") == "1" { // sensitivity runs of the generated search alone
		return nil
	}
	return []Case{
		// row model at the bounds: insert at n (append), delete the last row of several, refuse to delete the only row
		{Via: "create", Rows: 1, Cols: 2, Width: 6000, Data: grid(1, 2), Ops: []Op{
			{K: "delrow", I: []int{v(0)}},
			{K: "insrow", I: []int{n, 2}, S: []string{"x", "y"}},
			{K: "insrow", I: []int{v(0), 12}, S: []string{"p"}},
			{K: "delrows", I: []int{v(1), v(2)}},
			{K: "delrows", I: []int{v(0), v(0)}},
			{K: "approw", I: []int{2}, S: []string{"q"}},
			{K: "delrows", I: []int{v(0), v(1)}},
			{K: "delrow", I: []int{v(1)}},
			{K: "iter"},
		}},
		// range deletions in the middle of a taller table
		{Via: "add", Rows: 5, Cols: 3, Width: 9000, Data: grid(5, 3), Ops: []Op{
			{K: "delrows", I: []int{v(1), v(2)}},
			{K: "delcols", I: []int{v(0), v(1)}},
			{K: "inscol", I: []int{n, 1000, 2}, S: []string{"k"}},
			{K: "inscol", I: []int{v(0), 1000, 1}, S: []string{"k"}},
			{K: "delcol", I: []int{v(2)}},
			{K: "delcol", I: []int{v(0)}},
			{K: "delcol", I: []int{v(0)}},
			{K: "range", I: []int{v(0), v(0), v(2), v(0)}},
		}},
		// merge / unmerge round trips from a rectangular table
		{Via: "create", Rows: 3, Cols: 4, Width: 8000, Data: grid(3, 4), Ops: []Op{
			{K: "mergeh", I: []int{v(1), v(1), v(3)}},
			{K: "unmerge", I: []int{v(1), v(1)}},
			{K: "iter"},
			{K: "mergev", I: []int{v(0), v(2), v(2)}},
			{K: "unmerge", I: []int{v(0), v(2)}},
			{K: "merger", I: []int{v(0), v(1), v(0), v(1)}},
			{K: "get", I: []int{v(0), v(0)}},
			{K: "unmerge", I: []int{v(0), v(0)}},
			{K: "unmerge", I: []int{v(1), v(0)}},
			{K: "inscol", I: []int{v(1), 700, 2}, S: []string{"z"}},
		}},
		// cell writes into a cell that already has several paragraphs and a nested table
		{Via: "create", Rows: 2, Cols: 2, Width: 5000, Data: grid(2, 2), Ops: []Op{
			{K: "addpara", I: []int{v(0), v(1)}, S: []string{"second"}},
			{K: "nested", I: []int{v(0), v(1), 2, 2}, S: []string{"n1", "n2", "n3"}},
			{K: "settext", I: []int{v(0), v(1)}, S: []string{"first"}},
			{K: "addftext", I: []int{v(1), v(0)}, S: []string{"+more"}, F: 1},
			{K: "clrcontent", I: []int{v(0), v(1)}},
			{K: "settext", I: []int{v(0), v(1)}, S: []string{"again"}},
			{K: "clrparas", I: []int{v(0), v(1)}},
			{K: "find", S: []string{"+more"}},
			{K: "copy", F: 0},
		}},
		// a table read from a file whose last row is one cell short (ragged rows): calls that reach beyond the short
		// row, calls inside every row, row edits, merges, the iterator family and CopyTable
		{Via: "open", Rows: 3, Cols: 3, Open: &OpenSpec{Grid: []int{2000, 2000, 2000}, Rows: [][]OpenCell{
			{{T: []string{"a0"}}, {T: []string{"b0"}}, {T: []string{"c0"}}},
			{{T: []string{"a1"}}, {T: []string{"b1"}, NoPr: true}, {T: []string{"c1"}}},
			{{T: []string{"a2"}}, {T: []string{"b2", "b2'"}}},
		}}, Ops: []Op{
			{K: "inscol", I: []int{n, 1500, 2}, S: []string{"x"}},
			{K: "appcol", I: []int{1500, 1}},
			{K: "delcol", I: []int{v(2)}},
			{K: "delcols", I: []int{v(1), v(2)}},
			{K: "mergev", I: []int{v(1), v(2), v(2)}},
			{K: "merger", I: []int{v(0), v(2), v(1), v(2)}},
			{K: "mergeh", I: []int{v(2), v(1), v(2)}},
			{K: "get", I: []int{v(2), v(2)}},
			{K: "iter"},
			{K: "eachrow", I: []int{v(2)}},
			{K: "eachcol", I: []int{v(2)}},
			{K: "range", I: []int{v(0), v(0), v(2), v(2)}},
			{K: "find", S: []string{"b2"}},
			{K: "copy", F: 0},
			{K: "settext", I: []int{v(2), v(1)}, S: []string{"w"}},
			{K: "inscol", I: []int{v(1), 900, 2}, S: []string{"k"}},
			{K: "delcol", I: []int{v(0)}},
			{K: "insrow", I: []int{v(2), 2}, S: []string{"r"}},
			{K: "approw", I: []int{1}},
			{K: "delrow", I: []int{v(0)}},
			{K: "mergev", I: []int{v(0), v(1), v(0)}},
			{K: "unmerge", I: []int{v(0), v(0)}},
			{K: "clear"},
		}},
		// sizes past the single digits (positions, spans and row counts of two digits)
		// a 10-wide merged block in a table of twelve columns: a row inserted inside it, its start row deleted, vertical merges right of the
		// wide cell (physical index 1 = grid column 10), unmerging 10 and 11 columns, column edits at two-digit positions while a cell is spanned
		{Via: "create", Rows: 4, Cols: 12, Width: 9000, Data: grid(4, 12), Ops: []Op{
			{K: "merger", I: []int{v(0), v(2), v(0), v(9)}},
			{K: "insrow", I: []int{v(1), 24}, S: []string{"p", "q"}},
			{K: "get", I: []int{v(1), v(0)}},
			{K: "delrow", I: []int{v(0)}},
			{K: "mergev", I: []int{v(0), e(0), v(1)}},
			{K: "mergev", I: []int{v(0), v(2), v(1)}},
			{K: "unmerge", I: []int{v(1), v(0)}},
			{K: "mergeh", I: []int{e(0), v(1), e(0)}},
			{K: "inscol", I: []int{v(10), 1000, 1}, S: []string{"x"}},
			{K: "delcol", I: []int{v(11)}},
			{K: "unmerge", I: []int{e(0), v(1)}},
			{K: "iter"},
			{K: "copy"},
		}},
		// column edits, cell writes and ranges at positions 10 and beyond on a plain table of twelve columns, then a merge of a whole row of ten
		{Via: "add", Rows: 3, Cols: 12, Width: 8640, Data: grid(3, 12), Ops: []Op{
			{K: "inscol", I: []int{v(10), 1000, 2}, S: []string{"i"}},
			{K: "inscol", I: []int{n, 1200, 1}, S: []string{"j"}},
			{K: "delcol", I: []int{v(11)}},
			{K: "settext", I: []int{v(2), v(10)}, S: []string{"w"}},
			{K: "get", I: []int{v(1), e(0)}},
			{K: "range", I: []int{v(0), v(9), v(2), e(0)}},
			{K: "delcols", I: []int{v(10), e(0)}},
			{K: "mergeh", I: []int{v(1), v(0), e(0)}},
			{K: "approw", I: []int{1}, S: []string{"r"}},
			{K: "insrow", I: []int{v(1), 24}, S: []string{"s", "t"}},
			{K: "mergev", I: []int{v(0), v(1), v(10)}},
			{K: "delcols", I: []int{v(0), v(9)}},
			{K: "unmerge", I: []int{v(2), v(0)}},
			{K: "delcols", I: []int{v(0), v(9)}},
			{K: "iter"},
		}},
		// a vertical merge over thirteen rows, ten of its rows deleted in one call (the continuation below must be repaired), rows inserted into it
		{Via: "add", Rows: 14, Cols: 2, Width: 6000, Data: grid(14, 2), Ops: []Op{
			{K: "mergev", I: []int{v(1), e(0), v(0)}},
			{K: "delrows", I: []int{v(1), v(10)}},
			{K: "get", I: []int{v(1), v(0)}},
			{K: "approw", I: []int{2}, S: []string{"a", "b"}},
			{K: "insrow", I: []int{v(2), 12}, S: []string{"c"}},
			{K: "mergev", I: []int{v(0), e(0), v(1)}},
			{K: "delrow", I: []int{v(0)}},
			{K: "unmerge", I: []int{v(0), v(1)}},
			{K: "delrows", I: []int{v(1), e(1)}},
			{K: "iter"},
		}},
		// row edits and cell access at row indexes 10 and 11, a vertical merge over twelve rows, the copy continued as the table under test
		{Via: "create", Rows: 12, Cols: 3, Width: 6000, Data: grid(12, 3), Ops: []Op{
			{K: "settext", I: []int{v(11), v(2)}, S: []string{"z"}},
			{K: "get", I: []int{v(10), v(1)}},
			{K: "insrow", I: []int{v(10), 2}, S: []string{"k", "l", "m"}},
			{K: "delrow", I: []int{v(11)}},
			{K: "mergev", I: []int{v(0), v(11), v(1)}},
			{K: "insrow", I: []int{v(11), 1}},
			{K: "delrows", I: []int{v(0), v(9)}},
			{K: "rowheightrange", I: []int{v(0), e(0), 20}},
			{K: "eachcol", I: []int{v(1)}},
			{K: "copy", F: 1},
			{K: "delrow", I: []int{v(0)}},
		}},
	}
}

func TestC09(t *testing.T) {
	kit.Main(t, kit.Spec[Case]{
		ID: "C09", Level: "exploration",
		Rule: "a start table - five in six from CreateTable/AddTable (1-6 x 1-6, one in six past the single digits: 7-21 columns x 1-5 rows, 31-65 columns x 1-3 rows, or 7-65 rows x 1-4 columns; widths derived, given or of the wrong count; initial data absent, full, ragged, oversize), one in six read by OpenFromMemory from a .docx the harness writes itself (1-5 grid columns x 1-5 rows, one in seven 10-14 grid columns x 2-4 rows with cells spanning most of a row - w:gridSpan of two digits -, consecutive rows of one layout and a vertical merge of the widest cell; in 8 of 10 with ragged rows: some rows hold fewer cells than the grid, none more, one row is full; with or without pre-existing w:gridSpan cells (also the explicit w:gridSpan=1), a vertical merge written as restart/continue/bare w:vMerge, a nested table, cells without w:tcPr, cells whose w:tcPr holds no w:tcW (only w:gridSpan / w:vMerge, or nothing), two-paragraph and run-less cells) - and a history of 1-30 calls over the row/column/cell/merge/unmerge/row-property/copy/iterator API plus a save of the document. One case in six (always a created table of 4-6 x 3-5) carries a seam motif of up to three calls whose positions depend on one another: two merged blocks of 1-3 x 1-3 cells that touch (the second directly below the first at the same grid column, or directly right of it in the same rows; made by MergeCellsRange / Horizontal / Vertical, in either order) and then one call at the seam (a row or column deleted or inserted at the first or last line of a block, singly or as a range across the seam, or a block unmerged). Positions are state-independent selectors resolved against the current size: every valid index (counted from the start or from the end), -1, -2, n, n+1, inverted and single-cell ranges, broad ranges (the whole row / column but for at most two positions at either end, whatever the size), data shorter than / equal to / longer than the table. Hand-written histories run first (bounds of the plain model, merge/unmerge round trips, a ragged opened table, and four on tables of twelve columns / twelve to fourteen rows: a 10-wide merged block edited by row and column calls, positions 10+, a vertical merge over ten and more rows cut by DeleteRows). Before each call the table is deep-copied; the call is judged against that copy: no panic; error => deep-equal to the copy; success => grid invariants, accessors agree with the structure, and post = f(copy, arguments) for the plain rows-by-columns model (exact on rectangular tables and for row edits, plain-row merges and cell-level calls in any state; invariants + untouched-cell rules where the API leaves the addressed cell open on merged rows). On a state whose rows do not span the grid before the call (ragged) a grid invariant is demanded after the call only if it held before it, a row made by the call must span the grid, and column edits are judged by the plain model in every row that reaches the position when no cell spans two columns. At the end of every history (and at every save call inside it) the table is serialised - the whole document with ToBytes for every table read from a file and one in eight of the others, the table element alone through encoding/xml otherwise -, read back with archive/zip + encoding/xml only and reduced to (grid columns; per cell gridSpan, vMerge, number of paragraphs): each grid invariant that holds for the table in memory must hold for the written w:tbl. A failure attributed to an open finding rolls the table back to the copy and the history continues. non-trivial = >= 2 successful structural edits, >= 1 successful merge or nested table, >= 1 rejected out-of-range call; distinct = distinct sequence of (call kind, outcome ok/err/kf, rectangular or not before the call)",
		Gen:  genCase, Run: run, Findings: findings, Fixed: fixed,
		MustSee: map[string]float64{"history:successful-merge": 0.4, "history:merge-and-no-rollback": 0.25, "history:copy": 0.1, "pos:n": 0.3, "pos:n+1": 0.3,
			"pos:negative": 0.3, "range:inverted": 0.1, "history:nested-table": 0.1, "history:non-rectangular-state": 0.2, "data:longer-than-table": 0.05,
			"start:opened-ragged": 0.1, "start:opened-merged": 0.03, "ragged:rejected-structural-edit": 0.08, "ragged:accepted-structural-edit": 0.08,
			"history:seam-motif": 0.08, "saved:judged-in-the-package": 0.15, "saved:judged-as-element": 0.4, "delrows:continuation-row-moves-under-a-row-with-a-merged-cell": 0.005,
			"start:>=10-columns": 0.05, "start:>=10-rows": 0.015, "start:opened-with-gridSpan>=10": 0.005, "history:structural-edit-on-a-state-with-a-cell-spanning>=10": 0.01},
		Assumptions: []string{
			"a table has at least one row and every row at least one cell (the API's own documented refusal to delete the last row/column); a call whose row/column/range lies outside the table under every reading (negative, >= rows, >= grid width, inverted) must be refused, a call inside under every reading must be accepted, anything else (data longer than the table, single-cell merge ranges, a column index between a merged row's physical cell count and the grid width) may go either way",
			"on a row with a horizontally merged cell the API does not say whether a column index counts physical cells or grid columns: cells right of a spanned cell are only held to the invariants and to 'at most one cell of that row changed'",
			"the target cell's new content is demanded only where the API documents it (SetCellText on a one-paragraph cell sets the text, on other cells the text starts with it; formatted text replaces; Add* append; Clear* as documented)",
			"tables read from a file: only what OpenFromMemory makes of a schema-valid w:tbl with w:tblPr and w:tblGrid whose rows are not wider than the grid; a case in which the reader does not deliver the table as written is counted (opened-not-as-written) and not judged (C03/C04/C06 judge the reader); tables without a grid or with rows wider than the grid are outside the domain",
			"the saved form of the table is judged by the grid clauses only (rows span the declared grid, every cell has a paragraph, continuations sit under a matching start), and only those that hold in memory; what else the writer keeps of a cell (widths, texts, formats) is the subject of C01/C03; a document that cannot be saved at all is counted and not judged here",
			"a table that arrives with ragged rows cannot be made a well-formed grid by one call: after a successful call a grid invariant (rows span the grid / cells have a paragraph / rows have a cell / continuation under a matching start) is demanded only if it held before the call; the error clause (an error leaves the table exactly as it was) and the no-panic clause are demanded in every state",
		},
	})
}

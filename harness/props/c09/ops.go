package c09

// Cell-level, row-level, table-level and read-only ops, and the main loop of the interpreter.

import (
	"errors"
	"fmt"
	"os"
	"strings"

	"github.com/zerx-lab/wordZero/pkg/document"

	"wzverif/internal/kit"
)

var textFormats = []*document.TextFormat{
	nil,
	{Bold: true},
	{Italic: true, FontColor: "FF0000"},
	{FontSize: 14, FontFamily: "Arial"},
	{Bold: true, Italic: true, FontSize: 9, FontColor: "#00FF00", FontFamily: "宋体", Underline: true, Strike: true, Highlight: "yellow"},
}

var cellFormats = []*document.CellFormat{
	{},
	{HorizontalAlign: document.CellAlignCenter},
	{VerticalAlign: document.CellVAlignBottom, TextDirection: document.TextDirectionTB},
	{TextFormat: &document.TextFormat{Bold: true, FontSize: 12}},
	{TextFormat: &document.TextFormat{Italic: true, FontColor: "0000FF", FontFamily: "Courier"}, HorizontalAlign: document.CellAlignRight, VerticalAlign: document.CellVAlignTop, BackgroundColor: "EEEEEE", Padding: 4},
}

var listTypes = []document.ListType{document.ListTypeBullet, document.ListTypeNumber, document.ListTypeDecimal, document.ListTypeLowerLetter,
	document.ListTypeUpperLetter, document.ListTypeLowerRoman, document.ListTypeUpperRoman}

var textDirs = []document.CellTextDirection{document.TextDirectionLR, document.TextDirectionTB, document.TextDirectionBT, document.TextDirectionTBV}
var heightRules = []document.RowHeightRule{document.RowHeightAuto, document.RowHeightMinimum, document.RowHeightExact}

func border(k int) *document.BorderConfig {
	return &document.BorderConfig{Style: []document.BorderStyle{document.BorderStyleSingle, document.BorderStyleDouble, document.BorderStyleDashed, document.BorderStyleNone}[k%4], Width: 4 + k, Color: "112233", Space: k}
}

func (x *exec) cellLevel(op Op) {
	t := x.t
	r, c := x.sel(op.I[0], x.sh.R), x.sel(op.I[1], x.sh.G)
	s := ""
	if len(op.S) > 0 {
		s = op.S[0]
	}
	textSame := func(p, q *document.TableCell) {
		if cellText(q) != cellText(p) {
			x.fail("C09.G4.content", nil, "the text of cell (%d,%d) changed %q -> %q in a call that carries no text", r, c, cellText(p), cellText(q))
		}
	}
	parasSame := func(p, q *document.TableCell) {
		if d := DeepEqualNorm(q.Paragraphs, p.Paragraphs); d != "" {
			x.fail("C09.G4.content", nil, "the paragraphs of cell (%d,%d) changed at %s in a call that only sets cell properties", r, c, d)
		}
	}
	switch op.K {
	case "settext":
		x.desc = fmt.Sprintf("SetCellText(%d,%d,%q)", r, c, s)
		x.cellOp(r, c, false, func() error { return t.SetCellText(r, c, s) }, func(p, q *document.TableCell) {
			if simple(p) {
				if got := cellText(q); got != s {
					x.fail("C09.G4.content", nil, "cell (%d,%d) holds %q after SetCellText(%q)", r, c, got, s)
				}
			} else if !strings.HasPrefix(cellText(q), s) {
				x.fail("C09.G4.content", nil, "cell (%d,%d) holds %q after SetCellText(%q): the text does not start with the given text", r, c, cellText(q), s)
			}
		})
	case "setftext":
		f := textFormats[op.F%len(textFormats)]
		x.desc = fmt.Sprintf("SetCellFormattedText(%d,%d,%q,fmt%d)", r, c, s, op.F)
		x.cellOp(r, c, false, func() error { return t.SetCellFormattedText(r, c, s, f) }, func(p, q *document.TableCell) {
			if got := cellText(q); got != s {
				x.fail("C09.G4.content", nil, "cell (%d,%d) holds %q after SetCellFormattedText(%q)", r, c, got, s)
			}
		})
	case "addftext":
		f := textFormats[op.F%len(textFormats)]
		x.desc = fmt.Sprintf("AddCellFormattedText(%d,%d,%q,fmt%d)", r, c, s, op.F)
		x.cellOp(r, c, false, func() error { return t.AddCellFormattedText(r, c, s, f) }, func(p, q *document.TableCell) {
			if len(p.Paragraphs) == 1 {
				if got := cellText(q); got != cellText(p)+s {
					x.fail("C09.G4.content", nil, "cell (%d,%d) holds %q after appending %q to %q", r, c, got, s, cellText(p))
				}
			} else if len(cellText(q)) != len(cellText(p))+len(s) || !strings.Contains(cellText(q), s) {
				x.fail("C09.G4.content", nil, "cell (%d,%d) holds %q after appending %q to %q", r, c, cellText(q), s, cellText(p))
			}
		})
	case "setfmt":
		f := cellFormats[op.F%len(cellFormats)]
		x.desc = fmt.Sprintf("SetCellFormat(%d,%d,cellfmt%d)", r, c, op.F)
		x.cellOp(r, c, false, func() error { return t.SetCellFormat(r, c, f) }, textSame)
	case "clrcontent":
		x.desc = fmt.Sprintf("ClearCellContent(%d,%d)", r, c)
		x.cellOp(r, c, false, func() error { return t.ClearCellContent(r, c) }, func(p, q *document.TableCell) {
			w := DeepCopy(p)
			for i := range w.Paragraphs {
				for j := range w.Paragraphs[i].Runs {
					w.Paragraphs[i].Runs[j].Text.Content = ""
				}
			}
			if d := DeepEqualNorm(q, w); d != "" {
				x.fail("C09.G4.content", nil, "ClearCellContent(%d,%d): the cell is not its former self with the text blanked, differs at %s", r, c, d)
			}
		})
	case "clrfmt":
		x.desc = fmt.Sprintf("ClearCellFormat(%d,%d)", r, c)
		x.cellOp(r, c, false, func() error { return t.ClearCellFormat(r, c) }, func(p, q *document.TableCell) {
			textSame(p, q)
			if !x.done() && len(q.Paragraphs) != len(p.Paragraphs) {
				x.fail("C09.G4.content", nil, "ClearCellFormat(%d,%d) changed the number of paragraphs %d -> %d", r, c, len(p.Paragraphs), len(q.Paragraphs))
			}
		})
	case "addpara", "addfpara":
		var ret *document.Paragraph
		f := textFormats[op.F%len(textFormats)]
		call := func() error {
			var err error
			if op.K == "addpara" {
				ret, err = t.AddCellParagraph(r, c, s)
			} else {
				ret, err = t.AddCellFormattedParagraph(r, c, s, f)
			}
			return err
		}
		x.desc = fmt.Sprintf("%s(%d,%d,%q)", map[string]string{"addpara": "AddCellParagraph", "addfpara": "AddCellFormattedParagraph"}[op.K], r, c, s)
		x.cellOp(r, c, false, call, func(p, q *document.TableCell) {
			n := len(p.Paragraphs)
			if len(q.Paragraphs) != n+1 {
				x.fail("C09.G4.content", nil, "cell (%d,%d) has %d paragraphs after adding one to %d", r, c, len(q.Paragraphs), n)
				return
			}
			if d := DeepEqualNorm(q.Paragraphs[:n], p.Paragraphs); d != "" {
				x.fail("C09.G4.content", nil, "adding a paragraph changed the existing paragraphs of cell (%d,%d) at %s", r, c, d)
				return
			}
			if got := paraText(&q.Paragraphs[n]); got != s {
				x.fail("C09.G4.content", nil, "the paragraph added to cell (%d,%d) holds %q, the call gave %q", r, c, got, s)
				return
			}
			if ret != &q.Paragraphs[n] {
				x.fail("C09.G4.content", nil, "the paragraph returned for cell (%d,%d) is not the paragraph added to the cell", r, c)
				return
			}
			if d := DeepEqualNorm(q.Tables, p.Tables); d != "" {
				x.fail("C09.G4.content", nil, "adding a paragraph changed the nested tables of cell (%d,%d) at %s", r, c, d)
			}
		})
	case "clrparas":
		x.desc = fmt.Sprintf("ClearCellParagraphs(%d,%d)", r, c)
		x.cellOp(r, c, false, func() error { return t.ClearCellParagraphs(r, c) }, func(p, q *document.TableCell) {
			if len(q.Paragraphs) != 1 || cellText(q) != "" {
				x.fail("C09.G4.content", nil, "cell (%d,%d) has %d paragraphs with text %q after ClearCellParagraphs (documented: one empty paragraph)", r, c, len(q.Paragraphs), cellText(q))
			}
		})
	case "addlist":
		var cfg *document.CellListConfig
		if op.F < len(listTypes) {
			cfg = &document.CellListConfig{Type: listTypes[op.F], Items: op.S}
			if op.F == 0 {
				cfg.BulletSymbol = document.BulletTypeSquare
			}
		}
		bad := cfg == nil || len(op.S) == 0
		x.desc = fmt.Sprintf("AddCellList(%d,%d,type%d,%q)", r, c, op.F, op.S)
		x.cellOp(r, c, bad, func() error { return t.AddCellList(r, c, cfg) }, func(p, q *document.TableCell) {
			n := len(p.Paragraphs)
			if len(q.Paragraphs) != n+len(op.S) {
				x.fail("C09.G4.content", nil, "cell (%d,%d) has %d paragraphs after adding a list of %d items to %d", r, c, len(q.Paragraphs), len(op.S), n)
				return
			}
			if d := DeepEqualNorm(q.Paragraphs[:n], p.Paragraphs); d != "" {
				x.fail("C09.G4.content", nil, "adding a list changed the existing paragraphs of cell (%d,%d) at %s", r, c, d)
				return
			}
			for k, it := range op.S {
				if got := paraText(&q.Paragraphs[n+k]); !strings.HasSuffix(got, it) {
					x.fail("C09.G4.content", nil, "list paragraph %d of cell (%d,%d) holds %q, the item is %q", k, r, c, got, it)
					return
				}
			}
		})
	case "nested":
		nr, nc := op.I[2], op.I[3]
		cfg := &document.TableConfig{Rows: nr, Cols: nc, Width: 3000}
		bad := nr <= 0 || nc <= 0
		switch op.F {
		case 1:
			for k := 0; k < nc; k++ {
				cfg.ColWidths = append(cfg.ColWidths, 700+k)
			}
		case 2:
			cfg.ColWidths = make([]int, nc+1)
			bad = true
		}
		for i := 0; i < nr && i*max(nc, 1) < len(op.S); i++ {
			lo := i * max(nc, 1)
			hi := min(lo+max(nc, 1), len(op.S))
			cfg.Data = append(cfg.Data, op.S[lo:hi])
		}
		var ret *document.Table
		x.desc = fmt.Sprintf("AddNestedTable(%d,%d,%dx%d,widths%d)", r, c, nr, nc, op.F)
		x.cellOp(r, c, bad, func() error {
			var err error
			ret, err = t.AddNestedTable(r, c, cfg)
			return err
		}, func(p, q *document.TableCell) {
			x.nestedOK++
			n := len(p.Tables)
			if len(q.Tables) != n+1 {
				x.fail("C09.G4.content", nil, "cell (%d,%d) has %d nested tables after adding one to %d", r, c, len(q.Tables), n)
				return
			}
			if d := DeepEqualNorm(q.Tables[:n], p.Tables); d != "" {
				x.fail("C09.G4.content", nil, "adding a nested table changed the existing nested tables at %s", d)
				return
			}
			if d := DeepEqualNorm(q.Paragraphs, p.Paragraphs); d != "" {
				x.fail("C09.G4.content", nil, "adding a nested table changed the paragraphs of cell (%d,%d) at %s", r, c, d)
				return
			}
			if ret != &q.Tables[n] {
				x.fail("C09.G4.content", nil, "the table returned by AddNestedTable is not the table stored in cell (%d,%d)", r, c)
				return
			}
			if msg := checkFresh(&q.Tables[n], nr, nc, cfg.Data); msg != "" {
				x.fail("C09.G4.content", nil, "nested table of cell (%d,%d): %s", r, c, msg)
			}
		})
	case "padding":
		x.desc = fmt.Sprintf("SetCellPadding(%d,%d,5)", r, c)
		x.cellOp(r, c, false, func() error { return t.SetCellPadding(r, c, 5) }, func(p, q *document.TableCell) { textSame(p, q); parasSame(p, q) })
	case "textdir":
		d := textDirs[op.F%len(textDirs)]
		x.desc = fmt.Sprintf("SetCellTextDirection(%d,%d,%s)", r, c, d)
		x.cellOp(r, c, false, func() error { return t.SetCellTextDirection(r, c, d) }, func(p, q *document.TableCell) {
			parasSame(p, q)
			if x.done() {
				return
			}
			if _, known := x.addr(r, c); known {
				if got, err := t.GetCellTextDirection(r, c); err != nil || got != d {
					x.fail("C09.G4.content", nil, "GetCellTextDirection(%d,%d)=%q,%v after setting %q", r, c, got, err, d)
				}
			}
		})
	case "shade":
		cfg := &document.ShadingConfig{Pattern: document.ShadingPatternPct10, ForegroundColor: "auto", BackgroundColor: []string{"FFFFFF", "CCCCCC", "FF00FF", "000000"}[op.F%4]}
		x.desc = fmt.Sprintf("SetCellShading(%d,%d,%s)", r, c, cfg.BackgroundColor)
		x.cellOp(r, c, false, func() error { return t.SetCellShading(r, c, cfg) }, parasSame)
	case "borders":
		cfg := &document.CellBorderConfig{Top: border(op.F), Bottom: border(op.F + 1)}
		if op.F%2 == 1 {
			cfg.Left, cfg.Right, cfg.DiagDown = border(op.F), border(op.F), border(op.F)
		}
		x.desc = fmt.Sprintf("SetCellBorders(%d,%d,v%d)", r, c, op.F)
		x.cellOp(r, c, false, func() error { return t.SetCellBorders(r, c, cfg) }, parasSame)
	case "rmborders":
		x.desc = fmt.Sprintf("RemoveCellBorders(%d,%d)", r, c)
		x.cellOp(r, c, false, func() error { return t.RemoveCellBorders(r, c) }, parasSame)
	}
}

// checkFresh: a newly created table is nr x nc, rectangular, satisfies the invariants and holds the given data.
func checkFresh(t *document.Table, nr, nc int, data [][]string) string {
	if v := invariants(t); len(v) > 0 {
		return v[0].detail
	}
	sh := describe(t)
	if sh.R != nr || sh.G != nc || !sh.rect {
		return fmt.Sprintf("%d rows x %d grid columns (rectangular=%v), asked for %d x %d", sh.R, sh.G, sh.rect, nr, nc)
	}
	for i := range t.Rows {
		for j := range t.Rows[i].Cells {
			w := ""
			if i < len(data) && j < len(data[i]) {
				w = data[i][j]
			}
			if got := cellText(&t.Rows[i].Cells[j]); got != w {
				return fmt.Sprintf("cell (%d,%d) holds %q, the initial data say %q", i, j, got, w)
			}
			if vm(&t.Rows[i].Cells[j]) != "" {
				return fmt.Sprintf("cell (%d,%d) of a new table has a vertical-merge role", i, j)
			}
		}
	}
	return ""
}

// get: all read accessors of one cell agree on accept/reject, report what the structure holds and change nothing.
func (x *exec) get(r, c int) {
	t := x.t
	want, known := x.addr(r, c)
	x.desc = fmt.Sprintf("GetCell & co.(%d,%d)", r, c)
	var cell *document.TableCell
	var text string
	var merged bool
	var info map[string]interface{}
	var paras []document.Paragraph
	var nested []document.Table
	errs := make([]error, 8)
	ok := x.call(want, "C09.G5.get", nil, func() error {
		cell, errs[0] = t.GetCell(r, c)
		text, errs[1] = t.GetCellText(r, c)
		merged, errs[2] = t.IsCellMerged(r, c)
		info, errs[3] = t.GetMergedCellInfo(r, c)
		_, errs[4] = t.GetCellFormat(r, c)
		_, errs[5] = t.GetCellTextDirection(r, c)
		paras, errs[6] = t.GetCellParagraphs(r, c)
		nested, errs[7] = t.GetNestedTables(r, c)
		return errs[0]
	})
	if x.done() {
		return
	}
	for k, e := range errs {
		if (e == nil) != (errs[0] == nil) {
			x.fail("C09.G5.get", nil, "read accessor %d and GetCell disagree on whether (%d,%d) exists: %v vs %v", k, r, c, e, errs[0])
			return
		}
	}
	if !ok {
		return
	}
	x.res.Eval("C09.G5.get")
	if d := DeepEqualNorm(t, x.pre); d != "" {
		x.fail("C09.G5.get", nil, "a read accessor changed the table at %s", d)
		return
	}
	if !known {
		return
	}
	w := &t.Rows[r].Cells[c]
	switch {
	case cell != w:
		x.fail("C09.G5.get", nil, "GetCell(%d,%d) does not return the cell stored at that position", r, c)
	case text != cellText(w):
		x.fail("C09.G5.get", nil, "GetCellText(%d,%d)=%q, the cell holds %q", r, c, text, cellText(w))
	case merged != (span(w) > 1 || vm(w) != ""):
		x.fail("C09.G5.get", nil, "IsCellMerged(%d,%d)=%v, the cell has span %d and vertical-merge role %q", r, c, merged, span(w), vm(w))
	case info["is_merged"] != merged:
		x.fail("C09.G5.get", nil, "GetMergedCellInfo(%d,%d)[is_merged]=%v, IsCellMerged=%v", r, c, info["is_merged"], merged)
	case span(w) > 1 && info["horizontal_span"] != span(w):
		x.fail("C09.G5.get", nil, "GetMergedCellInfo(%d,%d)[horizontal_span]=%v, the cell spans %d", r, c, info["horizontal_span"], span(w))
	case len(paras) != len(w.Paragraphs) || len(nested) != len(w.Tables):
		x.fail("C09.G5.get", nil, "GetCellParagraphs/GetNestedTables(%d,%d) return %d/%d items, the cell holds %d/%d", r, c, len(paras), len(nested), len(w.Paragraphs), len(w.Tables))
	}
}

// ---------------------------------------------------------------------------------------------------------
// row-level ops

func (x *exec) cellsUntouched(clause string) {
	t, pre := x.t, x.pre
	x.frameSame(clause, nil, true)
	if x.done() {
		return
	}
	if len(t.Rows) != len(pre.Rows) {
		x.fail(clause, nil, "the number of rows changed %d -> %d", len(pre.Rows), len(t.Rows))
		return
	}
	for i := range t.Rows {
		if d := DeepEqualNorm(t.Rows[i].Cells, pre.Rows[i].Cells); d != "" {
			x.fail(clause, nil, "a row-level call changed the cells of row %d at %s", i, d)
			return
		}
	}
}

func (x *exec) rowLevel(op Op) {
	t, sh := x.t, x.sh
	const cl = "C09.G4.rowprops"
	after := func(rows func(i int) bool, read func(i int) string) {
		x.checkInvariants(nil)
		if x.done() {
			return
		}
		x.res.Eval(cl)
		x.cellsUntouched(cl)
		if x.done() {
			return
		}
		for i := range t.Rows {
			if !rows(i) {
				if d := DeepEqualNorm(t.Rows[i].Properties, x.pre.Rows[i].Properties); d != "" {
					x.fail(cl, nil, "the properties of row %d, which the call does not address, changed at %s", i, d)
					return
				}
			} else if read != nil {
				if msg := read(i); msg != "" {
					x.fail(cl, nil, "%s", msg)
					return
				}
			}
		}
	}
	switch op.K {
	case "rowheight":
		r, h, rule := x.sel(op.I[0], sh.R), op.I[1], heightRules[op.F%3]
		x.desc = fmt.Sprintf("SetRowHeight(%d,%d,%s)", r, h, rule)
		want := mustOK
		if r < 0 || r >= sh.R {
			want = mustErr
		}
		if x.call(want, "C09.G4.decision", nil, func() error { return t.SetRowHeight(r, &document.RowHeightConfig{Height: h, Rule: rule}) }) {
			after(func(i int) bool { return i == r }, func(i int) string {
				got, err := t.GetRowHeight(i)
				if err != nil || got == nil || got.Height != h || got.Rule != rule {
					return fmt.Sprintf("GetRowHeight(%d)=%+v,%v after setting %d/%s", i, got, err, h, rule)
				}
				return ""
			})
		}
	case "rowheightrange":
		a, b := x.rng(x.sel(op.I[0], sh.R), x.sel(op.I[1], sh.R), op.F&1 == 1)
		h := op.I[2]
		x.desc = fmt.Sprintf("SetRowHeightRange(%d,%d,%d)", a, b, h)
		want := mustOK
		if a < 0 || b >= sh.R || a > b {
			want = mustErr
		}
		if x.call(want, "C09.G4.decision", nil, func() error {
			return t.SetRowHeightRange(a, b, &document.RowHeightConfig{Height: h, Rule: document.RowHeightExact})
		}) {
			after(func(i int) bool { return i >= a && i <= b }, func(i int) string {
				got, err := t.GetRowHeight(i)
				if err != nil || got == nil || got.Height != h || got.Rule != document.RowHeightExact {
					return fmt.Sprintf("GetRowHeight(%d)=%+v,%v after setting rows %d..%d to %d/exact", i, got, err, a, b, h)
				}
				return ""
			})
		}
	case "header", "keeptogether", "keepnext":
		r, on := x.sel(op.I[0], sh.R), op.F == 1
		want := mustOK
		if r < 0 || r >= sh.R {
			want = mustErr
		}
		var f func() error
		var read func(i int) string
		switch op.K {
		case "header":
			x.desc = fmt.Sprintf("SetRowAsHeader(%d,%v)", r, on)
			f = func() error { return t.SetRowAsHeader(r, on) }
			read = func(i int) string {
				if got, err := t.IsRowHeader(i); err != nil || got != on {
					return fmt.Sprintf("IsRowHeader(%d)=%v,%v after setting %v", i, got, err, on)
				}
				return ""
			}
		case "keeptogether":
			x.desc = fmt.Sprintf("SetRowKeepTogether(%d,%v)", r, on)
			f = func() error { return t.SetRowKeepTogether(r, on) }
			read = func(i int) string {
				if got, err := t.IsRowKeepTogether(i); err != nil || got != on {
					return fmt.Sprintf("IsRowKeepTogether(%d)=%v,%v after setting %v", i, got, err, on)
				}
				return ""
			}
		default:
			x.desc = fmt.Sprintf("SetRowKeepWithNext(%d,%v)", r, on)
			f = func() error { return t.SetRowKeepWithNext(r, on) }
		}
		if x.call(want, "C09.G4.decision", nil, f) {
			after(func(i int) bool { return i == r }, read)
		}
	case "headerrows":
		a, b := x.rng(x.sel(op.I[0], sh.R), x.sel(op.I[1], sh.R), op.F&1 == 1)
		x.desc = fmt.Sprintf("SetHeaderRows(%d,%d)", a, b)
		want := mustOK
		if a < 0 || b >= sh.R || a > b {
			want = mustErr
		}
		if x.call(want, "C09.G4.decision", nil, func() error { return t.SetHeaderRows(a, b) }) {
			after(func(i int) bool { return true }, func(i int) string {
				if got, err := t.IsRowHeader(i); err != nil || got != (i >= a && i <= b) {
					return fmt.Sprintf("IsRowHeader(%d)=%v,%v after SetHeaderRows(%d,%d)", i, got, err, a, b)
				}
				return ""
			})
		}
	case "rowget":
		r := x.sel(op.I[0], sh.R)
		x.desc = fmt.Sprintf("GetRowHeight/IsRowHeader/IsRowKeepTogether(%d)", r)
		want := mustOK
		if r < 0 || r >= sh.R {
			want = mustErr
		}
		if x.call(want, "C09.G5.get", nil, func() error {
			_, e1 := t.GetRowHeight(r)
			_, e2 := t.IsRowHeader(r)
			_, e3 := t.IsRowKeepTogether(r)
			if (e1 == nil) != (e2 == nil) || (e1 == nil) != (e3 == nil) {
				return nil // disagreement shows as an unexpected acceptance or below
			}
			return e1
		}) {
			x.res.Eval("C09.G5.get")
			if d := DeepEqualNorm(t, x.pre); d != "" {
				x.fail("C09.G5.get", nil, "a read accessor changed the table at %s", d)
			}
		}
	}
}

// ---------------------------------------------------------------------------------------------------------
// table-level ops

func (x *exec) tableLevel(op Op) {
	t, pre := x.t, x.pre
	switch op.K {
	case "clear":
		x.desc = "ClearTable()"
		if !x.call(mustOK, "C09.G4.decision", nil, func() error { t.ClearTable(); return nil }) {
			return
		}
		x.checkInvariants(nil)
		if x.done() {
			return
		}
		x.accessors(nil)
		if x.done() {
			return
		}
		const cl = "C09.G4.clear"
		x.res.Eval(cl)
		x.frameSame(cl, nil, true)
		if x.done() {
			return
		}
		if len(t.Rows) != len(pre.Rows) {
			x.fail(cl, nil, "ClearTable changed the number of rows %d -> %d", len(pre.Rows), len(t.Rows))
			return
		}
		for i := range t.Rows {
			if len(t.Rows[i].Cells) != len(pre.Rows[i].Cells) {
				x.fail(cl, nil, "ClearTable changed the number of cells of row %d", i)
				return
			}
			if d := DeepEqualNorm(t.Rows[i].Properties, pre.Rows[i].Properties); d != "" {
				x.fail(cl, nil, "ClearTable changed the properties of row %d at %s", i, d)
				return
			}
			for j := range t.Rows[i].Cells {
				q, p := &t.Rows[i].Cells[j], &pre.Rows[i].Cells[j]
				if cellText(q) != "" {
					x.fail(cl, nil, "cell (%d,%d) still holds %q after ClearTable", i, j, cellText(q))
					return
				}
				if d := DeepEqualNorm(q.Properties, p.Properties); d != "" {
					x.fail(cl, nil, "ClearTable (documented: keeps the structure) changed the properties of cell (%d,%d) at %s", i, j, d)
					return
				}
			}
		}
	case "tstyle":
		var f func() error
		switch op.F % 6 {
		case 0:
			x.desc = "ApplyTableStyle(...)"
			f = func() error {
				return t.ApplyTableStyle(&document.TableStyleConfig{StyleID: "MyStyle", FirstRowHeader: true, BandedRows: true, LastColumnTotal: true})
			}
		case 1:
			x.desc = "SetTableBorders(...)"
			f = func() error {
				return t.SetTableBorders(&document.TableBorderConfig{Top: border(1), Left: border(2), InsideH: border(3)})
			}
		case 2:
			x.desc = "SetTableShading(...)"
			f = func() error {
				return t.SetTableShading(&document.ShadingConfig{Pattern: document.ShadingPatternClear, BackgroundColor: "DDDDDD"})
			}
		case 3:
			x.desc = "SetTableAlignment(right)"
			f = func() error { return t.SetTableAlignment(document.TableAlignRight) }
		case 4:
			x.desc = "SetAlternatingRowColors(...)"
			f = func() error { return t.SetAlternatingRowColors("FFFFFF", "F0F0F0") }
		default:
			x.desc = "RemoveTableBorders()"
			f = func() error { return t.RemoveTableBorders() }
		}
		if !x.call(mustOK, "C09.G4.decision", nil, f) {
			return
		}
		x.checkInvariants(nil)
		if x.done() {
			return
		}
		const cl = "C09.G4.tableprops"
		x.res.Eval(cl)
		if d := DeepEqualNorm(t.Grid, pre.Grid); d != "" {
			x.fail(cl, nil, "a table-property call changed the grid at %s", d)
			return
		}
		if len(t.Rows) != len(pre.Rows) {
			x.fail(cl, nil, "a table-property call changed the number of rows")
			return
		}
		for i := range t.Rows {
			if len(t.Rows[i].Cells) != len(pre.Rows[i].Cells) {
				x.fail(cl, nil, "a table-property call changed the number of cells of row %d", i)
				return
			}
			for j := range t.Rows[i].Cells {
				q, p := &t.Rows[i].Cells[j], &pre.Rows[i].Cells[j]
				if d := DeepEqualNorm(q.Paragraphs, p.Paragraphs); d != "" {
					x.fail(cl, nil, "a table-property call changed the content of cell (%d,%d) at %s", i, j, d)
					return
				}
				if span(q) != span(p) || vm(q) != vm(p) || len(q.Tables) != len(p.Tables) {
					x.fail(cl, nil, "a table-property call changed the merge markers / nested tables of cell (%d,%d)", i, j)
					return
				}
			}
		}
	}
}

// ---------------------------------------------------------------------------------------------------------
// iterator family

type cellRef struct {
	i, j int
	c    *document.TableCell
}

func allCells(t *document.Table) []cellRef {
	var out []cellRef
	for i := range t.Rows {
		for j := range t.Rows[i].Cells {
			out = append(out, cellRef{i, j, &t.Rows[i].Cells[j]})
		}
	}
	return out
}

func (x *exec) raggedCands(clauses ...string) []cand {
	for _, n := range x.sh.phys {
		if n != x.sh.phys[0] {
			return []cand{{kfIter, clauses}}
		}
	}
	return nil
}

func (x *exec) pure(clause string) {
	if x.done() {
		return
	}
	if d := DeepEqualNorm(x.t, x.pre); d != "" {
		x.fail(clause, nil, "a read-only call changed the table at %s", d)
	}
}

func (x *exec) iterate() {
	t := x.t
	const cl = "C09.G5.iter"
	cands := x.raggedCands(cl)
	x.desc = "NewCellIterator()/ForEach"
	want := allCells(t)
	var got []*document.CellInfo
	var total int
	var endHasNext bool
	var endErr error
	var endProgress float64
	var itErr error
	var fe []cellRef
	var feErr, stopErr error
	stopAt, stopped := len(want)/2, 0
	boom := errors.New("stop")
	x.res.Eval("C09.G1")
	if p, st := kit.Try(func() {
		it := t.NewCellIterator()
		total = it.Total()
		for n := 0; it.HasNext() && n <= len(want)+8; n++ {
			ci, err := it.Next()
			if err != nil {
				itErr = err
				break
			}
			got = append(got, ci)
		}
		endHasNext = it.HasNext()
		_, endErr = it.Next()
		endProgress = it.Progress()
		feErr = t.ForEach(func(row, col int, cell *document.TableCell, text string) error {
			fe = append(fe, cellRef{row, col, cell})
			return nil
		})
		stopErr = t.ForEach(func(row, col int, cell *document.TableCell, text string) error {
			if stopped == stopAt {
				return boom
			}
			stopped++
			return nil
		})
	}); p != nil {
		x.fail("C09.G1", cands, "the iterator panicked: %v [%s]", p, st)
		return
	}
	x.status = "ok"
	x.res.Eval(cl)
	switch {
	case itErr != nil:
		x.fail(cl, cands, "Next() failed after %d of %d cells although HasNext() was true: %v", len(got), len(want), itErr)
	case len(got) != len(want):
		x.fail(cl, cands, "the iterator yielded %d cells, the table has %d", len(got), len(want))
	case total != len(want):
		x.fail(cl, cands, "Total()=%d, the table has %d cells", total, len(want))
	case endHasNext || endErr == nil:
		x.fail(cl, cands, "after the last cell HasNext()=%v and Next() returned error %v", endHasNext, endErr)
	case len(want) > 0 && endProgress != 1.0:
		x.fail(cl, cands, "Progress()=%v after the last cell", endProgress)
	case feErr != nil:
		x.fail(cl, cands, "ForEach failed: %v", feErr)
	case len(fe) != len(want):
		x.fail(cl, cands, "ForEach visited %d cells, the table has %d", len(fe), len(want))
	case stopErr == nil || stopped != stopAt:
		x.fail(cl, cands, "ForEach with a callback failing at cell %d returned %v after %d successful callbacks", stopAt, stopErr, stopped)
	}
	if x.done() {
		return
	}
	for k, w := range want {
		g := got[k]
		switch {
		case g.Cell != w.c || g.Row != w.i || g.Col != w.j:
			x.fail(cl, cands, "iterator item %d is cell (%d,%d), expected the cell stored at (%d,%d)", k, g.Row, g.Col, w.i, w.j)
		case g.Text != cellText(w.c):
			x.fail(cl, cands, "iterator item %d (%d,%d) carries the text %q, the cell holds %q", k, w.i, w.j, g.Text, cellText(w.c))
		case g.IsLast != (k == len(want)-1):
			x.fail(cl, cands, "iterator item %d of %d has IsLast=%v", k, len(want), g.IsLast)
		case fe[k].c != w.c || fe[k].i != w.i || fe[k].j != w.j:
			x.fail(cl, cands, "ForEach callback %d got cell (%d,%d), expected the cell stored at (%d,%d)", k, fe[k].i, fe[k].j, w.i, w.j)
		}
		if x.done() {
			return
		}
	}
	x.pure(cl)
}

func (x *exec) cellRange(ra, ca, rb, cb int) {
	t, sh := x.t, x.sh
	const cl = "C09.G5.range"
	x.desc = fmt.Sprintf("GetCellRange(%d,%d,%d,%d)", ra, ca, rb, cb)
	want := either
	switch {
	case ra < 0 || ca < 0 || rb >= sh.R || cb >= sh.G || ra > rb || ca > cb:
		want = mustErr
	case sh.rect:
		want = mustOK
	}
	var got []*document.CellInfo
	if !x.call(want, cl, nil, func() error {
		var err error
		got, err = t.GetCellRange(ra, ca, rb, cb)
		return err
	}) {
		return
	}
	x.res.Eval(cl)
	x.pure(cl)
	if x.done() {
		return
	}
	if !sh.rect {
		// weak: distinct cells of rows ra..rb in row-major order
		last := -1
		for k, g := range got {
			if g.Row < ra || g.Row > rb || g.Row < last {
				x.fail(cl, nil, "item %d of the range is in row %d", k, g.Row)
				return
			}
			last = g.Row
		}
		return
	}
	if len(got) != (rb-ra+1)*(cb-ca+1) {
		x.fail(cl, nil, "the range has %d cells, expected %d", len(got), (rb-ra+1)*(cb-ca+1))
		return
	}
	k := 0
	for i := ra; i <= rb; i++ {
		for j := ca; j <= cb; j++ {
			g := got[k]
			w := &t.Rows[i].Cells[j]
			if g.Cell != w || g.Row != i || g.Col != j || g.Text != cellText(w) || g.IsLast != (k == len(got)-1) {
				x.fail(cl, nil, "item %d of the range is (%d,%d) text %q last=%v, expected the cell stored at (%d,%d) with text %q", k, g.Row, g.Col, g.Text, g.IsLast, i, j, cellText(w))
				return
			}
			k++
		}
	}
}

func (x *exec) eachRow(r int) {
	t, sh := x.t, x.sh
	const cl = "C09.G5.eachrow"
	x.desc = fmt.Sprintf("ForEachInRow(%d)", r)
	want := mustOK
	var cands []cand
	if r < 0 || r >= sh.R {
		want = mustErr
	} else if sh.phys[r] != sh.phys[0] {
		cands = []cand{{kfIter, []string{cl}}}
	}
	var got []cellRef
	if !x.call(want, cl, cands, func() error {
		return t.ForEachInRow(r, func(col int, cell *document.TableCell, text string) error {
			got = append(got, cellRef{r, col, cell})
			return nil
		})
	}) {
		return
	}
	x.res.Eval(cl)
	row := &t.Rows[r]
	if len(got) != len(row.Cells) {
		x.fail(cl, cands, "ForEachInRow(%d) visited %d cells, the row has %d", r, len(got), len(row.Cells))
		return
	}
	for j := range row.Cells {
		if got[j].c != &row.Cells[j] || got[j].j != j {
			x.fail(cl, cands, "ForEachInRow(%d): callback %d got column %d and not the cell stored at (%d,%d)", r, j, got[j].j, r, j)
			return
		}
	}
	x.pure(cl)
}

func (x *exec) eachCol(c int) {
	t, sh := x.t, x.sh
	const cl = "C09.G5.eachcol"
	x.desc = fmt.Sprintf("ForEachInColumn(%d)", c)
	want := either
	switch {
	case c < 0 || c >= sh.G:
		want = mustErr
	case sh.rect:
		want = mustOK
	}
	var got []cellRef
	if !x.call(want, cl, nil, func() error {
		return t.ForEachInColumn(c, func(row int, cell *document.TableCell, text string) error {
			got = append(got, cellRef{row, c, cell})
			return nil
		})
	}) {
		return
	}
	x.res.Eval(cl)
	if len(got) != sh.R {
		x.fail(cl, nil, "ForEachInColumn(%d) visited %d cells, the table has %d rows", c, len(got), sh.R)
		return
	}
	for i := range t.Rows {
		if got[i].i != i {
			x.fail(cl, nil, "ForEachInColumn(%d): callback %d got row %d", c, i, got[i].i)
			return
		}
		if sh.rect && got[i].c != &t.Rows[i].Cells[c] {
			x.fail(cl, nil, "ForEachInColumn(%d): callback %d did not get the cell stored at (%d,%d)", c, i, i, c)
			return
		}
	}
	x.pure(cl)
}

func (x *exec) find(s string, exact bool) {
	t := x.t
	const cl = "C09.G5.find"
	cands := x.raggedCands(cl)
	x.desc = fmt.Sprintf("FindCellsByText(%q,%v)", s, exact)
	var got []*document.CellInfo
	if !x.call(mustOK, cl, cands, func() error {
		var err error
		got, err = t.FindCellsByText(s, exact)
		return err
	}) {
		return
	}
	x.res.Eval(cl)
	var want []cellRef
	for _, w := range allCells(t) {
		txt := cellText(w.c)
		if (exact && txt == s) || (!exact && strings.Contains(txt, s)) {
			want = append(want, w)
		}
	}
	if len(got) != len(want) {
		x.fail(cl, cands, "FindCellsByText found %d cells, %d cells match", len(got), len(want))
		return
	}
	for k, w := range want {
		if got[k].Cell != w.c || got[k].Row != w.i || got[k].Col != w.j {
			x.fail(cl, cands, "match %d is (%d,%d), expected the cell stored at (%d,%d)", k, got[k].Row, got[k].Col, w.i, w.j)
			return
		}
	}
	x.pure(cl)
}

// ---------------------------------------------------------------------------------------------------------

func (x *exec) step(op Op) {
	sh := x.sh
	switch op.K {
	case "insrow":
		pos, d := x.sel(op.I[0], sh.R), x.data(op.S, op.I[1], sh.G)
		x.desc = fmt.Sprintf("InsertRow(%d,%q)", pos, d)
		x.insertRow(pos, d, false)
	case "approw":
		d := x.data(op.S, op.I[0], sh.G)
		x.desc = fmt.Sprintf("AppendRow(%q)", d)
		x.insertRow(sh.R, d, true)
	case "delrow":
		r := x.sel(op.I[0], sh.R)
		x.desc = fmt.Sprintf("DeleteRow(%d)", r)
		x.deleteRows(r, r, true)
	case "delrows":
		a, b := x.rng(x.sel(op.I[0], sh.R), x.sel(op.I[1], sh.R), op.F&1 == 1)
		x.desc = fmt.Sprintf("DeleteRows(%d,%d)", a, b)
		x.deleteRows(a, b, false)
	case "inscol":
		pos, d := x.sel(op.I[0], sh.G), x.data(op.S, op.I[2], sh.R)
		x.desc = fmt.Sprintf("InsertColumn(%d,%q,%d)", pos, d, op.I[1])
		x.insertColumn(pos, d, op.I[1], false)
	case "appcol":
		d := x.data(op.S, op.I[1], sh.R)
		x.desc = fmt.Sprintf("AppendColumn(%q,%d)", d, op.I[0])
		x.insertColumn(sh.G, d, op.I[0], true)
	case "delcol":
		c := x.sel(op.I[0], sh.G)
		x.desc = fmt.Sprintf("DeleteColumn(%d)", c)
		x.deleteColumns(c, c, true)
	case "delcols":
		a, b := x.rng(x.sel(op.I[0], sh.G), x.sel(op.I[1], sh.G), op.F&1 == 1)
		x.desc = fmt.Sprintf("DeleteColumns(%d,%d)", a, b)
		x.deleteColumns(a, b, false)
	case "mergeh":
		r := x.sel(op.I[0], sh.R)
		a, b := x.rng(x.sel(op.I[1], sh.G), x.sel(op.I[2], sh.G), op.F&1 == 1)
		x.desc = fmt.Sprintf("MergeCellsHorizontal(%d,%d,%d)", r, a, b)
		x.mergeH(r, a, b)
	case "mergev":
		a, b := x.rng(x.sel(op.I[0], sh.R), x.sel(op.I[1], sh.R), op.F&1 == 1)
		c := x.sel(op.I[2], sh.G)
		x.desc = fmt.Sprintf("MergeCellsVertical(%d,%d,%d)", a, b, c)
		x.mergeV(a, b, c)
	case "merger":
		ra, rb := x.rng(x.sel(op.I[0], sh.R), x.sel(op.I[1], sh.R), op.F&1 == 1)
		ca, cb := x.rng(x.sel(op.I[2], sh.G), x.sel(op.I[3], sh.G), op.F&2 == 2)
		x.desc = fmt.Sprintf("MergeCellsRange(%d,%d,%d,%d)", ra, rb, ca, cb)
		x.mergeRange(ra, rb, ca, cb)
	case "unmerge":
		r, c := x.sel(op.I[0], sh.R), x.sel(op.I[1], sh.G)
		x.desc = fmt.Sprintf("UnmergeCells(%d,%d)", r, c)
		x.unmerge(r, c)
	case "get":
		x.get(x.sel(op.I[0], sh.R), x.sel(op.I[1], sh.G))
	case "rowheight", "rowheightrange", "header", "headerrows", "keeptogether", "keepnext", "rowget":
		x.rowLevel(op)
	case "clear", "tstyle":
		x.tableLevel(op)
	case "copy":
		x.desc = "CopyTable()"
		x.copyTable(op.F)
	case "iter":
		x.iterate()
	case "range":
		ra, rb := x.rng(x.sel(op.I[0], sh.R), x.sel(op.I[2], sh.R), op.F&1 == 1)
		ca, cb := x.rng(x.sel(op.I[1], sh.G), x.sel(op.I[3], sh.G), op.F&2 == 2)
		x.cellRange(ra, ca, rb, cb)
	case "eachrow":
		x.eachRow(x.sel(op.I[0], sh.R))
	case "eachcol":
		x.eachCol(x.sel(op.I[0], sh.G))
	case "find":
		x.find(op.S[0], op.F == 1)
	case "save":
		x.desc = "Document.ToBytes()"
		x.status = "ok"
		x.checkSaved(fmt.Sprintf("op %d", x.i), x.opened || x.i%4 == 0)
	default:
		x.cellLevel(op)
	}
}

var openFindings map[string]bool

// isStructural: the calls that add or remove rows, columns or cells.
var isStructural = map[string]bool{"insrow": true, "approw": true, "delrow": true, "delrows": true, "inscol": true, "appcol": true,
	"delcol": true, "delcols": true, "mergeh": true, "mergev": true, "merger": true, "unmerge": true}

func run(c Case) *kit.Result {
	res := &kit.Result{}
	if openFindings == nil {
		openFindings = kit.OpenFindings("C09")
	}
	x := &exec{res: res, open: openFindings, i: -1}
	if c.Via == "open" {
		if !x.startOpened(c) {
			return res
		}
		return x.history(c)
	}
	x.doc = document.New()
	cfg := &document.TableConfig{Rows: c.Rows, Cols: c.Cols, Width: c.Width, ColWidths: c.ColWidths, Data: c.Data}
	x.desc = fmt.Sprintf("%s table %dx%d widths=%v", c.Via, c.Rows, c.Cols, c.ColWidths)
	var t *document.Table
	var err error
	res.Eval("C09.G1")
	if p, st := kit.Try(func() {
		if c.Via == "add" {
			t, err = x.doc.AddTable(cfg)
		} else {
			t, err = x.doc.CreateTable(cfg)
		}
	}); p != nil {
		x.fail("C09.G1", nil, "creating the table panicked: %v [%s]", p, st)
		return res
	}
	res.Eval("C09.G4.init")
	wrongWidths := len(c.ColWidths) != 0 && len(c.ColWidths) != c.Cols
	switch {
	case wrongWidths && (err == nil || t != nil):
		x.fail("C09.G4.init", nil, "%d column widths for %d columns were accepted", len(c.ColWidths), c.Cols)
		return res
	case wrongWidths:
		res.Label("start:rejected-widths")
		res.Shape = "rejected-widths"
		return res
	case err != nil || t == nil:
		x.fail("C09.G4.init", nil, "a valid configuration was rejected: %v", err)
		return res
	}
	if msg := checkFresh(t, c.Rows, c.Cols, c.Data); msg != "" {
		x.fail("C09.G4.init", nil, "%s", msg)
		return res
	}
	if c.Via == "add" {
		if tabs := x.doc.Body.GetTables(); len(tabs) != 1 || tabs[0] != t {
			x.fail("C09.G4.init", nil, "AddTable did not put the returned table into the document body")
			return res
		}
	}
	x.t = t
	sizeLabels(res, c.Rows, c.Cols)
	return x.history(c)
}

// sizeLabels: the start sizes past the single digits.
func sizeLabels(res *kit.Result, rows, cols int) {
	if cols >= 10 {
		res.Label("start:>=10-columns")
	}
	if cols > 32 {
		res.Label("start:>32-columns")
	}
	if rows >= 10 {
		res.Label("start:>=10-rows")
	}
}

// startOpened reads the start table from the package that c.Open describes. It returns false when the case ends here.
func (x *exec) startOpened(c Case) bool {
	res := x.res
	x.desc = "open a document with the described table"
	if msg := c.Open.valid(); msg != "" {
		res.Label("start:invalid-description")
		res.Shape = "invalid-description"
		return false
	}
	var t *document.Table
	var mismatch string
	var err error
	res.Eval("C09.G1")
	if p, st := kit.Try(func() { x.doc, t, mismatch, err = openTable(c.Open) }); p != nil {
		x.fail("C09.G1", nil, "opening the document panicked: %v [%s]", p, st)
		return false
	}
	if err != nil || mismatch != "" {
		// the reader's fidelity is the subject of C03/C04/C06: count the case, judge nothing
		res.Label("start:opened-not-as-written")
		res.Count("opened-not-as-written", 1)
		res.Shape = "opened-not-as-written"
		return false
	}
	res.Label("start:opened")
	x.opened = true
	sh := describe(t)
	if c.Open.ragged() {
		res.Label("start:opened-ragged")
		x.startRagged = true
	}
	if sh.merged {
		res.Label("start:opened-merged")
	}
	if sh.maxSpan >= 10 {
		res.Label("start:opened-with-gridSpan>=10")
	}
	sizeLabels(res, sh.R, sh.G)
	for _, row := range c.Open.Rows {
		for _, cell := range row {
			if cell.Nested > 0 {
				res.Label("start:opened-nested")
			}
			if cell.Span == 1 {
				res.Label("start:opened-with-explicit-gridSpan-1")
			}
		}
	}
	x.t = t
	return true
}

// history applies the ops of the case to x.t and closes the result.
func (x *exec) history(c Case) *kit.Result {
	res := x.res
	if x.opened {
		x.shapeSig = append(x.shapeSig, "opened")
	}
	for i, op := range c.Ops {
		x.i, x.op, x.absorbed, x.oor, x.status, x.desc = i, op, false, false, "", op.K
		x.pre = DeepCopy(x.t)
		x.sh = describe(x.pre)
		x.preViol = map[string]bool{}
		for _, v := range invariants(x.pre) {
			x.preViol[v.clause] = true
		}
		if len(x.preViol) > 0 {
			x.everViolating = true
		}
		if !x.sh.rect {
			x.everNonRect = true
		}
		if x.sh.merged {
			x.everMerged = true
		}
		x.step(op)
		if debugTrace {
			fmt.Fprintf(os.Stderr, "TRACE op %d %s -> %s | %s\n", i, x.desc, x.status, render(x.t))
		}
		if x.sh.maxSpan >= 10 {
			res.Label("history:call-on-a-state-with-a-cell-spanning>=10")
			if isStructural[op.K] && x.status == "ok" {
				res.Label("history:structural-edit-on-a-state-with-a-cell-spanning>=10")
			}
		}
		if len(x.preViol) > 0 && isStructural[op.K] {
			switch x.status {
			case "err":
				x.raggedRejected++
			case "ok":
				x.raggedAccepted++
			}
		}
		if x.stop {
			break
		}
		if x.absorbed {
			// the failure belongs to an open finding: drop the op and continue from the state before it
			*x.t = *DeepCopy(x.pre)
			if op.K == "copy" {
				x.copyRollbacks++
			} else {
				x.rollbacks++
			}
			x.status = "kf"
		} else {
			x.checkFrozen()
			if x.stop {
				break
			}
		}
		rect := "R"
		if !x.sh.rect {
			rect = "N"
		}
		x.shapeSig = append(x.shapeSig, op.K+":"+x.status+":"+rect)
	}
	if !x.stop {
		x.i, x.desc, x.pre = len(c.Ops), "Document.ToBytes()", nil
		// the whole package for every table read from a file and one in eight of the others, the element alone otherwise
		x.checkSaved("the end of the history", x.opened || (len(c.Ops)+c.Rows+c.Cols)%8 == 0)
	}
	if c.Motif {
		res.Label("history:seam-motif")
	}
	if x.everMerged {
		res.Label("history:merged-state")
	}
	if x.everNonRect {
		res.Label("history:non-rectangular-state")
	}
	if x.everViolating {
		res.Label("history:ragged-state")
	}
	if x.raggedRejected > 0 {
		res.Label("ragged:rejected-structural-edit")
	}
	if x.raggedAccepted > 0 {
		res.Label("ragged:accepted-structural-edit")
	}
	if x.mergeOK > 0 {
		res.Label("history:successful-merge")
		if x.rollbacks == 0 {
			res.Label("history:merge-and-no-rollback")
		}
	}
	if x.nestedOK > 0 {
		res.Label("history:nested-table")
	}
	if x.copies > 0 {
		res.Label("history:copy")
	}
	if x.rollbacks > 0 {
		res.Label("history:rolled-back-op")
		res.Count("rolled-back-ops", x.rollbacks)
	}
	if x.copyRollbacks > 0 {
		res.Count("rolled-back-copies", x.copyRollbacks)
	}
	if x.rejectedOOR > 0 {
		res.Label("history:rejected-out-of-range")
	}
	res.Nontrivial = x.structOK >= 2 && (x.mergeOK >= 1 || x.nestedOK >= 1) && x.rejectedOOR >= 1
	res.Shape = strings.Join(x.shapeSig, "|")
	return res
}

package c09

import (
	"testing"

	"wzverif/internal/kit"
)

// FuzzC09: coverage-guided search over the generator and oracle of TestC09 (thorough tier; see internal/kit/fuzz.go).
func FuzzC09(f *testing.F) { kit.FuzzVia(f, TestC09) }

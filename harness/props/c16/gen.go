package c16

import (
	"strconv"
	"strings"

	"pgregory.net/rapid"

	"wzverif/internal/gen"
)

// ---------------------------------------------------------------------------------------------
// Name pools: pairwise disjoint, ASCII \w+, none of this / else / index / first / last, and disjoint from
// every word used as literal text or as a data value.

var (
	// the last names of each pool are words as the syntax allows them beyond identifiers: a digit or an underscore
	// first, digits only, one character, a name that differs from another one by case only
	// (qty1 / qty10, img1 / img10: one name is the other one plus a digit)
	varNames   = []string{"customer", "title", "city", "qty", "price", "owner", "memo", "code", "total_2024", "2fa", "_", "Title", "007", "N", "qty1", "qty10"}
	condNames  = []string{"isVip", "hasNote", "showSum", "enabled", "urgent", "IsVip", "_ok", "3d"}
	blockNames = []string{"header", "summary", "content", "footer", "b1", "b10", "b11", "sidebar", "nav", "intro", "legal", "b2"} // a family has 1-4 blocks, now and then 10-12
	imageNames = []string{"logo", "chart", "img1", "img10"}
)

// schema of the items of one list; field names are unique over all schemas so that an inner body can
// refer to a field of an enclosing item without shadowing.
type schema struct {
	name   string
	scalar bool
	fields []string
	bools  []string
	subs   []*schema
}

var topLists = []*schema{
	{name: "items", fields: []string{"label", "amount", "sku"}, bools: []string{"active", "done"}, subs: []*schema{
		{name: "subs", fields: []string{"sname", "sval"}, bools: []string{"okSub"}, subs: []*schema{
			{name: "leafs", fields: []string{"lname", "lval"}, bools: []string{"finLeaf"}},
			{name: "bits", scalar: true},
		}},
		{name: "parts", scalar: true},
	}},
	{name: "people", fields: []string{"pname", "role"}, bools: []string{"lead"}, subs: []*schema{
		{name: "tasks", fields: []string{"tname", "prio"}, bools: []string{"tdone"}},
	}},
	{name: "rows", fields: []string{"colA", "colB"}, bools: []string{"bold"}},
	{name: "tags", scalar: true},
	{name: "nums", scalar: true},
	{name: "2nd_list", fields: []string{"1st", "_f", "Label"}, bools: []string{"_on", "Done"}, subs: []*schema{
		{name: "_kids", scalar: true},
	}},
	{name: "L", scalar: true},
	// items with more fields than a small map holds (c1 / c10 / c11 / c12: names that extend another name by a digit)
	{name: "grid", fields: []string{"c1", "c2", "c3", "c4", "c5", "c6", "c7", "c8", "c9", "c10", "c11", "c12"}, bools: []string{"even"}},
}

// ---------------------------------------------------------------------------------------------
// Literal tokens. Rules that make "no concatenation of literals (and brace-safe values) forms a directive"
// hold by construction: no token ends with '{' or starts with '}', and inside a token "{{" is followed by a
// blank and "}}" is preceded by a blank. (A lone "{" is only ever placed directly before a directive and a
// lone "}" directly after one, see braceWrap.)

var litWords = []string{"Hello", "Total:", "Dear", "Report", "No.", "报告", "日期：", "Zürich", "x-1", "und", "#if", "@index", "/each", "else", "this",
	"#", "@", "/", "\"q\"", "[x]", "100%", "a&b", "<b>", "é", "😀",
	// text that means something to a regexp replacement template, a regexp or a format string: prices, shell-like text
	"$15.00", "$1", "$USD", "${net}", "$$", "\\1", "%s", "a\\b", "$", "(.*)"}
var litPunct = []string{" ", " ", " ", "  ", ", ", ". ", ": ", " - ", "\t", "; "}
var litBrace = []string{"{ ", " }", "a{b", "c}d", "{ { ", " } }", "{{ x }}", "{}", "{ x }", " }."}
var litNL = []string{"\n", "\n", "\n", "\n\n", " \n", "\n  ", "\n\t\n"}

type g struct {
	t         *rapid.T
	hazard    string // "", else, rescan, nestedctx, nestedabsent: the one open known-finding shape this case carries
	levels    int    // templates in the chain
	elseAny   bool   // else branches may be selected
	ctxAny    bool   // nested loops may use this / @index / @first / @last
	absentAny bool   // items may lack the list field a nested loop runs over without having another list field
	rescanAny bool   // data strings may fall into a re-scan class (see rescan.go); otherwise such strings are replaced
	// collected while generating the template
	usedVars  map[string]bool
	usedConds map[string]bool
	trueConds map[string]bool // conditions that must be true (an If-Else over them while else is restricted)
	trueBools map[string]bool // same for item fields tested by a conditional of a loop body
	condFlds  map[string]bool // item fields tested by a conditional of a loop body that carry a value of any of the documented condition types
	usedLists map[string]bool
	usedImgs  map[string]bool
	n         int               // label counter
	big       int               // big lists drawn so far (bounds the size of a case)
	longLit   bool              // this case may hold long literals
	forceVar  map[string]string // variables whose value is fixed by a fragment (frag.go)
	forceFld  map[string]string // item fields likewise (most items carry the value)
	seed      uint64            // see salt
}

func (x *g) lbl(s string) string { x.n++; return s + strconv.Itoa(x.n) }

// intn is a plain rapid draw (biased towards small values and the bounds: used for counts and kind
// selection, where "small" is also "simple" for shrinking).
func (x *g) intn(lo, hi int, l string) int { return rapid.IntRange(lo, hi).Draw(x.t, x.lbl(l)) }

// salt is a per-case, per-draw pseudo-random offset derived from one drawn seed; rotating a biased rapid
// draw by it gives choices that are uniform over the run (the shares below mean what they say).
func (x *g) salt() uint64 {
	z := x.seed + uint64(x.n)*0x9E3779B97F4A7C15
	z = (z ^ (z >> 30)) * 0xBF58476D1CE4E5B9
	z = (z ^ (z >> 27)) * 0x94D049BB133111EB
	return z ^ (z >> 31)
}
func (x *g) uniform(n int, l string) int {
	v := x.intn(0, n-1, l)
	return int((uint64(v) + x.salt()) % uint64(n))
}
func (x *g) pick(ws []string, l string) string { return ws[x.uniform(len(ws), l)] }
func (x *g) chance(pct int, l string) bool     { return x.uniform(100, l) < pct }

// lit draws a literal made of 1-4 tokens.
func (x *g) lit(nl bool) Node {
	s := ""
	if x.longLit && x.chance(20, "litlong") { // now and then a long stretch of text (70 .. 1500 characters, one line)
		s = strings.Repeat(x.pick([]string{"lorem ipsum ", "长文本，", "0123456789", "a{b c}d "}, "litlw"), []int{7, 11, 26, 52, 125}[x.uniform(5, "litln")])
	}
	for i, n := 0, x.intn(1, 4, "litn"); i < n; i++ {
		switch k := x.intn(0, 9, "litk"); {
		case k < 4:
			s += x.pick(litWords, "w")
		case k < 7:
			s += x.pick(litPunct, "p")
		case k < 8:
			s += x.pick(litBrace, "b")
		default:
			if nl {
				s += x.pick(litNL, "nl")
			} else {
				s += x.pick(litPunct, "p")
			}
		}
	}
	return Node{K: KLit, S: s}
}

// braceWrap: {{{name}}} — a lone brace directly around a directive.
func braceWrap(n Node) []Node { return []Node{{K: KLit, S: "{"}, n, {K: KLit, S: "}"}} }

func (x *g) variable() Node {
	v := x.pick(varNames, "var")
	x.usedVars[v] = true
	return Node{K: KVar, S: v}
}

// flat parts for conditional branches at top level: literals and variables (and, rarely, a loop without
// inner conditionals: conditionals do not nest in the documented grammar).
func (x *g) topBranch() []Node {
	var out []Node
	for i, n := 0, x.intn(0, 3, "brn"); i < n; i++ {
		switch k := x.intn(0, 9, "brk"); {
		case k < 5:
			out = append(out, x.lit(true))
		case k < 9:
			out = append(out, x.variable())
		default:
			out = append(out, x.each(topLists[x.intn(0, len(topLists)-1, "lst")], 1, false))
		}
	}
	return out
}

func (x *g) topIf() Node {
	c := x.pick(condNames, "cond")
	x.usedConds[c] = true
	n := Node{K: KIf, S: c, A: x.topBranch()}
	if len(n.A) == 0 {
		n.A = []Node{x.lit(false)}
	}
	if x.chance(45, "else") {
		n.Else = true
		n.B = x.topBranch()
		if !x.elseAny {
			x.trueConds[c] = true
		}
	}
	return n
}

// ctxAllowed: may a body at this loop depth use {{this}} / {{@index}} / {{@first}} / {{@last}}?
func (x *g) ctxAllowed(depth int) bool { return depth == 1 || x.ctxAny }

// item-level placeholder usable in a body of schema s at loop depth d (anc = enclosing map schemas).
func (x *g) itemPart(s *schema, anc []*schema, depth int) Node {
	for try := 0; ; try++ {
		switch k := x.intn(0, 9, "ipk"); {
		case k < 4 && !s.scalar:
			return Node{K: KField, S: x.pick(s.fields, "fld")}
		case k < 4 && s.scalar && x.ctxAllowed(depth):
			return Node{K: KThis}
		case k == 4 && !s.scalar && len(s.bools) > 0:
			return Node{K: KField, S: x.pick(s.bools, "bfld")}
		case k == 5 && len(anc) > 0:
			a := anc[x.intn(0, len(anc)-1, "anc")]
			return Node{K: KField, S: x.pick(a.fields, "afld")}
		case k == 6 && x.ctxAllowed(depth):
			return Node{K: KIndex}
		case k == 7 && x.ctxAllowed(depth):
			return Node{K: KFirst}
		case k == 8 && x.ctxAllowed(depth):
			return Node{K: KLast}
		case k == 9:
			return x.variable()
		}
		if try > 8 {
			return x.lit(false)
		}
	}
}

func (x *g) loopBranch(s *schema, anc []*schema, depth int) []Node {
	var out []Node
	for i, n := 0, x.intn(0, 3, "lbn"); i < n; i++ {
		if x.chance(50, "lbk") {
			out = append(out, x.lit(true))
		} else {
			out = append(out, x.itemPart(s, anc, depth))
		}
	}
	return out
}

// each draws a loop over schema s at loop depth `depth` (1 = top level loop). allowIf=false inside a
// conditional branch.
func (x *g) each(s *schema, depth int, allowIf bool) Node {
	if depth == 1 {
		x.usedLists[s.name] = true
	}
	return Node{K: KEach, S: s.name, A: x.body(s, nil, depth, allowIf)}
}

func (x *g) body(s *schema, anc []*schema, depth int, allowIf bool) []Node {
	var out []Node
	usedCtx := false
	for i, n := 0, x.intn(1, 5, "bodyn"); i < n; i++ {
		switch k := x.intn(0, 11, "bodyk"); {
		case k < 4:
			out = append(out, x.lit(true))
		case k < 8:
			p := x.itemPart(s, anc, depth)
			if p.K == KThis || p.K == KIndex || p.K == KFirst || p.K == KLast {
				usedCtx = true
			}
			if x.chance(8, "wrap") && p.K != KLit {
				out = append(out, braceWrap(p)...)
			} else {
				out = append(out, p)
			}
		case k < 10 && allowIf && !s.scalar && len(s.bools) > 0:
			// the field tested: a flag of the item (a bool, or - half of the time - a value of any documented
			// condition type), or one of its ordinary fields (which then carries a value of such a type)
			b := x.pick(s.bools, "ifb")
			switch k := x.uniform(10, "ifk"); {
			case k < 4:
				b = x.pick(s.fields, "iff")
				x.condFlds[b] = true
			case k < 7:
				x.condFlds[b] = true
			}
			nd := Node{K: KIf, S: b, A: x.loopBranch(s, anc, depth)}
			if len(nd.A) == 0 {
				nd.A = []Node{x.lit(false)}
			}
			if x.chance(40, "lelse") {
				nd.Else = true
				nd.B = x.loopBranch(s, anc, depth)
				if !x.elseAny {
					x.trueBools[b] = true
				}
			}
			out = append(out, nd)
		case k >= 10 && !s.scalar && len(s.subs) > 0 && depth < 3:
			sub := s.subs[x.intn(0, len(s.subs)-1, "sub")]
			out = append(out, Node{K: KEach, S: sub.name, A: x.body(sub, append(anc[:len(anc):len(anc)], s), depth+1, allowIf)})
		default:
			out = append(out, x.lit(true))
		}
	}
	if x.chance(9, "frag") { // a directive token spelled by a value and its neighbours (frag.go)
		out = append(out, x.fragment(s)...)
	}
	if (x.hazard == "nestedctx" || x.hazard == "nestedabsent") && !s.scalar && len(s.subs) > 0 && depth < 3 && x.chance(70, "hznest") {
		sub := s.subs[x.intn(0, len(s.subs)-1, "sub")]
		out = append(out, Node{K: KEach, S: sub.name, A: x.body(sub, append(anc[:len(anc):len(anc)], s), depth+1, allowIf)})
	}
	if depth >= 2 && x.hazard == "nestedctx" && !usedCtx {
		if s.scalar {
			out = append(out, Node{K: KThis})
		} else {
			out = append(out, []Node{{K: KIndex}, {K: KLast}, {K: KFirst}}[x.intn(0, 2, "fctx")])
		}
	}
	// a separator at the end of most bodies so that items are told apart
	if x.chance(70, "sep") {
		out = append(out, Node{K: KLit, S: x.pick([]string{"\n", "; ", "|", ", ", "\n"}, "sepv")})
	}
	return out
}

// top draws a sequence of top-level parts (also used for block bodies; blocks=false there).
func (x *g) top(min, max int, blocks []string, images bool) []Node {
	var out []Node
	bi := 0
	for i, n := 0, x.intn(min, max, "topn"); i < n; i++ {
		switch k := x.intn(0, 19, "topk"); {
		case k < 6:
			out = append(out, x.lit(true))
		case k < 10:
			v := x.variable()
			if x.chance(10, "wrap") {
				out = append(out, braceWrap(v)...)
			} else {
				out = append(out, v)
			}
		case k < 13:
			out = append(out, x.topIf())
		case k < 17:
			out = append(out, x.each(topLists[x.intn(0, len(topLists)-1, "lst")], 1, true))
		case k < 18 && images:
			if x.chance(45, "imgline") {
				out = append(out, x.imageLine()...)
				break
			}
			im := x.pick(imageNames, "img")
			x.usedImgs[im] = true
			out = append(out, Node{K: KLit, S: "\n"}, Node{K: KImage, S: im}, Node{K: KLit, S: "\n"})
		default:
			out = append(out, Node{K: KLit, S: x.pick(litNL, "nl")})
		}
		if x.chance(4, "frag") { // a directive token spelled by a value and its neighbours (frag.go)
			out = append(out, x.fragment(nil)...)
		}
		// interleave the blocks of the base template
		if bi < len(blocks) && x.chance(50, "blk") {
			out = append(out, x.block(blocks[bi]))
			bi++
		}
	}
	for ; bi < len(blocks); bi++ {
		out = append(out, x.block(blocks[bi]))
	}
	return out
}

// imageLine draws 1-3 image placeholders inside a line of text: [text] image ([text] image)* [text], where text is
// literal tokens without newlines and variables, and a further placeholder mostly names the same image again.
func (x *g) imageLine() []Node {
	var out []Node
	if x.chance(50, "ilnl") {
		out = append(out, Node{K: KLit, S: "\n"})
	}
	seg := func() {
		for i, n := 0, x.intn(0, 2, "ilsegn"); i < n; i++ {
			if x.chance(60, "ilsegk") {
				out = append(out, x.lit(false))
			} else {
				out = append(out, x.variable())
			}
		}
	}
	seg()
	first := x.pick(imageNames, "img")
	x.usedImgs[first] = true
	out = append(out, Node{K: KImage, S: first})
	for i, n := 0, x.intn(0, 2, "ilmore"); i < n; i++ {
		seg()
		im := first
		if x.chance(40, "ilother") {
			im = x.pick(imageNames, "img")
		}
		x.usedImgs[im] = true
		out = append(out, Node{K: KImage, S: im})
	}
	seg()
	if x.chance(50, "ilnl2") {
		out = append(out, Node{K: KLit, S: "\n"})
	}
	return out
}

func (x *g) block(name string) Node {
	b := Node{K: KBlock, S: name, A: x.top(0, 3, nil, false)}
	if x.chance(60, "blknl") { // the documented layout: markers on their own lines
		b.A = append([]Node{{K: KLit, S: "\n"}}, append(b.A, Node{K: KLit, S: "\n"})...)
		return b
	}
	return b
}

// ---------------------------------------------------------------------------------------------
// Data.

var valWords = []string{"Alice", "Bob", "ACME Ltd.", "東京", "München", "N/A", "x", "42nd", "a b  c", " lead", "trail ", "O'Neil", "<tag>", "&amp;", "50%", "#1", "@home", "😀 ok",
	"if", "each done", "[1]", "$5.00", "\\n"}

// brace-safe values obey the same rules as literal tokens (no trailing '{', no leading '}', no "{{" / "}}")
var valBraceSafe = []string{"a{b", "c}d", "x { y } z", "{ }", "{k}", "q}", "{ {x} }", "{x"}
var valMultiline = []string{"line1\nline2", "\nlead", "trail\n", "a\n\nb", " \n "}

// values with double braces that are not directives, and short pieces of directives. A value is text whatever it
// spells together with its neighbours (see frag.go for the cases that spell a token on purpose).
var valBraceOpen = []string{"{{", "a{{", "a{{b", "<{{>", "{{ x }}", "{{ }}", "x-}}y", "( }} )", "-}}{{-", "{{ customer }}", "{ {customer} }", "{{customer }}", "{{ #if isVip }}",
	// short pieces of directives (1-4 bytes), closing braces first among them
	"}}", "}", "x}}", "{{a", "{{#", "{{/", "e}}", "}}{{", "{", "{{@"}

// directive-like strings: whole directive tokens inside a value. Whether the unchanged library re-interprets one
// depends on where the value is inserted and on the kind of directive (rescan.go); everywhere else the value is
// judged exactly like any other text.
var valDirective = []string{"{{customer}}", "{{label}}", "{{sname}}", "{{#each tags}}X{{/each}}", "{{#if isVip}}Y{{/if}}", "{{else}}", "{{", "a{{b", "{{@index}}", "{{this}}",
	"{{/each}}", "{{/if}}", "{{#if active}}", "{{pname}} {{role}}", "{{#image logo}}", "{{unknown}}", "{{#each tags}}", "[IMAGE:logo]", "{{@last}}", "{{#block \"header\"}}Z{{/block}}"}

var valDirStatic = []string{"{{/if}}", "{{else}}", "{{/each}}", "{{this}}", "{{@index}}", "{{@first}}", "{{/block}}", "{{extends \"t0\"}}", "{{#block \"header\"}}x{{/block}}",
	"{{#each tags}}", "{{#each tags}}X{{/each}}", "{{#if isVip}}Y{{/if}}", "{{#if isVip}}", "{{#image logo}}", "{{unknown}}", "{{nope}}", "{{items}}", "{{tags}}", "{{header}}"}

// dirLike draws a value containing a directive token: mostly a plain placeholder naming a variable, a condition,
// a list, an item field or nothing that exists.
func (x *g) dirLike() string {
	var tok string
	switch k := x.uniform(10, "dlk"); {
	case k < 4:
		tok = "{{" + x.pick(varNames, "dlv") + "}}"
	case k < 5:
		tok = "{{" + x.pick(condNames, "dlc") + "}}"
	case k < 6:
		s := topLists[x.uniform(len(topLists), "dll")]
		if s.scalar || x.chance(30, "dlln") {
			tok = "{{" + s.name + "}}"
		} else {
			tok = "{{" + x.pick(s.fields, "dlf") + "}}"
		}
	default:
		tok = x.pick(valDirStatic, "dls")
	}
	switch x.uniform(4, "dlw") {
	case 0:
		return "see " + tok
	case 1:
		return tok + " " + x.pick(valWords, "dlw2")
	}
	return tok
}

func (x *g) scalar() Val {
	k := x.intn(0, 19, "valk")
	switch {
	case k < 6:
		return Val{T: "s", S: x.pick(valWords, "vw")}
	case k < 7:
		return Val{T: "s", S: x.pick(valBraceOpen, "vbo")}
	case k < 8:
		return Val{T: "s", S: x.dirLike()}
	case k < 9:
		return Val{T: "s", S: ""}
	case k < 10:
		return Val{T: "s", S: x.pick([]string{" ", "  ", "\t"}, "vblank")}
	case k < 11:
		return Val{T: "s", S: x.pick(valBraceSafe, "vb")}
	case k < 12:
		return Val{T: "s", S: x.pick(valMultiline, "vm")}
	case k < 14:
		if x.chance(30, "viedge") {
			return Val{T: "i", S: strconv.FormatInt(x.edgeInt(), 10)}
		}
		return Val{T: "i", S: strconv.Itoa(x.intn(-50, 5000, "vi"))}
	case k < 15:
		if x.chance(50, "vledge") {
			return Val{T: "l", S: strconv.FormatInt(x.edgeInt(), 10)}
		}
		return Val{T: "l", S: strconv.FormatInt(int64(x.intn(-9, 9, "vl"))*1000000007+int64(x.intn(0, 999, "vl2")), 10)}
	case k < 17:
		return x.float()
	case k < 18:
		return Val{T: "b", B: x.chance(50, "vbool")}
	case k < 19:
		return Val{T: "n"}
	}
	return Val{T: "s", S: x.pick(valWords, "vw") + " " + x.pick(valWords, "vw2")}
}

// float draws a float64 through a decimal text with 1-3 fractional digits whose last digit is not 0: that text
// is the shortest decimal denoting the float, hence "its value" as text without any formatting convention
// (trailing zeros, ".0" for whole numbers and exponent forms never arise).
func (x *g) float() Val {
	if x.chance(40, "fedge") { // or a float at the edges of the type, see edge.go
		return x.edgeFloat()
	}
	ip := x.intn(0, 999, "fi")
	dec := x.intn(1, 3, "fd")
	s := ""
	for i := 0; i < dec; i++ {
		lo := 0
		if i == dec-1 {
			lo = 1
		}
		s += strconv.Itoa(x.intn(lo, 9, "fdig"))
	}
	t := strconv.Itoa(ip) + "." + s
	if x.chance(20, "fneg") {
		t = "-" + t
	}
	return Val{T: "f", S: t}
}

// condVal draws the value of an item field that a conditional of the loop body tests: a value of one of the types
// the documents list for conditions (bool, string, int, int64, float64) - the empty / zero value of the type in
// close to half of the draws (never when truthy is demanded), else any other value of the type: negative and huge
// numbers, fractions below one, tiny floats, strings of one character, with braces, in any script. Strings made
// of blanks only and the words a reader might take for "false" (false, 0, no ...) are not drawn, NaN neither: the
// documents speak of empty and zero values, and say nothing about those.
func (x *g) condVal(truthy bool) Val {
	zero := !truthy && x.chance(45, "cvzero")
	switch k := x.uniform(10, "cvk"); {
	case k < 2:
		return Val{T: "b", B: !zero}
	case k < 4:
		if zero {
			return Val{T: "s", S: ""}
		}
		switch x.uniform(6, "cvs") {
		case 0:
			return Val{T: "s", S: x.pick(valBraceSafe, "cvsb")}
		case 1:
			return Val{T: "s", S: x.pick(valBraceOpen, "cvso")}
		case 2:
			return Val{T: "s", S: x.pick([]string{"x", "-", "是", "Ω", "a b", "y\nz", "00", "t"}, "cvs1")}
		}
		return Val{T: "s", S: x.pick(valWords, "cvsw")}
	case k < 8:
		t := "i"
		if k >= 6 {
			t = "l"
		}
		if zero {
			return Val{T: t, S: "0"}
		}
		var n int64
		switch x.uniform(4, "cvi") {
		case 0:
			n = x.edgeInt()
		case 1:
			n = -int64(x.intn(1, 5000, "cvin"))
		default:
			n = int64(x.intn(1, 5000, "cvip"))
		}
		if n == 0 {
			n = -1
		}
		return Val{T: t, S: strconv.FormatInt(n, 10)}
	}
	if zero {
		return Val{T: "f", S: x.pick([]string{"0", "0", "0", "-0"}, "cvfz")}
	}
	for try := 0; try < 6; try++ {
		v := x.float()
		if f := v.float(); f != 0 && f == f {
			return v
		}
	}
	return Val{T: "f", S: x.pick([]string{"0.5", "-0.5", "-1.5", "2.25", "0.001"}, "cvff")}
}

func (x *g) item(s *schema, depth int) Val {
	if s.scalar {
		if s.name == "nums" {
			if x.chance(50, "numk") {
				if x.chance(25, "numedge") {
					return Val{T: "i", S: strconv.FormatInt(x.edgeInt(), 10)}
				}
				return Val{T: "i", S: strconv.Itoa(x.intn(-9, 99, "num"))}
			}
			return x.float()
		}
		v := x.scalar()
		if v.T == "n" { // nil items are not in the documented data shapes
			v = Val{T: "s", S: ""}
		}
		return v
	}
	m := map[string]Val{}
	for _, f := range s.fields {
		fv, forced := x.forceFld[f]
		switch {
		case forced && !x.condFlds[f] && x.chance(80, "ffpres"):
			m[f] = Val{T: "s", S: fv}
		case x.condFlds[f] && x.trueBools[f]:
			m[f] = x.condVal(true)
		case x.condFlds[f]:
			if x.chance(85, "cfpres") {
				m[f] = x.condVal(false)
			}
		case x.chance(88, "fpres"):
			m[f] = x.scalar()
		}
	}
	for _, b := range s.bools {
		switch {
		case x.trueBools[b] && x.condFlds[b]:
			m[b] = x.condVal(true)
		case x.trueBools[b]:
			m[b] = Val{T: "b", B: true}
		case x.chance(85, "bpres"):
			if x.condFlds[b] {
				m[b] = x.condVal(false)
			} else {
				m[b] = Val{T: "b", B: x.chance(50, "bval")}
			}
		}
	}
	nlists := 0
	for i, sub := range s.subs {
		absent := false
		switch {
		case x.absentAny:
			absent = x.chance(40, "sabs")
		case i > 0 && nlists > 0: // may be left out: the item has another list-valued field
			absent = x.chance(15, "sabs")
		}
		if absent {
			continue
		}
		nlists++
		m[sub.name] = Val{T: "a", L: x.list(sub, depth+1)}
	}
	return Val{T: "m", M: m}
}

func (x *g) list(s *schema, depth int) []Val {
	n := []int{0, 1, 2, 2, 3, 3, 4}[x.intn(0, 6, "listn")]
	if depth >= 2 && (n > 3 || (x.big > 0 && n > 2)) {
		n = 2
	}
	// now and then a list past the sizes at which an index, a count of inserted values or a count of output lines
	// gets another digit or outgrows a small table: 10, 11, 12, 17, 33, 65 items (top-level lists; now and then
	// 10-12 items in a nested one)
	switch {
	case depth == 1 && x.chance(3, "listbig"):
		n = []int{10, 11, 12, 10, 11, 12, 17, 33, 65}[x.uniform(9, "listbign")]
		x.big++
	case depth == 2 && x.big == 0 && x.chance(2, "listbig2"):
		n = 10 + x.uniform(3, "listbign2")
	}
	out := make([]Val, 0, n)
	for i := 0; i < n; i++ {
		out = append(out, x.item(s, depth))
	}
	return out
}

func (x *g) data() Data {
	d := Data{Vars: map[string]Val{}, Conds: map[string]bool{}, Lists: map[string][]Val{}, Images: map[string]gen.Img{}}
	for _, v := range varNames {
		if s, ok := x.forceVar[v]; ok {
			d.Vars[v] = Val{T: "s", S: s}
			continue
		}
		if (x.usedVars[v] && x.chance(72, "vpres")) || (!x.usedVars[v] && x.chance(15, "vextra")) {
			d.Vars[v] = x.scalar()
		}
	}
	for _, c := range condNames {
		switch {
		case x.trueConds[c]:
			d.Conds[c] = true
		case x.usedConds[c]:
			if k := x.intn(0, 9, "ck"); k < 4 {
				d.Conds[c] = true
			} else if k < 7 {
				d.Conds[c] = false
			}
		case x.chance(10, "cextra"):
			d.Conds[c] = x.chance(50, "cval")
		}
	}
	for _, s := range topLists {
		if (x.usedLists[s.name] && x.chance(88, "lpres")) || (!x.usedLists[s.name] && x.chance(8, "lextra")) {
			d.Lists[s.name] = x.list(s, 1)
		}
	}
	i := 0
	for _, im := range imageNames {
		i++
		if x.usedImgs[im] { // always supplied: the documents do not say what a missing image renders as
			d.Images[im] = gen.Img{Fmt: []string{"png", "jpeg", "gif"}[x.intn(0, 2, "imf")], W: 3 + 4*i, H: 2 + 3*i, Pat: x.intn(0, 1000, "imp"), Name: im}
		}
	}
	return d
}

// usedVarList: the variables the template refers to, in pool order.
func (x *g) usedVarList() []string {
	var used []string
	for _, v := range varNames {
		if x.usedVars[v] {
			used = append(used, v)
		}
	}
	return used
}

// nameOther makes the value of one used variable name ANOTHER supplied variable ("{{other}}").
func (x *g) nameOther(c *Case) bool {
	used := x.usedVarList()
	if len(used) == 0 {
		return false
	}
	a := used[x.uniform(len(used), "noa")]
	var others []string
	for _, v := range varNames {
		if _, ok := c.Data.Vars[v]; ok && v != a {
			others = append(others, v)
		}
	}
	if len(others) == 0 {
		b := varNames[x.uniform(len(varNames), "nob")]
		if b == a {
			return false
		}
		c.Data.Vars[b] = x.scalar()
		others = []string{b}
	}
	b := others[x.uniform(len(others), "nob2")]
	v := "{{" + b + "}}"
	switch x.uniform(4, "nof") {
	case 0:
		v = "see " + v
	case 1:
		v = v + "!"
	case 2:
		if len(others) > 1 {
			v = v + " / {{" + others[x.uniform(len(others), "nob3")] + "}}"
		}
	}
	c.Data.Vars[a] = Val{T: "s", S: v}
	return true
}

// poison puts a directive-like string into a value that the template uses, in one of the positions where an
// open re-scan finding applies (hazard rescan).
func (x *g) poison(c *Case) {
	switch x.uniform(3, "poisonkind") {
	case 1: // successive substitution of the item's placeholders
		for _, sc := range topLists {
			l := c.Data.Lists[sc.name]
			if len(l) == 0 {
				continue
			}
			if sc.scalar && sc.name == "tags" {
				l[x.uniform(len(l), "pfi")] = Val{T: "s", S: x.pick([]string{"{{@index}}", "{{@last}}.", "n={{@first}}"}, "pfv")}
				return
			}
			if !sc.scalar && l[0].T == "m" {
				it := l[x.uniform(len(l), "pfi")]
				if it.T == "m" {
					it.M[sc.fields[0]] = Val{T: "s", S: "{{" + sc.fields[1] + "}}"}
					if x.chance(70, "pfo") {
						it.M[sc.fields[1]] = Val{T: "s", S: "F2"}
					}
					return
				}
			}
		}
	case 2: // a derived template runs the pipeline again over the rendered text of its base
		if x.levels >= 2 && x.nameOther(c) {
			return
		}
	}
	s := x.pick(valDirective, "poison")
	used := x.usedVarList()
	// prefer an item field when a used list has map items
	if x.chance(50, "poisonwhere") || len(used) == 0 {
		for _, sc := range topLists {
			if l := c.Data.Lists[sc.name]; !sc.scalar && len(l) > 0 && l[0].T == "m" {
				l[0].M[sc.fields[0]] = Val{T: "s", S: s}
				return
			}
			if l := c.Data.Lists[sc.name]; sc.scalar && len(l) > 0 && sc.name == "tags" {
				l[len(l)-1] = Val{T: "s", S: s}
				return
			}
		}
	}
	if len(used) > 0 {
		c.Data.Vars[used[x.intn(0, len(used)-1, "poisonvar")]] = Val{T: "s", S: s}
		return
	}
	c.Data.Vars[varNames[0]] = Val{T: "s", S: s}
}

// sanitise replaces every data string that falls into a re-scan class of an open finding by plain text, so that
// the cases without the rescan hazard are judged exactly whatever braces their values contain.
func sanitise(c *Case) int {
	n := 0
	var in *rsInfo
	c.rewriteDataStrings(func(ctx strCtx, s string) (string, bool) {
		if !strings.Contains(s, "{{") && !strings.Contains(s, "[IMAGE:") {
			return s, false
		}
		if in == nil {
			in = c.rescanInfo()
		}
		if len(classify(ctx, s, in)) == 0 {
			return s, false
		}
		n++
		return "n/a", true
	})
	return n
}

// ---------------------------------------------------------------------------------------------
// Load schedules (the history of the engine before the chain is loaded base-to-child).

func (x *g) oldVersion(c *Case, t int, blocks []string) int {
	v := Version{T: t}
	if t == 0 {
		v.Base = append([]Node{{K: KLit, S: "old base "}}, x.top(0, 3, blocks, false)...)
	} else {
		for _, b := range blocks {
			if x.chance(60, "oovr") {
				v.Ov = append(v.Ov, Override{Name: b, Body: append([]Node{{K: KLit, S: "old "}}, x.top(0, 2, nil, false)...)})
			}
		}
		if len(v.Ov) == 0 {
			v.Ov = []Override{{Name: blocks[0], Body: []Node{{K: KLit, S: "old"}}}}
		}
	}
	c.Old = append(c.Old, v)
	return len(c.Old)
}

func (x *g) schedule(c *Case, blocks []string) {
	n := x.levels
	if !x.chance(62, "sched") {
		return
	}
	for seg, segs := 0, x.intn(1, 2, "segs"); seg < segs; seg++ {
		k := x.uniform(3, "segk")
		if n == 1 && k == 0 {
			k = 1 + x.uniform(2, "segk1")
		}
		switch k {
		case 0: // child first: a template is loaded while its base is not there
			switch x.uniform(3, "cfk") {
			case 0: // the rendered template alone
				c.Pre = append(c.Pre, Load{T: n - 1})
			case 1: // the whole chain child-to-base
				for i := n - 1; i >= 0; i-- {
					c.Pre = append(c.Pre, Load{T: i})
				}
			default: // everything but the base, in order
				for i := 1; i < n; i++ {
					c.Pre = append(c.Pre, Load{T: i})
				}
			}
		case 1: // an earlier version of template j, its descendants loaded on top of it
			j := 0
			if n > 1 {
				j = x.uniform(n, "brj")
				if j == n-1 && x.chance(70, "brj2") { // mostly a base of something
					j = x.uniform(n-1, "brj3")
				}
			}
			if len(blocks) == 0 && j > 0 {
				j = 0
			}
			if x.chance(40, "brfull") { // the versions before it first
				for i := 0; i < j; i++ {
					c.Pre = append(c.Pre, Load{T: i})
				}
			}
			c.Pre = append(c.Pre, Load{T: j, V: x.oldVersion(c, j, blocks)})
			for i := j + 1; i < n; i++ {
				c.Pre = append(c.Pre, Load{T: i})
			}
		default: // the chain with its final sources (the final phase loads identical texts again)
			for i := 0; i < n; i++ {
				c.Pre = append(c.Pre, Load{T: i})
			}
			if x.chance(25, "rstwice") {
				c.Pre = append(c.Pre, Load{T: n - 1})
			}
		}
	}
}

// forceElse makes sure that a case carrying the else hazard really selects an else branch at top level.
func (x *g) forceElse(c *Case) {
	for _, n := range c.Base {
		if n.K == KIf && n.Else {
			delete(c.Data.Conds, n.S)
			if x.chance(50, "felse") {
				c.Data.Conds[n.S] = false
			}
			return
		}
	}
	cn := condNames[x.intn(0, len(condNames)-1, "felsec")]
	delete(c.Data.Conds, cn)
	c.Base = append(c.Base, Node{K: KIf, S: cn, A: []Node{{K: KLit, S: "yes"}}, Else: true, B: []Node{{K: KLit, S: "no"}}})
}

// ---------------------------------------------------------------------------------------------

// hazardShare is the share (percent) of cases in which ONE of the open known-finding shapes may occur.
const hazardShare = 16

func genCase(t *rapid.T) Case {
	x := &g{t: t, usedVars: map[string]bool{}, usedConds: map[string]bool{}, trueConds: map[string]bool{}, trueBools: map[string]bool{}, condFlds: map[string]bool{},
		usedLists: map[string]bool{}, usedImgs: map[string]bool{}, forceVar: map[string]string{}, forceFld: map[string]string{}}
	x.seed = rapid.Uint64().Draw(t, "seed")
	var hz []string
	rescanOpen := openKF["KF-C16-rescan"] || openKF["KF-C16-rescan-fields"] || openKF["KF-C16-rescan-inherit"]
	for _, h := range []struct {
		open bool
		name string
	}{{openKF["KF-C16-else"], "else"}, {rescanOpen, "rescan"}, {openKF["KF-C16-nested-context"], "nestedctx"}, {openKF["KF-C16-nested-absent"], "nestedabsent"}} {
		if h.open {
			hz = append(hz, h.name)
		}
	}
	if len(hz) > 0 && x.chance(hazardShare, "hazard") {
		x.hazard = hz[x.uniform(len(hz), "hazardk")]
	}
	// the shape of an open finding occurs only in the cases that carry that hazard; once a finding is no
	// longer open its shape is an ordinary one
	x.elseAny = !openKF["KF-C16-else"] || x.hazard == "else"
	x.ctxAny = (!openKF["KF-C16-nested-context"] && x.chance(40, "ctxfree")) || x.hazard == "nestedctx"
	x.absentAny = (!openKF["KF-C16-nested-absent"] && x.chance(30, "absfree")) || x.hazard == "nestedabsent"
	x.rescanAny = !rescanOpen || x.hazard == "rescan"

	c := Case{Entry: x.intn(0, 1, "entry")}
	x.longLit = x.chance(4, "longlit")
	levels := []int{1, 1, 1, 2, 2, 3}[x.intn(0, 5, "levels")]
	if x.chance(4, "deepchain") { // now and then a longer chain of derived templates
		levels = 4 + x.uniform(3, "deeplv")
	}
	x.levels = levels
	var blocks []string
	if levels > 1 || x.chance(15, "soloBlocks") {
		nb := x.intn(1, 4, "nblocks")
		if x.chance(3, "manyblocks") {
			nb = 10 + x.uniform(3, "nblocks2")
		}
		blocks = x.blockNamesFor(nb)
	}
	if x.chance(2, "longtop") { // now and then a template with more than ten directives of a kind
		c.Base = x.top(12, 24, blocks, true)
	} else {
		c.Base = x.top(1, 7, blocks, true)
	}
	if x.hazard == "nestedctx" || x.hazard == "nestedabsent" {
		c.Base = append(c.Base, x.each(topLists[x.intn(0, 1, "hzlist")], 1, true))
	}
	for lv := 1; lv < levels; lv++ {
		var ov []Override
		for _, b := range blocks {
			if x.chance(50, "ovr") {
				ov = append(ov, Override{Name: b, Body: x.top(0, 3, nil, false)})
			}
		}
		if len(ov) == 0 {
			ov = append(ov, Override{Name: blocks[0], Body: x.top(1, 3, nil, false)})
		}
		c.Children = append(c.Children, ov)
	}
	// siblings: further templates derived from a template of the family, and the renders before the final one
	if len(blocks) > 0 && x.chance(55, "sibs") {
		for j, n := 0, x.intn(1, 2, "nsib"); j < n; j++ {
			sb := Sib{P: x.uniform(levels+j, "sibp")}
			for _, b := range blocks {
				if x.chance(50, "sovr") {
					sb.Ov = append(sb.Ov, Override{Name: b, Body: x.top(0, 3, nil, false)})
				}
			}
			if len(sb.Ov) == 0 && x.chance(80, "sovr1") {
				sb.Ov = append(sb.Ov, Override{Name: blocks[x.uniform(len(blocks), "sovrb")], Body: x.top(1, 3, nil, false)})
			}
			c.Sibs = append(c.Sibs, sb)
		}
	}
	if nt := levels + len(c.Sibs); nt >= 2 && x.chance(70, "seq") {
		for i, n := 0, x.intn(1, 3, "seqn"); i < n; i++ {
			c.Seq = append(c.Seq, x.uniform(nt, "seqk"))
		}
	}
	// names of the templates: t0, t1, s0 ... or, for four families in ten, names as users write them
	if nt := levels + len(c.Sibs); nt >= 2 && x.chance(40, "tplnames") {
		c.Names = x.distinct(tplNamesUnusual, nt, "tpln")
	}
	c.Data = x.data()
	// often: a used variable whose value names another supplied variable. With one template level this is judged
	// exactly; with a derived template it is a re-scan class, hence only under the hazard there.
	if (levels == 1 || x.rescanAny) && x.chance(22, "nameother") {
		x.nameOther(&c)
	}
	if x.hazard == "rescan" || (!rescanOpen && x.chance(10, "rescanfree")) {
		x.poison(&c)
	}
	if !x.rescanAny {
		sanitise(&c)
	}
	x.schedule(&c, blocks)
	if x.hazard == "else" {
		x.forceElse(&c)
	}
	c.Hazard = x.hazard
	return c
}

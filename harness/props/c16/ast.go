package c16

import (
	"math"
	"strconv"
	"strings"

	"wzverif/internal/gen"
)

// ---------------------------------------------------------------------------------------------
// Case: a template chain as ASTs plus the data, all plain JSON.

// Node kinds.
const (
	KLit   = "lit"   // S = literal text
	KVar   = "var"   // S = global variable name                  {{name}}
	KIf    = "if"    // S = condition, A = then, B = else (Else)  {{#if c}}..{{else}}..{{/if}}
	KEach  = "each"  // S = list (top level) / list field (nested), A = body
	KField = "field" // S = field of the current (or an enclosing) item  {{name}}
	KThis  = "this"  // {{this}}
	KIndex = "index" // {{@index}}
	KFirst = "first" // {{@first}}
	KLast  = "last"  // {{@last}}
	KBlock = "block" // S = block name, A = default content       {{#block "n"}}..{{/block}}
	KImage = "image" // S = image name; alone on a line or inside a line of text  {{#image n}}
)

type Node struct {
	K    string `json:"k"`
	S    string `json:"s,omitempty"`
	A    []Node `json:"a,omitempty"`
	Else bool   `json:"else,omitempty"`
	B    []Node `json:"b,omitempty"`
}

// Val is one data value with its Go type made explicit (JSON numbers would lose int / int64 / float64).
//
//	s string | i int | l int64 | f float64 (S = its decimal text) | b bool | n nil | m map | a list
type Val struct {
	T string         `json:"t"`
	S string         `json:"s,omitempty"`
	B bool           `json:"b,omitempty"`
	M map[string]Val `json:"m,omitempty"`
	L []Val          `json:"l,omitempty"`
}

// Override is one block redefinition of a derived template.
type Override struct {
	Name string `json:"name"`
	Body []Node `json:"body"`
}

type Data struct {
	Vars   map[string]Val     `json:"vars,omitempty"`
	Conds  map[string]bool    `json:"conds,omitempty"`
	Lists  map[string][]Val   `json:"lists,omitempty"`
	Images map[string]gen.Img `json:"images,omitempty"`
}

type Case struct {
	Base     []Node       `json:"base"`               // template t0
	Children [][]Override `json:"children,omitempty"` // t1 extends t0, t2 extends t1; the last one is rendered
	Data     Data         `json:"data"`
	Entry    int          `json:"entry"`            // 0 RenderToDocument, 1 RenderTemplateToDocument
	Hazard   string       `json:"hazard,omitempty"` // generator bookkeeping only (which known-finding shape was allowed)
	// Load schedule: Pre is the history of loads on the engine BEFORE the chain is loaded base-to-child with its
	// final sources (that final phase is always executed and is not part of Pre). Old holds earlier versions of
	// templates of the chain (other ASTs under the same name) that Pre may load.
	Pre []Load    `json:"pre,omitempty"`
	Old []Version `json:"old,omitempty"`
	// Further templates of the same family and the renders that precede the judged final one. Template indices:
	// 0..n-1 the chain t0..t(n-1) (n = 1+len(Children)), n+j the sibling Sibs[j] (named s<j>), which extends the
	// template with index P < n+j and redefines some blocks. Seq lists the templates that are rendered, in this
	// order and on the same engine with the same data, BEFORE the last template of the chain is rendered; every one
	// of these renders is judged against the reference text of the template rendered.
	Sibs []Sib `json:"sibs,omitempty"`
	Seq  []int `json:"seq,omitempty"`
	// Names of the templates by index (chain first, then siblings): what LoadTemplate is given and what
	// {{extends "..."}} of a derived template refers to. Empty (or unusable: see customNames): t<k> / s<j>.
	Names []string `json:"names,omitempty"`
}

// Sib is a derived template next to the chain: extends template index P and redefines the blocks Ov.
type Sib struct {
	P  int        `json:"p"`
	Ov []Override `json:"ov,omitempty"`
}

// Load is one LoadTemplate call of the history: template index T of the chain; V = 0 its final source,
// V = k > 0 the earlier version Old[k-1] (whose T is the same).
type Load struct {
	T int `json:"t"`
	V int `json:"v,omitempty"`
}

// Version is an earlier source of template T: a base (T = 0) or a set of overrides (T > 0).
type Version struct {
	T    int        `json:"t"`
	Base []Node     `json:"base,omitempty"`
	Ov   []Override `json:"ov,omitempty"`
}

// ---------------------------------------------------------------------------------------------
// Serialiser: AST -> template text in the documented concrete syntax.

func serialise(ns []Node) string {
	var sb strings.Builder
	for _, n := range ns {
		switch n.K {
		case KLit:
			sb.WriteString(n.S)
		case KVar, KField:
			sb.WriteString("{{" + n.S + "}}")
		case KIf:
			sb.WriteString("{{#if " + n.S + "}}")
			sb.WriteString(serialise(n.A))
			if n.Else {
				sb.WriteString("{{else}}")
				sb.WriteString(serialise(n.B))
			}
			sb.WriteString("{{/if}}")
		case KEach:
			sb.WriteString("{{#each " + n.S + "}}")
			sb.WriteString(serialise(n.A))
			sb.WriteString("{{/each}}")
		case KThis:
			sb.WriteString("{{this}}")
		case KIndex:
			sb.WriteString("{{@index}}")
		case KFirst:
			sb.WriteString("{{@first}}")
		case KLast:
			sb.WriteString("{{@last}}")
		case KBlock:
			sb.WriteString(`{{#block "` + n.S + `"}}`)
			sb.WriteString(serialise(n.A))
			sb.WriteString("{{/block}}")
		case KImage:
			sb.WriteString("{{#image " + n.S + "}}")
		}
	}
	return sb.String()
}

func tplName(i int) string { return "t" + strconv.Itoa(i) }

// ntpl: number of templates of the case (chain + valid siblings are counted by index, see Case.Sibs).
func (c *Case) ntpl() int { return 1 + len(c.Children) + len(c.Sibs) }

// customNames: Names gives every template of the case a usable name of its own (non-empty, pairwise distinct,
// without a double quote, a brace or a line break: the quoted-string syntax of {{extends "name"}}).
func (c *Case) customNames() bool {
	if len(c.Names) == 0 || len(c.Names) < c.ntpl() {
		return false
	}
	seen := map[string]bool{}
	for _, n := range c.Names[:c.ntpl()] {
		if n == "" || seen[n] || strings.ContainsAny(n, "\"{}\n\r") {
			return false
		}
		seen[n] = true
	}
	return true
}

// name of template index k (Names[k] when the case names its templates; else chain: t<k>, sibling j: s<j>).
func (c *Case) name(k int) string {
	if k >= 0 && k < len(c.Names) && c.customNames() {
		return c.Names[k]
	}
	if n := 1 + len(c.Children); k >= n {
		return "s" + strconv.Itoa(k-n)
	}
	return tplName(k)
}

// parent index of template k (-1: the base, or a malformed sibling entry).
func (c *Case) parent(k int) int {
	n := 1 + len(c.Children)
	switch {
	case k <= 0 || k >= c.ntpl():
		return -1
	case k < n:
		return k - 1
	}
	if p := c.Sibs[k-n].P; p >= 0 && p < k {
		return p
	}
	return -1
}

// okTpl: k names a template whose whole ancestry is well formed (a replay file may hold anything).
func (c *Case) okTpl(k int) bool {
	if k < 0 || k >= c.ntpl() {
		return false
	}
	for k > 0 {
		p := c.parent(k)
		if p < 0 {
			return false
		}
		k = p
	}
	return true
}

func (c *Case) overridesOf(k int) []Override {
	n := 1 + len(c.Children)
	switch {
	case k <= 0 || k >= c.ntpl():
		return nil
	case k < n:
		return c.Children[k-1]
	}
	return c.Sibs[k-n].Ov
}

// path: the override sets on the way from the base (exclusive) down to template k, base side first.
func (c *Case) path(k int) [][]Override {
	var rev [][]Override
	for k > 0 && k < c.ntpl() {
		rev = append(rev, c.overridesOf(k))
		k = c.parent(k)
	}
	out := make([][]Override, 0, len(rev))
	for i := len(rev) - 1; i >= 0; i-- {
		out = append(out, rev[i])
	}
	return out
}

// renderList: the templates rendered, in order; the last entry is always the last template of the chain.
func (c *Case) renderList() []int {
	var out []int
	for _, k := range c.Seq {
		if c.okTpl(k) {
			out = append(out, k)
		}
	}
	return append(out, len(c.Children))
}

// maxRenderDepth: the largest number of templates on the inheritance path of a rendered template.
func (c *Case) maxRenderDepth() int {
	d := 1
	for _, k := range c.renderList() {
		if n := 1 + len(c.path(k)); n > d {
			d = n
		}
	}
	return d
}

// sibSources: the texts of the sibling templates (index order); "" for a malformed entry.
func (c *Case) sibSources() []string {
	n := 1 + len(c.Children)
	out := make([]string, len(c.Sibs))
	for j, s := range c.Sibs {
		if c.okTpl(n + j) {
			out[j] = extendsSource(c.name(s.P), s.Ov)
		}
	}
	return out
}

// childSource is the text of template t(i+1): extends t(i) and redefines the given blocks.
func (c *Case) childSource(i int, ch []Override) string { return extendsSource(c.name(i), ch) }

func extendsSource(parent string, ch []Override) string {
	var sb strings.Builder
	sb.WriteString(`{{extends "` + parent + `"}}`)
	for _, o := range ch {
		sb.WriteString("\n")
		sb.WriteString(serialise([]Node{{K: KBlock, S: o.Name, A: o.Body}}))
	}
	return sb.String()
}

// sources returns the (final) template texts of the chain, base first.
func (c *Case) sources() []string {
	out := []string{serialise(c.Base)}
	for i, ch := range c.Children {
		out = append(out, c.childSource(i, ch))
	}
	return out
}

// loadSource is the text that the history load ld passes to LoadTemplate ("" , false: malformed entry).
func (c *Case) loadSource(ld Load, final []string) (string, bool) {
	if ld.T < 0 || ld.T >= len(final) {
		return "", false
	}
	if ld.V == 0 {
		return final[ld.T], true
	}
	if ld.V < 0 || ld.V > len(c.Old) || c.Old[ld.V-1].T != ld.T {
		return "", false
	}
	v := c.Old[ld.V-1]
	if ld.T == 0 {
		return serialise(v.Base), true
	}
	return c.childSource(ld.T-1, v.Ov), true
}

// schedClasses simulates the history: which kinds of earlier loads the final phase has to make irrelevant.
//
//	child-first    a template was loaded while the template it extends was not loaded
//	base-replaced  a template was loaded (final source) while the template it extends was loaded in an earlier
//	               version - the final phase replaces that base and re-loads the child with unchanged source
//	replaced       some earlier version was loaded at all (the final phase replaces it)
//	reload-same    a template was loaded with its final source while its base (if any) was loaded with its final
//	               source too: the final phase re-loads identical text in an identical situation
func (c *Case) schedClasses() map[string]bool {
	out := map[string]bool{}
	n := 1 + len(c.Children)
	cur := make([]int, n) // -1 not loaded, else version
	for i := range cur {
		cur[i] = -1
	}
	for _, ld := range c.Pre {
		if ld.T < 0 || ld.T >= n {
			continue
		}
		if ld.V > 0 {
			out["replaced"] = true
		}
		switch {
		case ld.T > 0 && cur[ld.T-1] == -1:
			out["child-first"] = true
		case ld.T > 0 && cur[ld.T-1] > 0 && ld.V == 0:
			out["base-replaced"] = true
		case ld.V == 0 && (ld.T == 0 || cur[ld.T-1] == 0):
			out["reload-same"] = true
		}
		cur[ld.T] = ld.V
	}
	return out
}

// ---------------------------------------------------------------------------------------------
// Data -> the Go values the API takes, and -> the text a value stands for.

func (v Val) goValue() interface{} {
	switch v.T {
	case "s":
		return v.S
	case "i":
		n, _ := strconv.Atoi(v.S)
		return n
	case "l":
		n, _ := strconv.ParseInt(v.S, 10, 64)
		return n
	case "f":
		return v.float()
	case "b":
		return v.B
	case "m":
		m := make(map[string]interface{}, len(v.M))
		for k, x := range v.M {
			m[k] = x.goValue()
		}
		return m
	case "a":
		return goList(v.L)
	}
	return nil // "n"
}

func goList(l []Val) []interface{} {
	out := make([]interface{}, 0, len(l))
	for _, x := range l {
		out = append(out, x.goValue())
	}
	return out
}

// float is the float64 a value of type f stands for (S is one of its decimal texts, or NaN / +Inf / -Inf).
func (v Val) float() float64 {
	f, _ := strconv.ParseFloat(v.S, 64)
	return f
}

// floatExact: the text of this float is free of any formatting convention, so the reference names it exactly:
// the float is finite, not a whole number, of moderate magnitude (1e-4 <= |f| < 1e15: no notation switches to an
// exponent there) and S is THE shortest decimal that denotes it (strconv is only used to confirm that S is that
// decimal). Every other float (whole numbers incl. both zeros, huge, tiny, NaN, infinities) has several defensible
// texts (42 / 42.0, 1e+21 / 1000000000000000000000, 4611686018427387904 / 4611686018427388000) and the documents
// name none: the reference then only demands a text that parses back to the same float64 (see hole).
func (v Val) floatExact() bool {
	f, err := strconv.ParseFloat(v.S, 64)
	if err != nil || math.IsNaN(f) || math.IsInf(f, 0) {
		return false
	}
	if a := math.Abs(f); a < 1e-4 || a >= 1e15 || f == math.Trunc(f) {
		return false
	}
	return strconv.FormatFloat(f, 'f', -1, 64) == v.S
}

// text is the text a scalar value is inserted as: strings verbatim, integers in decimal, floats by the decimal
// text they were generated from when that text is free of convention (floatExact), else a hole that stands for
// any text denoting the same float64; booleans true/false, nil nothing.
func (v Val) text() string {
	switch v.T {
	case "s", "i", "l":
		return v.S
	case "f":
		if v.floatExact() {
			return v.S
		}
		return hole(v.float())
	case "b":
		if v.B {
			return "true"
		}
		return "false"
	}
	return ""
}

// ---------------------------------------------------------------------------------------------
// Reference interpreter over the AST (never over the text).

const imgMark = "\x00IMG:" // expected-text marker of an image line; followed by the name and \x00

type frame struct {
	item Val
	idx  int
	n    int
}

type interp struct {
	c    *Case
	path [][]Override // override sets of the template being rendered, base side first
	// observations about the evaluation, used for labels and for the known-finding triggers
	elseTaken     bool // some else branch was selected
	elseTakenLoop bool // ... inside a loop
	nestedAbsent  bool // a nested each ran over a field the item lacks while the item has no list-valued field
	nestedMissing bool // a nested each ran over a field the item lacks (any item)
	unknownVar    bool
	unknownField  bool
	knownVar      bool
	absentCond    bool
	absentList    bool
	emptyList     bool
	multiList     bool // some loop ran over >= 2 items
	nestedRan     bool // some nested loop emitted at least one item
	depth3Ran     bool
	num           numSeen         // classes of the numbers that were inserted
	condSeen      map[string]bool // item fields tested inside loops: "<type>:true|false" (and number sub-classes)
	maxItems      int             // the longest list a loop ran over
	itemsOut      int             // loop bodies emitted over all renders
}

// val returns the text of an inserted value and records the class of a number.
func (ip *interp) val(v Val) string {
	ip.num.see(v)
	return v.text()
}

// truth: the condition an item field stands for. The documents list the types a condition inside a loop may have
// (bool, string, int, int64, float64) and say that empty and zero values are judged false: a bool is its value, a
// string is true unless it is empty, a number is true unless it is zero. Everything else (nil, a list, a map) is
// outside what the documents name; the generator never tests such a field (a replay that does is read as: nil is an
// empty value, a list or map with entries is not).
func (ip *interp) truth(v Val) bool {
	t, cls := false, ""
	switch v.T {
	case "b":
		t, cls = v.B, "bool"
	case "s":
		t, cls = v.S != "", "string"
	case "i", "l":
		n, err := strconv.ParseInt(v.S, 10, 64)
		t, cls = err != nil || n != 0, map[string]string{"i": "int", "l": "int64"}[v.T]
		if n < 0 {
			cls += ":negative"
		}
	case "f":
		f := v.float()
		t, cls = f != 0, "float64"
		switch {
		case f == 0 && math.Signbit(f):
			cls += ":-0"
		case f < 0:
			cls += ":negative"
		case f != 0 && math.Abs(f) < 1:
			cls += ":fraction"
		}
	case "m":
		t, cls = len(v.M) > 0, "other"
	case "a":
		t, cls = len(v.L) > 0, "other"
	default:
		cls = "other"
	}
	if ip.condSeen == nil {
		ip.condSeen = map[string]bool{}
	}
	if i := strings.Index(cls, ":"); i >= 0 {
		ip.condSeen[cls] = true
		cls = cls[:i]
	}
	ip.condSeen[cls+":"+map[bool]string{true: "true", false: "false"}[t]] = true
	return t
}

func (ip *interp) blockBody(name string, def []Node) []Node {
	for i := len(ip.path) - 1; i >= 0; i-- {
		for _, o := range ip.path[i] {
			if o.Name == name {
				return o.Body
			}
		}
	}
	return def
}

func (ip *interp) render(ns []Node, fr []frame) string {
	var sb strings.Builder
	for _, n := range ns {
		switch n.K {
		case KLit:
			sb.WriteString(n.S)
		case KVar:
			if v, ok := ip.c.Data.Vars[n.S]; ok {
				ip.knownVar = true
				sb.WriteString(ip.val(v))
			} else {
				ip.unknownVar = true
				sb.WriteString("{{" + n.S + "}}")
			}
		case KField:
			found := false
			for i := len(fr) - 1; i >= 0 && !found; i-- {
				if fr[i].item.T == "m" {
					if v, ok := fr[i].item.M[n.S]; ok && v.T != "a" {
						sb.WriteString(ip.val(v))
						found = true
					}
				}
			}
			if !found {
				ip.unknownField = true
				sb.WriteString("{{" + n.S + "}}")
			}
		case KIf:
			cond := false
			if len(fr) == 0 {
				v, ok := ip.c.Data.Conds[n.S]
				if !ok {
					ip.absentCond = true
				}
				cond = ok && v
			} else {
				it := fr[len(fr)-1].item
				if it.T == "m" {
					if v, ok := it.M[n.S]; ok {
						cond = ip.truth(v)
					} else {
						ip.absentCond = true
					}
				}
			}
			if cond {
				sb.WriteString(ip.render(n.A, fr))
			} else if n.Else {
				ip.elseTaken = true
				if len(fr) > 0 {
					ip.elseTakenLoop = true
				}
				sb.WriteString(ip.render(n.B, fr))
			}
		case KEach:
			var list []Val
			present := false
			if len(fr) == 0 {
				list, present = ip.c.Data.Lists[n.S]
			} else {
				it := fr[len(fr)-1].item
				if it.T == "m" {
					if v, ok := it.M[n.S]; ok && v.T == "a" {
						list, present = v.L, true
					}
					if !present {
						ip.nestedMissing = true
						hasList := false
						for _, x := range it.M {
							if x.T == "a" {
								hasList = true
							}
						}
						if !hasList {
							ip.nestedAbsent = true
						}
					}
				}
			}
			if !present {
				ip.absentList = true
			} else if len(list) == 0 {
				ip.emptyList = true
			} else if len(list) >= 2 {
				ip.multiList = true
			}
			if len(list) > ip.maxItems {
				ip.maxItems = len(list)
			}
			ip.itemsOut += len(list)
			for i, it := range list {
				if len(fr) >= 1 {
					ip.nestedRan = true
				}
				if len(fr) >= 2 {
					ip.depth3Ran = true
				}
				sb.WriteString(ip.render(n.A, append(fr[:len(fr):len(fr)], frame{it, i, len(list)})))
			}
		case KThis:
			if len(fr) > 0 {
				sb.WriteString(ip.val(fr[len(fr)-1].item))
			}
		case KIndex:
			if len(fr) > 0 {
				sb.WriteString(strconv.Itoa(fr[len(fr)-1].idx))
			}
		case KFirst:
			if len(fr) > 0 {
				sb.WriteString(strconv.FormatBool(fr[len(fr)-1].idx == 0))
			}
		case KLast:
			if len(fr) > 0 {
				f := fr[len(fr)-1]
				sb.WriteString(strconv.FormatBool(f.idx == f.n-1))
			}
		case KBlock:
			sb.WriteString(ip.render(ip.blockBody(n.S, n.A), fr))
		case KImage:
			sb.WriteString(imgMark + n.S + "\x00")
		}
	}
	return sb.String()
}

// expectedAll returns the reference text of every render of the case (renderList order) and the interpreter with
// its observations over all of them.
func expectedAll(c *Case) ([]string, *interp) {
	ip := &interp{c: c}
	var out []string
	for _, k := range c.renderList() {
		ip.path = c.path(k)
		out = append(out, ip.render(c.Base, nil))
	}
	return out, ip
}

// expected returns the reference text of the final render and the interpreter with its observations (all renders).
func expected(c *Case) (string, *interp) {
	all, ip := expectedAll(c)
	return all[len(all)-1], ip
}

// ---------------------------------------------------------------------------------------------
// Structural predicates on the case (known-finding triggers, labels).

// walk visits every node reachable in the rendered chain (base, block defaults and all overrides).
func (c *Case) walk(f func(n Node, loopDepth int, inIf bool)) {
	var rec func(ns []Node, d int, inIf bool)
	rec = func(ns []Node, d int, inIf bool) {
		for _, n := range ns {
			f(n, d, inIf)
			switch n.K {
			case KIf:
				rec(n.A, d, true)
				rec(n.B, d, true)
			case KEach:
				rec(n.A, d+1, inIf)
			case KBlock:
				rec(n.A, d, inIf)
			}
		}
	}
	rec(c.Base, 0, false)
	for _, ch := range c.Children {
		for _, o := range ch {
			rec(o.Body, 0, false)
		}
	}
	for _, sb := range c.Sibs {
		for _, o := range sb.Ov {
			rec(o.Body, 0, false)
		}
	}
}

// dataStrings calls f on every string in the data (variable values, scalar items, item fields at any depth).
func (c *Case) dataStrings(f func(s string)) {
	var rec func(v Val)
	rec = func(v Val) {
		switch v.T {
		case "s":
			f(v.S)
		case "m":
			for _, x := range v.M {
				rec(x)
			}
		case "a":
			for _, x := range v.L {
				rec(x)
			}
		}
	}
	for _, v := range c.Data.Vars {
		rec(v)
	}
	for _, l := range c.Data.Lists {
		for _, v := range l {
			rec(v)
		}
	}
}

// someDataStringHasOpenBraces: some data string contains "{{".
func (c *Case) someDataStringHasOpenBraces() bool {
	hit := false
	c.dataStrings(func(s string) {
		if strings.Contains(s, "{{") {
			hit = true
		}
	})
	return hit
}

// nestedUsesLoopContext: an Each at loop depth >= 1 (i.e. nested in another Each) whose body uses
// {{this}}, {{@index}}, {{@first}} or {{@last}}.
func (c *Case) nestedUsesLoopContext() bool {
	hit := false
	c.walk(func(n Node, d int, _ bool) {
		if d >= 2 && (n.K == KThis || n.K == KIndex || n.K == KFirst || n.K == KLast) {
			hit = true
		}
	})
	return hit
}

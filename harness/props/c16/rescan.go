package c16

import (
	"regexp"
	"strings"
)

// ---------------------------------------------------------------------------------------------
// Re-scan classes.
//
// The statement says that nothing inside a value is ever interpreted as template syntax. The unchanged
// library violates this for certain (value position, directive kind) combinations only (open findings
// KF-C16-rescan, -rescan-fields, -rescan-inherit). This file decides, from the case alone, which of those
// combinations a case contains; every other brace-bearing value is judged exactly. The token shapes below are
// the documented directive syntax (not the library's passes).

var (
	reEachOpen  = regexp.MustCompile(`\{\{#each\s+\w+\}\}`)
	reIfOpen    = regexp.MustCompile(`\{\{#if\s+\w+\}\}`)
	reImageTok  = regexp.MustCompile(`\{\{#image\s+\w+\}\}|\[IMAGE:\w+\]`)
	reBlockOpen = regexp.MustCompile(`\{\{#block\s+"[^"]+"\}\}`)
	rePlace     = regexp.MustCompile(`\{\{(\w+)\}\}`)
)

func hasAtCtx(s string) bool {
	return strings.Contains(s, "{{@index}}") || strings.Contains(s, "{{@first}}") || strings.Contains(s, "{{@last}}")
}

// strCtx says where a data string sits.
type strCtx struct {
	pos  string          // "var" (variable value) | "field" (value of a map item's field) | "item" (scalar list item)
	name string          // variable name | field name | "" for scalar items
	keys map[string]bool // field / item: the non-list keys of the own map item (field) and of every enclosing item
}

// rsInfo is what the classes depend on besides the string and its position.
type rsInfo struct {
	chain    int
	supplied map[string]bool // supplied variable names
	inLoop   map[string]bool // variables referenced inside some each body
	inIf     map[string]bool // variables / fields referenced inside a conditional branch; "this" for {{this}}
	itemKeys map[string]bool // every non-list key of every map item anywhere in the data
}

// eachDataString visits every string of the data together with its position.
func (c *Case) eachDataString(f func(ctx strCtx, s string)) {
	var rec func(v Val, pos, name string, keys map[string]bool)
	rec = func(v Val, pos, name string, keys map[string]bool) {
		switch v.T {
		case "s":
			f(strCtx{pos: pos, name: name, keys: keys}, v.S)
		case "m":
			own := make(map[string]bool, len(keys)+len(v.M))
			for k := range keys {
				own[k] = true
			}
			for k, x := range v.M {
				if x.T != "a" {
					own[k] = true
				}
			}
			for k, x := range v.M {
				if x.T == "a" {
					for _, it := range x.L {
						rec(it, "item", "", own)
					}
				} else {
					rec(x, "field", k, own)
				}
			}
		}
	}
	for k, v := range c.Data.Vars {
		rec(v, "var", k, nil)
	}
	for _, l := range c.Data.Lists {
		for _, it := range l {
			rec(it, "item", "", nil)
		}
	}
}

// rewriteDataStrings is eachDataString with replacement: f returns the new string and whether it changed.
func (c *Case) rewriteDataStrings(f func(ctx strCtx, s string) (string, bool)) {
	var rec func(v Val, pos, name string, keys map[string]bool) (Val, bool)
	rec = func(v Val, pos, name string, keys map[string]bool) (Val, bool) {
		switch v.T {
		case "s":
			if ns, ch := f(strCtx{pos: pos, name: name, keys: keys}, v.S); ch {
				v.S = ns
				return v, true
			}
		case "m":
			own := make(map[string]bool, len(keys)+len(v.M))
			for k := range keys {
				own[k] = true
			}
			for k, x := range v.M {
				if x.T != "a" {
					own[k] = true
				}
			}
			for k, x := range v.M {
				if x.T == "a" {
					for i, it := range x.L {
						if nv, ch := rec(it, "item", "", own); ch {
							x.L[i] = nv
						}
					}
				} else if nv, ch := rec(x, "field", k, own); ch {
					v.M[k] = nv
				}
			}
		}
		return v, false
	}
	for k, v := range c.Data.Vars {
		if nv, ch := rec(v, "var", k, nil); ch {
			c.Data.Vars[k] = nv
		}
	}
	for _, l := range c.Data.Lists {
		for i, it := range l {
			if nv, ch := rec(it, "item", "", nil); ch {
				l[i] = nv
			}
		}
	}
}

func (c *Case) rescanInfo() *rsInfo {
	in := &rsInfo{chain: c.maxRenderDepth(), supplied: map[string]bool{}, inLoop: map[string]bool{}, inIf: map[string]bool{}, itemKeys: map[string]bool{}}
	for k := range c.Data.Vars {
		in.supplied[k] = true
	}
	c.walk(func(n Node, d int, inIf bool) {
		switch n.K {
		case KVar:
			if d > 0 {
				in.inLoop[n.S] = true
			}
			if inIf {
				in.inIf[n.S] = true
			}
		case KField:
			if inIf {
				in.inIf[n.S] = true
			}
		case KThis:
			if inIf {
				in.inIf["this"] = true
			}
		}
	})
	c.eachDataString(func(ctx strCtx, _ string) {
		for k := range ctx.keys {
			in.itemKeys[k] = true
		}
	})
	// keys of items without any string are wanted too
	var rec func(v Val)
	rec = func(v Val) {
		if v.T == "m" {
			for k, x := range v.M {
				if x.T != "a" {
					in.itemKeys[k] = true
				}
				for _, y := range x.L {
					rec(y)
				}
			}
		}
	}
	for _, l := range c.Data.Lists {
		for _, it := range l {
			rec(it)
		}
	}
	return in
}

// Classes. The prefix names the open finding the class belongs to.
//
//	rescan:   within one run of the pipeline (blocks, variables, loops [per item: this/@index/@first/@last, nested
//	          loops, fields, item conditionals], conditionals, images, picture markers in paragraphs) text inserted
//	          by one pass is scanned by the passes after it
//	fields:   inside a loop the item's placeholders are substituted one after the other over the whole body
//	inherit:  for a derived template the whole pipeline runs again over the rendered text of its base
func classify(ctx strCtx, s string, in *rsInfo) []string {
	if !strings.Contains(s, "{{") && !strings.Contains(s, "[IMAGE:") {
		return nil
	}
	var out []string
	// any position: picture markers are looked for in the final paragraphs; conditionals run after all insertions
	if reImageTok.MatchString(s) {
		out = append(out, "rescan:image")
	}
	if reIfOpen.MatchString(s) {
		out = append(out, "rescan:if-open")
	}
	if strings.Contains(s, "{{/if}}") || strings.Contains(s, "{{else}}") {
		n := ctx.name
		if ctx.pos == "item" {
			n = "this"
		}
		if in.inIf[n] {
			out = append(out, "rescan:if-close-inside-if")
		}
	}
	places := rePlace.FindAllStringSubmatch(s, -1)
	if ctx.pos == "var" {
		// variables are inserted before the loop pass
		if reEachOpen.MatchString(s) {
			out = append(out, "rescan:var-each-open")
		}
		if in.inLoop[ctx.name] {
			if strings.Contains(s, "{{/each}}") {
				out = append(out, "rescan:var-in-loop-each-close")
			}
			if strings.Contains(s, "{{this}}") || hasAtCtx(s) {
				out = append(out, "rescan:var-in-loop-context")
			}
			for _, p := range places {
				if in.itemKeys[p[1]] {
					out = append(out, "rescan:var-in-loop-field")
					break
				}
			}
		}
	} else {
		if ctx.pos == "item" && hasAtCtx(s) {
			out = append(out, "fields:scalar-item-@")
		}
		for _, p := range places {
			if ctx.keys[p[1]] {
				out = append(out, "fields:item-key")
				break
			}
		}
	}
	if in.chain >= 2 {
		for _, p := range places {
			if in.supplied[p[1]] {
				out = append(out, "inherit:variable")
				break
			}
		}
		if reEachOpen.MatchString(s) {
			out = append(out, "inherit:each-open")
		}
		if reBlockOpen.MatchString(s) {
			out = append(out, "inherit:block-open")
		}
	}
	return out
}

// rescanClasses returns the set of re-scan classes present in the case.
func (c *Case) rescanClasses() map[string]bool {
	out := map[string]bool{}
	var in *rsInfo
	c.eachDataString(func(ctx strCtx, s string) {
		if !strings.Contains(s, "{{") && !strings.Contains(s, "[IMAGE:") {
			return
		}
		if in == nil {
			in = c.rescanInfo()
		}
		for _, k := range classify(ctx, s, in) {
			out[k] = true
		}
	})
	return out
}

func (c *Case) hasRescanClass(prefix string) bool {
	for k := range c.rescanClasses() {
		if strings.HasPrefix(k, prefix) {
			return true
		}
	}
	return false
}

// varNamesSuppliedVar: a template of one level in which a variable that the template uses holds a value naming
// ANOTHER supplied variable ("{{other}}"): judged exactly (the variable pass inserts values once).
func (c *Case) varNamesSuppliedVar() bool {
	used := map[string]bool{}
	c.walk(func(n Node, _ int, _ bool) {
		if n.K == KVar {
			used[n.S] = true
		}
	})
	for k, v := range c.Data.Vars {
		if v.T != "s" || !used[k] {
			continue
		}
		for _, p := range rePlace.FindAllStringSubmatch(v.S, -1) {
			if _, ok := c.Data.Vars[p[1]]; ok && p[1] != k {
				return true
			}
		}
	}
	return false
}

var reDirTok = regexp.MustCompile(`\{\{(\w+|@\w+|/\w+|#\w+[^{}]*|extends[^{}]*)\}\}`)

// someDataStringHasDirectiveToken: some data string contains a whole directive-like token ({{name}}, {{/if}}, ...).
func (c *Case) someDataStringHasDirectiveToken() bool {
	hit := false
	c.dataStrings(func(s string) {
		if !hit && strings.Contains(s, "{{") && reDirTok.MatchString(s) {
			hit = true
		}
	})
	return hit
}

package c16

import "wzverif/internal/kit"

// Each trigger is a predicate on the case only (the reference interpreter is a pure function of the case).
var findings = []kit.Finding[Case]{
	{
		ID: "KF-C16-else", Clause: "C16.T1",
		Desc: "the {{else}} branch of a conditional always renders empty (the else regexp ends in a lazy group)",
		Trigger: func(c Case, f kit.Failure) bool {
			_, ip := expected(&c)
			return ip.elseTaken // some If-Else whose condition is false or absent
		},
	},
	{
		ID: "KF-C16-rescan", Clause: "C16.T1",
		Desc:    "inserted values are scanned again by later passes: a data string containing '{{' is interpreted as template syntax",
		Trigger: func(c Case, f kit.Failure) bool { return c.someDataStringHasOpenBraces() },
	},
	{
		ID: "KF-C16-nested-context", Clause: "C16.T1",
		Desc:    "in a nested each the outer item's {{this}}/{{@index}}/{{@first}}/{{@last}} are substituted into the inner body",
		Trigger: func(c Case, f kit.Failure) bool { return c.nestedUsesLoopContext() },
	},
	{
		ID: "KF-C16-nested-absent", Clause: "C16.T1",
		Desc: "a nested each over a field the item lacks is left verbatim in the output when the item has no list-valued field",
		Trigger: func(c Case, f kit.Failure) bool {
			_, ip := expected(&c)
			return ip.nestedAbsent
		},
	},
}

package c16

import "wzverif/internal/kit"

// Each trigger is a predicate on the case only (the reference interpreter is a pure function of the case).
//
// The three rescan findings cover exactly the (value position, directive kind) combinations that the unchanged
// library interprets again (rescan.go: classify); a brace-bearing value outside these classes - e.g. a variable
// holding "{{other}}" with `other` supplied in a template without inheritance, values holding "{{", "}}",
// "{{ x }}", "{{/if}}" outside a conditional, an item field holding "{{#each l}}..{{/each}}" - is judged exactly.
var findings = []kit.Finding[Case]{
	{
		ID: "KF-C16-else", Clause: "C16.T1",
		Desc: "the {{else}} branch of a conditional always renders empty (the else regexp ends in a lazy group)",
		Trigger: func(c Case, f kit.Failure) bool {
			_, ip := expected(&c)
			return ip.elseTaken // some If-Else whose condition is false or absent
		},
	},
	{
		ID: "KF-C16-rescan", Clause: "C16.T1",
		Desc:    "text inserted by one pass is scanned by the later passes of the same run (variables, then loops, then conditionals, then images): a variable value holding {{#each ..}}, or used inside a loop and holding {{/each}} / {{this}} / {{@index}} / an item field placeholder; any value holding {{#if ..}}, or inserted inside a conditional and holding {{/if}} / {{else}}; any value holding {{#image ..}} or [IMAGE:..]",
		Trigger: func(c Case, f kit.Failure) bool { return c.hasRescanClass("rescan:") },
	},
	{
		ID: "KF-C16-rescan-fields", Clause: "C16.T1",
		Desc:    "inside a loop the item's placeholders are substituted one after the other over the whole body (this, @index, @first, @last, then each field in map order, inner loops before outer fields): a scalar item holding {{@index}}/{{@first}}/{{@last}}, or an item value holding the placeholder of a field of the same or an enclosing item, is substituted again",
		Trigger: func(c Case, f kit.Failure) bool { return c.hasRescanClass("fields:") },
	},
	{
		ID: "KF-C16-rescan-inherit", Clause: "C16.T1",
		Desc:    "for a derived template the whole pipeline runs again over the rendered text of its base: a value holding the placeholder of a supplied variable, {{#each ..}} or {{#block ..}} is interpreted on the second run",
		Trigger: func(c Case, f kit.Failure) bool { return c.hasRescanClass("inherit:") },
	},
	{
		ID: "KF-C16-nested-context", Clause: "C16.T1",
		Desc:    "in a nested each the outer item's {{this}}/{{@index}}/{{@first}}/{{@last}} are substituted into the inner body",
		Trigger: func(c Case, f kit.Failure) bool { return c.nestedUsesLoopContext() },
	},
	{
		ID: "KF-C16-nested-absent", Clause: "C16.T1",
		Desc: "a nested each over a field the item lacks is left verbatim in the output when the item has no list-valued field",
		Trigger: func(c Case, f kit.Failure) bool {
			_, ip := expected(&c)
			return ip.nestedAbsent
		},
	},
	{
		ID: "KF-C16-image-marker-spelled", Clause: "C16.T", // T0 (panic of the paragraph step), T1, T2
		Desc:    "an image placeholder ({{#image w}} / [IMAGE:w]) that is not in the template but is spelled in the output by a value together with the literal text or the values next to it ('{{v}}image chart}}' with v = '{{#') is interpreted when the text is turned into paragraphs: the rest of the line is lost (expand only protects a marker that lies inside ONE value)",
		Trigger: func(c Case, f kit.Failure) bool { return c.spellsImageMarker() },
	},
}

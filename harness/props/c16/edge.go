package c16

import (
	"math"
	"regexp"
	"strconv"
	"strings"
)

// ---------------------------------------------------------------------------------------------
// Numbers at the edges of their type.
//
// Integers (int, int64) have exactly one decimal text; it is demanded over the whole range. For a float64 the
// documents ("supports strings, numbers, booleans") name no textual form. Where every notation agrees - a float
// that is not whole, of moderate magnitude, written with its shortest digits - that text is demanded (floatExact).
// Everywhere else the reference puts a HOLE into the expected text: the rendered text at that place must be a
// numeral that parses back to the same float64 (same bits, so -0 keeps its sign; NaN to NaN) - nothing more.

const holeMark = "\x01" // expected-text marker of a float hole: \x01 + the float's bits in hex + \x01

func hole(f float64) string {
	return holeMark + strconv.FormatUint(math.Float64bits(f), 16) + holeMark
}

// sameFloat: the text denotes exactly the float f.
func sameFloat(text string, f float64) bool {
	if text == "" || strings.ContainsAny(text, "_xXpP") { // decimal numerals (and Inf / NaN) only
		return false
	}
	g, err := strconv.ParseFloat(text, 64)
	if err != nil {
		return false
	}
	if math.IsNaN(f) {
		return math.IsNaN(g)
	}
	return math.Float64bits(g) == math.Float64bits(f)
}

// matchHoles: got is the expected text pat, every hole of pat standing for some text that denotes its float.
func matchHoles(pat, got string) bool {
	i := strings.Index(pat, holeMark)
	if i < 0 {
		return pat == got
	}
	j := strings.Index(pat[i+1:], holeMark)
	if j < 0 || !strings.HasPrefix(got, pat[:i]) {
		return false
	}
	bits, err := strconv.ParseUint(pat[i+1:i+1+j], 16, 64)
	if err != nil {
		return false
	}
	f := math.Float64frombits(bits)
	rest, g := pat[i+1+j+1:], got[i:]
	max := len(g) // a numeral has at most a few hundred characters
	if max > 400 {
		max = 400
	}
	for e := max; e >= 1; e-- {
		if sameFloat(g[:e], f) && matchHoles(rest, g[e:]) {
			return true
		}
	}
	return false
}

var reHole = regexp.MustCompile("\x01([0-9a-f]+)\x01")

// showExp makes an expected text readable: picture markers and float holes.
func showExp(s string) string {
	s = reHole.ReplaceAllStringFunc(s, func(m string) string {
		bits, _ := strconv.ParseUint(m[1:len(m)-1], 16, 64)
		return "⟨any numeral denoting the float64 " + strconv.FormatFloat(math.Float64frombits(bits), 'g', -1, 64) + "⟩"
	})
	return strings.ReplaceAll(s, "\x00", "¤")
}

// numSeen: which classes of numbers a render inserted.
type numSeen struct {
	floatExact  bool // a float whose text is demanded exactly
	floatHole   bool // a float judged by parsing the rendered text back
	negZero     bool
	whole       bool // a whole-number float below 2^53 (incl. +0)
	band        bool // a whole-number float with 2^53 <= |f| < 2^63
	beyond      bool // a finite float with |f| >= 2^63
	tiny        bool // 0 < |f| < 1e-4
	longDigits  bool // a float written with >= 15 significant digits
	nonFinite   bool // NaN, +Inf, -Inf
	intEdge32   bool // an integer with |n| >= 2^31 - 1
	intEdge53   bool // an integer with |n| >= 2^53 - 1
	intEdge63   bool // an integer within 2 of the int64 bounds
	negativeInt bool
}

func (n *numSeen) see(v Val) {
	switch v.T {
	case "i", "l":
		x, err := strconv.ParseInt(v.S, 10, 64)
		if err != nil {
			return
		}
		if x < 0 {
			n.negativeInt = true
		}
		if x >= 1<<31-1 || x <= -(1<<31-1) {
			n.intEdge32 = true
		}
		if x >= 1<<53-1 || x <= -(1<<53-1) {
			n.intEdge53 = true
		}
		if x >= math.MaxInt64-2 || x <= math.MinInt64+2 {
			n.intEdge63 = true
		}
	case "f":
		if v.floatExact() {
			n.floatExact = true
			if len(strings.Trim(v.S, "-.0"))-strings.Count(strings.Trim(v.S, "-.0"), ".") >= 15 {
				n.longDigits = true
			}
			return
		}
		n.floatHole = true
		f := v.float()
		a := math.Abs(f)
		switch {
		case math.IsNaN(f) || math.IsInf(f, 0):
			n.nonFinite = true
		case f == 0 && math.Signbit(f):
			n.negZero = true
		case a >= 1<<63:
			n.beyond = true
		case a >= 1<<53:
			n.band = true
		case f == math.Trunc(f):
			n.whole = true
		case a < 1e-4:
			n.tiny = true
		}
	}
}

// ---------------------------------------------------------------------------------------------
// Generators of the edge values.

var intEdges = []int64{0, -1, 1<<31 - 1, 1 << 31, 1<<31 + 1, -(1 << 31), -(1 << 31) - 1, 1 << 32, 1<<32 - 1, 1<<53 - 1, 1 << 53, 1<<53 + 1, -(1 << 53), -(1 << 53) - 1,
	math.MaxInt64, math.MaxInt64 - 1, math.MinInt64, math.MinInt64 + 1, 1000000000000000000, -1000000000000000000, 999999999999, 1 << 62, 1<<63 - 1025, 4294967296000, 100000000000000000}

// edgeInt draws an integer near a boundary of the 32-, 53- and 64-bit ranges (or a random 64-bit one).
func (x *g) edgeInt() int64 {
	if x.chance(20, "eirnd") {
		return int64(x.salt())
	}
	n := intEdges[x.uniform(len(intEdges), "eik")]
	switch d := int64(x.uniform(5, "eid")) - 2; {
	case d > 0 && n <= math.MaxInt64-d, d < 0 && n >= math.MinInt64-d:
		n += d
	}
	return n
}

// float texts outside the convention-free class (judged by parsing the rendered text back), by class ...
var (
	floatZero  = []string{"-0", "-0", "0"}
	floatWhole = []string{"1", "42", "-7", "100", "1000", "1000000", "123456789", "4503599627370496", "9007199254740991", "-2147483648", "4294967296"} // below 2^53
	floatBand  = []string{"9007199254740992", "9007199254740994", "18014398509481984", "1e16", "1e17", "1e18", "123456789012345678", "1234567890123456789", "4611686018427387904",
		"9223372036854774784", "2305843009213693952", "5e18", "-4611686018427387904", "-9007199254740993", "-9223372036854774784"} // whole, 2^53 .. 2^63
	floatBeyond = []string{"9223372036854775808", "-9223372036854775808", "18446744073709551616", "1e19", "1e20", "1e21", "1e22", "1e100", "-1e300", "1.7976931348623157e308"}
	floatTiny   = []string{"5e-324", "2.2250738585072014e-308", "1e-7", "-1e-5", "0.00001234", "1e-300", "0.00009999"}
	floatNonFin = []string{"NaN", "+Inf", "-Inf"}
)

// ... and texts inside it (demanded exactly): many digits, magnitudes next to the limits of the class.
var floatLong = []string{"0.30000000000000004", "3.141592653589793", "2.718281828459045", "1234567.891", "0.1", "-0.7", "0.0001", "0.00012345", "999999999999999.9", "123456789012.34567",
	"4503599627370495.5", "-2251799813685247.8", "0.3333333333333333", "1.0000000000000002", "0.9999999999999999", "100.00000000000001", "8388608.5", "-16777216.25"}

// edgeFloat draws the class first (each class has the same share), then a member.
func (x *g) edgeFloat() Val {
	switch x.uniform(9, "efk") {
	case 0:
		return Val{T: "f", S: x.pick(floatZero, "efz")}
	case 1:
		return Val{T: "f", S: x.pick(floatWhole, "efw")}
	case 2:
		return Val{T: "f", S: x.pick(floatBand, "efb")}
	case 3: // a random whole number of the band 2^53 .. 2^63: 53 random bits times a power of two
		m := x.salt()>>11 | 1<<52
		f := math.Ldexp(float64(m), 1+x.uniform(10, "efs"))
		if x.chance(30, "efneg") {
			f = -f
		}
		return Val{T: "f", S: strconv.FormatFloat(f, 'e', -1, 64)}
	case 4:
		return Val{T: "f", S: x.pick(floatBeyond, "efy")}
	case 5:
		return Val{T: "f", S: x.pick(floatTiny, "eft")}
	case 6:
		if x.chance(35, "efnf") {
			return Val{T: "f", S: x.pick(floatNonFin, "efn")}
		}
		f := math.Float64frombits(x.salt()) // any bit pattern
		if math.IsNaN(f) {
			return Val{T: "f", S: "NaN"}
		}
		return Val{T: "f", S: strconv.FormatFloat(f, 'e', -1, 64)}
	}
	return Val{T: "f", S: x.pick(floatLong, "efl")}
}

// ---------------------------------------------------------------------------------------------
// Names as users write them.
//
// {{#block "name"}} and {{extends "name"}} take a quoted string: any characters but the double quote (kept to one
// line and free of braces here). {{name}}, {{#if name}}, {{#each name}} take a word: letters, digits and the
// underscore of ASCII in any order (a digit or an underscore first, one character, upper case) - see the pools.

var blockNamesUnusual = []string{"正文", "side bar", "foot.note", "main-content", "1st", "页眉 header", "Übersicht", "a/b", "sec:1", "x+y", "№ 7", "block_2", "Header", "head", "摘要",
	"q&a", "it's", "[main]", "(opt)", "100%", "$total", "*", "-", ".", "0", "header.", "段落1", "خلاصة", "résumé", "A B C", "😀", "#if", "else", "this", "\\d+", "a|b", "^top$", "<b>", "x=1;y=2"}

var tplNamesUnusual = []string{"基础模板", "base report", "sales.v2", "child-1", "2024", "Übersicht", "a/b", "tpl_3", "报告 (v2)", "t", "T0", "My Template.docx", "模板", "q&a", "[draft]", "x+y", "*",
	"C:\\tpl\\base", "日报-销售", "n°1", "it's"}

var reIdent = regexp.MustCompile(`^[A-Za-z][A-Za-z0-9]*$`)
var reBlockPlain = regexp.MustCompile(`^[A-Za-z0-9_-]+$`)

// distinct draws n different entries of the pool.
func (x *g) distinct(pool []string, n int, l string) []string {
	if n > len(pool) {
		n = len(pool)
	}
	start, step := x.uniform(len(pool), l), 1+x.uniform(len(pool)-1, l+"s")
	for gcd(step, len(pool)) != 1 {
		step++
	}
	out := make([]string, 0, n)
	for i := 0; i < n; i++ {
		out = append(out, pool[(start+i*step)%len(pool)])
	}
	return out
}

func gcd(a, b int) int {
	for b != 0 {
		a, b = b, a%b
	}
	return a
}

// blockNamesFor draws the names of the n blocks of a family: the documented identifier-like ones, or - in about
// half of the families - some or all of them replaced by names with other characters.
func (x *g) blockNamesFor(n int) []string {
	out := append([]string{}, blockNames[:n]...)
	if !x.chance(50, "bnun") {
		return out
	}
	un := x.distinct(blockNamesUnusual, n, "bnp")
	all := x.chance(40, "bnall")
	hit := false
	for i := range out {
		if all || x.chance(50, "bni") {
			out[i] = un[i]
			hit = true
		}
	}
	if !hit {
		out[x.uniform(n, "bnone")] = un[0]
	}
	return out
}

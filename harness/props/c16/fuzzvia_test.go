package c16

import (
	"testing"

	"wzverif/internal/kit"
)

// FuzzC16: coverage-guided search over the generator and oracle of TestC16 (thorough tier; see internal/kit/fuzz.go).
func FuzzC16(f *testing.F) { kit.FuzzVia(f, TestC16) }

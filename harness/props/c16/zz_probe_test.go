package c16

import (
	"fmt"
	"os"
	"sort"
	"strings"
	"testing"

	"github.com/zerx-lab/wordZero/pkg/document"

	"wzverif/internal/gen"
)

type pd struct {
	vars  map[string]interface{}
	conds map[string]bool
	lists map[string][]interface{}
	imgs  []string
}

func probeRender(chain []string, d pd) string {
	eng := document.NewTemplateEngine()
	for i, s := range chain {
		if _, err := eng.LoadTemplate(tplName(i), s); err != nil {
			return "LOADERR " + err.Error()
		}
	}
	td := document.NewTemplateData()
	for k, v := range d.vars {
		td.SetVariable(k, v)
	}
	for k, v := range d.conds {
		td.SetCondition(k, v)
	}
	for k, v := range d.lists {
		td.SetList(k, v)
	}
	for _, k := range d.imgs {
		td.SetImageFromData(k, (gen.Img{Fmt: "png", W: 7, H: 5, Name: k}).Bytes(), nil)
	}
	doc, err := eng.RenderToDocument(tplName(len(chain)-1), td)
	if err != nil {
		return "ERR " + err.Error()
	}
	var out []string
	for _, l := range observe(doc) {
		out = append(out, show(l))
	}
	return strings.Join(out, " | ")
}

func TestZZProbe(t *testing.T) {
	if os.Getenv("VERIF_PROBE") == "" {
		t.Skip()
	}
	m := func(kv ...interface{}) map[string]interface{} {
		o := map[string]interface{}{}
		for i := 0; i < len(kv); i += 2 {
			o[kv[i].(string)] = kv[i+1]
		}
		return o
	}
	L := func(x ...interface{}) []interface{} { return x }
	tags := map[string][]interface{}{"tags": L("a", "b")}
	type P struct {
		name  string
		chain []string
		d     pd
	}
	child := `{{extends "t0"}}` + "\n" + `{{#block "header"}}H1{{/block}}`
	ps := []P{
		{"P1 var={{other}} other supplied, chain1", []string{"A {{memo}} B {{customer}}"}, pd{vars: m("memo", "[{{customer}}]", "customer", "ACME")}},
		{"P1b var={{unknown}}", []string{"A {{memo}} B"}, pd{vars: m("memo", "[{{nope}}]")}},
		{"P2 var={{#each tags}}X{{/each}}", []string{"A {{memo}} B"}, pd{vars: m("memo", "{{#each tags}}X{{/each}}"), lists: tags}},
		{"P2b var={{#each nolist}}X{{/each}}", []string{"A {{memo}} B"}, pd{vars: m("memo", "{{#each nolist}}X{{/each}}")}},
		{"P3 var={{#if isVip}}Y{{/if}} true", []string{"A {{memo}} B"}, pd{vars: m("memo", "{{#if isVip}}Y{{/if}}"), conds: map[string]bool{"isVip": true}}},
		{"P3b var={{#if isVip}}Y{{/if}} absent", []string{"A {{memo}} B"}, pd{vars: m("memo", "{{#if isVip}}Y{{/if}}")}},
		{"P4 var={{#image logo}} with data", []string{"A {{memo}} B"}, pd{vars: m("memo", "{{#image logo}}"), imgs: []string{"logo"}}},
		{"P4b var={{#image logo}} without data", []string{"A {{memo}} B"}, pd{vars: m("memo", "{{#image logo}}")}},
		{"P4c var=[IMAGE:logo] with data", []string{"A {{memo}} B"}, pd{vars: m("memo", "[IMAGE:logo]"), imgs: []string{"logo"}}},
		{"P4d var=[IMAGE:logo] without data", []string{"A {{memo}} B"}, pd{vars: m("memo", "[IMAGE:logo]")}},
		{"P4e literal [IMAGE:logo] in template without data", []string{"A [IMAGE:logo] B"}, pd{}},
		{"P5 var={{this}}/{{@index}} used in loop", []string{"{{#each tags}}<{{memo}}>{{/each}}"}, pd{vars: m("memo", "{{this}}{{@index}}{{@first}}{{@last}}"), lists: tags}},
		{"P5b var={{this}} used outside loop", []string{"{{memo}} {{#each tags}}x{{/each}}"}, pd{vars: m("memo", "{{this}}{{@index}}"), lists: tags}},
		{"P5c var={{label}} used in loop over maps", []string{"{{#each items}}<{{memo}}>{{/each}}"}, pd{vars: m("memo", "{{label}}"), lists: map[string][]interface{}{"items": L(m("label", "L1"))}}},
		{"P5d var={{label}} used outside loop", []string{"{{memo}}{{#each items}}<{{label}}>{{/each}}"}, pd{vars: m("memo", "{{label}}"), lists: map[string][]interface{}{"items": L(m("label", "L1"))}}},
		{"P6 var={{/if}} inside if", []string{"{{#if isVip}}A{{memo}}B{{/if}}C"}, pd{vars: m("memo", "{{/if}}"), conds: map[string]bool{"isVip": true}}},
		{"P6b var={{/if}} inside if false", []string{"{{#if isVip}}A{{memo}}B{{/if}}C"}, pd{vars: m("memo", "{{/if}}")}},
		{"P6c var={{/if}} outside if (before)", []string{"{{memo}}{{#if isVip}}AB{{/if}}C"}, pd{vars: m("memo", "{{/if}}"), conds: map[string]bool{"isVip": true}}},
		{"P6d var={{/if}} outside if (after)", []string{"{{#if isVip}}AB{{/if}}C{{memo}}"}, pd{vars: m("memo", "{{/if}}"), conds: map[string]bool{"isVip": true}}},
		{"P7 var={{else}} inside if true", []string{"{{#if isVip}}A{{memo}}B{{/if}}C"}, pd{vars: m("memo", "{{else}}"), conds: map[string]bool{"isVip": true}}},
		{"P7b var={{else}} outside if", []string{"{{memo}}{{#if isVip}}AB{{/if}}C"}, pd{vars: m("memo", "{{else}}"), conds: map[string]bool{"isVip": true}}},
		{"P7c var={{else}} inside each without if", []string{"{{#each tags}}{{memo}}{{/each}}"}, pd{vars: m("memo", "{{else}}"), lists: tags}},
		{"P8 var={{/each}} inside each", []string{"{{#each tags}}A{{memo}}B{{/each}}C"}, pd{vars: m("memo", "{{/each}}"), lists: tags}},
		{"P8b var={{/each}} before loop", []string{"{{memo}}{{#each tags}}AB{{/each}}C"}, pd{vars: m("memo", "{{/each}}"), lists: tags}},
		{"P8c var={{/each}} after loop", []string{"{{#each tags}}AB{{/each}}C{{memo}}"}, pd{vars: m("memo", "{{/each}}"), lists: tags}},
		{"P9 var={{#each tags}} lone, later loop", []string{"{{memo}}{{#each tags}}AB{{/each}}C"}, pd{vars: m("memo", "{{#each tags}}"), lists: tags}},
		{"P9b var={{#each tags}} lone, no loop", []string{"{{memo}} C"}, pd{vars: m("memo", "{{#each tags}}"), lists: tags}},
		{"P9c var={{#if isVip}} lone, no if", []string{"{{memo}} C"}, pd{vars: m("memo", "{{#if isVip}}")}},
		{"P9d var={{#if isVip}} lone, later if", []string{"{{memo}} C {{#if hasNote}}N{{/if}}"}, pd{vars: m("memo", "{{#if isVip}}"), conds: map[string]bool{"hasNote": true}}},
		{"P11 item field={{customer}} chain1", []string{"{{#each items}}<{{label}}>{{/each}} {{customer}}"}, pd{vars: m("customer", "ACME"), lists: map[string][]interface{}{"items": L(m("label", "{{customer}}"))}}},
		{"P12 item field={{#if active}}Z{{/if}}", []string{"{{#each items}}<{{label}}>{{/each}}"}, pd{lists: map[string][]interface{}{"items": L(m("label", "{{#if active}}Z{{/if}}", "active", true))}}},
		{"P12b item field={{#if isVip}}Z{{/if}} topcond true", []string{"{{#each items}}<{{label}}>{{/each}}"}, pd{conds: map[string]bool{"isVip": true}, lists: map[string][]interface{}{"items": L(m("label", "{{#if isVip}}Z{{/if}}"))}}},
		{"P12c scalar item={{#if isVip}}Z{{/if}} topcond true", []string{"{{#each tags}}<{{this}}>{{/each}}"}, pd{conds: map[string]bool{"isVip": true}, lists: map[string][]interface{}{"tags": L("{{#if isVip}}Z{{/if}}")}}},
		{"P13 item field={{#each tags}}X{{/each}} chain1", []string{"{{#each items}}<{{label}}>{{/each}}"}, pd{lists: map[string][]interface{}{"tags": L("a", "b"), "items": L(m("label", "{{#each tags}}X{{/each}}"))}}},
		{"P13b scalar item={{#each tags}}X{{/each}} chain1 self", []string{"{{#each tags}}<{{this}}>{{/each}}"}, pd{lists: map[string][]interface{}{"tags": L("{{#each tags}}X{{/each}}", "b")}}},
		{"P13c inner item field={{#each parts}}X{{/each}}", []string{"{{#each items}}[{{#each subs}}<{{sname}}>{{/each}}]{{/each}}"}, pd{lists: map[string][]interface{}{"items": L(m("subs", L(m("sname", "{{#each parts}}X{{/each}}")), "parts", L("p", "q")))}}},
		{"P13d inner item field={{#each parts}}X{{/each}} followed by other loop", []string{"{{#each items}}[{{#each subs}}<{{sname}}>{{/each}}{{#each parts}}.{{/each}}]{{/each}}"}, pd{lists: map[string][]interface{}{"items": L(m("subs", L(m("sname", "{{#each parts}}X{{/each}}")), "parts", L("p", "q")))}}},
		{"P14 scalar item={{@index}}{{@first}}{{@last}}", []string{"{{#each tags}}<{{this}}>{{/each}}"}, pd{lists: map[string][]interface{}{"tags": L("{{@index}}{{@first}}{{@last}}", "b")}}},
		{"P14b scalar item={{this}}", []string{"{{#each tags}}<{{this}}>{{/each}}"}, pd{lists: map[string][]interface{}{"tags": L("{{this}}", "b")}}},
		{"P15 map item field={{@index}}{{this}}", []string{"{{#each items}}<{{label}}>{{/each}}"}, pd{lists: map[string][]interface{}{"items": L(m("label", "{{@index}}{{this}}{{@last}}"))}}},
		{"P15b inner item field={{@index}}{{this}}", []string{"{{#each items}}[{{#each subs}}<{{sname}}>{{/each}}]{{/each}}"}, pd{lists: map[string][]interface{}{"items": L(m("subs", L(m("sname", "{{@index}}{{this}}{{@last}}"))))}}},
		{"P16 inner item field={{label}} (outer field)", []string{"{{#each items}}[{{#each subs}}<{{sname}}>{{/each}}]{{/each}}"}, pd{lists: map[string][]interface{}{"items": L(m("label", "OUT", "subs", L(m("sname", "{{label}}"))))}}},
		{"P16b outer item field={{sname}} (inner field)", []string{"{{#each items}}{{label}}[{{#each subs}}<{{sname}}>{{/each}}]{{/each}}"}, pd{lists: map[string][]interface{}{"items": L(m("label", "{{sname}}", "subs", L(m("sname", "IN"))))}}},
		{"P16c inner scalar item={{label}}", []string{"{{#each items}}[{{#each parts}}<{{this}}>{{/each}}]{{/each}}"}, pd{lists: map[string][]interface{}{"items": L(m("label", "OUT", "parts", L("{{label}}")))}}},
		{"P16d item field names absent field {{sku}}", []string{"{{#each items}}<{{label}}>{{/each}}"}, pd{lists: map[string][]interface{}{"items": L(m("label", "{{sku}}"))}}},
		{"P16e item field names a field of ANOTHER item of the list", []string{"{{#each items}}<{{label}}>{{/each}}"}, pd{lists: map[string][]interface{}{"items": L(m("label", "{{sku}}"), m("label", "x", "sku", "S2"))}}},
		{"P17 chain2 var={{customer}}", []string{"A {{memo}} {{#block \"header\"}}H0{{/block}}", child}, pd{vars: m("memo", "[{{customer}}]", "customer", "ACME")}},
		{"P17b chain2 item field={{customer}}", []string{"{{#each items}}<{{label}}>{{/each}} {{#block \"header\"}}H0{{/block}}", child}, pd{vars: m("customer", "ACME"), lists: map[string][]interface{}{"items": L(m("label", "{{customer}}"))}}},
		{"P17c chain2 item field={{#each tags}}X{{/each}}", []string{"{{#each items}}<{{label}}>{{/each}} {{#block \"header\"}}H0{{/block}}", child}, pd{lists: map[string][]interface{}{"tags": L("a", "b"), "items": L(m("label", "{{#each tags}}X{{/each}}"))}}},
		{"P17d chain2 item field={{label}} (own name)", []string{"{{#each items}}<{{label}}>{{/each}} {{#block \"header\"}}H0{{/block}}", child}, pd{lists: map[string][]interface{}{"items": L(m("label", "{{label}}"))}}},
		{"P17e chain2 scalar item={{this}}", []string{"{{#each tags}}<{{this}}>{{/each}} {{#block \"header\"}}H0{{/block}}", child}, pd{lists: map[string][]interface{}{"tags": L("{{this}}{{@index}}")}}},
		{"P19 chain1 var={{#block \"header\"}}Z{{/block}}", []string{"A {{memo}} {{#block \"header\"}}H0{{/block}}"}, pd{vars: m("memo", "{{#block \"header\"}}Z{{/block}}")}},
		{"P19b chain2 var={{#block \"header\"}}Z{{/block}}", []string{"A {{memo}} {{#block \"header\"}}H0{{/block}}", child}, pd{vars: m("memo", "{{#block \"header\"}}Z{{/block}}")}},
		{"P19c chain2 var={{#block \"footer\"}}Z{{/block}} (not overridden)", []string{"A {{memo}} {{#block \"header\"}}H0{{/block}}", child}, pd{vars: m("memo", "{{#block \"footer\"}}Z{{/block}}")}},
		{"P19d chain2 var={{/block}}", []string{"A {{memo}} {{#block \"header\"}}H0{{/block}}", child}, pd{vars: m("memo", "{{/block}}")}},
		{"P20 var={{extends \"t0\"}}", []string{"A {{memo}} B"}, pd{vars: m("memo", "{{extends \"t0\"}}")}},
		{"P21 var='{{' '}}' '{{ x }}' '}}{{' ", []string{"A {{memo}} B {{city}} C {{qty}}D{{code}}"}, pd{vars: m("memo", "{{", "city", "}}", "qty", "{{ customer }}", "code", "}}{{", "customer", "ACME")}},
		{"P21b var='{{' followed by literal 'customer}}'", []string{"A {{memo}}customer}} B"}, pd{vars: m("memo", "{{", "customer", "ACME")}},
		{"P21c var='{{' followed by literal '#each tags}}'..", []string{"A {{memo}}#each tags}}X{{/each}} B"}, pd{vars: m("memo", "{{"), lists: tags}},
		{"P21d adjacent vars '{{' + 'customer}}'", []string{"A {{memo}}{{city}} B"}, pd{vars: m("memo", "{{", "city", "customer}}", "customer", "ACME")}},
		{"P21e item fields '{{' + 'sku}}' adjacent", []string{"{{#each items}}{{label}}{{amount}}{{/each}}"}, pd{lists: map[string][]interface{}{"items": L(m("label", "{{", "amount", "sku}}", "sku", "S"))}}},
	}
	for _, p := range ps {
		seen := map[string]int{}
		for i := 0; i < 40; i++ {
			seen[probeRender(p.chain, p.d)]++
		}
		var ks []string
		for k := range seen {
			ks = append(ks, k)
		}
		sort.Strings(ks)
		fmt.Printf("%s\n   tpl=%q\n", p.name, p.chain)
		for _, k := range ks {
			fmt.Printf("   -> %s   (x%d)\n", k, seen[k])
		}
	}
}

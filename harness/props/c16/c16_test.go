package c16

import (
	"fmt"
	"runtime/debug"
	"sort"
	"strconv"
	"strings"
	"testing"

	"github.com/zerx-lab/wordZero/pkg/document"

	"wzverif/internal/kit"
)

func TestMain(m *testing.M) {
	document.SetGlobalLevel(document.LogLevelSilent)
	debug.SetGCPercent(400) // the library compiles its regular expressions on every call: mostly short-lived garbage
	kit.TestMain(m, 10000, 60000)
}

// openKF: ids listed open: for C16 in KNOWN_FINDINGS.txt (read once; steers which shapes the generator bounds).
var openKF = map[string]bool{}

// ---------------------------------------------------------------------------------------------
// Observation: the paragraphs of the returned document.

type obsLine struct {
	text   string
	pic    bool
	cx, cy string
	other  string // not a plain text / picture paragraph
}

func observe(doc *document.Document) []obsLine {
	var out []obsLine
	if doc == nil || doc.Body == nil {
		return out
	}
	for _, e := range doc.Body.Elements {
		p, ok := e.(*document.Paragraph)
		if !ok {
			if _, isSect := e.(*document.SectionProperties); isSect {
				continue
			}
			out = append(out, obsLine{other: fmt.Sprintf("%T", e)})
			continue
		}
		var l obsLine
		for _, r := range p.Runs {
			l.text += r.Text.Content
			if r.Drawing != nil {
				l.pic = true
				if r.Drawing.Inline != nil && r.Drawing.Inline.Extent != nil {
					l.cx, l.cy = r.Drawing.Inline.Extent.Cx, r.Drawing.Inline.Extent.Cy
				}
			}
		}
		out = append(out, l)
	}
	return out
}

func blank(s string) bool { return strings.Trim(s, " \t") == "" }

func show(l obsLine) string {
	if l.other != "" {
		return "<" + l.other + ">"
	}
	if l.pic {
		return fmt.Sprintf("<picture %sx%s %q>", l.cx, l.cy, l.text)
	}
	return strconv.Quote(l.text)
}

// compare returns "" when the observed paragraphs are the expected text, else a description of the first difference.
func compare(c *Case, exp string, got []obsLine) (diff string, imgDiff string) {
	lines := strings.Split(exp, "\n")
	allBlank := true
	for _, l := range lines {
		if !blank(l) {
			allBlank = false
		}
	}
	if allBlank {
		lines = nil
	}
	n := len(lines)
	if len(got) > n {
		n = len(got)
	}
	for i := 0; i < n; i++ {
		if i >= len(lines) {
			return fmt.Sprintf("paragraph %d: unexpected extra paragraph %s (expected %d paragraphs, got %d)", i, show(got[i]), len(lines), len(got)), ""
		}
		want := lines[i]
		if i >= len(got) {
			return fmt.Sprintf("paragraph %d: missing, expected %q (expected %d paragraphs, got %d)", i, want, len(lines), len(got)), ""
		}
		g := got[i]
		if g.other != "" {
			return fmt.Sprintf("paragraph %d: body element %s, expected %q", i, g.other, want), ""
		}
		if strings.HasPrefix(want, imgMark) && strings.HasSuffix(want, "\x00") && strings.Count(want, "\x00") == 2 {
			name := want[len(imgMark) : len(want)-1]
			im := c.Data.Images[name]
			if !g.pic {
				return "", fmt.Sprintf("paragraph %d: expected the picture %q, got %s", i, name, show(g))
			}
			if g.text != "" || g.cx != strconv.Itoa(im.W*9525) || g.cy != strconv.Itoa(im.H*9525) {
				return "", fmt.Sprintf("paragraph %d: expected picture %q (%dx%d px = %dx%d EMU, no text), got %s", i, name, im.W, im.H, im.W*9525, im.H*9525, show(g))
			}
			continue
		}
		if g.pic {
			return fmt.Sprintf("paragraph %d: picture paragraph, expected text %q", i, want), ""
		}
		if blank(want) {
			if strings.TrimSpace(g.text) != "" {
				return fmt.Sprintf("paragraph %d: expected a blank line, got %q", i, g.text), ""
			}
			continue
		}
		if g.text != want {
			return fmt.Sprintf("paragraph %d: expected %q, got %q", i, want, g.text), ""
		}
	}
	return "", ""
}

// ---------------------------------------------------------------------------------------------

// templateData builds the data through the documented setters. The order of the Set calls carries no meaning;
// rev selects the second of two fixed orders (sorted / reverse sorted names), see run.
func (c *Case) templateData(rev bool) *document.TemplateData {
	d := document.NewTemplateData()
	order := func(ks []string) []string {
		sort.Strings(ks)
		if rev {
			for i, j := 0, len(ks)-1; i < j; i, j = i+1, j-1 {
				ks[i], ks[j] = ks[j], ks[i]
			}
		}
		return ks
	}
	names := make([]string, 0, len(c.Data.Vars))
	for k := range c.Data.Vars {
		names = append(names, k)
	}
	for _, k := range order(names) {
		d.SetVariable(k, c.Data.Vars[k].goValue())
	}
	names = names[:0]
	for k := range c.Data.Conds {
		names = append(names, k)
	}
	for _, k := range order(names) {
		d.SetCondition(k, c.Data.Conds[k])
	}
	names = names[:0]
	for k := range c.Data.Lists {
		names = append(names, k)
	}
	for _, k := range order(names) {
		d.SetList(k, goList(c.Data.Lists[k]))
	}
	names = names[:0]
	for k := range c.Data.Images {
		names = append(names, k)
	}
	for _, k := range order(names) {
		d.SetImageFromData(k, c.Data.Images[k].Bytes(), nil)
	}
	return d
}

// renders: how often the case is rendered. The result of a render must not depend on anything but the template
// and the data, so every render is judged; cases in which one value names another supplied name are rendered
// several times, with the data set in two different orders, because a library that substitutes name by name
// would treat them differently from one walk over its data to the next.
func (c *Case) renders() int {
	if c.varNamesSuppliedVar() {
		return 4
	}
	return 1
}

func run(c Case) *kit.Result {
	res := &kit.Result{}
	exp, ip := expected(&c)
	srcs := c.sources()
	describe(res, &c, ip, exp)

	// T0: loading and rendering a well-formed template succeeds
	res.Eval("C16.T0")
	var eng *document.TemplateEngine
	var err error
	where := ""
	last := tplName(len(srcs) - 1)
	p, st := kit.Try(func() {
		eng = document.NewTemplateEngine()
		// the history: loads whose outcome the final phase must make irrelevant (errors of these loads are allowed)
		for i, ld := range c.Pre {
			if src, ok := c.loadSource(ld, srcs); ok {
				where = fmt.Sprintf("LoadTemplate %s (history load %d)", tplName(ld.T), i)
				eng.LoadTemplate(tplName(ld.T), src)
			}
		}
		// final phase: every template of the chain, base to child, with its final source
		for i, s := range srcs {
			if _, err = eng.LoadTemplate(tplName(i), s); err != nil {
				where = "LoadTemplate " + tplName(i)
				return
			}
		}
		where = ""
	})
	if p != nil {
		res.Fail("C16.T0", "panic in %s: %v [%s]\ntemplate: %q", where, p, st, srcs)
		return res
	}
	if err != nil {
		res.Fail("C16.T0", "%s failed on a well-formed template: %v\ntemplate: %q", where, err, srcs)
		return res
	}

	hasImg := strings.Contains(exp, imgMark)
	for r, n := 0, c.renders(); r < n; r++ {
		var doc *document.Document
		p, st := kit.Try(func() {
			data := c.templateData(r%2 == 1)
			if c.Entry == 1 {
				where = "RenderTemplateToDocument"
				doc, err = eng.RenderTemplateToDocument(last, data)
			} else {
				where = "RenderToDocument"
				doc, err = eng.RenderToDocument(last, data)
			}
		})
		if p != nil {
			res.Fail("C16.T0", "panic in %s: %v [%s]\ntemplate: %q", where, p, st, srcs)
			return res
		}
		if err != nil || doc == nil {
			res.Fail("C16.T0", "%s failed on a well-formed template: %v\ntemplate: %q", where, err, srcs)
			return res
		}

		// T1: the paragraph texts are the reference text; T2: image lines are the pictures
		got := observe(doc)
		res.Eval("C16.T1")
		if hasImg {
			res.Eval("C16.T2")
		}
		d, idiff := compare(&c, exp, got)
		if d != "" {
			var gs []string
			for _, l := range got {
				gs = append(gs, show(l))
			}
			res.Fail("C16.T1", "%s (render %d of %d)\ntemplates: %q%s\ndata: %s\nexpected text: %q\ngot paragraphs: [%s]", d, r+1, n, srcs, c.historyBrief(srcs), dataBrief(&c), strings.ReplaceAll(exp, "\x00", "¤"), strings.Join(gs, ", "))
			return res
		} else if idiff != "" {
			res.Fail("C16.T2", "%s\ntemplates: %q", idiff, srcs)
			return res
		}
	}
	return res
}

// historyBrief shows the loads that preceded the final phase.
func (c *Case) historyBrief(srcs []string) string {
	if len(c.Pre) == 0 {
		return ""
	}
	var sb strings.Builder
	sb.WriteString("\nhistory before the chain was loaded base-to-child:")
	for _, ld := range c.Pre {
		src, ok := c.loadSource(ld, srcs)
		if !ok {
			continue
		}
		if ld.V == 0 {
			sb.WriteString(fmt.Sprintf(" Load(%s, final);", tplName(ld.T)))
		} else {
			sb.WriteString(fmt.Sprintf(" Load(%s, earlier version %q);", tplName(ld.T), src))
		}
	}
	return sb.String()
}

func dataBrief(c *Case) string {
	var sb strings.Builder
	var show func(v Val) string
	show = func(v Val) string {
		switch v.T {
		case "s":
			return strconv.Quote(v.S)
		case "i", "l", "f":
			return v.T + ":" + v.S
		case "b":
			return strconv.FormatBool(v.B)
		case "n":
			return "nil"
		case "m":
			ks := make([]string, 0, len(v.M))
			for k := range v.M {
				ks = append(ks, k)
			}
			sort.Strings(ks)
			var ps []string
			for _, k := range ks {
				ps = append(ps, k+":"+show(v.M[k]))
			}
			return "{" + strings.Join(ps, " ") + "}"
		case "a":
			var ps []string
			for _, x := range v.L {
				ps = append(ps, show(x))
			}
			return "[" + strings.Join(ps, " ") + "]"
		}
		return "?"
	}
	ks := make([]string, 0)
	for k := range c.Data.Vars {
		ks = append(ks, k)
	}
	sort.Strings(ks)
	for _, k := range ks {
		sb.WriteString(k + "=" + show(c.Data.Vars[k]) + " ")
	}
	ks = ks[:0]
	for k := range c.Data.Conds {
		ks = append(ks, k)
	}
	sort.Strings(ks)
	for _, k := range ks {
		sb.WriteString(k + "?" + strconv.FormatBool(c.Data.Conds[k]) + " ")
	}
	ks = ks[:0]
	for k := range c.Data.Lists {
		ks = append(ks, k)
	}
	sort.Strings(ks)
	for _, k := range ks {
		sb.WriteString(k + "=" + show(Val{T: "a", L: c.Data.Lists[k]}) + " ")
	}
	return sb.String()
}

// describe sets labels, non-triviality and the structural shape of the case.
func describe(res *kit.Result, c *Case, ip *interp, exp string) {
	kinds := map[string]bool{}
	var sk strings.Builder
	hasElse, nested, depth3, braceLit, nlLit, ifInLoop, eachInIf, wrap := false, false, false, false, false, false, false, false
	var skel func(ns []Node, d int)
	skel = func(ns []Node, d int) {
		for i, n := range ns {
			switch n.K {
			case KLit:
				sk.WriteString("l")
				if strings.ContainsAny(n.S, "{}") {
					braceLit = true
					sk.WriteString("b")
				}
				if strings.Contains(n.S, "\n") {
					nlLit = true
					sk.WriteString("n")
				}
				if n.S == "{" && i+1 < len(ns) && ns[i+1].K != KLit {
					wrap = true
				}
			case KVar:
				kinds["var"] = true
				sk.WriteString("v")
			case KField:
				kinds["field"] = true
				sk.WriteString("f")
			case KThis, KIndex, KFirst, KLast:
				kinds["loopctx"] = true
				sk.WriteString(n.K[:1] + n.K[len(n.K)-1:])
			case KIf:
				kinds["if"] = true
				if d > 0 {
					ifInLoop = true
				}
				sk.WriteString("I(")
				skel(n.A, d)
				if n.Else {
					hasElse = true
					sk.WriteString("|")
					skel(n.B, d)
				}
				sk.WriteString(")")
			case KEach:
				kinds["each"] = true
				if d >= 1 {
					nested = true
				}
				if d >= 2 {
					depth3 = true
				}
				sk.WriteString("E" + n.S + "(")
				skel(n.A, d+1)
				sk.WriteString(")")
			case KBlock:
				kinds["block"] = true
				sk.WriteString("B(")
				skel(n.A, d)
				sk.WriteString(")")
			case KImage:
				kinds["image"] = true
				sk.WriteString("P")
			}
		}
	}
	skel(c.Base, 0)
	for _, ch := range c.Children {
		sk.WriteString("/")
		for _, o := range ch {
			sk.WriteString("O" + o.Name + "(")
			skel(o.Body, 0)
			sk.WriteString(")")
		}
	}
	c.walk(func(n Node, d int, inIf bool) {
		if n.K == KEach && inIf {
			eachInIf = true
		}
	})
	// data classes
	types := map[string]bool{}
	bracey, multiline := false, false
	var tv func(v Val)
	tv = func(v Val) {
		types[v.T] = true
		for _, x := range v.M {
			tv(x)
		}
		for _, x := range v.L {
			tv(x)
		}
		if v.T == "s" {
			if strings.ContainsAny(v.S, "{}") {
				bracey = true
			}
			if strings.Contains(v.S, "\n") {
				multiline = true
			}
		}
	}
	for _, v := range c.Data.Vars {
		tv(v)
	}
	for _, l := range c.Data.Lists {
		for _, v := range l {
			tv(v)
		}
	}
	var ds []string
	for _, k := range varNames {
		if v, ok := c.Data.Vars[k]; ok {
			ds = append(ds, v.T)
		} else {
			ds = append(ds, "-")
		}
	}
	for _, k := range condNames {
		if v, ok := c.Data.Conds[k]; ok {
			ds = append(ds, strconv.FormatBool(v)[:1])
		} else {
			ds = append(ds, "-")
		}
	}
	for _, s := range topLists {
		if l, ok := c.Data.Lists[s.name]; ok {
			ds = append(ds, strconv.Itoa(len(l)))
		} else {
			ds = append(ds, "-")
		}
	}

	lab := func(on bool, l string) {
		if on {
			res.Label(l)
		}
	}
	h := c.Hazard
	if h == "" {
		h = "none"
	}
	res.Label("hazard:" + h)
	for k := range kinds {
		res.Label("dir:" + k)
	}
	lab(hasElse, "dir:if-else")
	lab(ifInLoop, "if:in-loop")
	lab(eachInIf, "each:in-if")
	lab(nested, "each:nested")
	lab(depth3, "each:depth3")
	lab(ip.nestedRan, "each:nested-ran")
	lab(ip.depth3Ran, "each:depth3-ran")
	lab(ip.multiList, "list:2+items")
	lab(ip.emptyList, "list:empty")
	lab(ip.absentList, "list:absent")
	lab(ip.unknownVar, "var:unknown")
	lab(ip.knownVar, "var:known")
	lab(ip.unknownField, "field:absent")
	lab(ip.absentCond, "cond:absent")
	lab(ip.elseTaken, "else:taken")
	lab(ip.elseTakenLoop, "else:taken-in-loop")
	lab(ip.nestedMissing, "nested:list-field-missing")
	lab(ip.nestedAbsent, "nested:list-field-missing-no-lists")
	lab(c.nestedUsesLoopContext(), "nested:uses-loop-context")
	lab(c.someDataStringHasOpenBraces(), "data:has-{{")
	rc := c.rescanClasses()
	for k := range rc {
		res.Label("class:" + k)
	}
	lab(len(rc) > 0, "data:rescan-class")
	lab(len(rc) == 0 && c.someDataStringHasOpenBraces(), "data:has-{{-judged-exactly")
	lab(len(rc) == 0 && c.someDataStringHasDirectiveToken(), "data:directive-token-judged-exactly")
	lab(len(rc) == 0 && c.varNamesSuppliedVar(), "var:value-names-supplied-var")
	sc := c.schedClasses()
	for k := range sc {
		res.Label("sched:" + k)
	}
	lab(len(c.Pre) == 0, "sched:none")
	lab(bracey, "data:braces")
	lab(multiline, "data:newline")
	lab(braceLit, "lit:braces")
	lab(nlLit, "lit:newline")
	lab(wrap, "lit:brace-around-directive")
	lab(types["i"] || types["l"], "data:int")
	lab(types["f"], "data:float")
	lab(types["b"], "data:bool")
	lab(types["n"], "data:nil")
	res.Label("chain:" + strconv.Itoa(1+len(c.Children)))
	res.Label("entry:" + []string{"RenderToDocument", "RenderTemplateToDocument"}[c.Entry&1])
	allBlank := true
	for _, l := range strings.Split(exp, "\n") {
		if !blank(l) {
			allBlank = false
		}
	}
	lab(allBlank, "out:all-blank")
	if c.Hazard != "" {
		res.Count("hazard_cases", 1)
	}

	present := ip.knownVar || len(c.Data.Conds) > 0 || len(c.Data.Lists) > 0
	absent := ip.unknownVar || ip.absentCond || ip.absentList || ip.unknownField
	nk := 0
	for _, k := range []string{"var", "if", "each", "block", "image"} {
		if kinds[k] {
			nk++
		}
	}
	res.Nontrivial = nk >= 2 && (ip.multiList || hasElse) && present && absent
	var scs []string
	for k := range sc {
		scs = append(scs, k[:1])
	}
	sort.Strings(scs)
	res.Shape = sk.String() + "#" + strconv.Itoa(c.Entry) + "#" + strings.Join(ds, "") + "#" + strings.Join(scs, "")
}

func fixedCases() []Case {
	s := func(x string) Val { return Val{T: "s", S: x} }
	return []Case{
		// the README example (without else) and the documented loop variables
		{Base: []Node{{K: KLit, S: "Company: "}, {K: KVar, S: "customer"}, {K: KLit, S: "\n\nTeam:\n"},
			{K: KEach, S: "people", A: []Node{{K: KLit, S: "- "}, {K: KField, S: "pname"}, {K: KLit, S: ": "}, {K: KField, S: "role"}, {K: KLit, S: "\n"}}},
			{K: KIf, S: "isVip", A: []Node{{K: KLit, S: "VIP"}}}},
			Data: Data{Vars: map[string]Val{"customer": s("ACME")}, Conds: map[string]bool{"isVip": true},
				Lists: map[string][]Val{"people": {{T: "m", M: map[string]Val{"pname": s("Ann"), "role": s("dev")}}, {T: "m", M: map[string]Val{"pname": s("Bo"), "role": s("ops")}}}}}},
		{Base: []Node{{K: KEach, S: "tags", A: []Node{{K: KIndex}, {K: KLit, S: ". "}, {K: KThis}, {K: KLit, S: " "}, {K: KFirst}, {K: KLit, S: "/"}, {K: KLast}, {K: KLit, S: "\n"}}}},
			Data: Data{Lists: map[string][]Val{"tags": {s("a"), s("b"), s("c")}}}},
		// inheritance: grandchild overrides one block, child another, the third keeps its default
		{Base: []Node{{K: KVar, S: "title"}, {K: KLit, S: "\n"}, {K: KBlock, S: "header", A: []Node{{K: KLit, S: "H0"}}}, {K: KLit, S: "\n"},
			{K: KBlock, S: "summary", A: []Node{{K: KLit, S: "S0"}}}, {K: KLit, S: "\n"}, {K: KBlock, S: "content", A: []Node{{K: KLit, S: "C0 "}, {K: KVar, S: "city"}}}},
			Children: [][]Override{{{Name: "header", Body: []Node{{K: KLit, S: "H1"}}}, {Name: "summary", Body: []Node{{K: KLit, S: "S1"}}}}, {{Name: "summary", Body: []Node{{K: KLit, S: "S2 "}, {K: KVar, S: "qty"}}}}},
			Data:     Data{Vars: map[string]Val{"title": s("T"), "qty": {T: "i", S: "7"}}}, Entry: 1},
	}
}

func TestC16(t *testing.T) {
	openKF = kit.OpenFindings("C16")
	kit.Main(t, kit.Spec[Case]{
		ID: "C16", Level: "exploration",
		Rule: "template chain (1-3 levels) drawn as an AST from the documented grammar (literals incl. newlines/braces, variables, if / if-else, each with fields/this/@index/@first/@last/inner if/nested each to depth 3, blocks + extends, image lines) with typed data (strings incl. brace-bearing and multi-line, int, int64, float64, bool, nil; conditions true/false/absent; lists of maps / scalars, empty, absent), serialised to text, loaded on a fresh engine by a drawn load schedule (optional history: child before its base, an earlier version of a template later replaced, identical re-loads; then always the whole chain base-to-child with the final sources) and rendered (several times, data set in two orders, when a value names another supplied name); values with braces and whole directive tokens (placeholders naming other supplied variables, conditions, lists, fields, unknown names; {{/if}}, {{else}}, {{/each}}, ...) occur in every position and are judged exactly outside the (position, directive kind) classes of the open re-scan findings; non-trivial = >=2 directive kinds among {var, if, each, block, image} and (a loop over >=2 items or a conditional with an else branch) and the data has both a present and an absent name used by the template; distinct = distinct (AST skeleton incl. list names and literal classes, entry point, per-name data type/presence/list-length vector, set of schedule classes)",
		Gen:  genCase, Run: run, Findings: findings, Fixed: fixedCases,
		Assumptions: []string{
			"names of variables, conditions, lists, item fields, blocks and images are pairwise distinct ASCII identifiers and none is this/else/index/first/last (the documents are silent on shadowing)",
			"conditionals are not nested in conditionals; conditionals inside a loop test boolean fields of the current item only (string/number truthiness is not documented)",
			"literal text never forms a directive: no literal token ends with '{' or starts with '}' except a lone brace placed directly around a directive; '{{ x }}' with inner blanks is literal text",
			"values never complete a directive together with their surroundings: no value starts with '}' and every '}}' inside a value follows a character that cannot belong to a name; whole directive tokens inside a value are text",
			"the engine history before the final base-to-child load of the chain carries no meaning (a load defines the named template anew); errors of history loads are ignored, the final loads must succeed",
			"floats are drawn through decimal texts of 1-3 fractional digits (last digit non-zero), so the expected rendering is that text and no formatting convention is assumed; nil renders as nothing",
			"a line consisting only of blanks/tabs is compared as empty and an all-blank output as no paragraphs",
			"every image placeholder has image data; {{this}} is only used over lists of scalars",
		},
		MustSee: map[string]float64{"dir:var": 0.5, "dir:if": 0.3, "dir:if-else": 0.12, "dir:each": 0.4, "each:nested-ran": 0.04, "list:2+items": 0.3, "dir:block": 0.3, "chain:3": 0.08,
			"dir:image": 0.05, "var:unknown": 0.2, "cond:absent": 0.08, "list:absent": 0.05, "data:float": 0.1, "lit:braces": 0.2, "data:braces": 0.25, "hazard:none": 0.7, "if:in-loop": 0.08,
			"data:has-{{-judged-exactly": 0.2, "data:directive-token-judged-exactly": 0.12, "var:value-names-supplied-var": 0.05,
			"sched:child-first": 0.08, "sched:base-replaced": 0.08, "sched:reload-same": 0.12, "sched:replaced": 0.15, "sched:none": 0.25},
	})
}

package c16

import (
	"fmt"
	"os"
	"runtime/debug"
	"sort"
	"strconv"
	"strings"
	"sync"
	"testing"

	"github.com/zerx-lab/wordZero/pkg/document"

	"wzverif/internal/gen"
	"wzverif/internal/kit"
)

func TestMain(m *testing.M) {
	document.SetGlobalLevel(document.LogLevelSilent)
	debug.SetGCPercent(400) // the library compiles its regular expressions on every call: mostly short-lived garbage
	kit.TestMain(m, 13000, 300000)
}

// openKF: ids listed open: for C16 in KNOWN_FINDINGS.txt (read once; steers which shapes the generator bounds).
var openKF = map[string]bool{}

// ---------------------------------------------------------------------------------------------
// Observation: the paragraphs of the returned document.

type obsLine struct {
	text   string
	pic    bool
	cx, cy string
	other  string // not a plain text / picture paragraph
}

func observe(doc *document.Document) []obsLine {
	var out []obsLine
	if doc == nil || doc.Body == nil {
		return out
	}
	for _, e := range doc.Body.Elements {
		p, ok := e.(*document.Paragraph)
		if !ok {
			if _, isSect := e.(*document.SectionProperties); isSect {
				continue
			}
			out = append(out, obsLine{other: fmt.Sprintf("%T", e)})
			continue
		}
		var l obsLine
		for _, r := range p.Runs {
			l.text += r.Text.Content
			if r.Drawing != nil {
				l.pic = true
				if r.Drawing.Inline != nil && r.Drawing.Inline.Extent != nil {
					l.cx, l.cy = r.Drawing.Inline.Extent.Cx, r.Drawing.Inline.Extent.Cy
				}
			}
		}
		out = append(out, l)
	}
	return out
}

func blank(s string) bool { return strings.Trim(s, " \t") == "" }

func show(l obsLine) string {
	if l.other != "" {
		return "<" + l.other + ">"
	}
	if l.pic {
		return fmt.Sprintf("<picture %sx%s %q>", l.cx, l.cy, l.text)
	}
	return strconv.Quote(l.text)
}

// expEl is one expected paragraph: a text, or the picture of an image placeholder. A line without an image
// placeholder is one text paragraph. A line with placeholders is the sequence of its text segments and pictures in
// line order: a segment of length zero has nothing to show, a segment made of blanks only may or may not get a
// paragraph of its own (optional), every other segment must appear unchanged between its neighbours.
type expEl struct {
	pic      bool
	s        string // text, or the image name
	optional bool
	line     int
}

func expectedParagraphs(exp string) []expEl {
	lines := strings.Split(exp, "\n")
	allBlank := true
	for _, l := range lines {
		if !blank(l) {
			allBlank = false
		}
	}
	if allBlank {
		return nil
	}
	var out []expEl
	for li, l := range lines {
		if !strings.Contains(l, imgMark) {
			out = append(out, expEl{s: l, line: li})
			continue
		}
		for l != "" {
			i := strings.Index(l, imgMark)
			if i < 0 {
				break
			}
			j := strings.Index(l[i+len(imgMark):], "\x00")
			if j < 0 {
				break
			}
			if seg := l[:i]; seg != "" {
				out = append(out, expEl{s: seg, optional: blank(seg), line: li})
			}
			out = append(out, expEl{pic: true, s: l[i+len(imgMark) : i+len(imgMark)+j], line: li})
			l = l[i+len(imgMark)+j+1:]
		}
		if l != "" {
			out = append(out, expEl{s: l, optional: blank(l), line: li})
		}
	}
	return out
}

func (c *Case) elMatches(e expEl, g obsLine) bool {
	if g.other != "" {
		return false
	}
	if e.pic {
		im := c.Data.Images[e.s]
		return g.pic && g.text == "" && g.cx == strconv.Itoa(im.W*9525) && g.cy == strconv.Itoa(im.H*9525)
	}
	if g.pic {
		return false
	}
	if blank(e.s) {
		return strings.TrimSpace(g.text) == ""
	}
	return matchHoles(e.s, g.text)
}

// compare returns "" when the observed paragraphs are the expected text, else a description of the first difference
// (diff: a text paragraph differs, imgDiff: a picture is not where / what it should be).
func compare(c *Case, exp string, got []obsLine) (diff string, imgDiff string) {
	els := expectedParagraphs(exp)
	n, m := len(els), len(got)
	// reach[i][j]: els[:i] can be laid over got[:j]
	reach := make([][]bool, n+1)
	for i := range reach {
		reach[i] = make([]bool, m+1)
	}
	reach[0][0] = true
	bi, bj := 0, 0 // the furthest state: most observed paragraphs explained, then most expected ones consumed
	for i := 0; i <= n; i++ {
		for j := 0; j <= m; j++ {
			if !reach[i][j] {
				continue
			}
			if j > bj || (j == bj && i > bi) {
				bi, bj = i, j
			}
			if i < n && els[i].optional {
				reach[i+1][j] = true
			}
			if i < n && j < m && c.elMatches(els[i], got[j]) {
				reach[i+1][j+1] = true
			}
		}
	}
	if reach[n][m] {
		return "", ""
	}
	i, j := bi, bj
	for i < n && els[i].optional && (j >= m || !c.elMatches(els[i], got[j])) {
		i++
	}
	nreq := 0
	for _, e := range els {
		if !e.optional {
			nreq++
		}
	}
	switch {
	case i >= n:
		return fmt.Sprintf("paragraph %d: unexpected extra paragraph %s (expected %d paragraphs, got %d)", j, show(got[j]), nreq, m), ""
	case j >= m && els[i].pic:
		return "", fmt.Sprintf("paragraph %d: missing, expected the picture %q of line %d (expected %d paragraphs, got %d)", j, els[i].s, els[i].line, nreq, m)
	case j >= m:
		return fmt.Sprintf("paragraph %d: missing, expected %q of line %d (expected %d paragraphs, got %d)", j, showExp(els[i].s), els[i].line, nreq, m), ""
	}
	e, g := els[i], got[j]
	switch {
	case g.other != "":
		return fmt.Sprintf("paragraph %d: body element %s, expected %q", j, g.other, showExp(e.s)), ""
	case e.pic && !g.pic:
		return "", fmt.Sprintf("paragraph %d: expected the picture %q (line %d), got %s", j, e.s, e.line, show(g))
	case e.pic:
		im := c.Data.Images[e.s]
		return "", fmt.Sprintf("paragraph %d: expected picture %q (%dx%d px = %dx%d EMU, no text), got %s", j, e.s, im.W, im.H, im.W*9525, im.H*9525, show(g))
	case g.pic:
		return fmt.Sprintf("paragraph %d: picture paragraph, expected text %q (line %d)", j, showExp(e.s), e.line), ""
	case blank(e.s):
		return fmt.Sprintf("paragraph %d: expected a blank line, got %q", j, g.text), ""
	}
	return fmt.Sprintf("paragraph %d: expected %q, got %q", j, showExp(e.s), g.text), ""
}

// ---------------------------------------------------------------------------------------------

// templateData builds the data through the documented setters. The order of the Set calls carries no meaning;
// rev selects the second of two fixed orders (sorted / reverse sorted names), see run.
func (c *Case) templateData(rev bool) *document.TemplateData {
	d := document.NewTemplateData()
	order := func(ks []string) []string {
		sort.Strings(ks)
		if rev {
			for i, j := 0, len(ks)-1; i < j; i, j = i+1, j-1 {
				ks[i], ks[j] = ks[j], ks[i]
			}
		}
		return ks
	}
	names := make([]string, 0, len(c.Data.Vars))
	for k := range c.Data.Vars {
		names = append(names, k)
	}
	for _, k := range order(names) {
		d.SetVariable(k, c.Data.Vars[k].goValue())
	}
	names = names[:0]
	for k := range c.Data.Conds {
		names = append(names, k)
	}
	for _, k := range order(names) {
		d.SetCondition(k, c.Data.Conds[k])
	}
	names = names[:0]
	for k := range c.Data.Lists {
		names = append(names, k)
	}
	for _, k := range order(names) {
		d.SetList(k, goList(c.Data.Lists[k]))
	}
	names = names[:0]
	for k := range c.Data.Images {
		names = append(names, k)
	}
	for _, k := range order(names) {
		d.SetImageFromData(k, imgBytes(c.Data.Images[k]), nil)
	}
	return d
}

// imgBytes: the encoded image (encoded once per distinct image; a case is rendered several times).
var (
	imgCache = map[gen.Img][]byte{}
	imgMu    sync.Mutex
)

func imgBytes(im gen.Img) []byte {
	imgMu.Lock()
	defer imgMu.Unlock()
	if b, ok := imgCache[im]; ok {
		return append([]byte(nil), b...)
	}
	b := im.Bytes()
	if len(imgCache) > 4096 {
		imgCache = map[gen.Img][]byte{}
	}
	imgCache[im] = b
	return append([]byte(nil), b...)
}

// renders: how often the case is rendered. The result of a render must not depend on anything but the template
// and the data, so every render is judged; cases in which one value names another supplied name are rendered
// several times, with the data set in two different orders, because a library that substitutes name by name
// would treat them differently from one walk over its data to the next.
func (c *Case) renders() int {
	if c.varNamesSuppliedVar() {
		return 4
	}
	return 1
}

func run(c Case) *kit.Result {
	res := &kit.Result{}
	exps, ip := expectedAll(&c)
	order := c.renderList()
	srcs := c.sources()
	sibs := c.sibSources()
	describe(res, &c, ip, exps)
	all := append(append([]string{}, srcs...), sibs...)

	// T0: loading and rendering a well-formed template succeeds
	res.Eval("C16.T0")
	var eng *document.TemplateEngine
	var err error
	where := ""
	p, st := kit.Try(func() {
		eng = document.NewTemplateEngine()
		// the history: loads whose outcome the final phase must make irrelevant (errors of these loads are allowed)
		for i, ld := range c.Pre {
			if src, ok := c.loadSource(ld, srcs); ok {
				where = fmt.Sprintf("LoadTemplate %s (history load %d)", c.name(ld.T), i)
				eng.LoadTemplate(c.name(ld.T), src)
			}
		}
		// final phase: every template of the chain, base to child, with its final source; then the siblings
		for i, s := range srcs {
			if _, err = eng.LoadTemplate(c.name(i), s); err != nil {
				where = "LoadTemplate " + c.name(i)
				return
			}
		}
		for j, s := range sibs {
			if s == "" {
				continue
			}
			if _, err = eng.LoadTemplate(c.name(len(srcs)+j), s); err != nil {
				where = "LoadTemplate " + c.name(len(srcs)+j)
				return
			}
		}
		where = ""
	})
	if p != nil {
		res.Fail("C16.T0", "panic in %s: %v [%s]\ntemplate: %q", where, p, st, all)
		return res
	}
	if err != nil {
		res.Fail("C16.T0", "%s failed on a well-formed template: %v\ntemplate: %q", where, err, all)
		return res
	}

	// the renders: the sequence, each once, then the last template of the chain (renders() times)
	type step struct {
		tpl, of, n int
		exp        string
	}
	var steps []step
	for i, k := range order {
		n := 1
		if i == len(order)-1 {
			n = c.renders()
		}
		for r := 0; r < n; r++ {
			steps = append(steps, step{tpl: k, of: r + 1, n: n, exp: exps[i]})
		}
	}
	for si, sp := range steps {
		name := c.name(sp.tpl)
		hasImg := strings.Contains(sp.exp, imgMark)
		var doc *document.Document
		p, st := kit.Try(func() {
			rev := (sp.of-1)%2 == 1
			if si < len(order)-1 {
				rev = si%2 == 1
			}
			data := c.templateData(rev)
			if c.Entry == 1 {
				where = "RenderTemplateToDocument(" + name + ")"
				doc, err = eng.RenderTemplateToDocument(name, data)
			} else {
				where = "RenderToDocument(" + name + ")"
				doc, err = eng.RenderToDocument(name, data)
			}
		})
		if p != nil {
			res.Fail("C16.T0", "panic in %s: %v [%s]\ntemplate: %q", where, p, st, all)
			return res
		}
		if err != nil || doc == nil {
			res.Fail("C16.T0", "%s failed on a well-formed template: %v\ntemplate: %q", where, err, all)
			return res
		}

		// T1: the paragraph texts are the reference text; T2: image placeholders are the pictures
		got := observe(doc)
		res.Eval("C16.T1")
		if hasImg {
			res.Eval("C16.T2")
		}
		d, idiff := compare(&c, sp.exp, got)
		if d == "" && idiff == "" {
			continue
		}
		var gs []string
		for _, l := range got {
			gs = append(gs, show(l))
		}
		ctx := fmt.Sprintf("render of %s (%d of %d)", name, sp.of, sp.n)
		if len(order) > 1 {
			var ns []string
			for _, k := range order {
				ns = append(ns, c.name(k))
			}
			ctx = fmt.Sprintf("render %d of the sequence [%s] on one engine: %s", si+1, strings.Join(ns, " "), ctx)
		}
		if d != "" {
			res.Fail("C16.T1", "%s (%s)\ntemplates: %q%s\ndata: %s\nexpected text: %q\ngot paragraphs: [%s]", d, ctx, all, c.historyBrief(srcs), dataBrief(&c), showExp(sp.exp), strings.Join(gs, ", "))
		} else {
			res.Fail("C16.T2", "%s (%s)\ntemplates: %q\nexpected text: %q\ngot paragraphs: [%s]", idiff, ctx, all, showExp(sp.exp), strings.Join(gs, ", "))
		}
		return res
	}
	return res
}

// historyBrief shows the loads that preceded the final phase.
func (c *Case) historyBrief(srcs []string) string {
	if len(c.Pre) == 0 {
		return ""
	}
	var sb strings.Builder
	sb.WriteString("\nhistory before the chain was loaded base-to-child:")
	for _, ld := range c.Pre {
		src, ok := c.loadSource(ld, srcs)
		if !ok {
			continue
		}
		if ld.V == 0 {
			sb.WriteString(fmt.Sprintf(" Load(%s, final);", c.name(ld.T)))
		} else {
			sb.WriteString(fmt.Sprintf(" Load(%s, earlier version %q);", c.name(ld.T), src))
		}
	}
	return sb.String()
}

func dataBrief(c *Case) string {
	var sb strings.Builder
	var show func(v Val) string
	show = func(v Val) string {
		switch v.T {
		case "s":
			return strconv.Quote(v.S)
		case "i", "l", "f":
			return v.T + ":" + v.S
		case "b":
			return strconv.FormatBool(v.B)
		case "n":
			return "nil"
		case "m":
			ks := make([]string, 0, len(v.M))
			for k := range v.M {
				ks = append(ks, k)
			}
			sort.Strings(ks)
			var ps []string
			for _, k := range ks {
				ps = append(ps, k+":"+show(v.M[k]))
			}
			return "{" + strings.Join(ps, " ") + "}"
		case "a":
			var ps []string
			for _, x := range v.L {
				ps = append(ps, show(x))
			}
			return "[" + strings.Join(ps, " ") + "]"
		}
		return "?"
	}
	ks := make([]string, 0)
	for k := range c.Data.Vars {
		ks = append(ks, k)
	}
	sort.Strings(ks)
	for _, k := range ks {
		sb.WriteString(k + "=" + show(c.Data.Vars[k]) + " ")
	}
	ks = ks[:0]
	for k := range c.Data.Conds {
		ks = append(ks, k)
	}
	sort.Strings(ks)
	for _, k := range ks {
		sb.WriteString(k + "?" + strconv.FormatBool(c.Data.Conds[k]) + " ")
	}
	ks = ks[:0]
	for k := range c.Data.Lists {
		ks = append(ks, k)
	}
	sort.Strings(ks)
	for _, k := range ks {
		sb.WriteString(k + "=" + show(Val{T: "a", L: c.Data.Lists[k]}) + " ")
	}
	return sb.String()
}

// describe sets labels, non-triviality and the structural shape of the case.
func describe(res *kit.Result, c *Case, ip *interp, exps []string) {
	exp := exps[len(exps)-1]
	kinds := map[string]bool{}
	var sk strings.Builder
	hasElse, nested, depth3, braceLit, nlLit, ifInLoop, eachInIf, wrap := false, false, false, false, false, false, false, false
	var skel func(ns []Node, d int)
	skel = func(ns []Node, d int) {
		for i, n := range ns {
			switch n.K {
			case KLit:
				sk.WriteString("l")
				if strings.ContainsAny(n.S, "{}") {
					braceLit = true
					sk.WriteString("b")
				}
				if strings.Contains(n.S, "\n") {
					nlLit = true
					sk.WriteString("n")
				}
				if n.S == "{" && i+1 < len(ns) && ns[i+1].K != KLit {
					wrap = true
				}
			case KVar:
				kinds["var"] = true
				sk.WriteString("v")
			case KField:
				kinds["field"] = true
				sk.WriteString("f")
			case KThis, KIndex, KFirst, KLast:
				kinds["loopctx"] = true
				sk.WriteString(n.K[:1] + n.K[len(n.K)-1:])
			case KIf:
				kinds["if"] = true
				if d > 0 {
					ifInLoop = true
				}
				sk.WriteString("I(")
				skel(n.A, d)
				if n.Else {
					hasElse = true
					sk.WriteString("|")
					skel(n.B, d)
				}
				sk.WriteString(")")
			case KEach:
				kinds["each"] = true
				if d >= 1 {
					nested = true
				}
				if d >= 2 {
					depth3 = true
				}
				sk.WriteString("E" + n.S + "(")
				skel(n.A, d+1)
				sk.WriteString(")")
			case KBlock:
				kinds["block"] = true
				sk.WriteString("B(")
				skel(n.A, d)
				sk.WriteString(")")
			case KImage:
				kinds["image"] = true
				sk.WriteString("P")
			}
		}
	}
	skel(c.Base, 0)
	for _, ch := range c.Children {
		sk.WriteString("/")
		for _, o := range ch {
			sk.WriteString("O" + o.Name + "(")
			skel(o.Body, 0)
			sk.WriteString(")")
		}
	}
	for _, sb := range c.Sibs {
		sk.WriteString("/S" + strconv.Itoa(sb.P))
		for _, o := range sb.Ov {
			sk.WriteString("O" + o.Name + "(")
			skel(o.Body, 0)
			sk.WriteString(")")
		}
	}
	sk.WriteString("/R")
	for _, k := range c.Seq {
		sk.WriteString(strconv.Itoa(k) + ",")
	}
	c.walk(func(n Node, d int, inIf bool) {
		if n.K == KEach && inIf {
			eachInIf = true
		}
	})
	// data classes
	types := map[string]bool{}
	bracey, multiline := false, false
	var tv func(v Val)
	tv = func(v Val) {
		types[v.T] = true
		for _, x := range v.M {
			tv(x)
		}
		for _, x := range v.L {
			tv(x)
		}
		if v.T == "s" {
			if strings.ContainsAny(v.S, "{}") {
				bracey = true
			}
			if strings.Contains(v.S, "\n") {
				multiline = true
			}
		}
	}
	for _, v := range c.Data.Vars {
		tv(v)
	}
	for _, l := range c.Data.Lists {
		for _, v := range l {
			tv(v)
		}
	}
	var ds []string
	for _, k := range varNames {
		if v, ok := c.Data.Vars[k]; ok {
			ds = append(ds, v.T)
		} else {
			ds = append(ds, "-")
		}
	}
	for _, k := range condNames {
		if v, ok := c.Data.Conds[k]; ok {
			ds = append(ds, strconv.FormatBool(v)[:1])
		} else {
			ds = append(ds, "-")
		}
	}
	for _, s := range topLists {
		if l, ok := c.Data.Lists[s.name]; ok {
			ds = append(ds, strconv.Itoa(len(l)))
		} else {
			ds = append(ds, "-")
		}
	}

	lab := func(on bool, l string) {
		if on {
			res.Label(l)
		}
	}
	h := c.Hazard
	if h == "" {
		h = "none"
	}
	res.Label("hazard:" + h)
	for k := range kinds {
		res.Label("dir:" + k)
	}
	lab(hasElse, "dir:if-else")
	lab(ifInLoop, "if:in-loop")
	lab(eachInIf, "each:in-if")
	lab(nested, "each:nested")
	lab(depth3, "each:depth3")
	lab(ip.nestedRan, "each:nested-ran")
	lab(ip.depth3Ran, "each:depth3-ran")
	lab(ip.multiList, "list:2+items")
	lab(ip.emptyList, "list:empty")
	lab(ip.absentList, "list:absent")
	lab(ip.unknownVar, "var:unknown")
	lab(ip.knownVar, "var:known")
	lab(ip.unknownField, "field:absent")
	lab(ip.absentCond, "cond:absent")
	lab(ip.elseTaken, "else:taken")
	lab(ip.elseTakenLoop, "else:taken-in-loop")
	for k := range ip.condSeen {
		res.Label("loopcond:" + k)
	}
	lab(ip.maxItems >= 10, "list:10+items")
	lab(ip.maxItems >= 17, "list:17+items")
	lab(ip.maxItems >= 65, "list:65+items")
	lab(ip.itemsOut >= 100, "out:100+loop-bodies")
	lab(len(c.Children) >= 3, "chain:4+")
	lab(len(c.Base) >= 12, "tpl:12+parts")
	nblk := 0
	for _, n := range c.Base {
		if n.K == KBlock {
			nblk++
		}
	}
	lab(nblk >= 10, "tpl:10+blocks")
	wideItem, longLit := false, false
	for _, l := range c.Data.Lists {
		for _, it := range l {
			if it.T == "m" && len(it.M) > 8 {
				wideItem = true
			}
		}
	}
	c.walk(func(n Node, _ int, _ bool) {
		if n.K == KLit && len(n.S) >= 70 {
			longLit = true
		}
	})
	lab(wideItem, "item:9+fields")
	lab(longLit, "lit:70+chars")
	lab(ip.nestedMissing, "nested:list-field-missing")
	lab(ip.nestedAbsent, "nested:list-field-missing-no-lists")
	lab(c.nestedUsesLoopContext(), "nested:uses-loop-context")
	lab(c.someDataStringHasOpenBraces(), "data:has-{{")
	rc := c.rescanClasses()
	for k := range rc {
		res.Label("class:" + k)
	}
	lab(len(rc) > 0, "data:rescan-class")
	lab(len(rc) == 0 && c.someDataStringHasOpenBraces(), "data:has-{{-judged-exactly")
	lab(len(rc) == 0 && c.someDataStringHasDirectiveToken(), "data:directive-token-judged-exactly")
	lab(len(rc) == 0 && c.varNamesSuppliedVar(), "var:value-names-supplied-var")
	sc := c.schedClasses()
	for k := range sc {
		res.Label("sched:" + k)
	}
	lab(len(c.Pre) == 0, "sched:none")
	lab(bracey, "data:braces")
	lab(multiline, "data:newline")
	lab(braceLit, "lit:braces")
	lab(nlLit, "lit:newline")
	lab(wrap, "lit:brace-around-directive")
	spAny, spShort := c.spelled()
	lab(spAny, "value:spells-directive-with-neighbours")
	lab(spShort, "value:spells-directive-with-neighbours:<=4-bytes")
	replLit, replOv := false, false
	c.walk(func(n Node, _ int, _ bool) {
		if n.K == KLit && reReplSyntax.MatchString(n.S) {
			replLit = true
		}
	})
	for _, ch := range c.Children {
		for _, o := range ch {
			(&Case{Base: o.Body}).walk(func(n Node, _ int, _ bool) {
				if n.K == KLit && reReplSyntax.MatchString(n.S) {
					replOv = true
				}
			})
		}
	}
	lab(replLit, "lit:replacement-template-syntax")
	lab(replOv, "lit:replacement-template-syntax-in-override")
	lab(types["i"] || types["l"], "data:int")
	lab(types["f"], "data:float")
	lab(types["b"], "data:bool")
	lab(types["n"], "data:nil")
	// numbers that were inserted, by class (edge.go)
	ns := ip.num
	lab(ns.floatExact, "float:text-demanded-exactly")
	lab(ns.longDigits, "float:15+digits-exact")
	lab(ns.floatHole, "float:judged-by-parsing-back")
	lab(ns.negZero, "float:negative-zero")
	lab(ns.whole, "float:whole<2^53")
	lab(ns.band, "float:whole-2^53..2^63")
	lab(ns.beyond, "float:>=2^63")
	lab(ns.tiny, "float:tiny")
	lab(ns.nonFinite, "float:NaN-or-Inf")
	lab(ns.intEdge32, "int:>=2^31-1")
	lab(ns.intEdge53, "int:>=2^53-1")
	lab(ns.intEdge63, "int:at-int64-bounds")
	lab(ns.negativeInt, "int:negative")
	res.Label("chain:" + strconv.Itoa(1+len(c.Children)))
	res.Label("entry:" + []string{"RenderToDocument", "RenderTemplateToDocument"}[c.Entry&1])
	allBlank := true
	for _, l := range strings.Split(exp, "\n") {
		if !blank(l) {
			allBlank = false
		}
	}
	lab(allBlank, "out:all-blank")
	// render sequences: which earlier renders precede a render that resolves some block differently
	order := c.renderList()
	res.Label("seq:" + strconv.Itoa(len(order)-1))
	lab(len(c.Sibs) > 0, "tpl:siblings")
	seqDiffers, seqDefaultAfter, seqBaseAfter := false, false, false
	resolve := func(k int, name string) string { // which template's text a block shows when template k is rendered
		at := "t0"
		for q := k; q > 0; q = c.parent(q) {
			hit := false
			for _, o := range c.overridesOf(q) {
				if o.Name == name {
					hit = true
				}
			}
			if hit {
				at = c.name(q)
				break
			}
		}
		return at
	}
	for j := 1; j < len(order); j++ {
		for i := 0; i < j; i++ {
			for _, n := range c.Base {
				if n.K != KBlock {
					continue
				}
				a, b := resolve(order[i], n.S), resolve(order[j], n.S)
				if a != b {
					seqDiffers = true
					if b == "t0" {
						seqDefaultAfter = true
						if order[j] == 0 {
							seqBaseAfter = true
						}
					}
				}
			}
		}
	}
	// names as users write them
	blockUnusual, blockUnusualOverridden, wordEdge := false, false, false
	for _, n := range c.Base {
		if n.K == KBlock && !reBlockPlain.MatchString(n.S) {
			blockUnusual = true
			for _, k := range order {
				if resolve(k, n.S) != "t0" {
					blockUnusualOverridden = true
				}
			}
		}
	}
	c.walk(func(n Node, _ int, _ bool) {
		switch n.K {
		case KVar, KField, KIf, KEach:
			if !reIdent.MatchString(n.S) {
				wordEdge = true
			}
		}
	})
	lab(blockUnusual, "name:block-beyond-identifier")
	lab(blockUnusualOverridden, "name:block-beyond-identifier-override-rendered")
	lab(c.customNames(), "name:templates-beyond-identifier")
	lab(wordEdge, "name:word-beyond-identifier")
	lab(seqDiffers, "seq:block-resolved-differently-later")
	lab(seqDefaultAfter, "seq:block-default-after-override")
	lab(seqBaseAfter, "seq:base-after-derived")
	// image placeholders inside a line of text
	inlineImg, sameTwice := false, false
	for _, e := range exps {
		for _, l := range strings.Split(e, "\n") {
			k := strings.Count(l, imgMark)
			if k == 0 {
				continue
			}
			rest, seen := l, map[string]bool{}
			var text strings.Builder
			for {
				i := strings.Index(rest, imgMark)
				if i < 0 {
					text.WriteString(rest)
					break
				}
				text.WriteString(rest[:i])
				rest = rest[i+len(imgMark):]
				z := strings.Index(rest, "\x00")
				if z < 0 {
					break
				}
				if seen[rest[:z]] {
					sameTwice = true
				}
				seen[rest[:z]] = true
				rest = rest[z+1:]
			}
			if !blank(text.String()) {
				inlineImg = true
			}
		}
	}
	lab(inlineImg, "image:inside-text-line")
	lab(sameTwice, "image:same-twice-on-line")
	if c.Hazard != "" {
		res.Count("hazard_cases", 1)
	}

	present := ip.knownVar || len(c.Data.Conds) > 0 || len(c.Data.Lists) > 0
	absent := ip.unknownVar || ip.absentCond || ip.absentList || ip.unknownField
	nk := 0
	for _, k := range []string{"var", "if", "each", "block", "image"} {
		if kinds[k] {
			nk++
		}
	}
	res.Nontrivial = nk >= 2 && (ip.multiList || hasElse) && present && absent
	var scs []string
	for k := range sc {
		scs = append(scs, k[:1])
	}
	sort.Strings(scs)
	res.Shape = sk.String() + "#" + strconv.Itoa(c.Entry) + "#" + strings.Join(ds, "") + "#" + strings.Join(scs, "")
}

func fixedCases() []Case {
	if os.Getenv("VERIF_C16_NOFIXED") != "" { // development aid: measure what the generated cases alone detect
		return nil
	}
	s := func(x string) Val { return Val{T: "s", S: x} }
	return []Case{
		// the README example (without else) and the documented loop variables
		{Base: []Node{{K: KLit, S: "Company: "}, {K: KVar, S: "customer"}, {K: KLit, S: "\n\nTeam:\n"},
			{K: KEach, S: "people", A: []Node{{K: KLit, S: "- "}, {K: KField, S: "pname"}, {K: KLit, S: ": "}, {K: KField, S: "role"}, {K: KLit, S: "\n"}}},
			{K: KIf, S: "isVip", A: []Node{{K: KLit, S: "VIP"}}}},
			Data: Data{Vars: map[string]Val{"customer": s("ACME")}, Conds: map[string]bool{"isVip": true},
				Lists: map[string][]Val{"people": {{T: "m", M: map[string]Val{"pname": s("Ann"), "role": s("dev")}}, {T: "m", M: map[string]Val{"pname": s("Bo"), "role": s("ops")}}}}}},
		{Base: []Node{{K: KEach, S: "tags", A: []Node{{K: KIndex}, {K: KLit, S: ". "}, {K: KThis}, {K: KLit, S: " "}, {K: KFirst}, {K: KLit, S: "/"}, {K: KLast}, {K: KLit, S: "\n"}}}},
			Data: Data{Lists: map[string][]Val{"tags": {s("a"), s("b"), s("c")}}}},
		// inheritance: grandchild overrides one block, child another, the third keeps its default
		{Base: []Node{{K: KVar, S: "title"}, {K: KLit, S: "\n"}, {K: KBlock, S: "header", A: []Node{{K: KLit, S: "H0"}}}, {K: KLit, S: "\n"},
			{K: KBlock, S: "summary", A: []Node{{K: KLit, S: "S0"}}}, {K: KLit, S: "\n"}, {K: KBlock, S: "content", A: []Node{{K: KLit, S: "C0 "}, {K: KVar, S: "city"}}}},
			Children: [][]Override{{{Name: "header", Body: []Node{{K: KLit, S: "H1"}}}, {Name: "summary", Body: []Node{{K: KLit, S: "S1"}}}}, {{Name: "summary", Body: []Node{{K: KLit, S: "S2 "}, {K: KVar, S: "qty"}}}}},
			Data:     Data{Vars: map[string]Val{"title": s("T"), "qty": {T: "i", S: "7"}}}, Entry: 1},
		// one family on one engine: a child and two siblings redefine different blocks; every render of the sequence
		// (sibling, base, other sibling, child, base again) shows the blocks of the template rendered
		{Base: []Node{{K: KLit, S: "Head "}, {K: KVar, S: "title"}, {K: KLit, S: "\n"}, {K: KBlock, S: "header", A: []Node{{K: KLit, S: "default header of "}, {K: KVar, S: "title"}}}, {K: KLit, S: "\n"},
			{K: KBlock, S: "footer", A: []Node{{K: KLit, S: "default footer"}}}},
			Children: [][]Override{{{Name: "header", Body: []Node{{K: KLit, S: "child header "}, {K: KVar, S: "city"}}}}},
			Sibs:     []Sib{{P: 0, Ov: []Override{{Name: "footer", Body: []Node{{K: KLit, S: "sibling footer"}}}}}, {P: 1, Ov: []Override{{Name: "footer", Body: []Node{{K: KLit, S: "grandchild footer"}}}}}},
			Seq:      []int{2, 0, 3, 1, 0, 2},
			Data:     Data{Vars: map[string]Val{"title": s("T")}}},
		// image placeholders inside a line of text: the same picture twice, text before, between and after
		{Base: []Node{{K: KLit, S: "Report for "}, {K: KVar, S: "owner"}, {K: KLit, S: "\nleft "}, {K: KImage, S: "logo"}, {K: KLit, S: " middle "}, {K: KVar, S: "owner"}, {K: KLit, S: " "}, {K: KImage, S: "logo"},
			{K: KLit, S: " right\na "}, {K: KImage, S: "logo"}, {K: KLit, S: " b "}, {K: KImage, S: "chart"}, {K: KLit, S: " c\nend"}},
			Data: Data{Vars: map[string]Val{"owner": s("Ann")}, Images: map[string]gen.Img{"logo": {Fmt: "png", W: 7, H: 5, Name: "logo"}, "chart": {Fmt: "png", W: 11, H: 8, Pat: 3, Name: "chart"}}}},
		// the syntax summary of the package README writes {{extends "基础模板"}} and {{#block "块名"}}: quoted names in
		// the user's own language, here with a space and a dot as well, defined in the base and redefined below it
		{Base: []Node{{K: KLit, S: "报告 "}, {K: KVar, S: "title"}, {K: KLit, S: "\n"}, {K: KBlock, S: "块名", A: []Node{{K: KLit, S: "默认内容"}}}, {K: KLit, S: "\n"},
			{K: KBlock, S: "side bar", A: []Node{{K: KLit, S: "default side bar"}}}, {K: KLit, S: "\n"}, {K: KBlock, S: "foot.note", A: []Node{{K: KLit, S: "default note "}, {K: KVar, S: "city"}}}},
			Children: [][]Override{{{Name: "块名", Body: []Node{{K: KLit, S: "子模板内容 "}, {K: KVar, S: "title"}}}}, {{Name: "side bar", Body: []Node{{K: KLit, S: "side bar of the grandchild"}}}}},
			Names:    []string{"基础模板", "销售 报告", "sales.v2"}, Seq: []int{1, 0},
			Data: Data{Vars: map[string]Val{"title": s("Q3")}}},
		// conditions inside a loop over item fields of every type the documents list for them (bool, string, int,
		// int64, float64): the empty / zero value selects the else branch (or nothing), every other value the first
		{Base: []Node{{K: KEach, S: "items", A: []Node{{K: KField, S: "label"}, {K: KLit, S: ":"}, {K: KIf, S: "amount", A: []Node{{K: KLit, S: "in("}, {K: KField, S: "amount"}, {K: KLit, S: ")"}}, Else: true, B: []Node{{K: KLit, S: "out"}}},
			{K: KIf, S: "active", A: []Node{{K: KLit, S: "+"}}}, {K: KLit, S: ";\n"}}}},
			Data: Data{Lists: map[string][]Val{"items": {
				{T: "m", M: map[string]Val{"label": s("a"), "amount": {T: "i", S: "3"}, "active": {T: "i", S: "1"}}}, {T: "m", M: map[string]Val{"label": s("b"), "amount": {T: "i", S: "0"}, "active": {T: "i", S: "0"}}},
				{T: "m", M: map[string]Val{"label": s("c"), "amount": {T: "l", S: "7"}, "active": {T: "l", S: "-1"}}}, {T: "m", M: map[string]Val{"label": s("d"), "amount": {T: "l", S: "0"}, "active": {T: "l", S: "0"}}},
				{T: "m", M: map[string]Val{"label": s("e"), "amount": {T: "f", S: "2.5"}, "active": {T: "f", S: "0.001"}}}, {T: "m", M: map[string]Val{"label": s("f"), "amount": {T: "f", S: "0"}, "active": {T: "f", S: "0"}}},
				{T: "m", M: map[string]Val{"label": s("g"), "amount": {T: "f", S: "-1.5"}, "active": s("yes")}}, {T: "m", M: map[string]Val{"label": s("h"), "amount": s(""), "active": s("")}},
				{T: "m", M: map[string]Val{"label": s("i"), "amount": s("n/a"), "active": {T: "b", B: true}}}, {T: "m", M: map[string]Val{"label": s("j"), "amount": {T: "b"}, "active": {T: "b"}}},
				{T: "m", M: map[string]Val{"label": s("k")}}}}}},
		// numbers of every documented type at the ends of their ranges, as variable, item field and item
		{Base: []Node{{K: KVar, S: "qty"}, {K: KLit, S: " / "}, {K: KVar, S: "code"}, {K: KLit, S: " / "}, {K: KVar, S: "price"}, {K: KLit, S: " / "}, {K: KVar, S: "memo"}, {K: KLit, S: "\n"},
			{K: KEach, S: "rows", A: []Node{{K: KField, S: "colA"}, {K: KLit, S: "="}, {K: KField, S: "colB"}, {K: KLit, S: ";"}}}, {K: KLit, S: "\n"},
			{K: KEach, S: "nums", A: []Node{{K: KLit, S: "["}, {K: KThis}, {K: KLit, S: "]"}}}},
			Data: Data{Vars: map[string]Val{"qty": {T: "i", S: "-9223372036854775808"}, "code": {T: "l", S: "9223372036854775807"}, "price": {T: "f", S: "0.30000000000000004"}, "memo": {T: "f", S: "-0"}},
				Lists: map[string][]Val{"rows": {{T: "m", M: map[string]Val{"colA": {T: "f", S: "1e21"}, "colB": {T: "f", S: "4611686018427387904"}}}, {T: "m", M: map[string]Val{"colA": {T: "f", S: "5e-324"}, "colB": {T: "i", S: "2147483648"}}}},
					"nums": {{T: "f", S: "42"}, {T: "f", S: "1234567890123456789"}, {T: "l", S: "-9007199254740993"}, {T: "f", S: "1.7976931348623157e308"}}}}},
	}
}

func TestC16(t *testing.T) {
	openKF = kit.OpenFindings("C16")
	kit.Main(t, kit.Spec[Case]{
		ID: "C16", Level: "exploration",
		Rule: "template family drawn as ASTs from the documented grammar: a chain of 1-3 (4% of the families: 4-6) levels (literals incl. newlines/braces, variables, if / if-else, each with fields/this/@index/@first/@last/inner if - over a flag or an ordinary field of the item that holds a bool or, mostly, a value of any documented condition type: bool, string, int, int64, float64, empty / zero in nearly half of the draws, negative, huge, fractional otherwise - /nested each to depth 3, blocks + extends, image placeholders alone on a line and 1-3 of them - mostly the same image again - inside a line of literals and variables) and 0-2 sibling templates that extend any template of the family and redefine other subsets of its blocks; typed data (strings incl. brace-bearing and multi-line; int and int64 over their whole range with the 32-, 53- and 64-bit boundaries; float64 over its whole range - short decimals, many digits, whole numbers, both zeros, 2^53..2^63 and beyond, tiny, NaN, infinities; bool, nil; conditions true/false/absent; lists of maps / scalars, empty, absent, of 1-4 items and - 3% of the top-level lists - of 10, 11, 12, 17, 33 or 65 items; items with up to 13 fields; names that extend another name by a digit: qty1 / qty10, c1 / c10, img1 / img10; now and then a family of 10-12 blocks (b1 / b10 / b11 among the names), a base template of 12-24 top-level parts and literals of 70-1500 characters); names: block and template names are quoted strings (identifier-like, or - about half of the families - CJK, blanks, dots, dashes, digits first, punctuation; defined in the base and redefined under the same name below it), variable / condition / list / field names are ASCII words incl. a digit or underscore first, digits only, one character, names differing by case only; serialised to text, loaded on a fresh engine by a drawn load schedule (optional history: child before its base, an earlier version of a template later replaced, identical re-loads; then always the whole chain base-to-child with the final sources, then the siblings); then a drawn sequence of 0-3 renders of any templates of the family (child then base, sibling then sibling, ...) followed by the render of the last chain template (several times, data set in two orders, when a value names another supplied name) - EVERY render is compared with the reference text of the template rendered; literal text incl. what a regexp replacement template or a format string would expand ($1, $name, ${x}, $$, \\1, %s); values with braces and whole directive tokens (placeholders naming other supplied variables, conditions, lists, fields, unknown names; {{/if}}, {{else}}, {{/each}}, ...) and - in about one case in ten - a directive token spelled piecewise by a 1-4 byte (or longer) value and the literal text / values next to it ({{v}}me}} with v = '{{na'; '{{' + @index + '}}') occur in every position and are judged exactly outside the (position, directive kind) classes of the open re-scan findings; non-trivial = >=2 directive kinds among {var, if, each, block, image} and (a loop over >=2 items or a conditional with an else branch) and the data has both a present and an absent name used by the template; distinct = distinct (AST skeleton incl. list names, literal classes, sibling overrides and render sequence, entry point, per-name data type/presence/list-length vector, set of schedule classes)",
		Gen:  genCase, Run: run, Findings: findings, Fixed: fixedCases,
		Assumptions: []string{
			"names of variables, conditions, lists, item fields and images are pairwise distinct words over ASCII letters, digits and the underscore (what {{name}} is parsed as; a digit or underscore may come first) and none is this/else/index/first/last (the documents are silent on shadowing); block names and template names are quoted strings: any characters but the double quote, braces and line breaks, pairwise distinct",
			"conditionals are not nested in conditionals; a conditional inside a loop tests a field of the current item whose value has one of the types the documents list for conditions (CHANGELOG: bool, string, int, int64, float64; empty and zero values are judged false): a bool is its value, a string is true unless empty, a number is true unless zero (both float zeros are zero), an absent field is false; strings of blanks only, the words false / 0 / no, NaN, nil, lists and maps are never tested (the documents do not say what they mean)",
			"literal text never forms a directive: no literal token ends with '{' or starts with '}' except a lone brace placed directly around a directive; '{{ x }}' with inner blanks is literal text",
			"values are text whatever they hold and whatever they spell together with their surroundings: whole directive tokens, and pieces of a token ('{{', '{{na', '}}', 'x}}') that only together with the literal text or the values next to them read as a directive, are expected verbatim; in the template SOURCE the piece with the opening braces of such a token is always a value - the literal pieces are the tail of the token (name characters, blanks, closing braces: closing braces without an opening are text)",
			"the engine history before the final base-to-child load of the chain carries no meaning (a load defines the named template anew); errors of history loads are ignored, the final loads must succeed",
			"integers (int, int64) are inserted as their decimal text over the whole range; nil renders as nothing",
			"the documents name no textual form for float64 values: a float that is finite, not a whole number, with 1e-4 <= |f| < 1e15 is expected as its shortest decimal text (every notation agrees there); for every other float (whole numbers, both zeros, >= 1e15, < 1e-4, NaN, infinities) the clause is restricted to: the text inserted at that place is a decimal numeral (or NaN / Inf) that parses back to the same float64, sign of zero included - so 4611686018427387904 and 4611686018427388000 and 4.611686018427388e+18 are all accepted for 2^62, and 0 is not accepted for -0",
			"a line consisting only of blanks/tabs is compared as empty and an all-blank output as no paragraphs",
			"every image placeholder has image data; {{this}} is only used over lists of scalars",
			"a line with image placeholders is observed as the sequence of its text segments (each in a paragraph of its own, unchanged) and pictures in line order; a segment of blanks only may or may not get a paragraph",
			"a render is judged by the template rendered and the data alone: the renders that precede it on the same engine (other templates of the same family, same data) carry no meaning",
		},
		MustSee: map[string]float64{"dir:var": 0.5, "dir:if": 0.3, "dir:if-else": 0.12, "dir:each": 0.4, "each:nested-ran": 0.04, "list:2+items": 0.3, "dir:block": 0.3, "chain:3": 0.08,
			"dir:image": 0.05, "var:unknown": 0.2, "cond:absent": 0.08, "list:absent": 0.05, "data:float": 0.1, "lit:braces": 0.2, "data:braces": 0.25, "hazard:none": 0.7, "if:in-loop": 0.08,
			"data:has-{{-judged-exactly": 0.2, "data:directive-token-judged-exactly": 0.12, "var:value-names-supplied-var": 0.05,
			"sched:child-first": 0.08, "sched:base-replaced": 0.08, "sched:reload-same": 0.12, "sched:replaced": 0.15, "sched:none": 0.25,
			"tpl:siblings": 0.15, "seq:block-default-after-override": 0.06, "seq:base-after-derived": 0.04, "seq:block-resolved-differently-later": 0.12, "seq:0": 0.4,
			"image:inside-text-line": 0.02, "image:same-twice-on-line": 0.012,
			"float:text-demanded-exactly": 0.05, "float:judged-by-parsing-back": 0.03, "float:negative-zero": 0.002, "float:whole-2^53..2^63": 0.005, "float:>=2^63": 0.002, "float:tiny": 0.002, "float:whole<2^53": 0.002,
			"int:>=2^31-1": 0.03, "int:>=2^53-1": 0.015, "int:at-int64-bounds": 0.003,
			"loopcond:bool:true": 0.01, "loopcond:bool:false": 0.01, "loopcond:string:true": 0.008, "loopcond:string:false": 0.008, "loopcond:int:true": 0.008, "loopcond:int:false": 0.008,
			"loopcond:int64:true": 0.008, "loopcond:int64:false": 0.008, "loopcond:float64:true": 0.008, "loopcond:float64:false": 0.008, "loopcond:float64:-0": 0.002, "loopcond:int:negative": 0.004,
			"loopcond:int64:negative": 0.004, "loopcond:float64:negative": 0.002, "list:10+items": 0.012, "list:17+items": 0.004, "list:65+items": 0.002, "chain:4+": 0.015, "item:9+fields": 0.05, "tpl:12+parts": 0.02, "tpl:10+blocks": 0.008,
			"lit:70+chars":                           0.008,
			"value:spells-directive-with-neighbours": 0.05, "value:spells-directive-with-neighbours:<=4-bytes": 0.03, "lit:replacement-template-syntax": 0.1, "lit:replacement-template-syntax-in-override": 0.01,
			"name:block-beyond-identifier": 0.12, "name:block-beyond-identifier-override-rendered": 0.08, "name:templates-beyond-identifier": 0.1, "name:word-beyond-identifier": 0.3},
	})
}

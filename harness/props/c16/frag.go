package c16

import (
	"regexp"
	"sort"
	"strings"
)

// ---------------------------------------------------------------------------------------------
// Fragments: a directive token that is NOT in the template source but is spelled, in the output, by a value and the
// text (or the values) next to it: "{{v}}me}}" with v = "{{na", "{{o}}@index{{c}}" with o = "{{" and c = "}}",
// "{{a}}{{b}}" with a = "{{la" and b = "bel}}". Values are inserted verbatim and nothing inside a value is template
// syntax, so the reference text is the plain concatenation, whatever it spells.
//
// The source stays well formed: the piece that holds the opening braces is always a value; the literal pieces are
// the tail of the token (name characters, blanks, closing braces - closing braces without an opening are text).

// fragTok draws the directive token to spell: s == nil at top level (block bodies included), else the loop body of
// schema s.
func (x *g) fragTok(s *schema) string {
	if s == nil {
		switch k := x.uniform(20, "frt"); {
		case k < 7:
			return "{{" + x.pick(varNames, "frv") + "}}"
		case k < 9:
			return "{{#if " + x.pick(condNames, "frc") + "}}"
		case k < 11:
			return x.pick([]string{"{{/if}}", "{{else}}", "{{/each}}", "{{/block}}"}, "frx")
		case k < 13:
			return "{{#each " + topLists[x.uniform(len(topLists), "frl")].name + "}}"
		case k < 14: // rare: see KF-C16-image-marker-spelled
			return "{{#image " + x.pick(imageNames, "fri") + "}}"
		case k < 16:
			return `{{#block "` + x.pick(blockNames, "frb") + `"}}`
		case k < 18:
			return "{{nosuch}}"
		}
		return "{{" + x.pick(condNames, "frc2") + "}}"
	}
	switch k := x.uniform(10, "frt"); {
	case k < 3 && !s.scalar:
		return "{{" + x.pick(s.fields, "frf") + "}}"
	case k < 3:
		return "{{this}}"
	case k < 4:
		return "{{@index}}"
	case k < 5:
		return x.pick([]string{"{{@first}}", "{{@last}}", "{{this}}"}, "frx")
	case k < 6 && !s.scalar && len(s.bools) > 0:
		return "{{#if " + x.pick(s.bools, "frb") + "}}"
	case k < 7:
		return x.pick([]string{"{{/if}}", "{{else}}", "{{/each}}"}, "frx2")
	case k < 8 && !s.scalar && len(s.subs) > 0:
		return "{{#each " + s.subs[x.uniform(len(s.subs), "frs")].name + "}}"
	case k < 9:
		return "{{" + x.pick(varNames, "frv") + "}}"
	}
	if !s.scalar && len(s.bools) > 0 {
		return "{{" + x.pick(s.bools, "frb2") + "}}"
	}
	return "{{@index}}"
}

// carrier: a placeholder whose value is forced to be val: a variable or (inside a loop over maps, now and then) a
// field of the current item.
func (x *g) carrier(s *schema, val string) (Node, bool) {
	if s != nil && !s.scalar && x.chance(35, "frcf") {
		f := x.pick(s.fields, "frcfn")
		if _, taken := x.forceFld[f]; !taken && !x.condFlds[f] {
			x.forceFld[f] = val
			return Node{K: KField, S: f}, true
		}
	}
	for try := 0; try < 6; try++ {
		v := x.pick(varNames, "frcv")
		if _, taken := x.forceVar[v]; !taken {
			x.forceVar[v] = val
			x.usedVars[v] = true
			return Node{K: KVar, S: v}, true
		}
	}
	return Node{}, false
}

// fragment draws the nodes that spell one directive token: value + text, value + text + value, or value + value.
// The leading value mostly has 1-4 bytes ("{", "{{", "{{n", "{{na"), else any proper prefix of the token.
func (x *g) fragment(s *schema) []Node {
	d := x.fragTok(s)
	n := len(d)
	k := 1 + x.uniform(4, "frk")
	if x.chance(25, "frkany") {
		k = 1 + x.uniform(n-1, "frk2")
	}
	j := n // start of a trailing value
	switch form := x.uniform(10, "frform"); {
	case form >= 8:
		j = k
	case form >= 5:
		if j = n - 1 - x.uniform(3, "frj"); j < k {
			j = k
		}
	}
	a, ok := x.carrier(s, d[:k])
	if !ok {
		return []Node{x.lit(false)}
	}
	out := []Node{a}
	if j > k {
		out = append(out, Node{K: KLit, S: d[k:j]})
	}
	if j < n {
		b, ok := x.carrier(s, d[j:])
		if !ok {
			b = Node{K: KLit, S: d[j:]}
		}
		out = append(out, b)
	}
	return out
}

// ---------------------------------------------------------------------------------------------
// Labels: does the case spell a directive token across a value boundary?

var reSpelledTok = regexp.MustCompile(`\{\{(?:[#/@]?\w+)(?: [\w"]+)?\}\}`)

// fieldStrings: the distinct strings the items of the data hold under the field name (lists in name order).
func (c *Case) fieldStrings(name string) []string {
	var out []string
	seen := map[string]bool{}
	var rec func(v Val)
	rec = func(v Val) {
		switch v.T {
		case "m":
			if f, ok := v.M[name]; ok && f.T == "s" && !seen[f.S] {
				seen[f.S] = true
				out = append(out, f.S)
			}
			ks := make([]string, 0, len(v.M))
			for k := range v.M {
				ks = append(ks, k)
			}
			sort.Strings(ks)
			for _, k := range ks {
				rec(v.M[k])
			}
		case "a":
			for _, it := range v.L {
				rec(it)
			}
		}
	}
	ks := make([]string, 0, len(c.Data.Lists))
	for k := range c.Data.Lists {
		ks = append(ks, k)
	}
	sort.Strings(ks)
	for _, k := range ks {
		rec(Val{T: "a", L: c.Data.Lists[k]})
	}
	return out
}

// spelled: see spelledBy; any directive token.
func (c *Case) spelled() (any, short bool) { return c.spelledBy(reSpelledTok) }

// spelledBy reports whether some run of adjacent literals / variables / fields (scalar items: {{this}}) yields a
// match of re that no single piece contains (it spans a value boundary), and whether a value of at most 4 bytes
// takes part in one. A field (or {{this}}) is tried with every string some item holds for it.
func (c *Case) spelledBy(re *regexp.Regexp) (any, short bool) {
	type piece struct {
		alt []string
		val bool
	}
	flush := func(run []piece) {
		if len(run) < 2 {
			return
		}
		hasVal, nalt := false, 1
		for _, p := range run {
			hasVal = hasVal || p.val
			if len(p.alt) > nalt {
				nalt = len(p.alt)
			}
		}
		if !hasVal {
			return
		}
		if nalt > 12 {
			nalt = 12
		}
		for a := 0; a < nalt; a++ {
			var sb strings.Builder
			var ends []int
			for _, p := range run {
				sb.WriteString(p.alt[a%len(p.alt)])
				ends = append(ends, sb.Len())
			}
			for _, m := range re.FindAllStringIndex(sb.String(), -1) {
				start, inside := 0, false
				for _, e := range ends { // piece i covers [start, e)
					if m[0] >= start && m[1] <= e && e > start {
						inside = true
					}
					start = e
				}
				if inside {
					continue
				}
				start = 0
				for i, e := range ends {
					if m[0] < e && m[1] > start && run[i].val { // a value overlapping a match that spans pieces
						any = true
						if e-start <= 4 {
							short = true
						}
					}
					start = e
				}
			}
		}
	}
	var scalars []string // the strings among the scalar items of the data
	{
		seen := map[string]bool{}
		var rec func(v Val, item bool)
		rec = func(v Val, item bool) {
			switch v.T {
			case "s":
				if item && !seen[v.S] {
					seen[v.S] = true
					scalars = append(scalars, v.S)
				}
			case "m":
				for _, x := range v.M {
					rec(x, false)
				}
			case "a":
				for _, x := range v.L {
					rec(x, true)
				}
			}
		}
		for _, l := range c.Data.Lists {
			rec(Val{T: "a", L: l}, false)
		}
		sort.Strings(scalars)
	}
	var rec func(ns []Node)
	rec = func(ns []Node) {
		var run []piece
		for _, n := range ns {
			switch n.K {
			case KLit:
				run = append(run, piece{[]string{n.S}, false})
				continue
			case KVar:
				if v, ok := c.Data.Vars[n.S]; ok && v.T == "s" {
					run = append(run, piece{[]string{v.S}, true})
					continue
				}
			case KField:
				if ss := c.fieldStrings(n.S); len(ss) > 0 {
					run = append(run, piece{ss, true})
					continue
				}
			case KThis:
				if len(scalars) > 0 {
					run = append(run, piece{scalars, true})
					continue
				}
			}
			flush(run)
			run = nil
			switch n.K {
			case KIf:
				rec(n.A)
				rec(n.B)
			case KEach, KBlock:
				rec(n.A)
			}
		}
		flush(run)
	}
	rec(c.Base)
	for _, ch := range c.Children {
		for _, o := range ch {
			rec(o.Body)
		}
	}
	for _, sb := range c.Sibs {
		for _, o := range sb.Ov {
			rec(o.Body)
		}
	}
	return any, short
}

// reImageMarker: the two spellings of an image placeholder (the documented one and the bracket form the documents
// show for rendered text).
var reImageMarker = regexp.MustCompile(`\{\{#image[\t\f\r ]+\w+\}\}|\[IMAGE:\w+\]`)

// spellsImageMarker: an image placeholder that is not in the source but is spelled by a value together with the
// text or the values next to it.
func (c *Case) spellsImageMarker() bool {
	a, _ := c.spelledBy(reImageMarker)
	return a
}

// reReplSyntax: what a regexp replacement template (or a printf format) would expand inside literal text.
var reReplSyntax = regexp.MustCompile(`\$[0-9A-Za-z_{$]|\\[0-9]|%[sdv]`)

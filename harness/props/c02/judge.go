package c02

import (
	"bytes"
	"encoding/xml"
	"fmt"
	"io"
	"sort"
	"strings"

	"wzverif/internal/kit"
	"wzverif/internal/opc"
)

// Namespaces in which relationship-id attributes live (transitional and strict).
const (
	nsRelTransitional = "http://schemas.openxmlformats.org/officeDocument/2006/relationships"
	nsRelStrict       = "http://purl.oclc.org/ooxml/officeDocument/relationships"
	relsMainDoc       = "word/_rels/document.xml.rels"
)

// kindOf is the last path segment of a relationship type URI ("image", "header", "core-properties", ...).
func kindOf(typ string) string {
	if i := strings.LastIndexByte(typ, '/'); i >= 0 {
		return typ[i+1:]
	}
	return typ
}

// kinds the package root may carry (R3, second half).
var rootKinds = map[string]bool{"officeDocument": true, "core-properties": true, "extended-properties": true, "custom-properties": true, "thumbnail": true}

// kinds whose source must be the main document part.
var docOnlyKinds = map[string]bool{"styles": true, "settings": true, "footnotes": true, "endnotes": true, "numbering": true, "header": true, "footer": true,
	"theme": true, "fontTable": true, "webSettings": true}

// kinds that a story part (document, header, footer, notes, comments) may carry itself.
var storyKinds = map[string]bool{"image": true, "hyperlink": true}

// Ref is one attribute in the relationships namespace found inside a part.
type Ref struct {
	Elem, Attr, ID string
}

// wantKind is the relationship kind a reference must resolve to ("" = any kind).
func (r Ref) wantKind() string {
	switch r.Elem + "/" + r.Attr {
	case "headerReference/id":
		return "header"
	case "footerReference/id":
		return "footer"
	case "blip/embed", "blip/link", "imagedata/id":
		return "image"
	case "hyperlink/id":
		return "hyperlink"
	}
	return ""
}

// scanRefs lists the relationship-namespace attributes of an XML part in document order.
// The prefix is resolved by encoding/xml; a literal undeclared "r" prefix is accepted as well
// (namespace well-formedness is C01's business, not judged here).
func scanRefs(data []byte) ([]Ref, error) {
	dec := xml.NewDecoder(bytes.NewReader(data))
	var out []Ref
	for {
		tok, err := dec.Token()
		if err == io.EOF {
			return out, nil
		}
		if err != nil {
			return out, err
		}
		if se, ok := tok.(xml.StartElement); ok {
			for _, a := range se.Attr {
				if a.Name.Space == nsRelTransitional || a.Name.Space == nsRelStrict || a.Name.Space == "r" {
					out = append(out, Ref{Elem: se.Name.Local, Attr: a.Name.Local, ID: a.Value})
				}
			}
		}
	}
}

func normMode(m string) string {
	if strings.EqualFold(m, "External") {
		return "External"
	}
	return "Internal"
}

// Summary is what the caller needs besides the verdict.
type Summary struct {
	Rels       int // relationships in the package, all parts
	NonStyles  int // ... besides the styles relationship
	Refs       int // relationship references found in story parts
	RefKinds   map[string]int
	Unjudged   string // reason R3/R4 could not be evaluated ("" = evaluated)
	DocRelIDs  []string
	RootKinds  []string
	StoryParts []string
}

// Judge evaluates R1-R4 on a saved package and, when base is the package the document was opened from, R5.
func Judge(res *kit.Result, pkg *opc.Package, base *opc.Package, where string) *Summary {
	sum := &Summary{RefKinds: map[string]int{}}
	relParts := make([]string, 0, len(pkg.Rels))
	for n := range pkg.Rels {
		relParts = append(relParts, n)
	}
	sort.Strings(relParts)

	// R1: Id unique within each relationship part (and present: an empty Id cannot be referred to).
	res.Eval("C02.R1")
	dupIDs := map[string]map[string]bool{} // rels part -> ids that occur more than once
	for _, rp := range relParts {
		if e := pkg.RelErr[rp]; e != nil {
			sum.Unjudged = "relationship part " + rp + " unparsable"
			res.Count("unjudged:rels-unparsable", 1)
			continue
		}
		seen := map[string][]string{}
		var order []string
		for _, r := range pkg.Rels[rp] {
			if _, ok := seen[r.ID]; !ok {
				order = append(order, r.ID)
			}
			seen[r.ID] = append(seen[r.ID], kindOf(r.Type))
			sum.Rels++
			if kindOf(r.Type) != "styles" {
				sum.NonStyles++
			}
		}
		for _, id := range order {
			if id == "" {
				res.Fail("C02.R1", "%s: part=%s a relationship has an empty Id (kinds %v)", where, rp, seen[id])
			} else if len(seen[id]) > 1 {
				if dupIDs[rp] == nil {
					dupIDs[rp] = map[string]bool{}
				}
				dupIDs[rp][id] = true
				res.Fail("C02.R1", "%s: part=%s id=%s occurs %d times (kinds %v)", where, rp, id, len(seen[id]), seen[id])
			}
		}
	}

	// R2: every internal relationship resolves to an entry of the package.
	res.Eval("C02.R2")
	for _, rp := range relParts {
		for _, r := range pkg.Rels[rp] {
			if r.External() {
				continue
			}
			if _, ok := pkg.Parts[r.Resolved]; !ok || r.Resolved == "" {
				res.Fail("C02.R2", "%s: part=%s id=%s kind=%s target=%q resolves to %q which is not in the package", where, rp, r.ID, kindOf(r.Type), r.Target, r.Resolved)
			}
		}
	}

	// main document part
	mains := pkg.MainParts()
	main := ""
	if len(mains) == 1 {
		main = mains[0].Resolved
	}
	if _, ok := pkg.Parts[main]; main == "" || !ok {
		sum.Unjudged = "no unique main document part"
		res.Count("unjudged:no-main", 1)
		return sum
	}

	// a glossary document (named by a glossaryDocument relationship of the main document) is a document of its own:
	// it carries its own styles / settings / fontTable relationships and is a story part as well
	glossary := map[string]bool{}
	for _, r := range pkg.RelsOf(main) {
		if kindOf(r.Type) == "glossaryDocument" && !r.External() {
			if _, ok := pkg.Parts[r.Resolved]; ok && r.Resolved != main {
				glossary[r.Resolved] = true
			}
		}
	}

	// R3: attachment.
	res.Eval("C02.R3")
	for _, rp := range relParts {
		src := opc.SourceOf(rp)
		if src != "" {
			if _, ok := pkg.Parts[src]; !ok {
				res.Fail("C02.R3", "%s: part=%s belongs to %q which is not in the package", where, rp, src)
				continue
			}
		}
		for _, r := range pkg.Rels[rp] {
			k := kindOf(r.Type)
			switch {
			case src == "":
				sum.RootKinds = append(sum.RootKinds, k)
				if !rootKinds[k] {
					res.Fail("C02.R3", "%s: part=%s id=%s kind=%s target=%q is attached to the package root, not to the part that uses it", where, rp, r.ID, k, r.Target)
				}
			case rootKinds[k]:
				res.Fail("C02.R3", "%s: part=%s id=%s kind=%s is a package-level relationship attached to %q", where, rp, r.ID, k, src)
			case docOnlyKinds[k]:
				if src != main && !(glossary[src] && k != "header" && k != "footer") {
					res.Fail("C02.R3", "%s: part=%s id=%s kind=%s is attached to %q, not to the main document %q", where, rp, r.ID, k, src, main)
				}
			case storyKinds[k]:
				ct, _ := pkg.ContentTypeOf(src)
				if src != main && !strings.Contains(ct, "wordprocessingml") {
					res.Fail("C02.R3", "%s: part=%s id=%s kind=%s is attached to %q (content type %q), which is not a document story part", where, rp, r.ID, k, src, ct)
				}
			}
		}
	}
	for _, r := range pkg.Rels[relsMainDocOf(main)] {
		sum.DocRelIDs = append(sum.DocRelIDs, r.ID)
	}

	// R4: references inside the main document and inside the header/footer/notes parts it names
	// resolve, in that part's own relationship part, to a relationship of the matching kind.
	res.Eval("C02.R4")
	story := []string{main}
	seenStory := map[string]bool{main: true}
	for _, r := range pkg.RelsOf(main) {
		switch kindOf(r.Type) {
		case "header", "footer", "footnotes", "endnotes", "glossaryDocument":
			if _, ok := pkg.Parts[r.Resolved]; ok && !r.External() && !seenStory[r.Resolved] {
				seenStory[r.Resolved] = true
				story = append(story, r.Resolved)
			}
		}
	}
	sum.StoryParts = story
	for _, part := range story {
		refs, err := scanRefs(pkg.Parts[part])
		if err != nil {
			// ill-formed part: C01 judges it; the references cannot be enumerated reliably
			res.Count("unjudged:story-part-illformed", 1)
			sum.Unjudged = part + " ill-formed"
			continue
		}
		own := opc.RelsNameOf(part)
		byID := map[string][]opc.Rel{}
		for _, r := range pkg.Rels[own] {
			byID[r.ID] = append(byID[r.ID], r)
		}
		for _, ref := range refs {
			sum.Refs++
			sum.RefKinds[ref.Elem+"/"+ref.Attr]++
			rs := byID[ref.ID]
			if len(rs) == 0 {
				res.Fail("C02.R4", "%s: %s <%s r:%s=%q> has no relationship with that Id in %s", where, part, ref.Elem, ref.Attr, ref.ID, own)
				continue
			}
			if len(rs) > 1 {
				res.Count("r4-skipped-ambiguous-id", 1) // R1 already reports the duplicate
				continue
			}
			if want := ref.wantKind(); want != "" && kindOf(rs[0].Type) != want {
				res.Fail("C02.R4", "%s: %s <%s r:%s=%q> resolves to a relationship of kind %s (target %q), want %s", where, part, ref.Elem, ref.Attr, ref.ID, kindOf(rs[0].Type), rs[0].Target, want)
			}
		}
	}

	// R5: every relationship of the opened package is still present under the same Id.
	if base != nil {
		res.Eval("C02.R5")
		bparts := make([]string, 0, len(base.Rels))
		for n := range base.Rels {
			bparts = append(bparts, n)
		}
		sort.Strings(bparts)
		for _, rp := range bparts {
			for _, br := range base.Rels[rp] {
				var hit *opc.Rel
				n := 0
				for i, r := range pkg.Rels[rp] {
					if r.ID == br.ID {
						n++
						if hit == nil || sameRel(r, br) {
							hit = &pkg.Rels[rp][i]
						}
					}
				}
				desc := fmt.Sprintf("part=%s id=%s kind=%s target=%q mode=%s", rp, br.ID, kindOf(br.Type), br.Target, normMode(br.Mode))
				switch {
				case hit == nil:
					res.Fail("C02.R5", "%s: pre-existing relationship %s is gone", where, desc)
				case !sameRel(*hit, br):
					res.Fail("C02.R5", "%s: pre-existing relationship %s became kind=%s target=%q mode=%s", where, desc, kindOf(hit.Type), hit.Target, normMode(hit.Mode))
				}
			}
		}
	}
	return sum
}

func relsMainDocOf(main string) string { return opc.RelsNameOf(main) }

func sameRel(a, b opc.Rel) bool {
	if a.Type != b.Type || normMode(a.Mode) != normMode(b.Mode) {
		return false
	}
	if a.External() {
		return a.Target == b.Target
	}
	return a.Resolved == b.Resolved
}

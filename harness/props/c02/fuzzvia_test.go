package c02

import (
	"testing"

	"wzverif/internal/kit"
)

// FuzzC02: coverage-guided search over the generator and oracle of TestC02 (thorough tier; see internal/kit/fuzz.go).
func FuzzC02(f *testing.F) { kit.FuzzVia(f, TestC02) }

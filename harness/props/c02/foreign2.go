package c02

import (
	"bytes"
	"fmt"
	"path"
	"sort"
	"strings"

	"wzverif/internal/opc"
)

// Widening of the foreign rewrite: legal shapes other producers write that the first version did not produce.
// Everything here is driven by the extra fields of Foreign; their zero values leave the package as before.

// writeRelsPrefixed writes a relationship part; with prefixed set, the elements carry a namespace prefix
// (<rel:Relationships xmlns:rel="..."><rel:Relationship .../>), which is the same infoset.
func writeRelsPrefixed(rs []frel, prefixed bool) []byte {
	if !prefixed {
		return writeRels(rs)
	}
	var b bytes.Buffer
	b.WriteString(`<?xml version="1.0" encoding="UTF-8" standalone="yes"?>` + "\n")
	b.WriteString(`<rel:Relationships xmlns:rel="` + opc.NSRels + `">`)
	for _, r := range rs {
		fmt.Fprintf(&b, `<rel:Relationship Id="%s" Type="%s" Target="%s"`, escAttr(r.id), escAttr(r.typ), escAttr(r.target))
		if r.mode != "" {
			fmt.Fprintf(&b, ` TargetMode="%s"`, escAttr(r.mode))
		}
		b.WriteString("/>")
	}
	b.WriteString(`</rel:Relationships>`)
	return b.Bytes()
}

// widenBody inserts, right after <w:body>, a paragraph that refers to every second extra hyperlink relationship
// and (MultiSect) a first section whose paragraph-level sectPr names the existing header/footer relationships.
func widenBody(doc string, f *Foreign, others []frel, info *Info) string {
	var ins strings.Builder
	if f.ExtraLinks > 0 {
		ins.WriteString(`<w:p>`)
		i := 0
		for _, r := range others {
			if !strings.HasPrefix(r.old, "\x00xl") {
				continue
			}
			if i%2 == 0 {
				fmt.Fprintf(&ins, `<w:hyperlink r:id="%s"><w:r><w:t>l%d</w:t></w:r></w:hyperlink>`, escAttr(r.id), i)
			}
			i++
		}
		ins.WriteString(`</w:p>`)
	}
	if f.MultiSect {
		var refs strings.Builder
		seen := map[string]bool{}
		for _, r := range others { // the header only this section uses
			if r.old == "\x00ms" {
				seen["header"] = true
				fmt.Fprintf(&refs, `<w:headerReference w:type="default" r:id="%s"/>`, escAttr(r.id))
			}
		}
		for _, r := range others { // and the first footer of the package, if it has one
			k := kindOf(r.typ)
			if (k != "header" && k != "footer") || r.mode == "External" || seen[k] {
				continue
			}
			seen[k] = true
			fmt.Fprintf(&refs, `<w:%sReference w:type="default" r:id="%s"/>`, k, escAttr(r.id))
		}
		if refs.Len() > 0 {
			ins.WriteString(`<w:p><w:pPr><w:sectPr>` + refs.String() + `<w:pgSz w:w="11906" w:h="16838"/></w:sectPr></w:pPr><w:r><w:t>first section</w:t></w:r></w:p>`)
			info.MultiSect = true
		}
	}
	if ins.Len() == 0 || !strings.Contains(doc, "<w:body>") {
		return doc
	}
	return strings.Replace(doc, "<w:body>", "<w:body>"+ins.String(), 1)
}

// widenRels rewrites targets into the absolute form and writes the default TargetMode out.
func widenRels(f *Foreign, others []frel, styles *frel, info *Info) {
	abs := func(r *frel) {
		if r.mode != "" || strings.HasPrefix(r.target, "/") || r.target == "" {
			return
		}
		r.target = "/" + opc.Resolve("word/document.xml", r.target)
		info.AbsTargets++
	}
	for i := range others {
		r := &others[i]
		switch kindOf(r.typ) {
		case "header", "footer":
			if f.AbsTargets&1 != 0 {
				abs(r)
			}
		case "image":
			if f.AbsTargets&2 != 0 {
				abs(r)
			}
		case "numbering", "footnotes", "endnotes", "settings":
			if f.AbsTargets&4 != 0 {
				abs(r)
			}
		}
		if f.ExplicitInternal && r.mode == "" && i%2 == 0 {
			r.mode = "Internal"
		}
	}
	if styles != nil && f.AbsTargets&8 != 0 {
		abs(styles)
	}
}

// widenNotes gives the footnotes (else the endnotes) part a note with a hyperlink and its own relationship part.
func widenNotes(f *Foreign, parts map[string][]byte, others []frel, info *Info) {
	if !f.NoteRels {
		return
	}
	for _, k := range []string{"footnotes", "endnotes"} {
		var rel *frel
		for i := range others {
			if kindOf(others[i].typ) == k && others[i].mode != "External" {
				rel = &others[i]
				break
			}
		}
		if rel == nil {
			continue
		}
		name := opc.Resolve("word/document.xml", rel.target)
		data, ok := parts[name]
		end := "</w:" + k + ">"
		if !ok || !bytes.Contains(data, []byte(end)) {
			continue
		}
		if _, exists := parts[opc.RelsNameOf(name)]; exists {
			return
		}
		el := strings.TrimSuffix(k, "s")
		note := `<w:` + el + ` w:id="90"><w:p><w:r><w:t>see </w:t></w:r><w:hyperlink r:id="nl1"><w:r><w:t>link</w:t></w:r></w:hyperlink></w:p></w:` + el + `>`
		parts[name] = ensureNSR([]byte(strings.Replace(string(data), end, note+end, 1)), "w:"+k)
		parts[opc.RelsNameOf(name)] = writeRels([]frel{{id: "nl1", typ: opc.RelPrefix + "hyperlink", target: extURL, mode: "External"}})
		info.NoteRelsPart = name
		info.ExternalLinks++
		return
	}
}

// withDirEntries adds a directory entry in front of the first file of every directory.
func withDirEntries(names []string) []string {
	dirs := map[string]bool{}
	for _, n := range names {
		for d := path.Dir(n); d != "." && d != "/" && d != ""; d = path.Dir(d) {
			dirs[d+"/"] = true
		}
	}
	if len(dirs) == 0 {
		return names
	}
	head := names[:2] // [Content_Types].xml and _rels/.rels stay first
	rest := append([]string{}, names[2:]...)
	for d := range dirs {
		if d != "_rels/" {
			rest = append(rest, d)
		}
	}
	sort.Strings(rest)
	return append(append([]string{}, head...), rest...)
}

package c02

import (
	"fmt"
	"os"
	"regexp"
	"sort"
	"testing"
	"encoding/json"

	"pgregory.net/rapid"
)

var normRe = regexp.MustCompile(`(op|save) [0-9]+|rId[0-9]+|n=[0-9]+|image[0-9]+|occurs [0-9]+`)

func TestSurvey(t *testing.T) {
	if os.Getenv("C02_SURVEY") == "" {
		t.Skip()
	}
	g := rapid.Custom(genCase)
	agg := map[string]int{}
	ex := map[string]string{}
	for i := 0; i < 1500; i++ {
		c := g.Example(i)
		res := run(c)
		seen := map[string]bool{}
		for _, f := range res.Failures {
			k := f.Clause + " " + normRe.ReplaceAllString(f.Detail, "#")
			if len(k) > 260 { k = k[:260] }
			if !seen[k] { seen[k] = true; agg[k]++ }
			if _, ok := ex[k]; !ok { js, _ := json.Marshal(c); ex[k] = string(js) }
		}
	}
	var ks []string
	for k := range agg { ks = append(ks, k) }
	sort.Slice(ks, func(i, j int) bool { return agg[ks[i]] > agg[ks[j]] })
	for _, k := range ks { fmt.Printf("%5d %s\n", agg[k], k) }
}

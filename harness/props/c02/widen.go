package c02

import (
	"fmt"
	"os"
	"path/filepath"

	"github.com/zerx-lab/wordZero/pkg/document"
	"pgregory.net/rapid"

	"wzverif/internal/gen"
	"wzverif/internal/kit"
	"wzverif/internal/ops"
)

// Widening of the generator (see ops/c02_widen.go for the op kinds and foreign2.go for the package shapes):
// valid calls through entry points the first version did not reach (Save to a path, file- and config-based cell
// images, several distinct template image placeholders given as data / file / details, string templates with
// placeholders, TemplateRenderer, AddFootnoteToRun, removal of existing notes, multi-level lists, the single
// property setters, the image modifiers), counts past 9 / 32 / 64, two live documents used alternately, a template
// engine that is kept and rendered from again after its base document changed. All of it is judged by R1-R5 as
// every other saved package; no clause was added (the statement speaks of every saved package and nothing else).

var widenKinds = func() []string {
	var out []string
	for _, k := range []string{"wsave", "wreopenf", "wcellimg", "wtplimgs", "wtplstrimg", "wburst", "wswap", "wtplload", "wtplagain", "wnote", "wlist", "wprops", "wimgmod", "whf"} {
		for i := 0; i < ops.C02WWeights[k]; i++ {
			out = append(out, k)
		}
	}
	return out
}()

func widenOp(t *rapid.T) ops.Op {
	return cfg.C02WOp(t, rapid.SampledFrom(widenKinds).Draw(t, "widenkind"))
}

func wop(t *rapid.T, k string) ops.Op { return cfg.C02WOp(t, k) }

// wvar draws a widening op of kind k with a fixed variant (I[idx] = v).
func wvar(t *rapid.T, k string, idx, v int) ops.Op {
	o := cfg.C02WOp(t, k)
	for len(o.I) <= idx {
		o.I = append(o.I, 0)
	}
	o.I[idx] = v
	return o
}

func table22(t *rapid.T) ops.Op {
	tb := cfg.OpOf(t, "table")
	tb.I[0], tb.I[1], tb.I[2], tb.Grid = 2, 2, 9000, nil
	return tb
}

const nWidenScenarios = 10

// widenScenario: short sequences in which the widened calls have to cooperate with the rest.
func widenScenario(t *rapid.T, n int) []ops.Op {
	rel := func() ops.Op { return fix(t, cfg.OpOf(t, rapid.SampledFrom(relKinds).Draw(t, "relk"))) }
	switch n {
	case 0: // the file serialiser between relationship-creating calls
		return []ops.Op{cfg.OpOf(t, "image"), wop(t, "wsave"), cfg.OpOf(t, "header"), wop(t, "wreopenf"), rel(), wop(t, "wsave")}
	case 1: // cell pictures from a file and from a configuration, before and after a cycle
		return []ops.Op{table22(t), wop(t, "wcellimg"), wop(t, "wcellimg"), cfg.OpOf(t, "reopen"), wop(t, "wcellimg"), cfg.OpOf(t, "image"), wop(t, "wsave")}
	case 2: // several distinct placeholders, pictures given in every way, next to other relationships
		return []ops.Op{cfg.OpOf(t, "header"), cfg.OpOf(t, "image"), wop(t, "wtplimgs"), rel(), wop(t, "wsave")}
	case 3: // an engine that is kept: the base document goes on changing, renders are made later and extended
		return []ops.Op{cfg.OpOf(t, "image"), wop(t, "wtplload"), rel(), wop(t, "wtplagain"), rel(), wop(t, "wtplagain"), wop(t, "wswap"), rel()}
	case 4: // two live documents (template base and render) extended alternately, also with one and the same picture
		pic := cfg.OpOf(t, "image")
		return []ops.Op{cfg.OpOf(t, "image"), cfg.OpOf(t, rapid.SampledFrom([]string{"tpldoc", "tpldoc", "reopen"}).Draw(t, "cyc")), rel(), wop(t, "wswap"), pic, wop(t, "wswap"), pic, rel(), wop(t, "wswap"), rel()}
	case 5: // counts past the one-digit boundary, then a cycle and more
		b := wop(t, "wburst")
		if b.I[0] < 9 {
			b.I[0] = rapid.IntRange(8, 12).Draw(t, "burstn")
		}
		return []ops.Op{b, cfg.OpOf(t, rapid.SampledFrom([]string{"reopen", "tpldoc", "save"}).Draw(t, "cyc")), rel(), rel(), cfg.OpOf(t, "listitem")}
	case 6: // notes: added to a run, existing ones removed (down to none), saved in that state, added again after a cycle
		rm := wvar(t, "wnote", 0, rapid.SampledFrom([]int{1, 2}).Draw(t, "rmkind"))
		rm.I[1] = 0
		first := cfg.OpOf(t, "footnote")
		if rm.I[0] == 2 {
			first = cfg.OpOf(t, "endnote")
		}
		return []ops.Op{first, rm, wop(t, "wsave"), wvar(t, "wnote", 0, 0), cfg.OpOf(t, "endnote"), wvar(t, "wnote", 0, 5), cfg.OpOf(t, "reopen"), wvar(t, "wnote", 0, 5), cfg.OpOf(t, "save"), cfg.OpOf(t, "image")}
	case 7: // every header/footer defined through mixed entry points, defined again after a cycle
		return []ops.Op{wop(t, "whf"), cfg.OpOf(t, "image"), cfg.OpOf(t, rapid.SampledFrom([]string{"reopen", "tpldoc"}).Draw(t, "cyc")), wop(t, "whf"), rel()}
	case 8: // the documents before and after a reopen used alternately
		return []ops.Op{rel(), cfg.OpOf(t, "reopen"), rel(), wop(t, "wswap"), rel(), wop(t, "wswap"), rel(), wop(t, "wsave")}
	case 9: // string template with placeholders, then the usual calls on the rendered document
		return []ops.Op{wop(t, "wtplstrimg"), rel(), cfg.OpOf(t, "reopen"), rel(), wop(t, "wlist")}
	}
	return nil
}

// widenForeign draws the additional shapes of the foreign package; each one with a small probability so that most
// packages keep few of them and failures stay attributable.
func widenForeign(t *rapid.T, f *Foreign) {
	switch r := rapid.IntRange(0, 39).Draw(t, "xlinks"); {
	case r == 0:
		f.ExtraLinks = rapid.SampledFrom([]int{31, 63, 97}).Draw(t, "xlinksbig")
	case r < 8:
		f.ExtraLinks = rapid.SampledFrom([]int{3, 7, 8, 9, 10, 12}).Draw(t, "xlinksn")
	}
	if rapid.IntRange(0, 3).Draw(t, "abs") == 0 {
		f.AbsTargets = rapid.IntRange(1, 15).Draw(t, "absmask")
	}
	f.ExplicitInternal = rapid.IntRange(0, 4).Draw(t, "expl") == 0
	if rapid.IntRange(0, 4).Draw(t, "relsprefix") == 0 {
		f.RelsPrefix = rapid.IntRange(1, 3).Draw(t, "relsprefixmask")
	}
	f.MultiSect = rapid.IntRange(0, 4).Draw(t, "multisect") == 0
	f.NoteRels = rapid.IntRange(0, 3).Draw(t, "noterels") == 0
	f.DirEntries = rapid.IntRange(0, 9).Draw(t, "direntries") == 0
	f.OpenPath = rapid.IntRange(0, 2).Draw(t, "openpath") == 0
}

func widenForeignLabels(res *kit.Result, f *Foreign, info *Info) {
	if f.ExtraLinks > 0 {
		res.Label("foreign:extra-links")
	}
	if info.N >= 9 {
		res.Label("foreign:rels>=9")
	}
	if info.N >= 32 {
		res.Label("foreign:rels>=32")
	}
	if info.Straddle9 {
		res.Label("foreign:ids-straddle-digit-boundary")
	}
	if info.AbsTargets > 0 {
		res.Label("foreign:absolute-targets")
	}
	if f.ExplicitInternal {
		res.Label("foreign:explicit-TargetMode-Internal")
	}
	if f.RelsPrefix != 0 {
		res.Label("foreign:prefixed-rels-part")
	}
	if info.MultiSect {
		res.Label("foreign:first-section-with-references")
	}
	if info.NoteRelsPart != "" {
		res.Label("foreign:notes-own-rels")
	}
	if f.DirEntries {
		res.Label("foreign:zip-directory-entries")
	}
	if f.OpenPath {
		res.Label("foreign:opened-from-file")
	}
}

// widenShape is the part of the distinctness signature that describes the widened foreign shapes.
func widenShape(f *Foreign, info *Info) string {
	return fmt.Sprintf("W[x=%d abs=%d ei=%v rp=%d ms=%v nr=%v de=%v op=%v]", f.ExtraLinks, info.AbsTargets, f.ExplicitInternal, f.RelsPrefix, info.MultiSect, info.NoteRelsPart != "", f.DirEntries, f.OpenPath)
}

// foreignFile writes the foreign package to a file when the case asks for document.Open ("" = open from memory).
func foreignFile(f *Foreign, dir string, fb []byte) string {
	if f == nil || !f.OpenPath {
		return ""
	}
	p := filepath.Join(dir, "foreign-input.docx")
	if err := os.WriteFile(p, fb, 0o644); err != nil {
		return ""
	}
	return p
}

// afterWiden: labels of a widening op and the bookkeeping of which opened package the current document descends from.
func (r *runner) afterWiden(op ops.Op, err error, docBefore *document.Document) {
	r.res.Label("widen-call")
	r.res.Label("w:" + op.K)
	if err != nil {
		r.res.Label("w-returned-error:" + op.K)
		return
	}
	n := 0
	if len(op.I) > 0 {
		n = op.I[0]
	}
	switch op.K {
	case "wsave":
		r.res.Label("saved-to-path")
	case "wreopenf":
		r.res.Label("saved-to-path")
		r.res.Label("reopen")
		r.res.Label("reopened-from-path")
	case "wcellimg":
		r.res.Label("image-in-table-cell")
		r.res.Label("cell-image:" + ops.C02WVariant(op))
	case "wtplimgs":
		r.base = nil // a rendered document is a new document
		r.res.Label("tpl-image-placeholder")
		r.res.Label("tpl-several-placeholders")
		if n >= 9 {
			r.res.Label("count>=9")
		}
		if len(op.I) > 2 && op.I[2]%2 == 1 {
			r.res.Label("tpl-through-TemplateRenderer-file")
		}
	case "wtplstrimg":
		r.base, r.baseTag = nil, ""
		r.res.Label("tpl-string-template-with-image")
	case "wburst":
		if n >= 9 {
			r.res.Label("count>=9")
		}
		if n >= 33 {
			r.res.Label("count>=33")
		}
		r.res.Label("image-in-body")
	case "wswap":
		if r.x.Doc != docBefore {
			r.base = r.baseOf[r.x.Doc]
			r.res.Label("two-documents-alternately")
		}
	case "wtplagain":
		if r.x.Doc != docBefore {
			r.base = nil
			r.res.Label("kept-engine-rendered-later")
			if r.w.Renders > 1 {
				r.res.Label("kept-engine-rendered-twice")
			}
		}
	case "wnote":
		r.res.Label("notes/settings-added")
		r.res.Label("note:" + ops.C02WVariant(op))
	case "wlist":
		r.res.Label("list-added")
	case "wprops":
		r.res.Label("properties-set")
	case "whf":
		r.res.Label("header/footer-added")
		if len(op.B) > 0 && op.B[0] {
			r.res.Label("header/footer-defined-twice")
		}
	}
}

var _ = gen.Image

package c02

import (
	"os"
	"regexp"
	"strings"

	"wzverif/internal/gen"
	"wzverif/internal/kit"
	"wzverif/internal/ops"
)

func hasOp(c Case, kinds ...string) bool {
	for _, l := range [][]ops.Op{c.Ops, c.Post} {
		for _, o := range l {
			for _, k := range kinds {
				if o.K == k {
					return true
				}
			}
		}
	}
	return false
}

var (
	dupRe    = regexp.MustCompile(`part=(\S+) id=(\S+) occurs \d+ times \(kinds \[([^\]]*)\]\)`)
	openedRe = regexp.MustCompile(`opened\(ids=(\w+) styles=(\S+) ext=\d+\)`)
	numIDRe  = regexp.MustCompile(`^rId[0-9]+$`)
)

// openedTag returns (ids, styles) of the foreign package the failing document descends from.
func openedTag(detail string) (ids, styles string, ok bool) {
	m := openedRe.FindStringSubmatch(detail)
	if m == nil {
		return "", "", false
	}
	return m[1], m[2], true
}

func rootNoteKind(s string) bool {
	return strings.Contains(s, "footnotes") || strings.Contains(s, "endnotes") || strings.Contains(s, "settings")
}

var findings = []kit.Finding[Case]{
	{
		// D06: addFootnoteRelationship / addEndnoteRelationship / addSettingsRelationship append to the package-level list
		ID: "KF-C02-notes-root", Clause: "C02.R",
		Desc: "AddFootnote / AddEndnote / SetFootnoteConfig write the footnotes, endnotes and settings relationships into _rels/.rels (targets footnotes.xml / endnotes.xml do not resolve from the root; ids are count+1 and collide with existing root ids) instead of word/_rels/document.xml.rels",
		Trigger: func(c Case, f kit.Failure) bool {
			if !hasOp(c, "footnote", "endnote", "notecfg") || !strings.Contains(f.Detail, "part=_rels/.rels ") {
				return false
			}
			switch f.Clause {
			case "C02.R2", "C02.R3":
				return strings.Contains(f.Detail, "kind=footnotes ") || strings.Contains(f.Detail, "kind=endnotes ") || strings.Contains(f.Detail, "kind=settings ")
			case "C02.R1":
				m := dupRe.FindStringSubmatch(f.Detail)
				return m != nil && rootNoteKind(m[3])
			}
			return false
		},
	},
	{
		// D04: new id = "rId" + (number of known relationships + 2), whatever ids exist
		ID: "KF-C02-id-alloc", Clause: "C02.R1",
		Desc: "a relationship added to a document opened from a package whose ids are not the library's own dense numbering gets the id rId(count+2) even when that id is taken: duplicate Id in word/_rels/document.xml.rels",
		Trigger: func(c Case, f kit.Failure) bool {
			ids, _, ok := openedTag(f.Detail)
			m := dupRe.FindStringSubmatch(f.Detail)
			return c.Foreign != nil && ok && ids == "nondense" && m != nil && m[1] == relsMainDoc && numIDRe.MatchString(m[2]) && m[2] != "rId1"
		},
	},
	{
		// D05: the styles relationship is dropped on open and re-inserted as rId1 on save
		ID: "KF-C02-styles-rid1", Clause: "C02.R",
		Desc: "the styles relationship of an opened package is discarded and written back as rId1: its own id is lost and, when another relationship is called rId1, the id occurs twice",
		Trigger: func(c Case, f kit.Failure) bool {
			_, styles, ok := openedTag(f.Detail)
			if c.Foreign == nil || !ok || styles == "rId1" {
				return false
			}
			switch f.Clause {
			case "C02.R1":
				m := dupRe.FindStringSubmatch(f.Detail)
				return m != nil && m[1] == relsMainDoc && m[2] == "rId1" && strings.Contains(m[3], "styles")
			case "C02.R5":
				return strings.Contains(f.Detail, "pre-existing relationship part="+relsMainDoc+" id="+styles+" kind=styles ")
			}
			return false
		},
	},
	{
		// D08: Relationship has no TargetMode field
		ID: "KF-C02-targetmode", Clause: "C02.R",
		Desc: "TargetMode is not modelled: an external hyperlink relationship of an opened package is written back without TargetMode=\"External\", i.e. as an internal relationship whose target is not in the package",
		Trigger: func(c Case, f kit.Failure) bool {
			if c.Foreign == nil || !c.Foreign.Hyperlink || !strings.Contains(f.Detail, "part="+relsMainDoc+" ") || !strings.Contains(f.Detail, "kind=hyperlink target=\""+extURL+"\"") {
				return false
			}
			switch f.Clause {
			case "C02.R2":
				return true
			case "C02.R5":
				return strings.Contains(f.Detail, "mode=External became ")
			}
			return false
		},
	},
}

// ---- hand-written regression cases (judged like generated ones on every run) -----------------------------

func img(pat int, name string) ops.Op {
	return ops.Op{K: "image", Img: &gen.Img{Fmt: "png", W: 4, H: 3, Pat: pat, Name: name}, I: []int{0, 0, 0, 0}, F: []float64{0, 0}, S: []string{"", "", ""}}
}

func cellimg(pat, r, c int) ops.Op {
	return ops.Op{K: "cellimg", Img: &gen.Img{Fmt: "jpeg", W: 5, H: 5, Pat: pat, Name: "b.jpg"}, I: []int{0, r, c}, F: []float64{10}}
}

func wcell(variant, nameSel int) ops.Op {
	return ops.Op{K: "wcellimg", Img: &gen.Img{Fmt: "gif", W: 5, H: 4, Pat: 20 + variant, Name: "c.gif"}, I: []int{0, variant, variant + 1, variant, nameSel}, F: []float64{10, 8}, S: []string{"alt", "title"}}
}

func wagain(pat int) ops.Op {
	return ops.Op{K: "wtplagain", Img: &gen.Img{Fmt: "jpeg", W: 6, H: 5, Pat: pat, Name: "r.jpg"}}
}

func wtpl(n, placement, via, kinds int) ops.Op {
	return ops.Op{K: "wtplimgs", Img: &gen.Img{Fmt: "png", W: 5, H: 5, Pat: 30 + n, Name: "t.png"}, I: []int{n, placement, via, kinds, -1}, B: []bool{placement == 0}}
}

func fixedCases() []Case {
	if os.Getenv("C02_NOFIXED") != "" { // sensitivity runs: let the generated search find the breakage on its own
		return nil
	}
	hdr := ops.Op{K: "header", I: []int{0}, S: []string{"head"}}
	ftr := ops.Op{K: "footer", I: []int{1}, S: []string{"foot"}}
	tbl := ops.Op{K: "table", I: []int{2, 2, 9000}}
	li := ops.Op{K: "listitem", S: []string{"item"}, I: []int{1, 0, 1, 0}}
	reopen := ops.Op{K: "reopen", B: []bool{false}}
	tpl := ops.Op{K: "tpldoc", Data: &ops.Data{Imgs: map[string]gen.Img{"p": {Fmt: "gif", W: 6, H: 6, Pat: 9, Name: "d.gif"}}}}
	// edge-argument calls (most of them rejected with an error) between valid ones; the package is judged right after each
	eimg := func(v int) ops.Op {
		return ops.Op{K: "ximage", Img: &gen.Img{Fmt: "png", W: 4, H: 3, Pat: 11, Name: "e.png"}, I: []int{0, 0, 0, 0, v}, F: []float64{0, 0}, S: []string{"", "", ""}}
	}
	efile := func(v int) ops.Op {
		return ops.Op{K: "ximagefile", Img: &gen.Img{Fmt: "gif", W: 4, H: 3, Pat: 12, Name: "e.gif"}, I: []int{0, 0, 0, 0, v}, F: []float64{0, 0}, S: []string{"", "", ""}}
	}
	ecell := func(v int) ops.Op {
		return ops.Op{K: "xcellimg", Img: &gen.Img{Fmt: "jpeg", W: 5, H: 5, Pat: 13, Name: "e.jpg"}, I: []int{0, 1, 1, v}, F: []float64{10}}
	}
	etpl := func(v int, again bool) ops.Op {
		return ops.Op{K: "xtplfail", Img: &gen.Img{Fmt: "png", W: 6, H: 2, Pat: 14, Name: "t.png"}, I: []int{v}, B: []bool{true, false, again}}
	}
	return []Case{
		{Ops: []ops.Op{img(1, "a.png"), eimg(0), eimg(1), img(2, "b.png"), efile(0), efile(2), tbl, ecell(1), ecell(4), ecell(5), cellimg(3, 0, 0), reopen, eimg(2), img(4, "c.png"),
			{K: "xhf", I: []int{0, 1}, S: []string{"h"}}, {K: "xhf", I: []int{6, 0}, B: []bool{true}}, hdr, {K: "xlist", I: []int{0, 0, 0}, S: []string{"i"}}, {K: "xnote", I: []int{2}}, {K: "xsave", I: []int{1}}, reopen, img(5, "d.png")}},
		{Ops: []ops.Op{img(1, "a.png"), hdr, etpl(2, false), img(2, "b.png"), etpl(4, true), img(3, "c.png"), reopen, etpl(0, false), ftr}},
		// from scratch: every relationship-creating call once, with cycles in between
		{Ops: []ops.Op{img(1, "a.png"), hdr, tbl, cellimg(2, 0, 0), li, reopen, ftr, img(3, "same.png"), cellimg(4, 1, 1), {K: "save"}, reopen, img(5, "c.JPEG")}},
		// template image placeholder, then more images on the rendered document
		{Ops: []ops.Op{{K: "para", S: []string{"{{#image p}}"}}, img(1, "a.png"), hdr, tpl, img(2, "a.png"), reopen, ftr}},
		// the library's own numbering survives the foreign rewrite (control group: nothing may fail)
		{Ops: []ops.Op{img(1, "a.png"), hdr, li}, Foreign: &Foreign{Scheme: "keep", Styles: "rId1", Extras: []string{"theme", "fontTable", "customXml"}, Root: 1, HdrRels: true},
			Post: []ops.Op{img(2, "b.png"), ftr, tbl, cellimg(3, 0, 0), reopen, img(4, "c.png")}},
		{Ops: []ops.Op{img(1, "a.png"), hdr, ftr}, Foreign: &Foreign{Scheme: "reverse", Styles: "rId1", StylesEnd: true, Root: 2}, Post: []ops.Op{img(2, "b.png"), li, img(3, "b.png")}},
		// widening: the file serialiser between additions; cell pictures from files; notes removed down to none and saved
		{Ops: []ops.Op{img(1, "a.png"), {K: "wsave", I: []int{0}}, hdr, img(2, "b.png"), {K: "wsave", I: []int{2}}, tbl, wcell(0, 3), wcell(1, 4), {K: "wreopenf", I: []int{1}}, wcell(3, 5), ftr, {K: "wsave", I: []int{3}},
			{K: "footnote", S: []string{"t", "n"}}, {K: "wnote", I: []int{1, 0, 0}, S: []string{"t", "n"}}, {K: "save"}, {K: "wnote", I: []int{0, 0, 0}, S: []string{"t", "n"}}, {K: "wnote", I: []int{5, 0, 0}, S: []string{"t", "n"}}, {K: "wsave", I: []int{0}}}},
		// a kept engine: the base document changes after the template was loaded, renders are made later; base and render extended alternately with one picture
		{Ops: []ops.Op{img(1, "a.png"), {K: "wtplload", B: []bool{true}}, img(2, "b.png"), hdr, wagain(6), img(3, "c.png"), {K: "wswap"}, img(4, "same.png"), {K: "wswap"}, img(4, "same.png"), wagain(7), li, {K: "wswap"}, ftr}},
		// several placeholders, pictures given in every way, through the engine and through TemplateRenderer; a burst past the one-digit boundary
		{Ops: []ops.Op{hdr, wtpl(4, 0, 0, 0xE4), img(1, "a.png"), wtpl(3, 2, 1, 0x1B), {K: "wburst", I: []int{10, 2, 1, 0}, Img: &gen.Img{Fmt: "png", W: 3, H: 3, Pat: 40, Name: "b.png"}}, reopen, img(2, "z.png"), li}},
		// foreign shapes of the widening: absolute targets, explicit TargetMode, prefixed relationship parts, first section with its own header, notes with own relationships, many links, opened from a file
		{Ops: []ops.Op{img(1, "a.png"), hdr, ftr, li, {K: "footnote", S: []string{"t", "n"}}},
			Foreign: &Foreign{Scheme: "straddle", Styles: "rId1", AbsTargets: 15, ExplicitInternal: true, RelsPrefix: 3, MultiSect: true, NoteRels: true, ExtraLinks: 9, DirEntries: true, OpenPath: true},
			Post:    []ops.Op{img(2, "b.png"), {K: "footnote", S: []string{"t2", "n2"}}, hdr, tpl, img(3, "c.png"), {K: "wsave", I: []int{0}}}},
		{Ops: []ops.Op{img(1, "a.png"), hdr}, Foreign: &Foreign{Scheme: "case", Styles: "fixed", StylesID: "RID2", ExtraLinks: 12, AbsTargets: 2}, Post: []ops.Op{img(2, "b.png"), ftr, li, reopen, img(3, "c.png")}},
		{Ops: []ops.Op{img(1, "a.png"), hdr, li}, Foreign: &Foreign{Scheme: "prefixes", Styles: "last", RelsPrefix: 1, ExtraLinks: 3}, Post: []ops.Op{img(2, "b.png"), ftr, tbl, cellimg(3, 0, 0)}},
		{Ops: []ops.Op{img(1, "a.png"), hdr}, Foreign: &Foreign{Scheme: "huge", Styles: "absent", TakeRId1: true, ExtraLinks: 63}, Post: []ops.Op{img(2, "b.png"), ftr, li}},
	}
}

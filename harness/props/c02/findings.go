package c02

import "wzverif/internal/kit"

var findings = []kit.Finding[Case]{}

func fixedCases() []Case { return nil }

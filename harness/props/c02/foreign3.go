package c02

import (
	"fmt"
	"strings"

	"pgregory.net/rapid"

	"wzverif/internal/kit"
	"wzverif/internal/opc"
)

// Second widening of the foreign rewrite: two more shapes that word processors write and the library never does.
//
//   - a glossary document (building blocks): word/glossary/document.xml, named by a glossaryDocument relationship
//     of the main document, with its own relationship part and its own styles / settings / fontTable parts - i.e. a
//     second family of parts whose names END in the library's fixed part names but live in another folder;
//   - one part that is the target of TWO relationships of the same type (a picture stored once with one relationship
//     per use; a header named by two relationships), the later use referring to the second relationship.
//
// Both are legal OPC (the statement's "arbitrary pre-existing relationships"); they are judged by R1-R5 like every
// other opened package, also after the opened document served as a template base.

const glossaryCT = "application/vnd.openxmlformats-officedocument.wordprocessingml.document.glossary+xml"

func xmlDecl() string { return `<?xml version="1.0" encoding="UTF-8" standalone="yes"?>` + "\n" }

func addGlossary(f *Foreign, parts map[string][]byte, addOverride func(part, ctype string), others *[]frel, have map[string]bool, info *Info) {
	if f.Glossary <= 0 || have["glossaryDocument"] {
		return
	}
	const dir = "word/glossary/"
	if _, taken := parts[dir+"document.xml"]; taken {
		return
	}
	link := ""
	var grels []frel
	if f.Glossary != 3 {
		parts[dir+"styles.xml"] = []byte(xmlDecl() + `<w:styles xmlns:w="` + wNS + `"><w:style w:type="paragraph" w:default="1" w:styleId="Normal"><w:name w:val="Normal"/></w:style></w:styles>`)
		parts[dir+"settings.xml"] = []byte(xmlDecl() + `<w:settings xmlns:w="` + wNS + `"><w:defaultTabStop w:val="720"/></w:settings>`)
		parts[dir+"fontTable.xml"] = []byte(xmlDecl() + `<w:fonts xmlns:w="` + wNS + `"><w:font w:name="Calibri"/></w:fonts>`)
		addOverride(dir+"styles.xml", "application/vnd.openxmlformats-officedocument.wordprocessingml.styles+xml")
		addOverride(dir+"settings.xml", "application/vnd.openxmlformats-officedocument.wordprocessingml.settings+xml")
		addOverride(dir+"fontTable.xml", "application/vnd.openxmlformats-officedocument.wordprocessingml.fontTable+xml")
		grels = []frel{
			{id: "rId1", typ: opc.RelPrefix + "styles", target: "styles.xml"},
			{id: "rId2", typ: opc.RelPrefix + "settings", target: "settings.xml"},
			{id: "rId4", typ: opc.RelPrefix + "fontTable", target: "fontTable.xml"},
		}
		if f.Glossary == 2 {
			grels = append(grels, frel{id: "rId3", typ: opc.RelPrefix + "hyperlink", target: extURL, mode: "External"})
			link = `<w:p><w:hyperlink r:id="rId3"><w:r><w:t>g</w:t></w:r></w:hyperlink></w:p>`
			info.ExternalLinks++
		}
		parts[dir+"_rels/document.xml.rels"] = writeRels(grels)
	}
	parts[dir+"document.xml"] = []byte(xmlDecl() + `<w:glossaryDocument xmlns:w="` + wNS + `" xmlns:r="` + nsRelTransitional + `"><w:docParts><w:docPart><w:docPartPr><w:name w:val="Block1"/></w:docPartPr><w:docPartBody><w:p><w:r><w:t>building block</w:t></w:r></w:p>` + link + `</w:docPartBody></w:docPart></w:docParts></w:glossaryDocument>`)
	addOverride(dir+"document.xml", glossaryCT)
	tgt := "glossary/document.xml"
	if f.Glossary == 2 {
		tgt = "/word/glossary/document.xml"
	}
	*others = append(*others, frel{typ: opc.RelPrefix + "glossaryDocument", target: tgt})
	have["glossaryDocument"] = true
	info.GlossaryPart = dir + "document.xml"
}

// addDupRels gives the first image and/or the first header/footer relationship of the base a twin: same type, same
// target, own id (assigned by the id scheme like every other one).
func addDupRels(f *Foreign, others []frel, info *Info) []frel {
	if f.DupRels&3 == 0 {
		return others
	}
	done := map[string]bool{}
	out := make([]frel, 0, len(others)+2)
	var tail []frel
	for _, r := range others {
		out = append(out, r)
		k := kindOf(r.typ)
		class := ""
		switch {
		case k == "image" && f.DupRels&1 != 0:
			class = "image"
		case (k == "header" || k == "footer") && f.DupRels&2 != 0:
			class = "hf"
		}
		if class == "" || done[class] || r.old == "" || strings.HasPrefix(r.old, "\x00") || r.mode == "External" {
			continue
		}
		done[class] = true
		twin := frel{old: fmt.Sprintf("\x00dup%d", info.DupRels), dupOf: r.old, typ: r.typ, target: r.target, mode: r.mode}
		info.DupRels++
		if f.DupRels&4 != 0 {
			out = append(out, twin)
		} else {
			tail = append(tail, twin)
		}
	}
	return append(out, tail...)
}

// redirectToDups moves the LAST reference to each repeated relationship over to its twin (doc has its final ids).
func redirectToDups(doc string, others []frel, ren map[string]string, info *Info) string {
	for _, r := range others {
		if r.dupOf == "" {
			continue
		}
		orig, ok := ren[r.dupOf]
		if !ok {
			continue
		}
		want := escAttr(orig)
		ms := refAttrRe.FindAllStringSubmatchIndex(doc, -1)
		for i := len(ms) - 1; i >= 0; i-- {
			m := ms[i] // m[4]:m[5] = the attribute value
			if doc[m[4]:m[5]] == want {
				doc = doc[:m[4]] + escAttr(r.id) + doc[m[5]:]
				info.DupRedirected++
				break
			}
		}
	}
	return doc
}

// widenForeign3 draws the shapes of this file.
func widenForeign3(t *rapid.T, f *Foreign) {
	if rapid.IntRange(0, 3).Draw(t, "glossary") == 0 {
		f.Glossary = rapid.SampledFrom([]int{1, 1, 2, 3}).Draw(t, "glossarykind")
	}
	if rapid.IntRange(0, 3).Draw(t, "duprels") == 0 {
		f.DupRels = rapid.SampledFrom([]int{1, 2, 3, 5, 6, 7}).Draw(t, "dupmask")
	}
}

func widenForeign3Labels(res *kit.Result, info *Info) {
	if info.GlossaryPart != "" {
		res.Label("foreign:glossary-document")
	}
	if info.DupRels > 0 {
		res.Label("foreign:two-relationships-one-target")
	}
	if info.DupRedirected > 0 {
		res.Label("foreign:second-of-two-relationships-referenced")
	}
}

func widenShape3(info *Info) string {
	return fmt.Sprintf("W3[g=%v dup=%d/%d]", info.GlossaryPart != "", info.DupRels, info.DupRedirected)
}

package c02

import (
	"archive/zip"
	"bytes"
	"encoding/xml"
	"fmt"
	"regexp"
	"sort"
	"strconv"
	"strings"

	"wzverif/internal/opc"
)

// Foreign describes how a library-produced package is turned, by code that shares nothing with the
// library, into a package "as another producer would have written it": the same parts, but arbitrary
// relationship ids (rewritten consistently in the relationship part and in the r:* attributes of the
// body), the styles relationship somewhere else, optionally an external hyperlink, extra parts with
// their relationships and content types, a header part with its own relationship part, and a package
// root that also names the document properties.
type Foreign struct {
	Scheme    string   `json:"scheme"`              // keep | reverse | shift | sparse | hole | drawn | mixed
	Off       int      `json:"off,omitempty"`       // shift / offset parameter
	Stride    int      `json:"stride,omitempty"`    // distance between ids in scheme sparse
	IDs       []string `json:"ids,omitempty"`       // drawn ids (schemes drawn, mixed)
	Styles    string   `json:"styles"`              // rId1 | fixed | last | absent
	StylesID  string   `json:"styles_id,omitempty"` // id for Styles=fixed
	StylesEnd bool     `json:"styles_end,omitempty"`
	TakeRId1  bool     `json:"take_rid1,omitempty"` // another relationship is called rId1 (only if styles is not)
	Hyperlink bool     `json:"hyperlink,omitempty"` // external hyperlink relationship + w:hyperlink in the body
	HdrRels   bool     `json:"hdr_rels,omitempty"`  // first header/footer part gets its own relationship part
	Extras    []string `json:"extras,omitempty"`    // theme fontTable webSettings customXml settings
	Root      int      `json:"root,omitempty"`      // 0 library root, 1-3 root with document properties and other ids
	// widening (zero values = none of it; see foreign2.go)
	ExtraLinks       int  `json:"extra_links,omitempty"`       // n more external hyperlink relationships (every second one referenced from the body): counts past 9 / 32 / 64 / 99
	AbsTargets       int  `json:"abs_targets,omitempty"`       // bit mask: 1 header/footer, 2 image, 4 numbering/notes/settings, 8 styles: Target written as an absolute part name
	ExplicitInternal bool `json:"explicit_internal,omitempty"` // TargetMode="Internal" (the default) written out on every second internal relationship
	RelsPrefix       int  `json:"rels_prefix,omitempty"`       // bit mask: 1 main document relationship part, 2 root relationship part: elements carry a namespace prefix
	MultiSect        bool `json:"multi_sect,omitempty"`        // a first section (paragraph-level sectPr) that names the existing header/footer relationships
	NoteRels         bool `json:"note_rels,omitempty"`         // the footnotes (or endnotes) part gets a hyperlink note and its own relationship part
	DirEntries       bool `json:"dir_entries,omitempty"`       // directory entries in the zip, as zip tools write them
	OpenPath         bool `json:"open_path,omitempty"`         // opened with document.Open from a file instead of OpenFromMemory
	// second widening (foreign3.go)
	Glossary int `json:"glossary,omitempty"` // 1-3: a glossary document (word/glossary/document.xml, named from the main document) with its own styles/settings/fontTable parts and relationship part (3: without one; 2: absolute target, own external hyperlink)
	DupRels  int `json:"dup_rels,omitempty"` // bit mask: 1 an image part, 2 a header/footer part is the target of TWO relationships of the same type (one per use), the later use refers to the second one; 4: the second one directly follows the first instead of being last
}

// Info is what the transformation did (for labels and for known-finding triggers).
type Info struct {
	N             int      // relationships of the main document besides styles = the library's "count" after open
	IDs           []string // their ids, file order
	StylesID      string   // "" = no styles relationship
	Dense         bool     // the ids besides styles are exactly rId2..rId(N+1): the library's own numbering
	CollideFirst  bool     // rId(N+2) is taken: the first addition collides
	HoleAtNext    bool     // rId(N+2) is free but a larger numeric id exists
	NonRid        bool     // some id is not of the form rId<number>
	HdrRelsPart   string   // header/footer part that received its own relationship part ("" = none)
	ExternalLinks int
	RepairedRoot  int // misplaced root relationships of the base package moved to the document part
	NoteRelsPart  string // notes part that received its own relationship part ("" = none)
	MultiSect     bool   // a paragraph-level sectPr with header/footer references was inserted
	AbsTargets    int    // relationships whose target was written in absolute form
	Straddle9     bool   // ids rId9 and rId10 (or rId99 and rId100) both occur
	GlossaryPart  string // glossary document part that was added ("" = none)
	DupRels       int    // relationships added as a second relationship to the target of an existing one
	DupRedirected int    // ... of which a reference of the body was moved to
}

func (i *Info) Tag() string {
	d := "nondense"
	if i.Dense {
		d = "dense"
	}
	s := i.StylesID
	if s == "" {
		s = "absent"
	}
	return fmt.Sprintf("ids=%s styles=%s ext=%d", d, s, i.ExternalLinks)
}

var ridRe = regexp.MustCompile(`^rId([0-9]+)$`)
var refAttrRe = regexp.MustCompile(`(\sr:[A-Za-z]+=")([^"]*)(")`)

func ridNum(id string) int {
	m := ridRe.FindStringSubmatch(id)
	if m == nil {
		return -1
	}
	n, err := strconv.Atoi(m[1])
	if err != nil {
		return -1
	}
	return n
}

const (
	typeCore     = "http://schemas.openxmlformats.org/package/2006/relationships/metadata/core-properties"
	typeExtended = opc.RelPrefix + "extended-properties"
	wNS          = "http://schemas.openxmlformats.org/wordprocessingml/2006/main"
	extURL       = "http://example.com/a?b=1&c=2"
)

type frel struct {
	old, id, typ, target, mode string
	dupOf                      string // old id of the relationship this one repeats (same type, same target)
}

func escAttr(s string) string {
	var b bytes.Buffer
	xml.EscapeText(&b, []byte(s))
	return b.String()
}

func writeRels(rs []frel) []byte {
	var b bytes.Buffer
	b.WriteString(`<?xml version="1.0" encoding="UTF-8" standalone="yes"?>` + "\n")
	b.WriteString(`<Relationships xmlns="` + opc.NSRels + `">`)
	for _, r := range rs {
		fmt.Fprintf(&b, `<Relationship Id="%s" Type="%s" Target="%s"`, escAttr(r.id), escAttr(r.typ), escAttr(r.target))
		if r.mode != "" {
			fmt.Fprintf(&b, ` TargetMode="%s"`, escAttr(r.mode))
		}
		b.WriteString("/>")
	}
	b.WriteString(`</Relationships>`)
	return b.Bytes()
}

// ensureNSR makes sure the root element of a part declares xmlns:r.
func ensureNSR(data []byte, root string) []byte {
	s := string(data)
	i := strings.Index(s, "<"+root)
	if i < 0 {
		return data
	}
	j := strings.IndexByte(s[i:], '>')
	if j < 0 {
		return data
	}
	if strings.Contains(s[i:i+j], "xmlns:r=") {
		return data
	}
	k := i + len(root) + 1
	return []byte(s[:k] + ` xmlns:r="` + nsRelTransitional + `"` + s[k:])
}

// Transform rewrites a library-produced package according to f.
func Transform(b []byte, f *Foreign) ([]byte, *Info, error) {
	pkg, err := opc.Read(b)
	if err != nil {
		return nil, nil, err
	}
	mains := pkg.MainParts()
	if len(mains) != 1 || mains[0].Resolved != "word/document.xml" {
		return nil, nil, fmt.Errorf("base package has no main part word/document.xml")
	}
	parts := map[string][]byte{}
	for k, v := range pkg.Parts {
		parts[k] = v
	}
	ctData, ok := parts["[Content_Types].xml"]
	if !ok || !bytes.Contains(ctData, []byte("</Types>")) {
		return nil, nil, fmt.Errorf("base package content types not editable")
	}
	ct := string(ctData)
	addOverride := func(part, ctype string) {
		if strings.Contains(ct, `"/`+part+`"`) {
			return
		}
		ct = strings.Replace(ct, "</Types>", `<Override PartName="/`+part+`" ContentType="`+ctype+`"/></Types>`, 1)
	}
	info := &Info{}

	// 1. relationships of the main document; ids of the base must be unambiguous to be rewritten
	var styles *frel
	var others []frel
	seen := map[string]bool{}
	have := map[string]bool{}
	for _, r := range pkg.Rels[relsMainDoc] {
		if r.ID == "" || seen[r.ID] {
			return nil, nil, fmt.Errorf("base package has ambiguous relationship ids")
		}
		seen[r.ID] = true
		fr := frel{old: r.ID, id: r.ID, typ: r.Type, target: r.Target, mode: r.Mode}
		have[kindOf(r.Type)] = true
		if kindOf(r.Type) == "styles" && styles == nil {
			s := fr
			styles = &s
			continue
		}
		others = append(others, fr)
	}
	// 2. misplaced root relationships of the base (notes, settings) go where they belong
	var root []frel
	for _, r := range pkg.Rels["_rels/.rels"] {
		k := kindOf(r.Type)
		if rootKinds[k] {
			root = append(root, frel{id: r.ID, typ: r.Type, target: r.Target, mode: r.Mode})
			continue
		}
		info.RepairedRoot++
		if k == "footnotes" || k == "endnotes" || k == "settings" {
			if _, ok := parts["word/"+k+".xml"]; ok && !have[k] {
				have[k] = true
				others = append(others, frel{typ: r.Type, target: k + ".xml"})
			}
		}
	}
	// 3. extra parts
	for _, e := range f.Extras {
		switch e {
		case "theme":
			if !have["theme"] {
				parts["word/theme/theme1.xml"] = []byte(`<?xml version="1.0" encoding="UTF-8" standalone="yes"?>` + "\n" + `<a:theme xmlns:a="http://schemas.openxmlformats.org/drawingml/2006/main" name="Office"><a:themeElements/></a:theme>`)
				addOverride("word/theme/theme1.xml", "application/vnd.openxmlformats-officedocument.theme+xml")
				others = append(others, frel{typ: opc.RelPrefix + "theme", target: "theme/theme1.xml"})
				have["theme"] = true
			}
		case "fontTable":
			if !have["fontTable"] {
				parts["word/fontTable.xml"] = []byte(`<?xml version="1.0" encoding="UTF-8" standalone="yes"?>` + "\n" + `<w:fonts xmlns:w="` + wNS + `"><w:font w:name="Arial"/></w:fonts>`)
				addOverride("word/fontTable.xml", "application/vnd.openxmlformats-officedocument.wordprocessingml.fontTable+xml")
				tgt := "fontTable.xml"
				if f.Off%2 == 1 {
					tgt = "/word/fontTable.xml" // absolute targets are legal OPC
				}
				others = append(others, frel{typ: opc.RelPrefix + "fontTable", target: tgt})
				have["fontTable"] = true
			}
		case "webSettings":
			if !have["webSettings"] {
				parts["word/webSettings.xml"] = []byte(`<?xml version="1.0" encoding="UTF-8" standalone="yes"?>` + "\n" + `<w:webSettings xmlns:w="` + wNS + `"/>`)
				addOverride("word/webSettings.xml", "application/vnd.openxmlformats-officedocument.wordprocessingml.webSettings+xml")
				others = append(others, frel{typ: opc.RelPrefix + "webSettings", target: "webSettings.xml"})
				have["webSettings"] = true
			}
		case "settings":
			if _, ok := parts["word/settings.xml"]; !ok && !have["settings"] {
				parts["word/settings.xml"] = []byte(`<?xml version="1.0" encoding="UTF-8" standalone="yes"?>` + "\n" + `<w:settings xmlns:w="` + wNS + `"><w:defaultTabStop w:val="708"/></w:settings>`)
				addOverride("word/settings.xml", "application/vnd.openxmlformats-officedocument.wordprocessingml.settings+xml")
				others = append(others, frel{typ: opc.RelPrefix + "settings", target: "settings.xml"})
				have["settings"] = true
			}
		case "customXml":
			if !have["customXml"] {
				parts["customXml/item1.xml"] = []byte(`<?xml version="1.0" encoding="UTF-8" standalone="yes"?>` + "\n" + `<root xmlns="urn:example:data"><v>1</v></root>`)
				parts["customXml/itemProps1.xml"] = []byte(`<?xml version="1.0" encoding="UTF-8" standalone="no"?>` + "\n" + `<ds:datastoreItem ds:itemID="{11111111-2222-3333-4444-555555555555}" xmlns:ds="http://schemas.openxmlformats.org/officeDocument/2006/customXml"/>`)
				parts["customXml/_rels/item1.xml.rels"] = writeRels([]frel{{id: "rId1", typ: opc.RelPrefix + "customXmlProps", target: "itemProps1.xml"}})
				addOverride("customXml/itemProps1.xml", "application/vnd.openxmlformats-officedocument.customXmlProperties+xml")
				others = append(others, frel{typ: opc.RelPrefix + "customXml", target: "../customXml/item1.xml"})
				have["customXml"] = true
			}
		}
	}
	if f.MultiSect { // a header that only the FIRST section (paragraph-level sectPr) uses
		if _, taken := parts["word/header9.xml"]; !taken {
			parts["word/header9.xml"] = []byte(`<?xml version="1.0" encoding="UTF-8" standalone="yes"?>` + "\n" + `<w:hdr xmlns:w="` + wNS + `"><w:p><w:r><w:t>first section</w:t></w:r></w:p></w:hdr>`)
			addOverride("word/header9.xml", "application/vnd.openxmlformats-officedocument.wordprocessingml.header+xml")
			others = append(others, frel{old: "\x00ms", typ: opc.RelPrefix + "header", target: "header9.xml"})
		}
	}
	addGlossary(f, parts, addOverride, &others, have, info)
	others = addDupRels(f, others, info)
	// 4. external hyperlink
	doc := string(parts["word/document.xml"])
	if f.Hyperlink {
		if !strings.Contains(doc, "<w:body>") {
			return nil, nil, fmt.Errorf("base document has no literal <w:body>")
		}
		others = append(others, frel{old: "\x00hyperlink", typ: opc.RelPrefix + "hyperlink", target: extURL, mode: "External"})
		info.ExternalLinks++
	}

	for i := 0; i < f.ExtraLinks; i++ {
		others = append(others, frel{old: fmt.Sprintf("\x00xl%d", i), typ: opc.RelPrefix + "hyperlink", target: fmt.Sprintf("%s&n=%d", extURL, i), mode: "External"})
		info.ExternalLinks++
	}
	if f.ExtraLinks > 0 && !strings.Contains(doc, "<w:body>") {
		return nil, nil, fmt.Errorf("base document has no literal <w:body>")
	}

	// 5. ids
	n := len(others)
	info.N = n
	maxNum := 1
	for _, r := range others {
		if v := ridNum(r.id); v > maxNum {
			maxNum = v
		}
	}
	used := map[string]bool{}
	uniq := func(id string, k int) string {
		for used[id] || id == "" {
			id = fmt.Sprintf("%s_%d", id, k)
		}
		used[id] = true
		return id
	}
	drawn := func(k int) string {
		if k < len(f.IDs) {
			return f.IDs[k]
		}
		return fmt.Sprintf("x%d", k)
	}
	off := f.Off
	if off < 0 {
		off = -off
	}
	stride := f.Stride
	if stride < 2 {
		stride = 2
	}
	for k := range others {
		var id string
		switch f.Scheme {
		case "reverse":
			id = fmt.Sprintf("rId%d", n+1-k)
		case "shift":
			id = fmt.Sprintf("rId%d", k+2+off%5+1)
		case "sparse":
			id = fmt.Sprintf("rId%d", 2+off%4+k*stride)
		case "hole":
			id = fmt.Sprintf("rId%d", k+2)
			if k == n-1 {
				id = fmt.Sprintf("rId%d", n+3)
			}
		case "straddle": // rId8, rId9, rId10, rId11, ...: the one-digit / two-digit boundary
			id = fmt.Sprintf("rId%d", 8+k)
		case "big": // rId98, rId99, rId100, ...
			id = fmt.Sprintf("rId%d", 98+k)
		case "huge": // numbers past 32 and 64 bits
			id = []string{"rId4294967296", "rId4294967297", "rId18446744073709551616", "rId18446744073709551617", "rId2147483648", "rId99999999999999999999"}[k%6]
			if k >= 6 {
				id = fmt.Sprintf("%s%d", id, k)
			}
		case "prefixes": // ids that are prefixes of one another, with leading zeros
			id = []string{"rId", "rId0", "rId00", "rId2", "rId20", "rId200", "rId02", "rId2000", "rId002", "r", "rI"}[k%11]
			if k >= 11 {
				id = fmt.Sprintf("%s0%d", id, k)
			}
		case "case": // ids that differ in case only
			id = []string{"rId2", "RID2", "rid2", "Rid2", "rID2", "RId2", "riD2", "rId3", "RID3", "rid3", "Rid3"}[k%11]
			if k >= 11 {
				id = fmt.Sprintf("%s_%d", id, k)
			}
		case "drawn":
			id = drawn(k)
		case "mixed":
			if k%2 == 0 {
				id = drawn(k / 2)
			} else {
				id = fmt.Sprintf("rId%d", k+2+off%5)
			}
		default: // keep
			id = others[k].id
			if id == "" {
				maxNum++
				id = fmt.Sprintf("rId%d", maxNum)
			}
		}
		others[k].id = uniq(id, k)
	}
	stylesID := ""
	if styles != nil {
		switch f.Styles {
		case "absent":
			styles = nil
			delete(parts, "word/styles.xml")
			ct = regexp.MustCompile(`<Override[^>]*PartName="/word/styles\.xml"[^>]*/>|<Override[^>]*PartName="/word/styles\.xml"[^>]*>\s*</Override>`).ReplaceAllString(ct, "")
		case "fixed":
			stylesID = f.StylesID
		case "last":
			m := 1
			for _, r := range others {
				if v := ridNum(r.id); v > m {
					m = v
				}
			}
			stylesID = fmt.Sprintf("rId%d", m+1)
		default:
			stylesID = "rId1"
		}
	}
	if styles != nil {
		if stylesID == "" {
			stylesID = "rId1"
		}
		if used[stylesID] { // move the relationship that holds the id out of the way
			for k := range others {
				if others[k].id == stylesID {
					others[k].id = uniq(fmt.Sprintf("rId%d", n+40+k), k)
				}
			}
		}
		used[stylesID] = true
		styles.id = stylesID
		if f.TakeRId1 && stylesID != "rId1" && n > 0 && !used["rId1"] {
			k := off % n
			delete(used, others[k].id)
			others[k].id = "rId1"
			used["rId1"] = true
		}
	} else if f.TakeRId1 && n > 0 && !used["rId1"] {
		k := off % n
		delete(used, others[k].id)
		others[k].id = "rId1"
		used["rId1"] = true
	}
	info.StylesID = stylesID

	// 6. rewrite the references of the body (simultaneous substitution old -> new)
	ren := map[string]string{}
	hlID := ""
	for _, r := range others {
		if r.old == "\x00hyperlink" {
			hlID = r.id
		} else if r.old != "" {
			ren[r.old] = r.id
		}
	}
	doc = refAttrRe.ReplaceAllStringFunc(doc, func(m string) string {
		sm := refAttrRe.FindStringSubmatch(m)
		if nw, ok := ren[sm[2]]; ok {
			return sm[1] + escAttr(nw) + sm[3]
		}
		return m
	})
	doc = redirectToDups(doc, others, ren, info)
	if f.Hyperlink {
		doc = strings.Replace(doc, "<w:body>", `<w:body><w:p><w:hyperlink r:id="`+escAttr(hlID)+`" w:history="1"><w:r><w:t>link</w:t></w:r></w:hyperlink></w:p>`, 1)
	}
	doc = widenBody(doc, f, others, info)
	parts["word/document.xml"] = ensureNSR([]byte(doc), "w:document")
	widenRels(f, others, styles, info)
	widenNotes(f, parts, others, info)

	// 7. a header/footer part with its own relationship part
	if f.HdrRels {
		for _, r := range others {
			k := kindOf(r.typ)
			if k != "header" && k != "footer" {
				continue
			}
			name := opc.Resolve("word/document.xml", r.target)
			data, ok := parts[name]
			end := "</w:hdr>"
			rootEl := "w:hdr"
			if k == "footer" {
				end, rootEl = "</w:ftr>", "w:ftr"
			}
			if !ok || !bytes.Contains(data, []byte(end)) {
				continue
			}
			if _, exists := parts[opc.RelsNameOf(name)]; exists {
				break
			}
			hr := []frel{{id: "hl9", typ: opc.RelPrefix + "hyperlink", target: extURL, mode: "External"}}
			names := make([]string, 0)
			for pn := range parts {
				if strings.HasPrefix(pn, "word/media/") {
					names = append(names, pn)
				}
			}
			sort.Strings(names)
			if len(names) > 0 {
				hr = append(hr, frel{id: "rId1", typ: opc.RelPrefix + "image", target: strings.TrimPrefix(names[0], "word/")})
			}
			s := strings.Replace(string(data), end, `<w:p><w:hyperlink r:id="hl9"><w:r><w:t>h</w:t></w:r></w:hyperlink></w:p>`+end, 1)
			parts[name] = ensureNSR([]byte(s), rootEl)
			parts[opc.RelsNameOf(name)] = writeRels(hr)
			info.HdrRelsPart = name
			info.ExternalLinks++
			break
		}
	}

	// 8. package root
	if f.Root > 0 {
		if _, ok := parts["docProps/core.xml"]; !ok {
			parts["docProps/core.xml"] = []byte(`<?xml version="1.0" encoding="UTF-8" standalone="yes"?>` + "\n" + `<cp:coreProperties xmlns:cp="http://schemas.openxmlformats.org/package/2006/metadata/core-properties" xmlns:dc="http://purl.org/dc/elements/1.1/"><dc:title>t</dc:title></cp:coreProperties>`)
		}
		if _, ok := parts["docProps/app.xml"]; !ok {
			parts["docProps/app.xml"] = []byte(`<?xml version="1.0" encoding="UTF-8" standalone="yes"?>` + "\n" + `<Properties xmlns="http://schemas.openxmlformats.org/officeDocument/2006/extended-properties"><Application>X</Application></Properties>`)
		}
		addOverride("docProps/core.xml", "application/vnd.openxmlformats-package.core-properties+xml")
		addOverride("docProps/app.xml", "application/vnd.openxmlformats-officedocument.extended-properties+xml")
		ids := [][3]string{{"rId1", "rId2", "rId3"}, {"rId3", "rId1", "rId2"}, {"R0", "rId4", "rId2"}}[(f.Root-1)%3]
		root = []frel{{id: ids[0], typ: opc.RelOfficeDoc, target: "word/document.xml"}, {id: ids[1], typ: typeCore, target: "docProps/core.xml"}, {id: ids[2], typ: typeExtended, target: "docProps/app.xml"}}
		if f.Root%2 == 0 {
			root[0], root[2] = root[2], root[0]
		}
	}
	parts["_rels/.rels"] = writeRelsPrefixed(root, f.RelsPrefix&2 != 0)

	// 9. relationship part of the main document
	var all []frel
	if styles != nil && !f.StylesEnd {
		all = append(all, *styles)
	}
	all = append(all, others...)
	if styles != nil && f.StylesEnd {
		all = append(all, *styles)
	}
	parts[relsMainDoc] = writeRelsPrefixed(all, f.RelsPrefix&1 != 0)
	parts["[Content_Types].xml"] = []byte(ct)

	// 10. facts for labels and triggers
	dense := true
	nums := map[int]bool{}
	for _, r := range others {
		info.IDs = append(info.IDs, r.id)
		v := ridNum(r.id)
		if v < 0 || r.id != fmt.Sprintf("rId%d", v) {
			info.NonRid = true
			dense = false
			continue
		}
		nums[v] = true
		if v < 2 || v > n+1 {
			dense = false
		}
	}
	info.Dense = dense
	info.Straddle9 = (nums[9] && nums[10]) || (nums[99] && nums[100])
	next := n + 2
	info.CollideFirst = nums[next] || stylesID == fmt.Sprintf("rId%d", next)
	if !info.CollideFirst {
		for v := range nums {
			if v > next {
				info.HoleAtNext = true
			}
		}
	}

	// 11. zip
	var buf bytes.Buffer
	zw := zip.NewWriter(&buf)
	names := make([]string, 0, len(parts))
	for k := range parts {
		if k != "[Content_Types].xml" && k != "_rels/.rels" {
			names = append(names, k)
		}
	}
	sort.Strings(names)
	names = append([]string{"[Content_Types].xml", "_rels/.rels"}, names...)
	if f.DirEntries {
		names = withDirEntries(names)
	}
	for _, nme := range names {
		w, err := zw.Create(nme)
		if err != nil {
			return nil, nil, err
		}
		if _, err := w.Write(parts[nme]); err != nil {
			return nil, nil, err
		}
	}
	if err := zw.Close(); err != nil {
		return nil, nil, err
	}
	return buf.Bytes(), info, nil
}

package c02

import (
	"bytes"
	"fmt"
	"io"
	"os"
	"strings"
	"testing"

	"github.com/zerx-lab/wordZero/pkg/document"
	"pgregory.net/rapid"

	"wzverif/internal/gen"
	"wzverif/internal/kit"
	"wzverif/internal/opc"
	"wzverif/internal/ops"
)

func TestMain(m *testing.M) {
	document.SetGlobalLevel(document.LogLevelSilent)
	kit.TestMain(m, 640, 8000)
}

// Case is one history: Ops build a document from scratch (with save/open cycles in between);
// when Foreign is set, the package saved after Ops is rewritten into a foreign-looking package
// (arbitrary relationship ids, see foreign.go), opened with OpenFromMemory and extended by Post.
type Case struct {
	Ops     []ops.Op `json:"ops"`
	Foreign *Foreign `json:"foreign,omitempty"`
	Post    []ops.Op `json:"post,omitempty"`
}

// ---- generator ---------------------------------------------------------------------------------------

var weights = map[string]int{
	"para": 4, "fpara": 1, "heading": 2, "addtext": 1, "pagebreak": 1,
	"table": 5, "celltext": 2, "cellimg": 7, "nested": 1, "insrow": 1, "mergeh": 1, "celllist": 1,
	"image": 8, "imagefile": 3, "imgalt": 1,
	"header": 4, "footer": 4, "headerpn": 2, "footerpn": 2, "fheader": 2, "ffooter": 2, "difffirst": 1,
	"footnote": 4, "endnote": 4, "notecfg": 3, "listitem": 4, "bullet": 2, "numbered": 2,
	"toc": 1, "autotoc": 1, "props": 3, "title": 1, "stats": 1, "pagesize": 1, "margins": 1,
	"rmelemat": 1, "rmparaat": 1, "customstyle": 1,
	"save": 3, "reopen": 6, "tpldoc": 4, "tpldoc2": 8, "tplstr": 1, "md": 2,
}

var classes = append(append([]string{}, gen.Expressible...), gen.ClsTemplate)
var cfg = &ops.Config{Classes: classes, Weights: weights}

// ops that create a relationship when they succeed
var relKinds = []string{"image", "image", "imagefile", "cellimg", "header", "footer", "headerpn", "footerpn", "fheader", "ffooter", "footnote", "endnote", "notecfg", "listitem", "bullet", "numbered"}

var relCreating = map[string]bool{"image": true, "imagefile": true, "cellimg": true, "header": true, "footer": true, "headerpn": true, "footerpn": true,
	"fheader": true, "ffooter": true, "footnote": true, "endnote": true, "notecfg": true, "listitem": true, "bullet": true, "numbered": true, "celllist": true, "tpldoc": true, "tpldoc2": true, "md": true}

// edge-argument calls (ops/c02_extra.go): calls the API rejects or may reject; expanded by weight
var edgeKinds = func() []string {
	var out []string
	for _, k := range []string{"ximage", "ximagefile", "xcellimg", "xhf", "xlist", "xnote", "xtplfail", "xsave", "xprops"} {
		for i := 0; i < ops.C02Weights[k]; i++ {
			out = append(out, k)
		}
	}
	return out
}()

func edgeOp(t *rapid.T) ops.Op {
	return cfg.C02Op(t, rapid.SampledFrom(edgeKinds).Draw(t, "edgekind"))
}

// fix makes more of the drawn ops land: tables with at least one cell, cell images inside the table.
func fix(t *rapid.T, o ops.Op) ops.Op {
	switch o.K {
	case "table":
		if rapid.IntRange(0, 3).Draw(t, "tblfix") > 0 {
			if o.I[0] < 1 {
				o.I[0] = 2
			}
			if o.I[1] < 1 {
				o.I[1] = 2
			}
			o.I[2] = 9000
			o.Grid = nil
		}
	case "cellimg":
		if rapid.IntRange(0, 3).Draw(t, "cellfix") > 0 {
			o.I[1], o.I[2] = rapid.IntRange(0, 1).Draw(t, "r"), rapid.IntRange(0, 1).Draw(t, "c")
		}
	}
	return o
}

func history(t *rapid.T, min, max int) []ops.Op {
	n := rapid.IntRange(min, max).Draw(t, "nops")
	out := make([]ops.Op, 0, n+4)
	for i := 0; i < n; i++ {
		switch e := rapid.IntRange(0, 15).Draw(t, "edge"); {
		case e < 2:
			out = append(out, edgeOp(t))
			continue
		case e < 5:
			out = append(out, widenOp(t))
			if rapid.IntRange(0, 2).Draw(t, "savenow") == 0 { // the state right after the call is judged, not only a later one
				out = append(out, ops.Op{K: "save"})
			}
			continue
		}
		out = append(out, fix(t, cfg.Op(t)))
	}
	return out
}

// scenario: short sequences in which several calls have to cooperate
func scenario(t *rapid.T) []ops.Op {
	var out []ops.Op
	scn := rapid.IntRange(0, 14+nWidenScenarios).Draw(t, "scn")
	if scn > 14 {
		return widenScenario(t, scn-15)
	}
	switch scn {
	case 11: // a rejected / edge image call between valid ones, saved, cycled and extended
		out = append(out, cfg.OpOf(t, "image"), cfg.C02Op(t, rapid.SampledFrom([]string{"ximage", "ximage", "ximagefile"}).Draw(t, "xk")), cfg.OpOf(t, "image"),
			cfg.OpOf(t, "reopen"), cfg.OpOf(t, "image"))
	case 12: // the same inside a table
		tb := cfg.OpOf(t, "table")
		tb.I[0], tb.I[1], tb.I[2], tb.Grid = 2, 2, 9000, nil
		ci := cfg.OpOf(t, "cellimg")
		ci.I[1], ci.I[2] = 0, 1
		out = append(out, tb, cfg.C02Op(t, "xcellimg"), ci, cfg.C02Op(t, "xcellimg"), cfg.OpOf(t, "reopen"), cfg.OpOf(t, "image"))
	case 13: // a template render that fails half-way; the caller goes on with the template document
		out = append(out, cfg.OpOf(t, "image"), cfg.OpOf(t, "header"), cfg.C02Op(t, "xtplfail"), cfg.OpOf(t, "image"), cfg.OpOf(t, "tpldoc"), cfg.OpOf(t, "image"))
	case 14: // header/footer/list/note calls with arguments outside the defined ones next to valid ones
		out = append(out, cfg.OpOf(t, "header"), cfg.C02Op(t, "xhf"), cfg.C02Op(t, rapid.SampledFrom([]string{"xlist", "xnote", "xhf", "xsave"}).Draw(t, "xk")), cfg.OpOf(t, "footer"),
			cfg.OpOf(t, "reopen"), cfg.C02Op(t, "xhf"), cfg.OpOf(t, "image"))
	case 0: // template image placeholder rendered from the current document
		out = append(out, ops.Op{K: "para", S: []string{"{{#image p}}"}, Cls: []string{"img-placeholder"}})
		if rapid.Bool().Draw(t, "two") {
			out = append(out, cfg.OpOf(t, "image"), ops.Op{K: "para", S: []string{"x {{#image p}}"}, Cls: []string{"img-placeholder"}})
		}
		td := cfg.OpOf(t, "tpldoc")
		if td.Data.Imgs == nil {
			td.Data.Imgs = map[string]gen.Img{}
		}
		td.Data.Imgs["p"] = gen.Image(t, "pimg")
		out = append(out, td)
	case 1: // image in a table cell, then a cycle, then another one
		tb := cfg.OpOf(t, "table")
		tb.I[0], tb.I[1], tb.I[2], tb.Grid = 2, 2, 9000, nil
		ci := cfg.OpOf(t, "cellimg")
		ci.I[1], ci.I[2] = 0, 1
		ci2 := cfg.OpOf(t, "cellimg")
		ci2.I[1], ci2.I[2] = 1, 0
		out = append(out, tb, ci, cfg.OpOf(t, "reopen"), ci2)
	case 2:
		out = append(out, cfg.OpOf(t, "header"), cfg.OpOf(t, "image"), cfg.OpOf(t, "reopen"), cfg.OpOf(t, "footer"), cfg.OpOf(t, "image"))
	case 3:
		out = append(out, cfg.OpOf(t, "footnote"), cfg.OpOf(t, "notecfg"), cfg.OpOf(t, "reopen"), cfg.OpOf(t, "endnote"), cfg.OpOf(t, "image"))
	case 4:
		out = append(out, cfg.OpOf(t, "listitem"), cfg.OpOf(t, "image"), cfg.OpOf(t, "tpldoc"), cfg.OpOf(t, "header"), cfg.OpOf(t, "image"))
	case 5:
		out = append(out, cfg.OpOf(t, "image"), cfg.OpOf(t, "tpldoc"), cfg.OpOf(t, "image"), cfg.OpOf(t, "reopen"), cfg.OpOf(t, "listitem"))
	case 6:
		out = append(out, cfg.OpOf(t, "props"), cfg.OpOf(t, "fheader"), cfg.OpOf(t, "reopen"), cfg.OpOf(t, "footerpn"), cfg.OpOf(t, "numbered"))
	case 7:
		out = append(out, cfg.OpOf(t, "md"), cfg.OpOf(t, "image"), cfg.OpOf(t, "header"), cfg.OpOf(t, "reopen"), cfg.OpOf(t, "image"))
	case 8: // one template rendered twice (possibly with ONE shared TemplateData object); the first render is saved afterwards
		out = append(out, cfg.OpOf(t, "image"), twoRenders(t, true), cfg.OpOf(t, "image"))
	case 9: // placeholder in a table cell, header relationship in the template, two renders
		tb := cfg.OpOf(t, "table")
		tb.I[0], tb.I[1], tb.I[2], tb.Grid = 2, 2, 9000, nil
		ct := cfg.OpOf(t, "celltext")
		ct.I[1], ct.I[2], ct.S = 0, 0, []string{"{{#image p}}"}
		ct.Cls = []string{"img-placeholder"}
		out = append(out, cfg.OpOf(t, "header"), tb, ct, twoRenders(t, false), cfg.OpOf(t, "footer"))
	case 10:
		out = append(out, cfg.OpOf(t, "header"), twoRenders(t, true), cfg.OpOf(t, "footer"), cfg.OpOf(t, "reopen"), twoRenders(t, true))
	}
	return out
}

// twoRenders draws a tpldoc2 op in which both renders carry a picture for {{#image p}}; half of the time the
// two renders share one TemplateData object.
func twoRenders(t *rapid.T, addPlaceholder bool) ops.Op {
	o := cfg.OpOf(t, "tpldoc2")
	for len(o.B) < 2 {
		o.B = append(o.B, false)
	}
	o.B[0] = addPlaceholder
	o.B[1] = rapid.Bool().Draw(t, "sharedtd")
	if o.Data == nil {
		o.Data = &ops.Data{}
	}
	if o.Data2 == nil {
		o.Data2 = &ops.Data{}
	}
	o.Data.Imgs = map[string]gen.Img{"p": gen.Image(t, "pimg1")}
	o.Data2.Imgs = map[string]gen.Img{"p": gen.Image(t, "pimg2")}
	return o
}

var drawnIDs = []string{"rId9", "rId10", "rId11", "rId99", "rId01", "rId010", "rID2", "rId4294967298", "_", "rId-1", "rId.5", "ｒId2", "R1a2b", "id5", "_x", "rId007", "docRId12", "rId3a", "Rc9e8f7", "rId10", "rId100", "RID3", "rid4", "Rel.1", "r-2", "图1", "rId2", "rId3", "rId6", "rId8"}

func genForeign(t *rapid.T) *Foreign {
	f := &Foreign{
		Scheme: rapid.SampledFrom([]string{"hole", "shift", "drawn", "mixed", "sparse", "hole", "shift", "drawn", "keep", "reverse", "straddle", "big", "huge", "prefixes", "case"}).Draw(t, "scheme"),
		Off:    rapid.IntRange(0, 9).Draw(t, "off"),
		Stride: rapid.IntRange(2, 5).Draw(t, "stride"),
		Styles: rapid.SampledFrom([]string{"rId1", "rId1", "fixed", "fixed", "last", "absent"}).Draw(t, "styles"),
		Root:   rapid.SampledFrom([]int{0, 0, 1, 2, 3, 4, 5, 6}).Draw(t, "root"),
	}
	if f.Scheme == "drawn" || f.Scheme == "mixed" {
		f.IDs = rapid.SliceOfN(rapid.SampledFrom(drawnIDs), 0, 8).Draw(t, "ids")
	}
	if f.Styles == "fixed" {
		f.StylesID = rapid.SampledFrom([]string{"rId7", "rId3", "rId2", "rId12", "sty1", "R1a2b"}).Draw(t, "stylesid")
	}
	f.StylesEnd = rapid.Bool().Draw(t, "stylesend")
	if f.Styles != "rId1" {
		f.TakeRId1 = rapid.Bool().Draw(t, "takerid1")
	}
	f.Hyperlink = rapid.IntRange(0, 2).Draw(t, "hl") == 0
	f.HdrRels = rapid.IntRange(0, 2).Draw(t, "hdr") == 0
	for _, e := range []string{"theme", "fontTable", "webSettings", "customXml", "settings"} {
		if rapid.IntRange(0, 3).Draw(t, "extra") == 0 {
			f.Extras = append(f.Extras, e)
		}
	}
	widenForeign(t, f)
	widenForeign3(t, f)
	return f
}

func genCase(t *rapid.T) Case {
	var c Case
	foreign := rapid.IntRange(0, 9).Draw(t, "mode") < 6
	if foreign {
		c.Ops = history(t, 0, kit.Scale(6, 16))
		// a foreign package is interesting when it has some relationships to begin with
		for i, n := 0, rapid.IntRange(1, 4).Draw(t, "nrel"); i < n; i++ {
			c.Ops = append(c.Ops, fix(t, cfg.OpOf(t, rapid.SampledFrom(relKinds).Draw(t, "relk"))))
		}
		if rapid.IntRange(0, 2).Draw(t, "preedge") == 0 {
			c.Ops = append(c.Ops, edgeOp(t))
		}
		if rapid.IntRange(0, 3).Draw(t, "prescn") == 0 {
			c.Ops = append(c.Ops, scenario(t)...)
		}
		c.Foreign = genForeign(t)
		c.Post = history(t, 0, kit.Scale(6, 16))
		for i, n := 0, rapid.IntRange(0, 3).Draw(t, "npost"); i < n; i++ {
			c.Post = append(c.Post, fix(t, cfg.OpOf(t, rapid.SampledFrom(relKinds).Draw(t, "relk"))))
		}
		if rapid.IntRange(0, 2).Draw(t, "postedge") == 0 {
			c.Post = append(c.Post, edgeOp(t), fix(t, cfg.OpOf(t, rapid.SampledFrom(relKinds).Draw(t, "relk"))))
		}
		if rapid.IntRange(0, 3).Draw(t, "postscn") == 0 {
			c.Post = append(c.Post, scenario(t)...)
		}
		if (c.Foreign.Glossary > 0 || c.Foreign.DupRels > 0) && rapid.Bool().Draw(t, "astemplate") {
			// the opened package serves as a template base; the render is extended and saved
			c.Post = append(c.Post, cfg.OpOf(t, rapid.SampledFrom([]string{"tpldoc", "tpldoc", "tpldoc2"}).Draw(t, "tplk")), fix(t, cfg.OpOf(t, rapid.SampledFrom(relKinds).Draw(t, "relk"))))
		}
		return c
	}
	c.Ops = history(t, 1, kit.Scale(12, 36))
	for i, n := 0, rapid.IntRange(0, 2).Draw(t, "nscn"); i < n; i++ {
		c.Ops = append(c.Ops, scenario(t)...)
		c.Ops = append(c.Ops, history(t, 0, 4)...)
	}
	return c
}

// ---- execution -----------------------------------------------------------------------------------------

type runner struct {
	res      *kit.Result
	x        *ops.Exec
	base     *opc.Package // package the document was opened from (nil: built from scratch / replaced since)
	baseTag  string
	baseRels int
	shape    []string
	maxNon   int
	grew     bool
	saves    int
	dead     bool
	w        *ops.C02W                              // widening ops (state that outlives one op)
	baseOf   map[*document.Document]*opc.Package // the opened package each document object descends from (wswap)
	glossary bool                                // the opened package has a glossary document
}

// where names the save being judged; a document that descends from an opened foreign package (the
// opened object itself, reopened copies, documents rendered from it) carries the facts of that package.
func (r *runner) where(s string) string {
	if r.baseTag != "" {
		return s + " opened(" + r.baseTag + ")"
	}
	return s
}

func (r *runner) judge(b []byte, at string) {
	pkg, err := opc.Read(b)
	if err != nil {
		r.res.Count("unjudged:unreadable-zip", 1) // C01.P1
		return
	}
	r.saves++
	sum := Judge(r.res, pkg, r.base, r.where(at))
	if sum.NonStyles > r.maxNon {
		r.maxNon = sum.NonStyles
	}
	if r.base != nil && sum.Rels > r.baseRels {
		r.grew = true
	}
	for k := range sum.RefKinds {
		r.res.Label("ref:" + k)
	}
	if len(sum.StoryParts) > 1 {
		r.res.Label("story-parts>1")
	}
}

// judgeSide saves and judges (R1-R4) the documents that were replaced as the current one during the phase
// (template bases, earlier renders, documents before a reopen): they are valid objects the caller may still
// save, and saving them after later calls is what exposes state shared between documents.
func (r *runner) judgeSide(phase string) {
	side := r.x.Side
	r.x.Side = nil
	keepBase := r.base
	r.base = nil // R5 speaks about the document that descends from the opened package, judged on its own saves
	defer func() { r.base = keepBase }()
	for i, d := range side {
		if d == nil || r.dead {
			continue
		}
		var b []byte
		var err error
		if p, _ := kit.Try(func() { b, err = d.ToBytes() }); p != nil {
			r.res.Count("panic:ToBytes-side", 1)
			continue
		}
		if err != nil {
			r.res.Count("tobytes_errors", 1)
			continue
		}
		r.res.Count("side_documents_judged", 1)
		r.res.Label("side-document-judged")
		r.judge(b, fmt.Sprintf("%s side document %d (saved late)", phase, i))
	}
}

// saveNow serialises the current document and judges the package.
func (r *runner) saveNow(at string) []byte {
	var b []byte
	var err error
	if p, _ := kit.Try(func() { b, err = r.x.Doc.ToBytes() }); p != nil {
		r.res.Count("panic:ToBytes", 1) // C01.P0
		r.dead = true
		return nil
	}
	if err != nil {
		r.res.Count("tobytes_errors", 1)
		return nil
	}
	r.judge(b, at)
	return b
}

func mentionsImagePlaceholder(o ops.Op) bool {
	for _, s := range o.S {
		if strings.Contains(s, "{{#image p}}") {
			return true
		}
	}
	for _, row := range o.Grid {
		for _, s := range row {
			if strings.Contains(s, "{{#image p}}") {
				return true
			}
		}
	}
	return false
}

func (r *runner) runOps(list []ops.Op, phase string) {
	placeholder := false
	for i, op := range list {
		if r.dead {
			return
		}
		at := fmt.Sprintf("%s op %d", phase, i)
		switch op.K {
		case "reopen", "tpldoc", "tpldoc2", "tplstr", "md", "xtplfail", "wtplimgs", "wtplstrimg", "wtplagain":
			// last look at the document object that is about to be replaced
			r.saveNow(at + " (before " + op.K + ")")
			if r.dead {
				return
			}
		}
		if mentionsImagePlaceholder(op) {
			placeholder = true
		}
		docBefore := r.x.Doc
		var err error
		edge := ops.IsC02(op.K)
		wid := ops.IsC02W(op.K)
		name := op.K
		if edge {
			name = op.K + "/" + ops.C02Variant(op)
		}
		if wid {
			name = op.K + "/" + ops.C02WVariant(op)
		}
		r.baseOf[docBefore] = r.base
		if p, _ := kit.Try(func() {
			switch {
			case edge:
				err = r.x.DoC02(op)
			case wid:
				err = r.w.Do(op)
			default:
				err = r.x.Do(op)
			}
		}); p != nil {
			r.res.Count("panic:"+op.K, 1) // a panicking call is C01.P0's finding; the state is undefined afterwards
			r.res.Label("panic")
			r.shape = append(r.shape, op.K+":panic")
			r.dead = true
			return
		}
		e := "ok"
		if err != nil {
			e = "err"
		}
		r.shape = append(r.shape, name+":"+e)
		if edge {
			r.res.Label("edge-call")
			r.res.Label("edge:" + op.K)
			r.res.Count("edge_calls", 1)
			if err != nil {
				r.res.Label("edge-call:returned-error")
				r.res.Label("rejected:" + op.K)
				r.res.Count("edge_calls_returned_error", 1)
			} else {
				r.res.Label("edge-call:accepted")
				r.res.Count("edge_calls_accepted", 1)
			}
			if op.K == "xtplfail" && r.x.Doc != docBefore {
				r.base = nil // the render went through after all (or was repeated with good data): a new document
				r.res.Label("failed-render-then-rendered-again")
			}
		}
		if err != nil && op.K != "reopen" {
			// the call was rejected: the property speaks of EVERY saved package, so the document saved right after a
			// rejected call must be as consistent as any other (a rejected call must not leave half of its effect behind)
			r.res.Count("calls_returned_error", 1)
			r.res.Label("call-returned-error")
			if r.saveNow(at+" (right after "+name+" returned an error)") != nil {
				r.res.Count("packages_judged_right_after_error", 1)
				r.res.Label("saved-right-after-rejected-call")
			}
			if r.dead {
				return
			}
		}
		if wid {
			r.afterWiden(op, err, docBefore)
		}
		if err == nil {
			switch op.K {
			case "cellimg":
				r.res.Label("image-in-table-cell")
			case "footnote", "endnote", "notecfg":
				r.res.Label("notes/settings-added")
			case "listitem", "bullet", "numbered":
				r.res.Label("list-added")
			case "props", "title", "stats":
				r.res.Label("properties-set")
			case "reopen":
				r.res.Label("reopen")
			case "tpldoc", "tpldoc2":
				if r.base != nil && r.glossary {
					r.res.Label("foreign:glossary-package-as-template-base")
				}
				r.base = nil // a rendered document is a new document (C18 judges what it keeps)
				if (placeholder || (op.K == "tpldoc2" && len(op.B) > 0 && op.B[0])) && op.Data != nil && len(op.Data.Imgs) > 0 {
					r.res.Label("tpl-image-placeholder")
				}
				if op.K == "tpldoc2" {
					r.res.Label("two-renders")
					if len(op.B) > 1 && op.B[1] {
						r.res.Label("two-renders-shared-templatedata")
					}
				}
			case "tplstr", "md":
				r.base, r.baseTag = nil, "" // a brand-new document, unrelated to what was opened
				placeholder = false
			case "header", "footer", "headerpn", "footerpn", "fheader", "ffooter":
				r.res.Label("header/footer-added")
			case "image", "imagefile":
				r.res.Label("image-in-body")
			}
		}
		for j, sv := range r.x.Saves {
			r.judge(sv, fmt.Sprintf("%s save %d", at, j))
		}
		r.x.Saves = nil
	}
}

func run(c Case) *kit.Result {
	res := &kit.Result{}
	document.VerifResetGlobals()
	dir, _ := os.MkdirTemp(kit.Scratch, "c02-")
	defer os.RemoveAll(dir)
	r := &runner{res: res, x: ops.NewExec(dir), baseOf: map[*document.Document]*opc.Package{}}
	r.w = ops.NewC02W(r.x)
	r.runOps(c.Ops, "build")
	var b []byte
	if !r.dead {
		b = r.saveNow("build final")
		r.judgeSide("build")
	}
	nonDenseExtended := false
	if c.Foreign != nil && b != nil && !r.dead {
		res.Label("foreign")
		fb, info, err := Transform(b, c.Foreign)
		if err != nil {
			res.Label("foreign:not-transformable")
			res.Count("foreign-skipped", 1)
		} else if fp, ok := selfCheck(res, fb); ok {
			var nd *document.Document
			var oerr error
			if p, _ := kit.Try(func() {
				if fpath := foreignFile(c.Foreign, dir, fb); fpath != "" {
					nd, oerr = document.Open(fpath)
				} else {
					nd, oerr = document.OpenFromMemory(io.NopCloser(bytes.NewReader(fb)))
				}
			}); p != nil || oerr != nil || nd == nil || nd.Body == nil {
				res.Label("foreign:open-failed") // C04/C06 judge opening
				res.Count("foreign-open-failed", 1)
			} else {
				r.x.Doc = nd
				r.x.Paras, r.x.Tables, r.x.Images = nd.Body.GetParagraphs(), nd.Body.GetTables(), nil
				r.base, r.baseTag = fp, info.Tag()
				for _, rs := range fp.Rels {
					r.baseRels += len(rs)
				}
				res.Label("foreign:opened")
				res.Label("foreign:scheme:" + c.Foreign.Scheme)
				if info.HoleAtNext {
					res.Label("foreign:hole-at-len+2")
				}
				if info.CollideFirst {
					res.Label("foreign:len+2-taken")
				}
				if info.StylesID != "rId1" {
					res.Label("foreign:styles-not-rId1")
				}
				if info.StylesID == "" {
					res.Label("foreign:styles-absent")
				}
				if info.NonRid {
					res.Label("foreign:non-rId-ids")
				}
				libraryLike := info.Dense && info.StylesID == "rId1"
				if !libraryLike {
					res.Label("foreign:non-dense")
				}
				if c.Foreign.Hyperlink {
					res.Label("foreign:external-hyperlink")
				}
				if info.HdrRelsPart != "" {
					res.Label("foreign:header-own-rels")
				}
				if len(c.Foreign.Extras) > 0 {
					res.Label("foreign:extra-parts")
				}
				if c.Foreign.Root > 0 {
					res.Label("foreign:root-with-properties")
				}
				if info.RepairedRoot > 0 {
					res.Label("foreign:notes-in-base")
				}
				widenForeignLabels(res, c.Foreign, info)
				widenForeign3Labels(res, info)
				r.shape = append(r.shape, fmt.Sprintf("F[%s %s n=%d hole=%v coll=%v nonrid=%v hl=%v hdr=%v ex=%d root=%d]", c.Foreign.Scheme, info.StylesID, info.N, info.HoleAtNext, info.CollideFirst, info.NonRid,
					c.Foreign.Hyperlink, info.HdrRelsPart != "", len(c.Foreign.Extras), c.Foreign.Root))
				r.shape = append(r.shape, widenShape(c.Foreign, info), widenShape3(info))
				r.glossary = info.GlossaryPart != ""
				r.saveNow("open→save")
				r.runOps(c.Post, "post")
				if !r.dead {
					r.saveNow("post final")
					r.judgeSide("post")
				}
				if r.grew && !libraryLike {
					nonDenseExtended = true
					res.Label("opened-nondense-then-extended")
				}
				if r.grew {
					res.Label("opened-then-extended")
				}
			}
		}
	}
	if r.maxNon >= 3 {
		res.Label("rels>=3")
	}
	res.Nontrivial = r.maxNon >= 3 || nonDenseExtended
	res.Shape = strings.Join(r.shape, "|")
	res.Count("packages_judged", r.saves)
	return res
}

// selfCheck judges the transformed package before it is opened: the foreign input must itself satisfy
// R1-R4, otherwise a failure after the open could not be blamed on the library.
func selfCheck(res *kit.Result, fb []byte) (*opc.Package, bool) {
	fp, err := opc.Read(fb)
	if err != nil {
		res.Count("foreign-selfcheck-unreadable", 1)
		return nil, false
	}
	tmp := &kit.Result{}
	sum := Judge(tmp, fp, nil, "foreign input")
	if len(tmp.Failures) > 0 || sum.Unjudged != "" {
		res.Label("foreign:input-invalid")
		res.Count("foreign-input-invalid", 1)
		if os.Getenv("C02_DEBUG") != "" {
			for _, f := range tmp.Failures {
				fmt.Fprintf(os.Stderr, "SELFCHECK %s: %s\n", f.Clause, f.Detail)
			}
		}
		return nil, false
	}
	return fp, true
}

func TestC02(t *testing.T) {
	kit.Main(t, kit.Spec[Case]{
		ID: "C02", Level: "exploration",
		Rule: "history of generated API calls weighted to relationship-creating calls (images in body and table cells, template image placeholders, headers/footers, lists, notes, note settings, properties) with save / reopen / template-render cycles in between; in half of the cases the saved package is rewritten by independent code into a foreign package (arbitrary, non-contiguous, non-rId relationship ids with a hole at count+2 or count+2 taken, styles relationship not rId1 / last / absent, external hyperlink, extra parts, header with its own relationship part, root with property relationships), opened and extended by a second history; one op in eight is a call with EDGE ARGUMENTS that the API rejects or may reject (nil / empty / undecodable / truncated image data, unknown or wrong declared format, missing / empty / non-image file or a directory, cell position outside the table, nil table, header/footer type strings outside default/first/even, nil configurations, list kinds and levels outside the defined ones, removal of unknown notes, template renders that fail half-way and are optionally repeated with repaired data, nil document properties, Save to a path that cannot be created), labelled by kind and counted by whether it really returned an error; about one op in five is a WIDENING call (valid calls through entry points the base interpreter does not reach: Document.Save to a file path read back and judged, Save+Open of a path, AddCellImageFromFile / AddCellImage with FilePath, Data+Format, AltText+Title+Height, several distinct image placeholders - names that are prefixes of one another or differ in case, in own paragraphs, in one paragraph, in table cells - rendered with pictures given as data / file path / SetImageWithDetails / floating configuration through TemplateEngine or TemplateRenderer.LoadTemplateFromFile, string templates with image placeholders, bursts of 2-13 and rarely 33 or 65 pictures in body and cells, the most recent side document swapped in as the current one so that two live documents are extended alternately (also with one and the same picture), a template engine that is kept and rendered from again after its base document changed, AddFootnoteToRun, removal of existing notes down to none, every enumerated footnote configuration, CreateMultiLevelList / RestartNumbering / deep lists, the single property setters, the image modifiers, all six header/footer definitions through mixed entry points twice), a third of them followed by a save; the foreign rewrite additionally produces ids that straddle the one/two-digit and two/three-digit boundary, exceed 32 and 64 bits, are prefixes of one another or differ in case only, 3-12 and rarely 31/63/97 more external hyperlink relationships, absolute targets, TargetMode=Internal written out, relationship parts with a namespace prefix, a first section (paragraph-level sectPr) that refers to a header only it uses, a notes part with its own relationship part, zip directory entries, and is opened from a file a third of the time; a quarter of the foreign packages has a glossary document (word/glossary/document.xml with its own relationship part and styles/settings/fontTable parts, named from the main document), a quarter has a picture and/or a header/footer part that is the target of two relationships of the same type with the later use referring to the second one, and half of those packages serve as a template base (LoadTemplateFromDocument + render) in the second history; the current document is saved and judged right after EVERY call that returned an error; every package saved on the way is judged, and the documents that were replaced as the current one (template bases, first of two renders, documents before a reopen) are saved and judged at the end of the phase. non-trivial = some judged package has >=3 relationships besides styles, or the document was opened with non-dense ids and a later save has more relationships than the opened package; distinct = distinct sequence of (op kind, outcome) plus the facts of the foreign rewrite",
		Gen:  genCase, Run: run, Findings: findings, Fixed: fixedCases,
		Assumptions: []string{
			"relationship parts, targets and sources are read by the harness's own OPC reader; references are the attributes in the officeDocument relationships namespace found by an encoding/xml token scan of the main document and of the header/footer/notes parts it names",
			"the foreign package is derived from a library-produced one by textual rewriting (ids, references, extra parts); it is itself checked against R1-R4 before it is opened, and discarded (counted) if it does not pass",
			"a package that is ill-formed or has no unique main part is left to C01; a call that panics ends the history (C01.P0)",
			"whether an edge-argument call is rejected or accepted is not judged (the statement is silent on it): only the packages saved afterwards are, by the same R1-R5 as every other package",
		},
		MustSee: map[string]float64{"foreign:hole-at-len+2": 0.03, "foreign:len+2-taken": 0.05, "foreign:styles-not-rId1": 0.1, "image-in-table-cell": 0.15, "notes/settings-added": 0.3,
			"opened-nondense-then-extended": 0.1, "tpl-image-placeholder": 0.03, "two-renders-shared-templatedata": 0.05, "side-document-judged": 0.3, "reopen": 0.3, "foreign:non-rId-ids": 0.05, "foreign:external-hyperlink": 0.05,
			"edge-call:returned-error": 0.25, "edge-call:accepted": 0.25, "saved-right-after-rejected-call": 0.3, "edge:ximage": 0.15, "edge:xcellimg": 0.08, "edge:xtplfail": 0.08,
			"rejected:ximagefile": 0.05, "edge:xhf": 0.05,
			// widening
			"saved-to-path": 0.2, "reopened-from-path": 0.05, "two-documents-alternately": 0.03, "tpl-several-placeholders": 0.05, "tpl-through-TemplateRenderer-file": 0.02, "tpl-string-template-with-image": 0.02,
			"kept-engine-rendered-later": 0.005, "count>=9": 0.03, "cell-image:from-file": 0.01, "cell-image:config-filepath": 0.01, "header/footer-defined-twice": 0.02, "note:footnote-to-run": 0.005,
			"foreign:rels>=9": 0.1, "foreign:ids-straddle-digit-boundary": 0.05, "foreign:absolute-targets": 0.05, "foreign:prefixed-rels-part": 0.04, "foreign:explicit-TargetMode-Internal": 0.04,
			"foreign:first-section-with-references": 0.04, "foreign:notes-own-rels": 0.01, "foreign:opened-from-file": 0.1, "foreign:zip-directory-entries": 0.02,
			// round 5
			"foreign:glossary-document": 0.08, "foreign:glossary-package-as-template-base": 0.03, "foreign:two-relationships-one-target": 0.05, "foreign:second-of-two-relationships-referenced": 0.05},
	})
}

package c18

// Scanner for the documented placeholder syntax over rune slices (own code, no regexp shared with the library):
//   {{name}}            variable / item field, name = [A-Za-z0-9_]+
//   {{#each name}}      start marker of a row loop      {{/each}}  end marker
//   {{#image name}}     image placeholder
// Matches are leftmost and non-overlapping, as a reader of the documentation would find them from left to right.

import "fmt"

var sprintf = fmt.Sprintf

func quote(s string) string { return fmt.Sprintf("%q", s) }

type span struct {
	s, e int // rune offsets [s,e)
	name string
}

func isWord(r rune) bool {
	return r == '_' || (r >= '0' && r <= '9') || (r >= 'a' && r <= 'z') || (r >= 'A' && r <= 'Z')
}

func isSpace(r rune) bool { return r == ' ' || r == '\t' || r == '\n' || r == '\r' || r == '\f' }

func hasAt(t []rune, i int, lit string) bool {
	l := []rune(lit)
	if i < 0 || i+len(l) > len(t) {
		return false
	}
	for k, r := range l {
		if t[i+k] != r {
			return false
		}
	}
	return true
}

func scanVars(t []rune) []span {
	var out []span
	for i := 0; i < len(t); {
		if hasAt(t, i, "{{") {
			j := i + 2
			for j < len(t) && isWord(t[j]) {
				j++
			}
			if j > i+2 && hasAt(t, j, "}}") {
				out = append(out, span{i, j + 2, string(t[i+2 : j])})
				i = j + 2
				continue
			}
		}
		i++
	}
	return out
}

// scanDirective finds {{#kw<spaces>name}}.
func scanDirective(t []rune, kw string) []span {
	var out []span
	open := "{{#" + kw
	for i := 0; i < len(t); {
		if hasAt(t, i, open) {
			j := i + len([]rune(open))
			k := j
			for k < len(t) && isSpace(t[k]) {
				k++
			}
			n := k
			for n < len(t) && isWord(t[n]) {
				n++
			}
			if k > j && n > k && hasAt(t, n, "}}") {
				out = append(out, span{i, n + 2, string(t[k:n])})
				i = n + 2
				continue
			}
		}
		i++
	}
	return out
}

func scanLiteral(t []rune, lit string) []span {
	var out []span
	n := len([]rune(lit))
	for i := 0; i < len(t); {
		if hasAt(t, i, lit) {
			out = append(out, span{i, i + n, ""})
			i += n
			continue
		}
		i++
	}
	return out
}

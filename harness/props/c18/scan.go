package c18

// Scanner for the documented placeholder syntax over rune slices (own code, no regexp shared with the library):
//   {{name}}            variable / item field, name = [A-Za-z0-9_]+
//   {{#each name}}      start marker of a row loop      {{/each}}  end marker
//   {{#image name}}     image placeholder
// Matches are leftmost and non-overlapping, as a reader of the documentation would find them from left to right.
//
// The documentation writes every directive with exactly ONE blank (U+0020) between the keyword and the name. A spelling
// with another amount/kind of white space there ("{{#each  rows}}", "{{#each\trows}}") is not documented; the scanner
// still reports it, marked lenient, and the oracle accepts two readings of it (see ref.go): processed completely like the
// documented spelling, or left completely alone as the literal text it is by the documentation. Anything else around a
// name ("{{ name }}", "{{#each rows }}", "{{ /each}}", "{{#Each rows}}") is not reported at all: literal text.

import "fmt"

var sprintf = fmt.Sprintf

func quote(s string) string { return fmt.Sprintf("%q", s) }

type span struct {
	s, e    int // rune offsets [s,e)
	name    string
	lenient bool // directive spelled with white space other than the one documented blank
}

func isWord(r rune) bool {
	return r == '_' || (r >= '0' && r <= '9') || (r >= 'a' && r <= 'z') || (r >= 'A' && r <= 'Z')
}

func isSpace(r rune) bool { return r == ' ' || r == '\t' || r == '\n' || r == '\r' || r == '\f' }

func hasAt(t []rune, i int, lit string) bool {
	l := []rune(lit)
	if i < 0 || i+len(l) > len(t) {
		return false
	}
	for k, r := range l {
		if t[i+k] != r {
			return false
		}
	}
	return true
}

func scanVars(t []rune) []span {
	var out []span
	for i := 0; i < len(t); {
		if hasAt(t, i, "{{") {
			j := i + 2
			for j < len(t) && isWord(t[j]) {
				j++
			}
			if j > i+2 && hasAt(t, j, "}}") {
				out = append(out, span{s: i, e: j + 2, name: string(t[i+2 : j])})
				i = j + 2
				continue
			}
		}
		i++
	}
	return out
}

// scanDirective finds {{#kw<spaces>name}}; lenient is set unless <spaces> is the one documented blank.
func scanDirective(t []rune, kw string) []span {
	var out []span
	open := "{{#" + kw
	for i := 0; i < len(t); {
		if hasAt(t, i, open) {
			j := i + len([]rune(open))
			k := j
			for k < len(t) && isSpace(t[k]) {
				k++
			}
			n := k
			for n < len(t) && isWord(t[n]) {
				n++
			}
			if k > j && n > k && hasAt(t, n, "}}") {
				out = append(out, span{s: i, e: n + 2, name: string(t[k:n]), lenient: !(k == j+1 && t[j] == ' ')})
				i = n + 2
				continue
			}
		}
		i++
	}
	return out
}

func scanLiteral(t []rune, lit string) []span {
	var out []span
	n := len([]rune(lit))
	for i := 0; i < len(t); {
		if hasAt(t, i, lit) {
			out = append(out, span{s: i, e: i + n})
			i += n
			continue
		}
		i++
	}
	return out
}

// condSpan is a conditional block {{#if name}}body[{{else}}other]{{/if}} (the first {{/if}} after the opening marker ends
// it, the first {{else}} inside splits it). The property does not speak about conditionals; the oracle only uses these
// spans to know which part of a paragraph's text belongs to a directive (see ref.go).
type condSpan struct {
	span
	bodyS, bodyE int // [bodyS,bodyE): text kept when the condition holds
	elseS, elseE int // [elseS,elseE): text kept otherwise (-1,-1 without {{else}})
}

func scanConds(t []rune) []condSpan {
	var out []condSpan
	from := 0
	for _, op := range scanDirective(t, "if") {
		if op.s < from {
			continue
		}
		end := -1
		for k := op.e; k < len(t); k++ {
			if hasAt(t, k, "{{/if}}") {
				end = k
				break
			}
		}
		if end < 0 {
			break
		}
		c := condSpan{span: span{s: op.s, e: end + len("{{/if}}"), name: op.name, lenient: op.lenient}, bodyS: op.e, bodyE: end, elseS: -1, elseE: -1}
		for k := op.e; k+len("{{else}}") <= end; k++ {
			if hasAt(t, k, "{{else}}") {
				c.bodyE, c.elseS, c.elseE = k, k+len("{{else}}"), end
				break
			}
		}
		out = append(out, c)
		from = c.e
	}
	return out
}

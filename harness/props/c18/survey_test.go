package c18

import (
	"fmt"
	"os"
	"regexp"
	"sort"
	"testing"

	"pgregory.net/rapid"

	"wzverif/internal/kit"
)

// TestSurvey is a development aid (C18_SURVEY=1): it runs the generator and prints every distinct
// (clause, input-class tag, attribution) with a count and one example instead of stopping at the first failure.
func TestSurvey(t *testing.T) {
	if os.Getenv("C18_SURVEY") == "" {
		t.Skip("set C18_SURVEY=1")
	}
	open := kit.OpenFindings("C18")
	switch os.Getenv("C18_SURVEY") {
	case "raw":
		open = map[string]bool{}
	case "all":
		for _, kf := range findings {
			open[kf.ID] = true
		}
	}
	type ent struct {
		n  int
		ex string
		c  Case
	}
	seen := map[string]*ent{}
	tagRe := regexp.MustCompile(`^\{[^}]*\}`)
	numRe := regexp.MustCompile(`(sup|unsup|fmts)=\d+`)
	n := 0
	rapid.Check(t, func(rt *rapid.T) {
		c := genCase(rt)
		res := run(c)
		n++
		for _, f := range res.Failures {
			att := "UNATTRIBUTED"
			for _, kf := range findings {
				if open[kf.ID] && len(f.Clause) >= len(kf.Clause) && f.Clause[:len(kf.Clause)] == kf.Clause && kf.Trigger(c, f) {
					att = kf.ID
					break
				}
			}
			tag := tagRe.FindString(f.Detail)
			if os.Getenv("C18_SURVEY_COARSE") != "" {
				tag = numRe.ReplaceAllString(tag, "$1=N")
			}
			key := att + " " + f.Clause + " " + tag
			e := seen[key]
			if e == nil {
				e = &ent{ex: f.Detail, c: c}
				seen[key] = e
			}
			e.n++
		}
	})
	keys := make([]string, 0, len(seen))
	for k := range seen {
		keys = append(keys, k)
	}
	sort.Strings(keys)
	fmt.Printf("SURVEY %d cases, %d distinct failure classes\n", n, len(keys))
	for _, k := range keys {
		e := seen[k]
		ex := e.ex
		if len(ex) > 700 {
			ex = ex[:700]
		}
		fmt.Printf("%6d  %s\n        e.g. %s\n", e.n, k, ex)
	}
}

package c18

import (
	"archive/zip"
	"bytes"
	"fmt"
	"io"
	"os"
	"path/filepath"
	"sort"
	"strings"
	"testing"

	"github.com/zerx-lab/wordZero/pkg/document"

	"wzverif/internal/gen"
	"wzverif/internal/kit"
	"wzverif/internal/opc"
	"wzverif/internal/ops"
)

func TestMain(m *testing.M) {
	document.SetGlobalLevel(document.LogLevelSilent)
	kit.TestMain(m, 1650, 30000)
}

func run(c Case) *kit.Result {
	res := &kit.Result{}
	document.VerifResetGlobals()

	// base document through the API
	var base *document.Document
	var berr error
	if p, st := kit.Try(func() { base, berr = build(&c) }); p != nil || berr != nil {
		// the builder only makes documented calls; a refusal here is not this property's business
		res.Count("build_error", 1)
		res.Label("build:error")
		res.Shape = fmt.Sprintf("build-error %v %v %s", p, berr, st)
		return res
	}

	res.Eval("C18.W0")
	var b1, b2, ob []byte
	var out *document.Document
	var err error
	where := ""
	p, st := kit.Try(func() {
		td := c.templateData()
		if c.Entry >= 1 {
			where = "ToBytes(base)"
			var b0 []byte
			if b0, err = base.ToBytes(); err != nil {
				return
			}
			if c.Entry == 2 {
				// the template file as another producer (Word) writes it: document properties are reachable from the package relationships
				b0 = withPackageRels(b0)
			}
			// ... and in other legal spellings of the same package (absolute relationship targets, media numbered from 1)
			b0 = foreignize(b0, c.Foreign)
			path := filepath.Join(kit.Scratch, fmt.Sprintf("c18-%d.docx", os.Getpid()))
			if werr := os.WriteFile(path, b0, 0o644); werr != nil {
				err = nil
				where = "scratch"
				return
			}
			defer os.Remove(path)
			tr := document.NewTemplateRenderer()
			tr.SetLogging(false)
			where = "LoadTemplateFromFile"
			var tpl *document.Template
			if tpl, err = tr.LoadTemplateFromFile("t", path); err != nil {
				return
			}
			base = tpl.BaseDoc // the base document of this entry point is what the library opened
			where = "ToBytes(base)"
			if b1, err = base.ToBytes(); err != nil {
				return
			}
			if c.Prior == 2 {
				where = "second template"
				path2 := filepath.Join(kit.Scratch, fmt.Sprintf("c18-%d-u.docx", os.Getpid()))
				var ub []byte
				if ub, err = otherTemplate().ToBytes(); err != nil {
					return
				}
				if werr := os.WriteFile(path2, ub, 0o644); werr != nil {
					err = nil
					where = "scratch"
					return
				}
				defer os.Remove(path2)
				if _, err = tr.LoadTemplateFromFile("u", path2); err != nil {
					return
				}
			}
			if c.Prior >= 1 {
				where = "RenderTemplate (earlier rendering, other data)"
				if _, err = tr.RenderTemplate("t", c.priorData()); err != nil && c.Prior != 3 {
					return
				}
				err = nil
			}
			if c.Prior == 2 {
				where = "RenderTemplate (second template)"
				if _, err = tr.RenderTemplate("u", td); err != nil {
					return
				}
			}
			where = "RenderTemplate"
			if out, err = tr.RenderTemplate("t", td); err != nil {
				return
			}
		} else {
			where = "ToBytes(base)"
			if b1, err = base.ToBytes(); err != nil {
				return
			}
			eng := document.NewTemplateEngine()
			where = "LoadTemplateFromDocument"
			if _, err = eng.LoadTemplateFromDocument("t", base); err != nil {
				return
			}
			if c.Prior == 2 {
				where = "second template"
				if _, err = eng.LoadTemplateFromDocument("u", otherTemplate()); err != nil {
					return
				}
			}
			if c.Prior >= 1 {
				where = "RenderTemplateToDocument (earlier rendering, other data)"
				if _, err = eng.RenderTemplateToDocument("t", c.priorData()); err != nil && c.Prior != 3 {
					return
				}
				err = nil
			}
			if c.Prior == 2 {
				where = "RenderTemplateToDocument (second template)"
				if _, err = eng.RenderTemplateToDocument("u", td); err != nil {
					return
				}
			}
			where = "RenderTemplateToDocument"
			if out, err = eng.RenderTemplateToDocument("t", td); err != nil {
				return
			}
		}
		where = "ToBytes(rendered)"
		if ob, err = out.ToBytes(); err != nil {
			return
		}
		where = "ToBytes(base) after rendering"
		b2, err = base.ToBytes()
	})
	if where == "scratch" {
		res.Count("scratch_error", 1)
		return res
	}
	if p != nil {
		res.Fail("C18.W0", "{entry=%d;where=%s} panic in %s: %v [%s]", c.Entry, where, where, p, st)
		describe(res, &c, nil)
		return res
	}
	if err != nil {
		res.Fail("C18.W0", "{entry=%d;where=%s} %s failed: %v", c.Entry, where, where, err)
		describe(res, &c, nil)
		return res
	}

	bv, err1 := viewOf(b1)
	ov, err2 := viewOf(ob)
	if err1 != nil || err2 != nil {
		res.Fail("C18.W0", "{entry=%d;where=view} saved package unreadable: base %v, rendered %v", c.Entry, err1, err2)
		describe(res, &c, nil)
		return res
	}
	j := &judge{res: res, c: &c, vars: map[string]string{}, base: bv, out: ov}
	for k, v := range c.Data.Vars {
		j.vars[k] = v.text()
	}
	j.walkBlocks("body", "body", bv.blocks, ov.blocks, j.vars, false)
	hs, hu := 0, 0
	j.checkParts(&hs, &hu)
	j.nSupplied += hs
	j.nUnsupplied += hu
	j.nPlaceholders += hs + hu

	// W7 the base document is untouched
	res.Eval("C18.W7")
	if bytes.Equal(b1, b2) {
		// the very same bytes: nothing to compare part by part
	} else if pk2, err := opc.Read(b2); err != nil {
		res.Fail("C18.W7", "base document no longer saves to a readable package after rendering: %v", err)
	} else if d := samePackage(bv.pkg, pk2); d != "" {
		res.Fail("C18.W7", "the base document changed by rendering: %s", d)
	}
	describe(res, &c, j)
	res.Count("hf_placeholders", hs+hu)
	return res
}

// priorData: the data of an earlier rendering of the same template - every name of every pool supplied with a value of
// its own, every list with two complete items, every condition true, every image with another picture.
func (c *Case) priorData() *document.TemplateData {
	td := document.NewTemplateData()
	for _, n := range append(append([]string{}, varNames...), hfNames...) {
		td.SetVariable(n, "earlier-"+n)
	}
	for _, l := range listNames {
		var items []interface{}
		for i := 0; i < 2; i++ {
			it := map[string]interface{}{}
			for _, f := range fieldNames {
				it[f] = fmt.Sprintf("earlier-%s%d", f, i)
			}
			items = append(items, it)
		}
		td.SetList(l, items)
	}
	for i, n := range imgNames {
		if c.Prior == 3 {
			td.SetImageFromData(n, []byte("this is no picture"), nil)
			continue
		}
		td.SetImageFromData(n, imgBytes(gen.Img{Fmt: "png", W: 2 + i, H: 2, Pat: 4242 + i}), nil)
	}
	for _, n := range condNames {
		td.SetCondition(n, true)
	}
	return td
}

// otherTemplate: a second, unrelated template document for the same engine (same names, other content).
func otherTemplate() *document.Document {
	d := document.New()
	d.AddParagraph("Other template: {{name}} / {{city}} / {{qty}}")
	d.AddParagraph("{{#image logo}}")
	if t, err := d.AddTable(&document.TableConfig{Rows: 2, Cols: 2, Width: 2400}); err == nil {
		t.SetCellText(0, 0, "{{code}}")
		t.SetCellText(1, 0, "{{#each rows}}{{item}}")
		t.SetCellText(1, 1, "{{price}}{{/each}}")
	}
	d.AddHeader(document.HeaderFooterTypeDefault, "other {{doc_no}} {{name}}")
	d.AddFooter(document.HeaderFooterTypeDefault, "other {{rev}}")
	return d
}

// withPackageRels rewrites _rels/.rels of a saved package so that docProps/core.xml and docProps/app.xml (when present)
// are targets of package relationships, as in files written by Word.
func withPackageRels(b []byte) []byte {
	zr, err := zip.NewReader(bytes.NewReader(b), int64(len(b)))
	if err != nil {
		return b
	}
	has := map[string]bool{}
	for _, f := range zr.File {
		has[f.Name] = true
	}
	var extra string
	if has["docProps/core.xml"] {
		extra += `<Relationship Id="rIdCore" Type="http://schemas.openxmlformats.org/package/2006/relationships/metadata/core-properties" Target="docProps/core.xml"/>`
	}
	if has["docProps/app.xml"] {
		extra += `<Relationship Id="rIdApp" Type="http://schemas.openxmlformats.org/officeDocument/2006/relationships/extended-properties" Target="docProps/app.xml"/>`
	}
	if extra == "" {
		return b
	}
	var buf bytes.Buffer
	zw := zip.NewWriter(&buf)
	for _, f := range zr.File {
		rc, err := f.Open()
		if err != nil {
			return b
		}
		data, err := io.ReadAll(rc)
		rc.Close()
		if err != nil {
			return b
		}
		if f.Name == "_rels/.rels" {
			data = []byte(strings.Replace(string(data), "</Relationships>", extra+"</Relationships>", 1))
		}
		w, err := zw.Create(f.Name)
		if err != nil {
			return b
		}
		w.Write(data)
	}
	if zw.Close() != nil {
		return b
	}
	return buf.Bytes()
}

// ---------------------------------------------------------------------------------------------
// labels, non-triviality, shape (from the case and from what the reference saw in the base)

type caseStats struct {
	paras, tables, nested, loopTables, mergedTables, imgParas, cellImgParas, hfs int
	nontext                                                                      map[string]int
	maxRuns                                                                      int
	setKinds                                                                     map[string]bool
	splitAcrossRuns, splitAcrossFormats, braceAdjacent                           int
	loopSplit                                                                    bool
	lookalikes                                                                   int
	loopFormats, loopRuns                                                        int             // max over loop-row paragraphs: distinct formats / text runs
	loopNontext                                                                  map[string]bool // non-text run kinds standing in loop-row paragraphs
	loopMarkerSplit                                                              bool            // a loop marker ({{#each x}} / {{/each}}) cut across runs
	valueClasses                                                                 map[string]bool
	maxPlaceholders                                                              int  // max over paragraphs: placeholders in one paragraph
	bigTable                                                                     bool // a table with >= 10 rows or columns
}

// paraSplit counts, in the concatenated text of the runs, placeholders whose characters sit in >= 2 runs / formats.
func paraSplit(p *Para, cs *caseStats) {
	var text []rune
	var owner []int
	nt := 0
	for i, r := range p.Runs {
		if r.K != "t" {
			cs.nontext[r.K]++
			continue
		}
		nt++
		for _, ch := range r.T {
			text = append(text, ch)
			owner = append(owner, i)
		}
	}
	if nt > cs.maxRuns {
		cs.maxRuns = nt
	}
	var spans []span
	spans = append(spans, scanVars(text)...)
	spans = append(spans, scanDirective(text, "each")...)
	spans = append(spans, scanDirective(text, "image")...)
	for _, sp := range scanVars(text) {
		if (sp.s > 0 && text[sp.s-1] == '{') || (sp.e < len(text) && text[sp.e] == '}') {
			cs.braceAdjacent++
		}
	}
	if len(spans) > cs.maxPlaceholders {
		cs.maxPlaceholders = len(spans)
	}
	for _, sp := range spans {
		runs := map[int]bool{}
		fm := map[string]bool{}
		for k := sp.s; k < sp.e; k++ {
			runs[owner[k]] = true
			fm[fmt.Sprintf("%+v", p.Runs[owner[k]].F)] = true
		}
		if len(runs) > 1 {
			cs.splitAcrossRuns++
		}
		if len(fm) > 1 {
			cs.splitAcrossFormats++
		}
	}
	for _, s := range p.Sets {
		cs.setKinds[s.K] = true
	}
	cs.lookalikes += countLookalikes(text)
}

// countLookalikes counts {{...}} groups that are no placeholder/directive by the documented syntax but would be one
// with blanks dropped and letters lower-cased.
func countLookalikes(text []rune) int {
	n := 0
	for i := 0; i+1 < len(text); i++ {
		if !hasAt(text, i, "{{") {
			continue
		}
		e := -1
		for k := i + 2; k+1 < len(text) && k < i+40; k++ {
			if hasAt(text, k, "}}") {
				e = k + 2
				break
			}
			if hasAt(text, k, "{{") {
				break
			}
		}
		if e < 0 {
			continue
		}
		grp := text[i:e]
		if len(scanVars(grp))+len(scanDirective(grp, "each"))+len(scanDirective(grp, "image"))+len(scanLiteral(grp, "{{/each}}")) > 0 {
			continue
		}
		var norm []rune
		for _, r := range strings.ToLower(string(grp)) {
			if !isSpace(r) {
				norm = append(norm, r)
			}
		}
		ns := string(norm)
		for _, kw := range []string{"{{#each", "{{#image"} {
			if strings.HasPrefix(ns, kw) && len(ns) > len(kw)+2 {
				ns = kw + " " + ns[len(kw):]
			}
		}
		g := []rune(ns)
		if len(scanVars(g))+len(scanDirective(g, "each"))+len(scanDirective(g, "image"))+len(scanLiteral(g, "{{/each}}")) > 0 {
			n++
		}
	}
	return n
}

// loopParaStats records how rich a loop-row paragraph is.
func loopParaStats(p *Para, cs *caseStats) {
	fm := map[string]bool{}
	nt := 0
	var text []rune
	var owner []int
	for i, r := range p.Runs {
		if r.K != "t" {
			cs.loopNontext[r.K] = true
			continue
		}
		nt++
		fm[fmt.Sprintf("%+v", r.F)] = true
		for _, ch := range r.T {
			text = append(text, ch)
			owner = append(owner, i)
		}
	}
	if len(fm) > cs.loopFormats {
		cs.loopFormats = len(fm)
	}
	if nt > cs.loopRuns {
		cs.loopRuns = nt
	}
	for _, sp := range append(scanDirective(text, "each"), scanLiteral(text, "{{/each}}")...) {
		if owner[sp.s] != owner[sp.e-1] {
			cs.loopMarkerSplit = true
		}
	}
}

func tableStats(t *Table, cs *caseStats, depth int) {
	if depth > 0 {
		cs.nested++
	} else {
		cs.tables++
	}
	if t.LoopRow >= 0 {
		cs.loopTables++
	}
	if t.Rows >= 10 || t.Cols >= 10 {
		cs.bigTable = true
	}
	if len(t.MergeH)+len(t.MergeV) > 0 {
		cs.mergedTables++
	}
	for r := range t.Cells {
		for c := range t.Cells[r] {
			cell := &t.Cells[r][c]
			for i := range cell.Paras {
				p := &cell.Paras[i]
				before := cs.splitAcrossRuns
				paraSplit(p, cs)
				if r == t.LoopRow && cs.splitAcrossRuns > before {
					cs.loopSplit = true
				}
				if r == t.LoopRow {
					loopParaStats(p, cs)
				}
				if strings.Contains(paraText(p), "{{#image") {
					cs.cellImgParas++
				}
			}
			if cell.Nested != nil {
				tableStats(cell.Nested, cs, depth+1)
			}
		}
	}
}

func paraText(p *Para) string {
	var b strings.Builder
	for _, r := range p.Runs {
		if r.K == "t" {
			b.WriteString(r.T)
		}
	}
	return b.String()
}

func describe(res *kit.Result, c *Case, j *judge) {
	cs := &caseStats{nontext: map[string]int{}, setKinds: map[string]bool{}, valueClasses: map[string]bool{}, loopNontext: map[string]bool{}}
	var sk strings.Builder
	for _, b := range c.Blocks {
		switch {
		case b.P != nil:
			cs.paras++
			paraSplit(b.P, cs)
			img := strings.Contains(paraText(b.P), "{{#image")
			if img {
				cs.imgParas++
				sk.WriteString("I")
			} else {
				sk.WriteString("p")
			}
			sk.WriteString(fmt.Sprintf("%d", len(b.P.Runs)))
			for _, r := range b.P.Runs {
				if r.K != "t" {
					sk.WriteString(r.K[:1])
				}
			}
			for _, s := range b.P.Sets {
				sk.WriteString("," + s.K[:2])
			}
		case b.T != nil:
			tableStats(b.T, cs, 0)
			sk.WriteString(fmt.Sprintf("T%dx%d", b.T.Rows, b.T.Cols))
			if b.T.LoopRow >= 0 {
				sk.WriteString(fmt.Sprintf("L%d", b.T.LoopRow))
			}
			if len(b.T.MergeH) > 0 {
				sk.WriteString("mh")
			}
			if len(b.T.MergeV) > 0 {
				sk.WriteString("mv")
			}
		}
		sk.WriteString(" ")
	}
	cs.hfs = len(c.HFs)
	for _, h := range c.HFs {
		sk.WriteString(fmt.Sprintf("H%v%d%d", h.Footer, h.Type, h.PageNum))
	}
	lab := func(on bool, l string) {
		if on {
			res.Label(l)
		}
	}
	res.Label(fmt.Sprintf("entry:%d", c.Entry))
	lab(cs.tables > 0, "doc:table")
	lab(cs.nested > 0, "doc:nested-table")
	lab(cs.loopTables > 0, "doc:row-loop")
	lab(cs.mergedTables > 0, "doc:merged-table")
	lab(cs.hfs > 0, "doc:header-footer")
	lab(c.Page != nil, "doc:section-settings")
	lab(len(c.Props) > 0, "doc:properties")
	lab(c.CustomStyle != "", "doc:custom-style")
	lab(cs.imgParas > 0, "doc:image-placeholder")
	lab(cs.cellImgParas > 0, "doc:image-placeholder-in-cell")
	for k := range cs.nontext {
		res.Label("nontext:" + k)
	}
	for k := range cs.setKinds {
		res.Label("pset:" + k)
	}
	lab(cs.maxRuns >= 4, "para:4+runs")
	lab(cs.maxRuns > 10, "para:11+runs")
	lab(cs.maxPlaceholders > 10, "para:11+placeholders")
	lab(cs.nontext["pic"] >= 11, "doc:11+pictures")
	lab(cs.nontext["pic"] >= 11 && c.Entry >= 1 && cs.imgParas+cs.cellImgParas > 0, "doc:11+pictures+image-placeholder+file")
	lab(len(c.Blocks) >= 10, "doc:10+blocks")
	lab(cs.hfs >= 4, "doc:4+headers-footers")
	lab(cs.bigTable, "doc:table-10+rows-or-cols")
	lab(c.Data.TypedItems, "list:typed-item-fields")
	if c.Foreign.any() {
		res.Label("file:foreign-spelling")
		lab(c.Foreign.AbsHF || c.Foreign.AbsAll, "file:absolute-header-footer-targets")
		lab((c.Foreign.AbsHF || c.Foreign.AbsAll) && cs.hfs > 0, "file:absolute-header-footer-targets+hf")
		lab(c.Foreign.AbsAll, "file:absolute-main-part-targets")
		lab(c.Foreign.AbsPkg, "file:absolute-package-targets")
		lab(c.Foreign.Media1, "file:media-numbered-from-1")
		lab(c.Foreign.RelIDs != 0, "file:other-relationship-ids")
		lab(c.Foreign.JpgCT, "file:jpeg-declared-as-jpg")
		lab(c.Foreign.JpgCT && j != nil && j.nJpegInserted > 0, "file:jpeg-declared-as-jpg+jpeg-picture-inserted")
	}
	res.Label(fmt.Sprintf("prior:%d", c.Prior))
	lab(cs.splitAcrossRuns > 0, "ph:split-across-runs")
	lab(cs.splitAcrossFormats > 0, "ph:split-across-formats")
	lab(cs.loopSplit, "ph:split-in-loop-row")
	lab(cs.braceAdjacent > 0, "ph:next-to-literal-brace")
	lab(cs.lookalikes > 0, "spelling:look-alike-literal")
	lab(cs.loopFormats >= 2, "looprow:2+formats-in-a-paragraph")
	lab(cs.loopRuns >= 3, "looprow:3+runs-in-a-paragraph")
	lab(cs.loopMarkerSplit, "looprow:marker-split-across-runs")
	for k := range cs.loopNontext {
		res.Label("looprow:nontext-" + k)
	}
	hasList := false
	for _, b := range c.Blocks {
		if b.P != nil && b.P.List {
			hasList = true
		}
	}
	lab(hasList, "doc:list-item")
	for _, l := range c.Data.Lists {
		if len(l) >= 9 {
			res.Label("list:9+items")
			if len(l) > 64 {
				res.Label("list:65+items")
			}
			continue
		}
		res.Label(fmt.Sprintf("list:%d-items", len(l)))
	}
	var dv []string
	for _, n := range append(append([]string{}, varNames...), hfNames...) {
		v, ok := c.Data.Vars[n]
		switch {
		case !ok:
			dv = append(dv, "-")
		case v.I:
			dv = append(dv, "i")
			res.Label("value:int")
		case v.K != "":
			dv = append(dv, "t")
			res.Label("value:typed-" + v.K)
		case strings.ContainsAny(v.S, "$\\%"):
			dv = append(dv, "d")
			res.Label("value:subst-meta")
			if strings.Contains(v.S, "$") {
				res.Label("value:dollar")
				for _, h := range c.HFs {
					if strings.Contains(h.Text, "{{"+n+"}}") {
						res.Label("value:dollar-in-header-footer")
					}
				}
			}
		case v.S == "":
			dv = append(dv, "e")
			res.Label("value:empty")
		case strings.ContainsAny(v.S, "<>&\"'"):
			dv = append(dv, "x")
			res.Label("value:xml-meta")
		case !gen.XMLExpressible(v.S):
			dv = append(dv, "c")
			res.Label("value:control")
		case strings.ContainsAny(v.S, "{}"):
			dv = append(dv, "b")
			res.Label("value:braces")
		default:
			dv = append(dv, "s")
		}
	}
	if j != nil {
		lab(j.nSupplied > 0, "ph:supplied")
		lab(j.nUnsupplied > 0, "ph:unsupplied")
		lab(j.nSplitFmt > 0, "ph:split-across-formats-seen-in-base")
		lab(j.nLoopRows > 0 && j.nLoopItems >= 2, "loop:2+items")
		lab(j.nLoopRows > 0 && j.nLoopItems == 0, "loop:0-items")
		lab(j.nImgWith > 0, "image:with-data")
		lab(j.nImgWithout > 0, "image:without-data")
		lab(j.ambiguous > 0, "oracle:ambiguous-paragraph-skipped")
		lab(j.nLenientLoops > 0, "spelling:loop-marker-undocumented-blanks")
		lab(j.nLenientLoopsItems > 0, "spelling:loop-marker-undocumented-blanks+items")
		lab(j.nLenientImgs > 0, "spelling:image-undocumented-blanks")
		lab(j.nEdgeBlankValues > 0, "value:edge-blanks-substituted")
		lab(j.nJpegInserted > 0, "image:jpeg-inserted")
		lab(j.nConds > 0, "doc:conditional-block")
		lab(j.nCondHit > 0, "reading:conditional-processed")
		lab(j.nConds > j.nCondHit, "reading:conditional-left-alone")
		lab(j.nLenientProcessed > 0, "reading:undocumented-spelling-processed")
		lab(j.nLenientUntouched > 0, "reading:undocumented-spelling-untouched")
		res.Count("placeholders_seen", j.nPlaceholders)
		res.Count("placeholders_supplied", j.nSupplied)
		res.Count("placeholders_unsupplied", j.nUnsupplied)
		res.Count("paragraphs_compared", j.nParas)
		res.Count("nontext_runs", j.nNonText)
		res.Nontrivial = cs.splitAcrossFormats > 0 && j.nSplitFmt > 0 && j.nUnsupplied > 0 && j.nSupplied > 0 && (cs.tables > 0 || cs.hfs > 0)
	}
	keys := make([]string, 0, len(c.Data.Lists))
	for k, l := range c.Data.Lists {
		keys = append(keys, fmt.Sprintf("%s%d", k[:1], len(l)))
	}
	sort.Strings(keys)
	res.Shape = sk.String() + "#" + strings.Join(dv, "") + "#" + strings.Join(keys, "") + fmt.Sprintf("#e%d", c.Entry)
	if c.Foreign.any() {
		res.Shape += fmt.Sprintf("f%s%s%s%s", b01(c.Foreign.AbsHF), b01(c.Foreign.AbsAll), b01(c.Foreign.AbsPkg), b01(c.Foreign.Media1)) + itoa(c.Foreign.RelIDs) + b01(c.Foreign.JpgCT)
	}
	if c.Prior > 0 {
		res.Shape += fmt.Sprintf("#p%d", c.Prior)
	}
}

func TestC18(t *testing.T) {
	kit.Main(t, kit.Spec[Case]{
		ID: "C18", Level: "exploration",
		Rule: "base document built through the API: 1-6 (thorough 1-9) body blocks = paragraphs whose text is drawn as tokens (literals incl. XML metacharacters/Unicode, lone and double braces, variable names as literal text, {{name}} placeholders; nine names, among them v1/v10 and name/Name) and then cut into up to 6 runs at drawn rune positions (half of the cuts inside a placeholder) with formats from a palette, plus page-break / inline-picture / PAGE-field runs at run boundaries and paragraph-property setter calls; tables (1-4 x 1-3, one horizontal or vertical merge, header row, row height, shaded cells, nested tables) with cell paragraphs of the same kind, in half of the tables one row in the documented row-loop shape ({{#each list}} in its first cell, {{/each}} in its last, sometimes a word before/after the marker; cells of 1-2 paragraphs holding item fields, each cut into up to 5 runs of different formats - cuts inside the markers and the fields - with page-break, picture and field runs and paragraph-property setters); paragraphs and cell paragraphs holding {{#image x}} (alone, or with non-blank text around / two placeholders); the white space between '#each' / '#image' / '#if' and the name is the one documented blank in about half of the draws, otherwise 1-3 blanks/tabs; literal tokens and whole table rows that only look like placeholders/markers ('{{ name }}', '{{#each rows }}', '{{ /each}}', '{{#Each rows}}', '{{#Image logo}}' ...); one-format paragraphs holding one conditional block {{#if c}}words[{{else}}words]{{/if}} with conditions set true/false/unset; 0-3 headers/footers of distinct kinds with placeholders; section settings, document properties, a custom style, list items. Sizes past ten with a small probability each: 10-17 body blocks, a paragraph of 12-24 tokens cut into 11-15 runs, a table of 10-12 columns or 10-13 rows, lists of 9-13 (rarely 62-70) items, up to all six header/footer kinds, and a base document that already shows 8-14 inline pictures (one to three picture paragraphs, mostly of one format and followed by an image placeholder). Data: a drawn subset of the variable names (strings incl. XML metacharacters, braces, blanks, empty, and characters that other substitution mechanisms interpret: '$1' '${x}' 'US$100' '\\1' '%s' '%'; ints, int64, float64 with exact short decimals, bools, zero and negative numbers; control characters only for names used in headers/footers), lists of 0-3 (sometimes 9-13) maps with a drawn subset of the fields, in a third of the cases with integer-looking fields passed as int, image data for a drawn subset of the image names. Rendered through LoadTemplateFromDocument+RenderTemplateToDocument, or saved and rendered through TemplateRenderer.LoadTemplateFromFile+RenderTemplate (optionally after adding Word-style package relationships to the file; in two of three file cases the file is first rewritten, without the library, into another legal spelling of the same package: header/footer or all relationship targets of the main part and/or the package relationships as absolute part names, media parts numbered from 1, relationship ids with gaps / not of the rIdN form, JPEG declared as Word does: Default jpg=image/jpeg, JPEG media renamed to *.jpg, no Default for jpeg). History: in about a fifth of the cases the same template was rendered before with other data (every name supplied, other pictures), in some of those a second template of the same engine was loaded and rendered in between, or the earlier rendering was given undecodable picture data (its outcome is ignored); the judged rendering is the last one. non-trivial = some placeholder is cut across runs of different formats (in the case and as seen in the saved base) and the document has both a supplied and an unsupplied placeholder and a table or a header/footer; distinct = distinct (block skeleton: run counts, non-text run kinds, setter kinds, table shapes/loop row/merges; header/footer kinds; per-name value class vector; list lengths; entry point, file spelling, history)",
		Gen:  genCase, Run: run, Findings: findings, Fixed: fixedCases,
		Assumptions: []string{
			"placeholder syntax as documented: {{name}} with name = [A-Za-z0-9_]+, {{#each list}} ... {{/each}} around the cells of one table row, {{#image name}}; placeholders are found by scanning the concatenated text of a paragraph from left to right (own scanner)",
			"names of variables, header-only variables, item fields, lists and images come from pairwise disjoint pools that avoid the directive keywords; values never contain '{{' (re-scanning of values is C16's subject) nor '[IMAGE:'",
			"body paragraphs hold no {{#each}} (document-level loops are C16's subject); loop-row cells hold item fields and brace-free literals only, one loop row per table, the list of a loop row is always supplied (0-3 items); merges never touch the loop row",
			"the documentation writes a directive with exactly one blank between keyword and name. A loop marker / image placeholder with other white space there (1-3 blanks/tabs) may be read either way, but consistently: processed completely like the documented spelling (row expanded AND markers removed; picture inserted) or left completely alone as literal text (the table is then an ordinary table); the first reading without a failure is taken, a half-processed one fails under the clause it breaks. Any other variation ('{{ name }}', blank before '}}' or after '{{', other letter case, '{{/each }}') is literal text that must stay",
			"the statement does not speak about conditional blocks: in a paragraph holding {{#if c}}..{{/if}} (one format, no non-text runs, no placeholder inside the block) the block may stay as it is, become its body or its else part, or vanish - whichever it is, nothing but the block's own markers/parts may change and the rest of the paragraph is judged as usual; headers/footers and loop rows hold no conditional blocks",
			"a value takes the format of the run holding the first character of its placeholder; run boundaries themselves are not compared, only the format of every character",
			"non-text runs are only placed at run boundaries that are not strictly inside a placeholder; a paragraph where one is inside is skipped (counted as ambiguous)",
			"an image placeholder whose image has no data stands alone in its paragraph; the only demand is that one paragraph naming the image stays in its place (the statement is silent on more)",
			"text and pictures replacing an image-placeholder paragraph are compared as one flattened sequence, however many paragraphs the library splits them into; properties of picture-only paragraphs are not judged",
			"a header/footer value that XML 1.0 cannot carry is only required to leave the part well-formed",
			"XML parts are compared as canonical trees (attribute order, empty-element form and indentation ignored); an empty w:rPr / w:pPr equals an absent one",
			"the text of a body w:t is what a consumer of the saved file reads (ECMA-376 17.3.3.31, XML 1.0 2.10): white space at the edges of its character data counts only when xml:space=\"preserve\" is in force on the element or an ancestor - in the base and in the rendered document alike; a supplied value that begins or ends with blanks has to arrive with them",
			"a picture inserted for an image placeholder is a part of the rendered package only when [Content_Types].xml covers it (Override for the part name or Default for its extension, matched without regard to case) with the media type of its bytes (image/png, image/jpeg, image/gif); which extension and part name the library chooses is its business",
			"a producer may declare JPEG under the extension jpg (<Default Extension=\"jpg\" ContentType=\"image/jpeg\"/>, media parts *.jpg, no Default for jpeg) and may declare Defaults no part uses yet: a template file rewritten that way is the same template",
			"for the file entry points the base document is what the library holds after opening the file (tpl.BaseDoc re-saved), so losses of the reader are not attributed to rendering",
			"a relationship target may be written relative to its source part or as an absolute part name (OPC part 2, 9.3: both denote the same part), and the pictures of a package may carry any numbers: a template file rewritten that way is the same template",
			"a number or bool passed as a value renders as its plain decimal text / true|false (values are chosen so that the shortest and the %v rendering agree); an item field given as int renders like its decimal text",
			"renderings are independent: what an engine rendered earlier (the same template with other data, another template) has no influence on the judged rendering",
		},
		MustSee: map[string]float64{"ph:split-across-formats": 0.5, "ph:split-across-runs": 0.6, "ph:supplied": 0.7, "ph:unsupplied": 0.5, "doc:table": 0.25, "doc:row-loop": 0.15,
			"loop:2+items": 0.08, "loop:0-items": 0.02, "doc:nested-table": 0.1, "doc:merged-table": 0.05, "doc:header-footer": 0.4, "doc:section-settings": 0.2, "doc:properties": 0.15,
			"doc:custom-style": 0.15, "doc:list-item": 0.1, "doc:image-placeholder": 0.15, "doc:image-placeholder-in-cell": 0.03, "image:with-data": 0.15, "image:without-data": 0.05,
			"nontext:br": 0.3, "nontext:pic": 0.1, "nontext:fld": 0.1, "value:xml-meta": 0.2, "value:control": 0.1, "value:braces": 0.2, "value:empty": 0.1, "value:int": 0.2,
			"entry:0": 0.5, "entry:1": 0.1, "entry:2": 0.03, "ph:split-in-loop-row": 0.08, "pset:keepnext": 0.05, "pset:align": 0.2,
			"spelling:loop-marker-undocumented-blanks+items": 0.05, "spelling:image-undocumented-blanks": 0.1, "spelling:look-alike-literal": 0.15, "doc:conditional-block": 0.1,
			"value:dollar-in-header-footer": 0.05, "value:subst-meta": 0.3, "value:typed-f": 0.04, "value:typed-b": 0.03, "value:typed-i64": 0.03, "list:typed-item-fields": 0.2, "list:9+items": 0.01,
			"doc:11+pictures": 0.02, "doc:11+pictures+image-placeholder+file": 0.01, "doc:10+blocks": 0.005, "doc:table-10+rows-or-cols": 0.005, "para:11+runs": 0.01, "doc:4+headers-footers": 0.05,
			"file:foreign-spelling": 0.1, "file:absolute-header-footer-targets+hf": 0.05, "file:absolute-main-part-targets": 0.03, "file:absolute-package-targets": 0.02, "file:media-numbered-from-1": 0.03, "file:other-relationship-ids": 0.03,
			"value:edge-blanks-substituted": 0.1, "file:jpeg-declared-as-jpg": 0.05, "file:jpeg-declared-as-jpg+jpeg-picture-inserted": 0.008, "image:jpeg-inserted": 0.05,
			"prior:1": 0.05, "prior:2": 0.02, "prior:3": 0.02,
			"looprow:2+formats-in-a-paragraph": 0.1, "looprow:3+runs-in-a-paragraph": 0.1, "looprow:marker-split-across-runs": 0.1, "looprow:nontext-br": 0.04, "looprow:nontext-pic": 0.015, "looprow:nontext-fld": 0.015},
	})
}

// fixedCases: the documented usage and a sweep over every cut position of a two-placeholder paragraph.
func fixedCases() []Case {
	bold := &ops.Fmt{Bold: true}
	red := &ops.Fmt{Italic: true, Color: "FF0000"}
	txt := func(s string, f *ops.Fmt) Run { return Run{K: "t", T: s, F: f} }
	cellp := func(rs ...Run) Cell { return Cell{Paras: []Para{{Runs: rs}}} }
	var out []Case
	// README-like: variables in single runs, a table with a header row and a loop row, a header and a footer
	out = append(out, Case{
		Blocks: []Block{
			{P: &Para{Runs: []Run{txt("Company: ", nil), txt("{{name}}", bold)}, Sets: []PSet{{K: "align", I: []int{1}}}}},
			{P: &Para{Runs: []Run{txt("Location {{city}} / unknown {{code}}", nil)}}},
			{T: &Table{Rows: 3, Cols: 2, LoopRow: 1, List: "rows", Header: 1, Cells: [][]Cell{
				{cellp(txt("Item", bold)), cellp(txt("Price", bold))},
				{cellp(txt("{{#each rows}}{{item}}", nil)), cellp(txt("{{price}}{{/each}}", nil))},
				{cellp(txt("Sum", nil)), cellp(txt("n/a", nil))}}}},
		},
		HFs:  []HF{{Text: "Report for {{name}} <{{doc_no}}>"}, {Footer: true, Text: "{{city}} & {{rev}}", PageNum: 2}},
		Page: &Page{Size: 1, Landscape: true, Margins: []float64{20, 25, 20, 25}},
		Data: Data{Vars: map[string]Val{"name": {S: "ACME <&> Co"}, "city": {S: "Oslo"}, "doc_no": {S: "a\x00b\x0b"}},
			Lists: map[string][]map[string]string{"rows": {{"item": "bolt", "price": "2"}, {"item": "nut <M4>", "price": "1"}, {"item": "washer"}}}},
	})
	// directive spellings: loop markers and image placeholders with other white space than the one documented blank
	// (two blanks, a tab; cut into runs inside the blanks), a trailing word after {{/each}}, a row and literals that only
	// look like directives, a conditional block with two blanks
	for _, ws := range []string{"  ", "\t", " \t "} {
		out = append(out, Case{
			Blocks: []Block{
				{P: &Para{Runs: []Run{txt("{{ name }} {{name }} {{#Each rows}} {{/each }} ", nil), txt("{{name}}", bold), txt(" {{#if"+ws+"vip}}yes{{else}}no{{/if}}.", nil)}}},
				{T: &Table{Rows: 3, Cols: 2, LoopRow: 1, List: "rows", Cells: [][]Cell{
					{cellp(txt("Item {{city}}", bold)), cellp(txt("Price", bold))},
					{cellp(txt("{{#each"+ws[:1], bold), txt(ws[1:]+"rows}}", nil), txt("{{item}}", red)), cellp(txt("{{price}}", red), txt(" EUR", nil), txt("{{/each}}", bold), txt(".", nil))},
					{cellp(txt("Sum {{name}}", nil)), cellp(txt("n/a", nil))}}}},
				{P: &Para{Runs: []Run{txt("{{#image"+ws+"logo}}", nil)}}},
				{T: &Table{Rows: 2, Cols: 2, LoopRow: -1, Cells: [][]Cell{
					{cellp(txt("{{#each rows }}{{item}} {{name}}", nil)), cellp(txt("{{price}}{{ /each}}", nil))},
					{cellp(txt("{{#image logo }}", nil)), cellp(txt("{{city}}", red))}}}},
			},
			Data: Data{Vars: map[string]Val{"name": {S: "ACME"}, "city": {S: "Oslo"}}, Conds: map[string]bool{"vip": true},
				Imgs:  map[string]gen.Img{"logo": {Fmt: "png", W: 3, H: 2, Pat: 7, Name: "logo.png"}},
				Lists: map[string][]map[string]string{"rows": {{"item": "bolt", "price": "2"}, {"item": "nut", "price": "1"}}}},
			Entry: len(ws) % 2,
		})
	}
	// every cut position of a paragraph with two supplied placeholders, in two and in three runs
	text := []rune("Dear {{name}}, {{city}}!")
	for p := 1; p < len(text); p++ {
		out = append(out, Case{Blocks: []Block{{P: &Para{Runs: []Run{txt(string(text[:p]), bold), txt(string(text[p:]), nil)}}}},
			HFs:  []HF{{Text: "{{name}}"}},
			Data: Data{Vars: map[string]Val{"name": {S: "Ann & Bo"}, "city": {S: "<Oslo>"}}}})
		if q := p + 2; q < len(text) {
			out = append(out, Case{Blocks: []Block{{P: &Para{Runs: []Run{txt(string(text[:p]), red), txt(string(text[p:q]), bold), txt(string(text[q:]), nil)}}},
				{T: &Table{Rows: 1, Cols: 1, LoopRow: -1, Cells: [][]Cell{{cellp(txt(string(text[:p]), nil), txt(string(text[p:q]), bold), txt(string(text[q:]), red))}}}}},
				Data: Data{Vars: map[string]Val{"name": {S: ""}, "city": {S: "中文 😀"}}}, Entry: p % 2})
		}
	}
	return out
}

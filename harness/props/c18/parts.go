package c18

// Part-level clauses: header/footer parts (W5.hf), all other parts, relationships and content types (W5.parts),
// the base document after rendering (W7).

import (
	"bytes"
	"sort"
	"strings"

	"wzverif/internal/canon"
	"wzverif/internal/gen"
	"wzverif/internal/opc"
	"wzverif/internal/xmlwf"
)

func isHF(name string) bool {
	return (strings.HasPrefix(name, "word/header") || strings.HasPrefix(name, "word/footer")) && strings.HasSuffix(name, ".xml")
}

// substituteHF rewrites the w:t leaves of a header/footer tree by the reference substitution (placeholders never span
// elements here: the raw part is what the statement talks about, and the API writes one run per header text).
func (j *judge) substituteHF(root *canon.Node) (sup, unsup int, inexpressible bool) {
	for _, t := range root.All(canon.W, "t") {
		rs := []rune(t.Text)
		spans := scanVars(rs)
		if len(spans) == 0 {
			continue
		}
		var b strings.Builder
		cur := 0
		for _, sp := range spans {
			b.WriteString(string(rs[cur:sp.s]))
			if v, ok := j.vars[sp.name]; ok {
				sup++
				if !gen.XMLExpressible(v) {
					inexpressible = true
				}
				b.WriteString(v)
			} else {
				unsup++
				b.WriteString(string(rs[sp.s:sp.e]))
			}
			cur = sp.e
		}
		b.WriteString(string(rs[cur:]))
		t.Text = b.String()
	}
	return
}

func (j *judge) checkParts(hfSup, hfUnsup *int) {
	res := j.res
	bp, op := j.base.pkg, j.out.pkg
	imagesInserted := j.nImgWith > 0
	for _, name := range bp.SortedNames() {
		if name == j.base.main || name == "[Content_Types].xml" || opc.IsRelsPart(name) || strings.HasSuffix(name, "/") {
			continue
		}
		bdata := bp.Parts[name]
		odata, ok := op.Parts[name]
		if isHF(name) {
			res.Eval("C18.W5.hf")
			if !ok {
				res.Fail("C18.W5.hf", "{part=%s} header/footer part missing from the rendered package", name)
				continue
			}
			if err := xmlwf.Check(odata); err != nil {
				res.Fail("C18.W5.hf", "{part=%s} rendered header/footer part is not well-formed: %v\n%s", name, err, clip(string(odata), 600))
				continue
			}
			bt, err1 := canon.Parse(bdata)
			ot, err2 := canon.Parse(odata)
			if err1 != nil || err2 != nil {
				res.Fail("C18.W5.hf", "{part=%s} cannot parse: base %v rendered %v", name, err1, err2)
				continue
			}
			s, u, inex := j.substituteHF(bt)
			*hfSup += s
			*hfUnsup += u
			if inex {
				// a value with characters XML cannot carry: only well-formedness is demanded (checked above)
				res.Count("hf_value_not_expressible", 1)
				continue
			}
			if d := canon.Diff(bt, ot, nil); d != "" {
				res.Fail("C18.W5.hf", "{part=%s;sup=%d;unsup=%d} header/footer part is not the base part with placeholders replaced (expected vs rendered): %s", name, s, u, d)
			}
			continue
		}
		res.Eval("C18.W5.parts")
		if !ok {
			res.Fail("C18.W5.parts", "{part=%s} part of the base document missing from the rendered package", name)
			continue
		}
		if bytes.Equal(bdata, odata) {
			continue
		}
		if bp.IsXMLPart(name) {
			bt, err1 := canon.Parse(bdata)
			ot, err2 := canon.Parse(odata)
			if err1 == nil && err2 == nil {
				if d := canon.Diff(bt, ot, nil); d == "" {
					continue
				} else {
					res.Fail("C18.W5.parts", "{part=%s} part changed (base vs rendered): %s", name, d)
					continue
				}
			}
		}
		res.Fail("C18.W5.parts", "{part=%s} part changed: %d bytes in the base, %d rendered", name, len(bdata), len(odata))
	}
	// parts that only the rendered package has: pictures inserted for image placeholders
	for _, name := range op.SortedNames() {
		if _, ok := bp.Parts[name]; ok || strings.HasSuffix(name, "/") {
			continue
		}
		res.Eval("C18.W5.parts")
		if imagesInserted && strings.HasPrefix(name, "word/media/") {
			// a picture inserted for an image placeholder is only there for a consumer when the package declares it:
			// an Override for the part or a Default for its extension, naming the media type of its bytes
			res.Eval("C18.W6.ct")
			want := sniffImage(op.Parts[name])
			if want == "image/jpeg" {
				j.nJpegInserted++
			}
			if ct, ok := op.ContentTypeOf(name); !ok {
				res.Fail("C18.W6.ct", "{part=%s;bytes=%s;jpgct=%s} the picture part inserted for an image placeholder has no content type: no Override for it and no Default for its extension (Defaults of the rendered package: %v)", name, want, b01(j.c.Foreign != nil && j.c.Foreign.JpgCT), sortedDefaults(op))
			} else if want != "" && !strings.EqualFold(ct, want) {
				res.Fail("C18.W6.ct", "{part=%s;bytes=%s;ct=%s} the picture part inserted for an image placeholder is declared as %s but holds %s data", name, want, ct, ct, want)
			}
			continue
		}
		res.Fail("C18.W5.parts", "{part=%s;new=1} the rendered package has a part the base document does not have", name)
	}
	// relationships: every relationship of the base is still there; new ones are picture relationships only
	for _, rn := range sortedRelParts(bp, op) {
		res.Eval("C18.W5.rels")
		brels, orels := bp.Rels[rn], op.Rels[rn]
		om := map[string]opc.Rel{}
		for _, r := range orels {
			om[r.ID] = r
		}
		var lost []string
		for _, r := range brels {
			o, ok := om[r.ID]
			if !ok || o.Type != r.Type || o.Resolved != r.Resolved || o.External() != r.External() {
				lost = append(lost, sprintf("%s %s -> %s", r.ID, shortType(r.Type), r.Target))
			}
			delete(om, r.ID)
		}
		var extra []string
		for id, o := range om {
			if imagesInserted && strings.HasSuffix(o.Type, "/image") {
				continue
			}
			extra = append(extra, sprintf("%s %s -> %s", id, shortType(o.Type), o.Target))
		}
		sort.Strings(extra)
		if len(lost) > 0 || len(extra) > 0 {
			res.Fail("C18.W5.rels", "{part=%s;lost=%d;extra=%d} relationships differ: missing/changed %v, unexpected %v", rn, len(lost), len(extra), lost, extra)
		}
	}
	// content types
	res.Eval("C18.W5.ct")
	var ctl []string
	for ext, ct := range bp.Defaults {
		if op.Defaults[ext] != ct {
			ctl = append(ctl, sprintf("Default %s=%s (rendered %q)", ext, ct, op.Defaults[ext]))
		}
	}
	for pn, ct := range bp.Overrides {
		if op.Overrides[pn] != ct {
			ctl = append(ctl, sprintf("Override %s=%s (rendered %q)", pn, ct, op.Overrides[pn]))
		}
	}
	for pn, ct := range op.Overrides {
		if _, ok := bp.Overrides[pn]; !ok {
			ctl = append(ctl, sprintf("new Override %s=%s", pn, ct))
		}
	}
	for ext, ct := range op.Defaults {
		if _, ok := bp.Defaults[ext]; !ok && !(imagesInserted && strings.HasPrefix(ct, "image/")) {
			ctl = append(ctl, sprintf("new Default %s=%s", ext, ct))
		}
	}
	sort.Strings(ctl)
	if len(ctl) > 0 {
		res.Fail("C18.W5.ct", "{part=[Content_Types].xml} content types differ from the base: %v", ctl)
	}
}

// sniffImage names the media type of picture bytes by their signature ("" when it is none of the three formats supplied here).
func sniffImage(b []byte) string {
	switch {
	case bytes.HasPrefix(b, []byte("\x89PNG\r\n\x1a\n")):
		return "image/png"
	case bytes.HasPrefix(b, []byte("\xff\xd8\xff")):
		return "image/jpeg"
	case bytes.HasPrefix(b, []byte("GIF87a")), bytes.HasPrefix(b, []byte("GIF89a")):
		return "image/gif"
	}
	return ""
}

func sortedDefaults(p *opc.Package) []string {
	var out []string
	for ext, ct := range p.Defaults {
		out = append(out, ext+"="+ct)
	}
	sort.Strings(out)
	return out
}

func shortType(t string) string {
	if i := strings.LastIndex(t, "/"); i >= 0 {
		return t[i+1:]
	}
	return t
}

func sortedRelParts(a, b *opc.Package) []string {
	m := map[string]bool{}
	for k := range a.Rels {
		m[k] = true
	}
	for k := range b.Rels {
		m[k] = true
	}
	var out []string
	for k := range m {
		out = append(out, k)
	}
	sort.Strings(out)
	return out
}

// samePackage compares two saves of the base document part by part (W7).
func samePackage(a, b *opc.Package) string {
	for _, n := range a.SortedNames() {
		x, ok := b.Parts[n]
		if !ok {
			return sprintf("part %s disappeared", n)
		}
		if !bytes.Equal(a.Parts[n], x) {
			if a.IsXMLPart(n) {
				at, e1 := canon.Parse(a.Parts[n])
				bt, e2 := canon.Parse(x)
				if e1 == nil && e2 == nil {
					if d := canon.Diff(at, bt, nil); d != "" {
						return sprintf("part %s changed: %s", n, d)
					}
					continue
				}
			}
			return sprintf("part %s changed (%d -> %d bytes)", n, len(a.Parts[n]), len(x))
		}
	}
	for _, n := range b.SortedNames() {
		if _, ok := a.Parts[n]; !ok {
			return sprintf("part %s appeared", n)
		}
	}
	return ""
}

package c18

// Case data types and the builder that turns a Case into a base document through the public API.

import (
	"fmt"
	"sort"
	"strconv"
	"strings"

	"github.com/zerx-lab/wordZero/pkg/document"
	"github.com/zerx-lab/wordZero/pkg/style"

	"wzverif/internal/gen"
	"wzverif/internal/ops"
)

// Run is one run of a paragraph: text with a format, or a non-text run.
type Run struct {
	K   string   `json:"k"` // t | br (page break) | pic (inline picture) | fld (PAGE field: begin, instruction, end)
	T   string   `json:"t,omitempty"`
	F   *ops.Fmt `json:"f,omitempty"`
	Img *gen.Img `json:"img,omitempty"`
}

// PSet is one paragraph-property setter call.
type PSet struct {
	K string    `json:"k"`
	I []int     `json:"i,omitempty"`
	F []float64 `json:"f,omitempty"`
	B bool      `json:"b,omitempty"`
	S string    `json:"s,omitempty"`
}

type Para struct {
	Runs []Run  `json:"runs"`
	Sets []PSet `json:"sets,omitempty"`
	List bool   `json:"list,omitempty"` // created with AddBulletList (numbering part)
}

type Cell struct {
	Paras  []Para `json:"paras"`
	Nested *Table `json:"nested,omitempty"`
	Shade  string `json:"shade,omitempty"` // background colour through SetCellShading
}

type Table struct {
	Rows    int      `json:"rows"`
	Cols    int      `json:"cols"`
	Cells   [][]Cell `json:"cells"`
	MergeH  [][3]int `json:"mergeh,omitempty"` // row, startCol, endCol
	MergeV  [][3]int `json:"mergev,omitempty"` // startRow, endRow, col
	Header  int      `json:"header,omitempty"` // 1+row index marked as header row (0 = none)
	Height  [2]int   `json:"height,omitempty"` // 1+row index, height
	LoopRow int      `json:"loop_row"`         // -1 = no row loop
	List    string   `json:"list,omitempty"`
}

type Block struct {
	P *Para  `json:"p,omitempty"`
	T *Table `json:"t,omitempty"`
}

type HF struct {
	Footer  bool   `json:"footer,omitempty"`
	Type    int    `json:"type"`
	Text    string `json:"text"`
	PageNum int    `json:"pn,omitempty"` // 0 plain AddHeader/AddFooter, 1 With­PageNumber(false), 2 WithPageNumber(true)
}

type Page struct {
	Size      int       `json:"size"` // 0 none, else index+1 into ops.PageSizes
	Landscape bool      `json:"landscape,omitempty"`
	Margins   []float64 `json:"margins,omitempty"`
	Gutter    float64   `json:"gutter,omitempty"`
	Grid      []int     `json:"grid,omitempty"` // type, linePitch, charSpace
	DiffFirst bool      `json:"diff_first,omitempty"`
}

type Val struct {
	S string `json:"s"`
	I bool   `json:"i,omitempty"` // pass strconv.Atoi(S) as int
	K string `json:"k,omitempty"` // other Go types: "i64" int64, "f" float64, "b" bool (S is the decimal / true|false text)
}

type Data struct {
	Vars  map[string]Val                 `json:"vars,omitempty"`
	Lists map[string][]map[string]string `json:"lists,omitempty"`
	Imgs  map[string]gen.Img             `json:"imgs,omitempty"`
	Conds map[string]bool                `json:"conds,omitempty"`
	// TypedItems: item fields whose text is a canonical decimal integer are passed as int (documented: "price": 100)
	TypedItems bool `json:"typed_items,omitempty"`
}

type Case struct {
	Blocks      []Block  `json:"blocks"`
	HFs         []HF     `json:"hfs,omitempty"`
	Page        *Page    `json:"page,omitempty"`
	Props       []string `json:"props,omitempty"` // title, author, subject
	CustomStyle string   `json:"custom_style,omitempty"`
	Data        Data     `json:"data"`
	Foreign     *Foreign `json:"foreign,omitempty"` // Entry >= 1: the template file in another producer's spelling (foreign.go)
	// Prior: what the engine did with the template before the judged rendering. 0 nothing; 1 the same template was rendered
	// once with other data (every name supplied, other pictures); 2 additionally a second template of the same engine was
	// loaded and rendered in between; 3 the earlier rendering was given picture data that is no picture (it may fail: its
	// result and error are ignored)
	Prior int `json:"prior,omitempty"`
	Entry int `json:"entry"` // 0 LoadTemplateFromDocument+RenderTemplateToDocument; 1 saved file -> TemplateRenderer.LoadTemplateFromFile+RenderTemplate; 2 like 1, the file having package relationships to its docProps parts
}

func (c *Case) templateData() *document.TemplateData {
	td := document.NewTemplateData()
	names := make([]string, 0, len(c.Data.Vars))
	for k := range c.Data.Vars {
		names = append(names, k)
	}
	sort.Strings(names)
	for _, k := range names {
		v := c.Data.Vars[k]
		td.SetVariable(k, v.value())
	}
	for k, l := range c.Data.Lists {
		items := make([]interface{}, 0, len(l))
		for _, m := range l {
			it := map[string]interface{}{}
			for kk, vv := range m {
				it[kk] = vv
			}
			items = append(items, it)
		}
		td.SetList(k, items)
	}
	for k, im := range c.Data.Imgs {
		td.SetImageFromData(k, imgBytes(im), nil)
	}
	for k, v := range c.Data.Conds {
		td.SetCondition(k, v)
	}
	return td
}

// text returns the text a supplied variable renders as: the string itself, the decimal text of a number, true/false.
func (v Val) text() string { return v.S }

// value returns what is passed to SetVariable.
func (v Val) value() interface{} {
	switch {
	case v.I:
		if n, err := strconv.Atoi(v.S); err == nil {
			return n
		}
	case v.K == "i64":
		if n, err := strconv.ParseInt(v.S, 10, 64); err == nil {
			return n
		}
	case v.K == "f":
		if x, err := strconv.ParseFloat(v.S, 64); err == nil {
			return x
		}
	case v.K == "b":
		if v.S == "true" || v.S == "false" {
			return v.S == "true"
		}
	}
	return v.S
}

// canonicalInt: s is the decimal text strconv.Itoa gives for some int of at most nine digits.
func canonicalInt(s string) bool {
	d := strings.TrimPrefix(s, "-")
	if d == "" || len(d) > 9 || (d[0] == '0' && (len(d) > 1 || s != d)) {
		return false
	}
	for _, ch := range d {
		if ch < '0' || ch > '9' {
			return false
		}
	}
	return true
}

// ---------------------------------------------------------------------------------------------

var borderStyles = []document.BorderStyle{document.BorderStyleSingle, document.BorderStyleDouble, document.BorderStyleDashed, document.BorderStyleThick}

func applySets(p *document.Paragraph, sets []PSet) {
	for _, s := range sets {
		i := func(k int) int {
			if k < len(s.I) {
				return s.I[k]
			}
			return 0
		}
		f := func(k int) float64 {
			if k < len(s.F) {
				return s.F[k]
			}
			return 0
		}
		switch s.K {
		case "align":
			p.SetAlignment(ops.Aligns[ops.In(i(0), 4)])
		case "spacing":
			p.SetSpacing(&document.SpacingConfig{LineSpacing: f(0), BeforePara: i(0), AfterPara: i(1), FirstLineIndent: i(2)})
		case "indent":
			p.SetIndentation(f(0), f(1), f(2))
		case "keepnext":
			p.SetKeepWithNext(s.B)
		case "keeplines":
			p.SetKeepLines(s.B)
		case "pbb":
			p.SetPageBreakBefore(s.B)
		case "widow":
			p.SetWidowControl(s.B)
		case "outline":
			p.SetOutlineLevel(i(0))
		case "snap":
			p.SetSnapToGrid(s.B)
		case "style":
			p.SetStyle(s.S)
		case "border":
			bc := &document.ParagraphBorderConfig{Style: borderStyles[ops.In(i(0), len(borderStyles))], Size: 4 + ops.In(i(1), 20), Color: "336699", Space: 1}
			p.SetBorder(bc, nil, bc, nil)
		}
	}
}

func fieldRuns() []document.Run {
	return []document.Run{
		{FieldChar: &document.FieldChar{FieldCharType: "begin"}},
		{InstrText: &document.InstrText{Space: "preserve", Content: " PAGE "}},
		{FieldChar: &document.FieldChar{FieldCharType: "end"}},
	}
}

func addRuns(doc *document.Document, p *document.Paragraph, runs []Run, allowPic bool) error {
	for _, r := range runs {
		switch r.K {
		case "t":
			p.AddFormattedText(r.T, r.F.TF())
		case "br":
			p.AddPageBreak()
		case "fld":
			p.Runs = append(p.Runs, fieldRuns()...)
		case "pic":
			if !allowPic || r.Img == nil {
				continue
			}
			// the API adds a picture as a paragraph of its own; move its drawing run into p
			if _, err := doc.AddImageFromData(imgBytes(*r.Img), r.Img.Name, ops.ImgFormats[r.Img.Fmt], r.Img.W, r.Img.H, nil); err != nil {
				return fmt.Errorf("AddImageFromData: %w", err)
			}
			n := len(doc.Body.Elements)
			ip, ok := doc.Body.Elements[n-1].(*document.Paragraph)
			if !ok || len(ip.Runs) == 0 {
				return fmt.Errorf("AddImageFromData appended no picture paragraph")
			}
			run := ip.Runs[len(ip.Runs)-1]
			doc.RemoveParagraph(ip)
			p.Runs = append(p.Runs, run)
		}
	}
	return nil
}

func buildBodyPara(doc *document.Document, ps *Para) error {
	var p *document.Paragraph
	runs := ps.Runs
	switch {
	case ps.List:
		t := ""
		if len(runs) > 0 && runs[0].K == "t" && runs[0].F == nil {
			t = runs[0].T
			runs = runs[1:]
		}
		p = doc.AddBulletList(t, 0, document.BulletTypeDot)
	case len(runs) > 0 && runs[0].K == "t" && runs[0].F == nil:
		p = doc.AddParagraph(runs[0].T)
		runs = runs[1:]
	case len(runs) > 0 && runs[0].K == "t":
		p = doc.AddFormattedParagraph(runs[0].T, runs[0].F.TF())
		runs = runs[1:]
	default:
		p = doc.AddParagraph("")
	}
	if err := addRuns(doc, p, runs, true); err != nil {
		return err
	}
	applySets(p, ps.Sets)
	return nil
}

func buildTable(doc *document.Document, parent *document.Table, pr, pc int, ts *Table) error {
	cfg := &document.TableConfig{Rows: ts.Rows, Cols: ts.Cols, Width: 1200 * ts.Cols}
	var t *document.Table
	var err error
	if parent == nil {
		t, err = doc.AddTable(cfg)
	} else {
		t, err = parent.AddNestedTable(pr, pc, cfg)
	}
	if err != nil {
		return fmt.Errorf("table: %w", err)
	}
	for r := 0; r < ts.Rows && r < len(ts.Cells); r++ {
		for c := 0; c < ts.Cols && c < len(ts.Cells[r]); c++ {
			cs := &ts.Cells[r][c]
			for pi := range cs.Paras {
				ps := &cs.Paras[pi]
				var p *document.Paragraph
				if pi == 0 {
					cell, err := t.GetCell(r, c)
					if err != nil || len(cell.Paragraphs) == 0 {
						return fmt.Errorf("GetCell(%d,%d): %v", r, c, err)
					}
					p = &cell.Paragraphs[0]
					// first paragraph of a cell: text through the cell API, other runs through the paragraph API
					for _, rn := range ps.Runs {
						if rn.K == "t" {
							if err := t.AddCellFormattedText(r, c, rn.T, rn.F.TF()); err != nil {
								return err
							}
						} else if err := addRuns(doc, p, []Run{rn}, true); err != nil {
							return err
						}
					}
				} else {
					np, err := t.AddCellParagraph(r, c, "")
					if err != nil {
						return err
					}
					// AddCellParagraph returns a pointer into the cell's slice: valid until the next append
					if err := addRuns(doc, np, ps.Runs, true); err != nil {
						return err
					}
					p = np
				}
				applySets(p, ps.Sets)
			}
			if cs.Shade != "" {
				if err := t.SetCellShading(r, c, &document.ShadingConfig{Pattern: document.ShadingPatternClear, BackgroundColor: cs.Shade}); err != nil {
					return err
				}
			}
			if cs.Nested != nil {
				if err := buildTable(doc, t, r, c, cs.Nested); err != nil {
					return err
				}
			}
		}
	}
	if ts.Header > 0 {
		if err := t.SetRowAsHeader(ts.Header-1, true); err != nil {
			return err
		}
	}
	if ts.Height[0] > 0 {
		if err := t.SetRowHeight(ts.Height[0]-1, &document.RowHeightConfig{Height: ts.Height[1], Rule: document.RowHeightMinimum}); err != nil {
			return err
		}
	}
	for _, m := range ts.MergeV {
		if err := t.MergeCellsVertical(m[0], m[1], m[2]); err != nil {
			return fmt.Errorf("MergeCellsVertical%v: %w", m, err)
		}
	}
	for _, m := range ts.MergeH {
		if err := t.MergeCellsHorizontal(m[0], m[1], m[2]); err != nil {
			return fmt.Errorf("MergeCellsHorizontal%v: %w", m, err)
		}
	}
	return nil
}

// build creates the base document of the case through the public API.
func build(c *Case) (*document.Document, error) {
	doc := document.New()
	if c.CustomStyle != "" {
		if sm := doc.GetStyleManager(); sm != nil {
			st := sm.CreateCustomStyle(c.CustomStyle, "Custom "+c.CustomStyle, style.StyleTypeParagraph, "Normal")
			if st != nil {
				st.RunPr = &style.RunProperties{Bold: &style.Bold{}, Color: &style.Color{Val: "AA3300"}}
			}
		}
	}
	for i := range c.Blocks {
		b := &c.Blocks[i]
		switch {
		case b.P != nil:
			if err := buildBodyPara(doc, b.P); err != nil {
				return nil, err
			}
		case b.T != nil:
			if err := buildTable(doc, nil, 0, 0, b.T); err != nil {
				return nil, err
			}
		}
	}
	for _, h := range c.HFs {
		typ := []document.HeaderFooterType{document.HeaderFooterTypeDefault, document.HeaderFooterTypeFirst, document.HeaderFooterTypeEven}[ops.In(h.Type, 3)]
		var err error
		switch {
		case !h.Footer && h.PageNum == 0:
			err = doc.AddHeader(typ, h.Text)
		case !h.Footer:
			err = doc.AddHeaderWithPageNumber(typ, h.Text, h.PageNum == 2)
		case h.PageNum == 0:
			err = doc.AddFooter(typ, h.Text)
		default:
			err = doc.AddFooterWithPageNumber(typ, h.Text, h.PageNum == 2)
		}
		if err != nil {
			return nil, fmt.Errorf("header/footer: %w", err)
		}
	}
	if pg := c.Page; pg != nil {
		if pg.Size > 0 {
			if err := doc.SetPageSize(ops.PageSizes[ops.In(pg.Size-1, len(ops.PageSizes))]); err != nil {
				return nil, err
			}
		}
		if pg.Landscape {
			if err := doc.SetPageOrientation(document.OrientationLandscape); err != nil {
				return nil, err
			}
		}
		if len(pg.Margins) == 4 {
			if err := doc.SetPageMargins(pg.Margins[0], pg.Margins[1], pg.Margins[2], pg.Margins[3]); err != nil {
				return nil, err
			}
		}
		if pg.Gutter > 0 {
			if err := doc.SetGutterWidth(pg.Gutter); err != nil {
				return nil, err
			}
		}
		if len(pg.Grid) == 3 {
			grids := []document.DocGridType{document.DocGridLines, document.DocGridSnapToChars, document.DocGridSnapToLines}
			if err := doc.SetDocGrid(grids[ops.In(pg.Grid[0], 3)], pg.Grid[1], pg.Grid[2]); err != nil {
				return nil, err
			}
		}
		if pg.DiffFirst {
			doc.SetDifferentFirstPage(true)
		}
	}
	if len(c.Props) == 3 {
		if err := doc.SetDocumentProperties(&document.DocumentProperties{Title: c.Props[0], Creator: c.Props[1], Subject: c.Props[2]}); err != nil {
			return nil, err
		}
	}
	return doc, nil
}

// imgBytes encodes a generated image once (the encoders are deterministic; the same picture is needed by the builder,
// the data set and the reference). The library copies what it is given, so the cached slice is never written to;
// callers that hand it to the library get a copy all the same.
var imgCache = map[gen.Img][]byte{}

func imgBytes(im gen.Img) []byte {
	b, ok := imgCache[im]
	if !ok {
		if len(imgCache) > 2048 {
			imgCache = map[gen.Img][]byte{}
		}
		b = im.Bytes()
		imgCache[im] = b
	}
	return append([]byte(nil), b...)
}

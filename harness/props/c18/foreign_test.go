package c18

import (
	"fmt"
	"os"
	"strings"
	"testing"

	"pgregory.net/rapid"

	"github.com/zerx-lab/wordZero/pkg/document"

	"wzverif/internal/kit"
)

// TestForeignSelf is a development aid (C18_FOREIGN_SELF=1): it checks the harness's own rewriting of a template file
// into another producer's spelling (foreign.go) with the independent reader - the rewritten package must show exactly the
// same body (text, formats, pictures by content, header/footer references by resolved part), hold the same parts up to
// the renumbered media names, and really carry the spelling asked for. It also counts how often the library's reader
// keeps the body of such a file intact (re-saved after opening), so that one can see the cases are not vacuous.
func TestForeignSelf(t *testing.T) {
	if os.Getenv("C18_FOREIGN_SELF") == "" {
		t.Skip("set C18_FOREIGN_SELF=1")
	}
	n, kept, lost := 0, 0, 0
	var firstLost string
	rapid.Check(t, func(rt *rapid.T) {
		c := genCase(rt)
		f := &Foreign{AbsHF: rapid.Bool().Draw(rt, "abshf"), AbsAll: rapid.Bool().Draw(rt, "absall"), AbsPkg: rapid.Bool().Draw(rt, "abspkg"),
			Media1: rapid.Bool().Draw(rt, "media1"), RelIDs: rapid.IntRange(0, 2).Draw(rt, "relids"), JpgCT: rapid.Bool().Draw(rt, "jpgct")}
		if !f.any() {
			return
		}
		document.VerifResetGlobals()
		var b0 []byte
		var err error
		if p, _ := kit.Try(func() {
			var d *document.Document
			if d, err = build(&c); err == nil {
				b0, err = d.ToBytes()
			}
		}); p != nil || err != nil {
			return
		}
		fb := foreignize(b0, f)
		v0, e0 := viewOf(b0)
		v1, e1 := viewOf(fb)
		if e0 != nil || e1 != nil {
			rt.Fatalf("unreadable: %v / %v", e0, e1)
		}
		n++
		if d := sameBody(v0, v1); d != "" {
			rt.Fatalf("%+v: the rewritten package shows another body: %s", *f, d)
		}
		if len(v0.pkg.Parts) != len(v1.pkg.Parts) {
			rt.Fatalf("%+v: %d parts became %d", *f, len(v0.pkg.Parts), len(v1.pkg.Parts))
		}
		for _, r := range v1.pkg.RelsOf("word/document.xml") {
			if r.External() {
				continue
			}
			isHF := strings.HasSuffix(r.Type, "/header") || strings.HasSuffix(r.Type, "/footer")
			if (f.AbsAll || (f.AbsHF && isHF)) && !strings.HasPrefix(r.Target, "/") {
				rt.Fatalf("%+v: target %q is not absolute", *f, r.Target)
			}
			if _, ok := v1.pkg.Parts[r.Resolved]; !ok {
				rt.Fatalf("%+v: relationship %s -> %q resolves to no part", *f, r.ID, r.Target)
			}
			if f.RelIDs == 2 && strings.HasPrefix(r.ID, "rId") {
				rt.Fatalf("%+v: id %q kept", *f, r.ID)
			}
		}
		for _, name := range v1.pkg.SortedNames() {
			if _, ok := v1.pkg.ContentTypeOf(name); !ok && name != "[Content_Types].xml" && !strings.HasSuffix(name, "/") {
				rt.Fatalf("%+v: part %s of the rewritten package has no content type", *f, name)
			}
			if f.JpgCT && strings.HasSuffix(name, ".jpeg") {
				rt.Fatalf("%+v: part %s kept its name", *f, name)
			}
		}
		if f.JpgCT && (v1.pkg.Defaults["jpg"] != "image/jpeg" || v1.pkg.Defaults["jpeg"] != "") {
			rt.Fatalf("%+v: Defaults %v", *f, v1.pkg.Defaults)
		}
		if f.Media1 {
			if _, ok := v1.pkg.Parts["word/media/image0.png"]; ok {
				rt.Fatalf("%+v: image0.png still there", *f)
			}
		}
		// what the library's reader makes of it
		var b1 []byte
		if p, _ := kit.Try(func() {
			path := fmt.Sprintf("%s/c18-fs-%d.docx", kit.Scratch, os.Getpid())
			if os.WriteFile(path, fb, 0o644) != nil {
				return
			}
			defer os.Remove(path)
			var d *document.Document
			if d, err = document.Open(path); err == nil {
				b1, err = d.ToBytes()
			}
		}); p != nil || err != nil || b1 == nil {
			rt.Fatalf("%+v: the library cannot open/re-save the rewritten file: %v %v", *f, p, err)
		}
		v2, e2 := viewOf(b1)
		if e2 != nil {
			rt.Fatalf("re-saved: %v", e2)
		}
		if d := sameBody(v0, v2); d != "" {
			lost++
			if firstLost == "" {
				firstLost = fmt.Sprintf("%+v: %s", *f, d)
			}
		} else {
			kept++
		}
	})
	fmt.Printf("FOREIGN-SELF %d rewritten files equivalent by the independent reader; opened and re-saved by the library: body kept %d, body differs %d (%s)\n", n, kept, lost, firstLost)
}

// sameBody compares two views block by block: paragraph atoms (text, format, non-text signatures with pictures by
// content hash), paragraph properties, tables, section settings with header/footer references by resolved part.
func sameBody(a, b *pkgView) string {
	var cmp func(path string, x, y []block) string
	cmp = func(path string, x, y []block) string {
		if len(x) != len(y) {
			return fmt.Sprintf("%s: %d blocks vs %d", path, len(x), len(y))
		}
		for i := range x {
			p := fmt.Sprintf("%s/%s[%d]", path, x[i].kind(), i)
			if x[i].kind() != y[i].kind() {
				return p + ": kind " + y[i].kind()
			}
			switch {
			case x[i].p != nil:
				if x[i].p.ppr != y[i].p.ppr || len(x[i].p.atoms) != len(y[i].p.atoms) {
					return p + ": paragraph differs"
				}
				for k := range x[i].p.atoms {
					if x[i].p.atoms[k] != y[i].p.atoms[k] {
						return fmt.Sprintf("%s: atom %d %+v vs %+v", p, k, x[i].p.atoms[k], y[i].p.atoms[k])
					}
				}
			case x[i].t != nil:
				if x[i].t.tblPr != y[i].t.tblPr || x[i].t.grid != y[i].t.grid || len(x[i].t.rows) != len(y[i].t.rows) {
					return p + ": table differs"
				}
				for r := range x[i].t.rows {
					xr, yr := x[i].t.rows[r], y[i].t.rows[r]
					if xr.trPr != yr.trPr || len(xr.cells) != len(yr.cells) {
						return fmt.Sprintf("%s/tr[%d]: row differs", p, r)
					}
					for c := range xr.cells {
						if xr.cells[c].tcPr != yr.cells[c].tcPr {
							return fmt.Sprintf("%s/tr[%d]/tc[%d]: cell properties differ", p, r, c)
						}
						if d := cmp(fmt.Sprintf("%s/tr[%d]/tc[%d]", p, r, c), xr.cells[c].blocks, yr.cells[c].blocks); d != "" {
							return d
						}
					}
				}
			case x[i].sect != nil:
				if s1, s2 := a.sectSig(x[i].sect), b.sectSig(y[i].sect); s1 != s2 {
					return p + ": section settings " + s1 + " vs " + s2
				}
			default:
				if x[i].other != y[i].other {
					return p + ": element differs"
				}
			}
		}
		return ""
	}
	return cmp("body", a.blocks, b.blocks)
}

package c18

// Independent read-only view of a saved package (internal/opc + internal/canon only): body blocks,
// paragraphs as sequences of atoms (one per character of w:t text, one per non-text run child),
// tables as rows/cells with their property elements. Nothing here touches pkg/document.

import (
	"crypto/sha1"
	"encoding/hex"
	"sort"
	"strings"

	"wzverif/internal/canon"
	"wzverif/internal/opc"
)

type atom struct {
	text bool
	ch   rune
	kind string // non-text: local element name (br, drawing, fldChar, instrText, ...)
	sig  string // non-text: canonical form (relationship ids of pictures replaced by the hash of the target bytes)
	pic  string // drawing: sha1 of the first embedded picture ("" if none / unresolved)
	fmt  string // canonical w:rPr of the run the atom sits in ("" = none or empty)
}

type para struct {
	ppr     string            // canonical w:pPr ("" when absent or empty)
	pprKids map[string]string // child element name -> canonical form
	atoms   []atom
}

type cell struct {
	tcPr   string
	blocks []block
}

type row struct {
	trPr  string
	cells []cell
}

type table struct {
	tblPr, grid string
	rows        []row
}

type block struct {
	p     *para
	t     *table
	sect  *canon.Node
	other string
}

func (b block) kind() string {
	switch {
	case b.p != nil:
		return "p"
	case b.t != nil:
		return "tbl"
	case b.sect != nil:
		return "sectPr"
	}
	return "other"
}

type pkgView struct {
	pkg    *opc.Package
	main   string // name of the main part
	root   *canon.Node
	blocks []block
	rels   map[string]opc.Rel // relationships of the main part by id
}

func hashOf(b []byte) string {
	h := sha1.Sum(b)
	return hex.EncodeToString(h[:8])
}

func nodeStr(n *canon.Node) string {
	if n == nil {
		return ""
	}
	if len(n.Kids) == 0 && len(n.Attrs) == 0 && strings.TrimSpace(n.Text) == "" {
		return "" // an empty property container says nothing
	}
	return n.String()
}

func viewOf(raw []byte) (*pkgView, error) {
	pkg, err := opc.Read(raw)
	if err != nil {
		return nil, err
	}
	v := &pkgView{pkg: pkg, main: "word/document.xml", rels: map[string]opc.Rel{}}
	if mp := pkg.MainParts(); len(mp) > 0 {
		v.main = mp[0].Resolved
	}
	data, ok := pkg.Parts[v.main]
	if !ok {
		return nil, errf("main part %q missing", v.main)
	}
	root, err := canon.Parse(data)
	if err != nil {
		return nil, errf("main part: %v", err)
	}
	v.root = root
	for _, r := range pkg.RelsOf(v.main) {
		v.rels[r.ID] = r
	}
	body := root.Kid(canon.W, "body")
	if body == nil {
		return nil, errf("main part has no w:body")
	}
	v.blocks = v.blocksOf(body)
	return v, nil
}

type viewErr string

func (e viewErr) Error() string { return string(e) }
func errf(f string, a ...interface{}) error {
	return viewErr(sprintf(f, a...))
}

func (v *pkgView) blocksOf(parent *canon.Node) []block {
	var out []block
	for _, k := range parent.Kids {
		switch {
		case k.Is(canon.W, "p"):
			out = append(out, block{p: v.paraOf(k)})
		case k.Is(canon.W, "tbl"):
			out = append(out, block{t: v.tableOf(k)})
		case k.Is(canon.W, "sectPr"):
			out = append(out, block{sect: k})
		case k.Is(canon.W, "tcPr"):
		default:
			out = append(out, block{other: k.String()})
		}
	}
	return out
}

func (v *pkgView) paraOf(n *canon.Node) *para {
	p := &para{pprKids: map[string]string{}}
	for _, k := range n.Kids {
		switch {
		case k.Is(canon.W, "pPr"):
			p.ppr = nodeStr(k)
			for _, pk := range k.Kids {
				p.pprKids[pk.Local] += pk.String()
			}
		case k.Is(canon.W, "r"):
			f := nodeStr(k.Kid(canon.W, "rPr"))
			for _, rk := range k.Kids {
				switch {
				case rk.Is(canon.W, "rPr"):
				case rk.Is(canon.W, "t"):
					for _, ch := range textAsRead(rk) {
						p.atoms = append(p.atoms, atom{text: true, ch: ch, fmt: f})
					}
				default:
					a := atom{kind: rk.Local, fmt: f}
					a.sig, a.pic = v.sigOf(rk)
					p.atoms = append(p.atoms, a)
				}
			}
		default:
			// paragraph-level non-run content (bookmarks, math, ...): an atom of its own kind
			p.atoms = append(p.atoms, atom{kind: "p:" + k.Local, sig: k.String()})
		}
	}
	return p
}

// textAsRead is the text of a w:t as a consumer of the saved file reads it: unless xml:space="preserve" is in force
// (on the element or inherited), white space at the edges of the character data is insignificant and is dropped (Word
// and every reader that follows ECMA-376 17.3.3.31 / XML 1.0 2.10 do so), so blanks that were supplied in a value or
// stood at a run edge of the base only count when the file really carries them.
func textAsRead(t *canon.Node) string {
	for n := t; n != nil; n = n.Parent {
		v, ok := n.Attr(canon.XML, "space")
		if !ok {
			v, ok = n.Attr("xml", "space")
		}
		if ok {
			if v == "preserve" {
				return t.Text
			}
			break
		}
	}
	return strings.Trim(t.Text, " \t\r\n")
}

// sigOf renders a non-text run child; r:embed / r:id / r:link values are replaced by the hash of the bytes they resolve to.
func (v *pkgView) sigOf(n *canon.Node) (sig, pic string) {
	var b strings.Builder
	var w func(x *canon.Node)
	w = func(x *canon.Node) {
		b.WriteString("<" + x.Name())
		for _, a := range x.Attrs {
			val := a.Value
			if a.Space == canon.R {
				h := "unresolved:" + val
				if r, ok := v.rels[val]; ok {
					if r.External() {
						h = "ext:" + r.Target
					} else if data, ok := v.pkg.Parts[r.Resolved]; ok {
						h = "sha1:" + hashOf(data)
					}
				}
				if a.Local == "embed" && pic == "" {
					pic = h
				}
				val = h
			}
			b.WriteString(" " + a.Local + "=" + quote(val))
		}
		b.WriteString(">")
		if x.Text != "" {
			b.WriteString(quote(x.Text))
		}
		for _, k := range x.Kids {
			w(k)
		}
		b.WriteString("</>")
	}
	w(n)
	return b.String(), pic
}

func (v *pkgView) tableOf(n *canon.Node) *table {
	t := &table{tblPr: nodeStr(n.Kid(canon.W, "tblPr")), grid: nodeStr(n.Kid(canon.W, "tblGrid"))}
	for _, rn := range n.KidsNamed(canon.W, "tr") {
		r := row{trPr: nodeStr(rn.Kid(canon.W, "trPr"))}
		for _, cn := range rn.KidsNamed(canon.W, "tc") {
			c := cell{tcPr: nodeStr(cn.Kid(canon.W, "tcPr"))}
			c.blocks = v.blocksOf(cn)
			r.cells = append(r.cells, c)
		}
		t.rows = append(t.rows, r)
	}
	return t
}

func (p *para) text() string {
	var b strings.Builder
	for _, a := range p.atoms {
		if a.text {
			b.WriteRune(a.ch)
		}
	}
	return b.String()
}

// textAtoms returns the text atoms and, for every non-text atom, the number of text atoms before it.
func splitAtoms(as []atom) (txt []atom, non []atom, pos []int) {
	for _, a := range as {
		if a.text {
			txt = append(txt, a)
		} else {
			non = append(non, a)
			pos = append(pos, len(txt))
		}
	}
	return
}

func atomsText(as []atom) string {
	var b strings.Builder
	for _, a := range as {
		if a.text {
			b.WriteRune(a.ch)
		}
	}
	return b.String()
}

func distinctFormats(as []atom) int {
	m := map[string]bool{}
	for _, a := range as {
		if a.text {
			m[a.fmt] = true
		}
	}
	return len(m)
}

func sortedKeys(m map[string]string) []string {
	ks := make([]string, 0, len(m))
	for k := range m {
		ks = append(ks, k)
	}
	sort.Strings(ks)
	return ks
}

package c18

import (
	"strconv"
	"strings"

	"wzverif/internal/kit"
)

// Every failure detail starts with a tag {k=v;...} that describes the INPUT class of the paragraph / table / part the
// failure is about (computed by the reference from the base document and the data, never from the rendered output),
// plus a short classification of what differs. Triggers read that tag, so a finding absorbs exactly its own shape.

func tagOf(detail string) map[string]string {
	m := map[string]string{}
	if !strings.HasPrefix(detail, "{") {
		return m
	}
	end := strings.Index(detail, "}")
	if end < 0 {
		return m
	}
	for _, kv := range strings.Split(detail[1:end], ";") {
		if i := strings.Index(kv, "="); i > 0 {
			m[kv[:i]] = kv[i+1:]
		}
	}
	return m
}

func subset(list string, allowed ...string) bool {
	if list == "" {
		return false
	}
	for _, x := range strings.Split(list, ",") {
		ok := false
		for _, a := range allowed {
			if x == a {
				ok = true
			}
		}
		if !ok {
			return false
		}
	}
	return true
}

func num(s string) int { n, _ := strconv.Atoi(s); return n }

var clonePropsLost = []string{"keepNext", "keepLines", "pageBreakBefore", "widowControl", "outlineLvl", "pBdr", "snapToGrid"}

var findings = []kit.Finding[Case]{
	{
		ID: "KF-C18-clone-props", Clause: "C18.W3.ppr",
		Desc: "the template clone copies only style, numbering, spacing, alignment, indentation and tabs of a paragraph: keep-next, keep-lines, page-break-before, widow control, outline level, borders and snap-to-grid are gone in the rendered document, with or without data",
		Trigger: func(c Case, f kit.Failure) bool {
			t := tagOf(f.Detail)
			return subset(t["pprlost"], clonePropsLost...) && t["pprchanged"] == "" && t["ppradded"] == ""
		},
	},
	{
		ID: "KF-C18-clone-break", Clause: "C18.W3.nontext",
		Desc: "the template clone does not copy the break of a run: page breaks inside paragraphs are gone in the rendered document, with or without data",
		Trigger: func(c Case, f kit.Failure) bool {
			t := tagOf(f.Detail)
			return t["lost"] == "br" && t["extra"] == ""
		},
	},
	{
		ID: "KF-C18-rebuild-nontext", Clause: "C18.W3.nontext",
		Desc: "a paragraph in which a variable is substituted is rebuilt from its text runs only: pictures, breaks and field runs of that paragraph vanish",
		Trigger: func(c Case, f kit.Failure) bool {
			t := tagOf(f.Detail)
			return num(t["sup"]) > 0 && !strings.HasPrefix(t["ctx"], "looprow") && subset(t["lost"], "br", "drawing", "fldChar", "instrText") && t["extra"] == ""
		},
	},
	{
		ID: "KF-C18-unsupplied-straddle", Clause: "C18.W2",
		Desc: "in a paragraph where some placeholder is supplied, an UNsupplied placeholder whose characters lie in differently formatted runs is re-emitted as one run with the format of its first character",
		Trigger: func(c Case, f kit.Failure) bool {
			t := tagOf(f.Detail)
			return t["w2"] == "ustrad" && t["ustrad"] == "1" && num(t["sup"]) > 0 && !strings.HasPrefix(t["ctx"], "looprow")
		},
	},
	{
		ID: "KF-C18-looprow-collapse", Clause: "C18.W",
		Desc: "every paragraph of an expanded loop row is rebuilt as ONE run carrying the format of the first formatted/non-empty run: per-run formatting and run breaks of loop-row cells are lost",
		Trigger: func(c Case, f kit.Failure) bool {
			t := tagOf(f.Detail)
			if !strings.HasPrefix(t["ctx"], "looprow") {
				return false
			}
			if strings.HasPrefix(f.Clause, "C18.W2") {
				return num(t["fmts"]) >= 2
			}
			if strings.HasPrefix(f.Clause, "C18.W3.nontext") {
				return subset(t["lost"], "br") && t["extra"] == ""
			}
			return false
		},
	},
	{
		ID: "KF-C18-looptable-other-rows", Clause: "C18.W",
		Desc: "in a table that has a loop row only the loop row is processed: supplied placeholders in the rows before/after it stay unreplaced and loop rows of tables nested in those rows are not expanded",
		Trigger: func(c Case, f kit.Failure) bool {
			t := tagOf(f.Detail)
			if !strings.Contains(t["ctx"], "loopother") {
				return false
			}
			switch {
			case strings.HasPrefix(f.Clause, "C18.W1"):
				return num(t["sup"]) > 0 || strings.HasPrefix(t["ctx"], "looprow")
			case strings.HasPrefix(f.Clause, "C18.W4.rows"):
				return t["loop"] == "1"
			}
			return false
		},
	},
	{
		ID: "KF-C18-image-text-format", Clause: "C18.W2",
		Desc: "text that stands in the same paragraph as an image placeholder is re-emitted in the paragraph's FIRST run (whatever run it came from): its run formatting changes",
		Trigger: func(c Case, f kit.Failure) bool {
			t := tagOf(f.Detail)
			return t["w2"] == "imagepara" && strings.HasPrefix(t["ctx"], "imagepara")
		},
	},
	{
		ID: "KF-C18-package-rels", Clause: "C18.W5.rels",
		Desc: "the rendered document starts from a new empty document and takes over parts, main-part relationships and content types only: package relationships of the template file other than the main-part one (core/extended properties) are dropped, the docProps parts stay as orphans",
		Trigger: func(c Case, f kit.Failure) bool {
			t := tagOf(f.Detail)
			return c.Entry == 2 && t["part"] == "_rels/.rels" && t["extra"] == "0"
		},
	},
	{
		ID: "KF-C18-image-slice", Clause: "C18.W",
		Desc:    "the image-placeholder pass replaces elements of the body (and of a cell) while ranging over them: after a placeholder paragraph that expands into several paragraphs, a later image placeholder of the same container stays unreplaced or the wrong element is overwritten",
		Trigger: func(c Case, f kit.Failure) bool { return tagOf(f.Detail)["d25"] == "1" },
	},
}

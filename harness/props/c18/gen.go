package c18

import (
	"sort"
	"strconv"
	"strings"

	"pgregory.net/rapid"

	"wzverif/internal/gen"
	"wzverif/internal/kit"
	"wzverif/internal/ops"
)

// Name pools: pairwise disjoint and disjoint from the directive keywords (each, if, else, image, block, extends, this, index, first, last).
var (
	varNames   = []string{"name", "city", "qty", "code", "v1", "total_sum", "v10", "Name", "_id"} // v1 is a prefix of v10; Name and name differ by case only
	hfNames    = []string{"doc_no", "rev"}                                                        // used in headers/footers only: their values may hold characters XML cannot carry
	fieldNames = []string{"item", "price", "note", "sku"}
	listNames  = []string{"rows", "lines", "entries"}
	imgNames   = []string{"logo", "chart", "photo"}
	condNames  = []string{"vip", "paid", "draft"}
)

var bodyPalette = []*ops.Fmt{nil, {Bold: true}, {Italic: true}, {Bold: true, Color: "FF0000"}, {Size: 14, Font: "Arial"}, {Underline: true, Highlight: "yellow"}, {Strike: true, Color: "0000FF"}}
var cellPalette = []*ops.Fmt{nil, {Bold: true}, {Italic: true}, {Bold: true, Color: "FF0000"}, {Size: 14, Font: "Arial"}}

var litWords = []string{"Hello", "world", " ", "a", "x1", "Total:", "42", "(z)", "v=1;w=2", "中文", "é", "😀", "שלום", "<", "&", ">", "\"", "'", "a<b&c>d", "]]>", "&amp;", "  ", "\t", "-", "Dear "}
var plainWords = []string{"Hello", "world", "a", "x1", "Total:", "42", "(z)", "中文", "é", "<&>", "No. ", "-", "😀"}
var braceWords = []string{"{", "}", "{{", "}}", "{ {", "} }", "{}"}
var valueExtras = []string{"{", "}", "}}", "{x}", "a{b", "} {"}

// substWords: characters that mean something to OTHER substitution mechanisms (regexp replacement templates, printf
// verbs, sed, shell, backslash escapes). In a value they are ordinary text: prices, paths, percentages.
var substWords = []string{"$1", "$0", "${x}", "${1}", "$name", "US$100", "$", "$$", "$&", "\\1", "\\0", "\\", "\\n", "%s", "%d", "%v", "%", "100%", "%%", "%!", "&1", "\\$", "a$b", "$_x", "C:\\dir\\1"}

// blanks draws the white space between a directive keyword and its name: the one documented blank in about half of the
// draws, otherwise one to three blanks/tabs (spellings the documentation does not show; see scan.go).
func blanks(t *rapid.T, label string) string {
	return rapid.SampledFrom([]string{" ", " ", " ", " ", " ", "  ", "\t", "   ", " \t", "\t ", "\t\t", "  \t"}).Draw(t, label)
}

// Look-alikes: texts that become a documented placeholder/directive once blanks are dropped or letters lower-cased, but
// are none by the documentation (and by the library's own detection): literal text that has to stay as it is.
var (
	lookVar   = []string{"{{ %s }}", "{{%s }}", "{{ %s}}", "{{\t%s}}", "{{%s\t}}", "{{  %s  }}"}
	lookOpen  = []string{"{{#each %s }}", "{{ #each %s}}", "{{#Each %s}}", "{{#EACH %s}}", "{{# each %s}}", "{{#each %s\t}}", "{{ #each  %s }}"}
	lookClose = []string{"{{/each }}", "{{ /each}}", "{{/Each}}", "{{/ each}}", "{{/EACH}}", ""}
	lookImage = []string{"{{#image %s }}", "{{ #image %s}}", "{{#Image %s}}", "{{#IMAGE %s}}", "{{# image %s}}"}
)

func lookalike(t *rapid.T, names []string) string {
	switch rapid.IntRange(0, 5).Draw(t, "look") {
	case 0:
		return strings.Replace(rapid.SampledFrom(lookOpen).Draw(t, "look-open"), "%s", rapid.SampledFrom(listNames).Draw(t, "look-list"), 1)
	case 1:
		return rapid.SampledFrom(lookClose[:5]).Draw(t, "look-close")
	case 2:
		return strings.Replace(rapid.SampledFrom(lookImage).Draw(t, "look-image"), "%s", rapid.SampledFrom(imgNames).Draw(t, "look-img"), 1)
	}
	return strings.Replace(rapid.SampledFrom(lookVar).Draw(t, "look-var"), "%s", rapid.SampledFrom(names).Draw(t, "look-name"), 1)
}

// genCond draws one conditional block {{#if<blanks>cond}}words[{{else}}words]{{/if}} (brace-free words, no placeholders inside).
func genCond(t *rapid.T) string {
	w := func(l string) string {
		return rapid.SampledFrom(plainWords).Draw(t, l) + rapid.SampledFrom([]string{"", " ", " ok"}).Draw(t, l+"2")
	}
	s := "{{#if" + blanks(t, "if-ws") + rapid.SampledFrom(condNames).Draw(t, "cond") + "}}" + w("if-body")
	if rapid.IntRange(0, 2).Draw(t, "if-else") == 0 {
		s += "{{else}}" + w("else-body")
	}
	return s + "{{/if}}"
}

// genCondPara: a paragraph of ONE format (cut into runs, also inside the markers) without non-text runs that holds one
// conditional block between ordinary tokens.
func genCondPara(t *rapid.T, names []string, pal []*ops.Fmt, words []string) *Para {
	text := genTokens(t, names, 3, true, words) + genCond(t) + genTokens(t, names, 3, true, words)
	return &Para{Runs: cutRuns(t, text, pal, 4, true)}
}

func pickFmt(t *rapid.T, pal []*ops.Fmt, label string) *ops.Fmt {
	f := rapid.SampledFrom(pal).Draw(t, label)
	if f == nil {
		return nil
	}
	cp := *f
	return &cp
}

// genTokens draws the text of a paragraph as tokens: literals, lone braces, name-like literals and placeholders.
func genTokens(t *rapid.T, names []string, maxTok int, braces bool, words []string) string {
	n := rapid.IntRange(0, maxTok).Draw(t, "ntok")
	if maxTok > 16 {
		n = rapid.IntRange(12, maxTok).Draw(t, "ntok-many")
	}
	var b strings.Builder
	for i := 0; i < n; i++ {
		k := rapid.IntRange(0, 10).Draw(t, "tok")
		switch {
		case k == 10:
			if braces && len(names) > 0 && rapid.Bool().Draw(t, "tok-look") {
				b.WriteString(lookalike(t, names))
			} else {
				b.WriteString(rapid.SampledFrom(words).Draw(t, "lit"))
			}
		case k <= 3 && len(names) > 0:
			b.WriteString("{{" + rapid.SampledFrom(names).Draw(t, "ph") + "}}")
		case k == 4 && braces:
			b.WriteString(rapid.SampledFrom(braceWords).Draw(t, "brace"))
		case k == 5 && braces && len(names) > 0:
			b.WriteString(rapid.SampledFrom(names).Draw(t, "namelit")) // a name as literal text: may combine with braces
		default:
			b.WriteString(rapid.SampledFrom(words).Draw(t, "lit"))
		}
	}
	return b.String()
}

// cutRuns cuts text into 1..maxRuns text runs at drawn rune positions (half of them inside a placeholder when there is one).
func cutRuns(t *rapid.T, text string, pal []*ops.Fmt, maxCuts int, sameFmt bool) []Run {
	rs := []rune(text)
	if len(rs) == 0 {
		return []Run{{K: "t", T: "", F: pickFmt(t, pal, "fmt")}}
	}
	var spans []span
	spans = append(spans, scanVars(rs)...)
	spans = append(spans, scanDirective(rs, "each")...)
	spans = append(spans, scanDirective(rs, "image")...)
	spans = append(spans, scanLiteral(rs, "{{/each}}")...)
	spans = append(spans, scanDirective(rs, "if")...)
	spans = append(spans, scanLiteral(rs, "{{else}}")...)
	spans = append(spans, scanLiteral(rs, "{{/if}}")...)
	cuts := map[int]bool{}
	nc := rapid.IntRange(0, maxCuts).Draw(t, "ncuts")
	if maxCuts > 10 {
		nc = rapid.IntRange(10, maxCuts).Draw(t, "ncuts-many")
	}
	for i := 0; i < nc && len(rs) > 1; i++ {
		if len(spans) > 0 && rapid.Bool().Draw(t, "cut-in-ph") {
			sp := spans[rapid.IntRange(0, len(spans)-1).Draw(t, "cut-span")]
			cuts[rapid.IntRange(sp.s+1, sp.e-1).Draw(t, "cut-pos")] = true
		} else {
			cuts[rapid.IntRange(1, len(rs)-1).Draw(t, "cut-pos")] = true
		}
	}
	var ps []int
	for p := range cuts {
		ps = append(ps, p)
	}
	sort.Ints(ps)
	ps = append(ps, len(rs))
	var runs []Run
	prev := 0
	var f0 *ops.Fmt
	for i, p := range ps {
		f := pickFmt(t, pal, "fmt")
		if sameFmt {
			if i == 0 {
				f0 = f
			}
			f = f0
		}
		runs = append(runs, Run{K: "t", T: string(rs[prev:p]), F: f})
		prev = p
	}
	return runs
}

// insertNonText inserts 0..2 non-text runs at run boundaries that are not strictly inside a placeholder.
func insertNonText(t *rapid.T, runs []Run, kinds []string) []Run {
	n := rapid.IntRange(0, 5).Draw(t, "nnontext")
	if n > 2 {
		return runs
	}
	if n == 0 {
		n = 1
	}
	for i := 0; i < n; i++ {
		var text []rune
		bounds := []int{0}
		for _, r := range runs {
			if r.K == "t" {
				text = append(text, []rune(r.T)...)
			}
			bounds = append(bounds, len(text))
		}
		var spans []span
		spans = append(spans, scanVars(text)...)
		spans = append(spans, scanDirective(text, "each")...)
		spans = append(spans, scanDirective(text, "image")...)
		spans = append(spans, scanLiteral(text, "{{/each}}")...)
		var allowed []int
		for idx, off := range bounds {
			in := false
			for _, sp := range spans {
				if off > sp.s && off < sp.e {
					in = true
				}
			}
			if !in {
				allowed = append(allowed, idx)
			}
		}
		at := allowed[rapid.IntRange(0, len(allowed)-1).Draw(t, "nontext-at")]
		k := rapid.SampledFrom(kinds).Draw(t, "nontext-kind")
		nr := Run{K: k}
		if k == "pic" {
			im := gen.Image(t, "pic")
			im.Name = "p.png"
			nr.Img = &im
		}
		out := append([]Run{}, runs[:at]...)
		out = append(out, nr)
		runs = append(out, runs[at:]...)
	}
	return runs
}

func genSets(t *rapid.T, customStyle string) []PSet {
	if rapid.Bool().Draw(t, "nosets") {
		return nil
	}
	n := rapid.IntRange(1, 3).Draw(t, "nsets")
	var out []PSet
	for i := 0; i < n; i++ {
		k := rapid.SampledFrom([]string{"align", "align", "spacing", "indent", "keepnext", "keeplines", "pbb", "widow", "outline", "snap", "style", "border"}).Draw(t, "set")
		s := PSet{K: k}
		switch k {
		case "align":
			s.I = []int{rapid.IntRange(0, 3).Draw(t, "al")}
		case "spacing":
			s.F = []float64{float64(rapid.IntRange(2, 6).Draw(t, "ls")) / 2}
			s.I = []int{rapid.IntRange(0, 24).Draw(t, "before"), rapid.IntRange(0, 24).Draw(t, "after"), rapid.IntRange(0, 30).Draw(t, "fli")}
		case "indent":
			s.F = []float64{float64(rapid.IntRange(0, 4).Draw(t, "i0")) / 2, float64(rapid.IntRange(0, 4).Draw(t, "i1")) / 2, float64(rapid.IntRange(0, 2).Draw(t, "i2")) / 2}
		case "keepnext", "keeplines", "pbb", "widow", "snap":
			s.B = rapid.IntRange(0, 3).Draw(t, "on") > 0
		case "outline":
			s.I = []int{rapid.IntRange(0, 8).Draw(t, "lvl")}
		case "style":
			ids := []string{"Heading1", "Heading2", "Quote", "Title"}
			if customStyle != "" {
				ids = append(ids, customStyle, customStyle)
			}
			s.S = rapid.SampledFrom(ids).Draw(t, "styleid")
		case "border":
			s.I = []int{rapid.IntRange(0, 3).Draw(t, "bst"), rapid.IntRange(0, 19).Draw(t, "bsz")}
		}
		out = append(out, s)
	}
	return out
}

func genBodyPara(t *rapid.T, customStyle string) *Para {
	if rapid.IntRange(0, 11).Draw(t, "condpara") == 0 {
		p := genCondPara(t, varNames, bodyPalette, litWords)
		p.Sets = genSets(t, customStyle)
		return p
	}
	p := &Para{}
	maxTok, maxCuts := 7, 5
	if rapid.IntRange(0, 24).Draw(t, "longpara") == 11 {
		maxTok, maxCuts = 24, 14 // past ten placeholders / ten runs in one paragraph
	}
	text := genTokens(t, varNames, maxTok, true, litWords)
	p.Runs = cutRuns(t, text, bodyPalette, maxCuts, false)
	if rapid.IntRange(0, 9).Draw(t, "list") == 0 {
		p.List = true
		p.Runs[0].F = nil
	}
	p.Runs = insertNonText(t, p.Runs, []string{"br", "br", "pic", "fld"})
	p.Sets = genSets(t, customStyle)
	return p
}

// genGallery appends the picture paragraphs (8-14 pictures; of one format - that of a supplied placeholder image when
// there is one - in two of three draws, otherwise of drawn formats) and, mostly, an image-placeholder paragraph after them.
func genGallery(t *rapid.T, c *Case) {
	n := rapid.IntRange(8, 14).Draw(t, "gallery-n")
	one := ""
	if rapid.IntRange(0, 2).Draw(t, "gallery-onefmt") > 0 {
		one = rapid.SampledFrom([]string{"png", "jpeg", "gif"}).Draw(t, "gallery-fmt")
		for _, name := range imgNames {
			if im, ok := c.Data.Imgs[name]; ok {
				one = im.Fmt
				break
			}
		}
	}
	np := rapid.IntRange(1, 3).Draw(t, "gallery-paras")
	paras := make([]*Para, np)
	for i := range paras {
		paras[i] = &Para{}
		if rapid.IntRange(0, 2).Draw(t, "gallery-caption") == 0 {
			paras[i].Runs = append(paras[i].Runs, Run{K: "t", T: rapid.SampledFrom(plainWords).Draw(t, "gallery-word")})
		}
	}
	for i := 0; i < n; i++ {
		im := gen.Image(t, "gpic")
		im.Name = "p.png"
		im.W, im.H = 1+im.W%9, 1+im.H%7 // small pictures: what matters here is how many there are
		if one != "" {
			im.Fmt = one
		}
		p := paras[i*np/n]
		p.Runs = append(p.Runs, Run{K: "pic", Img: &im})
	}
	for _, p := range paras {
		c.Blocks = append(c.Blocks, Block{P: p})
	}
	if rapid.IntRange(0, 3).Draw(t, "gallery-img") > 0 {
		c.Blocks = append(c.Blocks, Block{P: genImagePara(t, bodyPalette, c)})
	}
}

// genImagePara: a paragraph holding one or two image placeholders, optionally with non-blank text around them.
// A placeholder whose image has no data stands alone in its paragraph.
func genImagePara(t *rapid.T, pal []*ops.Fmt, c *Case) *Para {
	p := &Para{}
	around := func(l string) string {
		if rapid.IntRange(0, 2).Draw(t, l) == 0 {
			return rapid.SampledFrom(plainWords).Draw(t, l+"w") + rapid.SampledFrom([]string{"", " x", "y"}).Draw(t, l+"w2")
		}
		return ""
	}
	var with []string
	for _, n := range imgNames {
		if _, ok := c.Data.Imgs[n]; ok {
			with = append(with, n)
		}
	}
	name := rapid.SampledFrom(imgNames).Draw(t, "img")
	var text string
	if _, ok := c.Data.Imgs[name]; !ok {
		text = "{{#image" + blanks(t, "img-ws") + name + "}}"
	} else {
		text = around("pre") + "{{#image" + blanks(t, "img-ws") + name + "}}" + around("post")
		if rapid.IntRange(0, 5).Draw(t, "img2") == 0 {
			text += "{{#image" + blanks(t, "img2-ws") + rapid.SampledFrom(with).Draw(t, "img2n") + "}}" + around("post2")
		}
	}
	p.Runs = cutRuns(t, text, pal, 3, rapid.IntRange(0, 3).Draw(t, "img-samefmt") > 0)
	p.Sets = genSets(t, "")
	return p
}

func genCellPara(t *rapid.T, names []string, braces bool, prefix, suffix string) Para {
	words := litWords
	if !braces {
		words = plainWords
	}
	text := prefix + genTokens(t, names, 4, braces, words) + suffix
	p := Para{Runs: cutRuns(t, text, cellPalette, 3, false)}
	if rapid.IntRange(0, 5).Draw(t, "cell-br") == 0 {
		p.Runs = insertNonText(t, p.Runs, []string{"br", "br", "pic", "fld"})
	}
	if rapid.IntRange(0, 3).Draw(t, "cell-sets") == 0 {
		p.Sets = genSets(t, "")
	}
	return p
}

func genTable(t *rapid.T, c *Case, depth int, inLoopRow bool) *Table {
	maxR, maxC := 4, 3
	if depth > 0 {
		maxR, maxC = 2, 2
	}
	tb := &Table{Rows: rapid.IntRange(1, maxR).Draw(t, "rows"), Cols: rapid.IntRange(1, maxC).Draw(t, "cols"), LoopRow: -1}
	if depth == 0 {
		// now and then a table past nine columns or past ten rows
		switch rapid.IntRange(0, 29).Draw(t, "bigtable") {
		case 13:
			tb.Cols, tb.Rows = rapid.IntRange(10, 12).Draw(t, "cols-many"), rapid.IntRange(1, 2).Draw(t, "rows-few")
		case 17:
			tb.Rows, tb.Cols = rapid.IntRange(10, 13).Draw(t, "rows-many"), rapid.IntRange(1, 2).Draw(t, "cols-few")
		}
	}
	if !inLoopRow && rapid.IntRange(0, 9).Draw(t, "loop") < 5 {
		tb.LoopRow = rapid.IntRange(0, tb.Rows-1).Draw(t, "looprow")
		tb.List = rapid.SampledFrom(listNames).Draw(t, "list")
		genList(t, c, tb.List)
	}
	// a row that only looks like a loop row (markers in spellings that are no directives): an ordinary row
	fakeRow, fakeOpen, fakeClose := -1, "", ""
	if tb.LoopRow < 0 && !inLoopRow && rapid.IntRange(0, 7).Draw(t, "fakeloop") == 0 {
		fakeRow = rapid.IntRange(0, tb.Rows-1).Draw(t, "fakerow")
		l := rapid.SampledFrom(listNames).Draw(t, "fakelist")
		genList(t, c, l)
		fakeOpen = strings.Replace(rapid.SampledFrom(lookOpen).Draw(t, "fakeopen"), "%s", l, 1)
		fakeClose = rapid.SampledFrom(lookClose).Draw(t, "fakeclose")
	}
	names := varNames
	if inLoopRow {
		names = fieldNames
	}
	tb.Cells = make([][]Cell, tb.Rows)
	for r := 0; r < tb.Rows; r++ {
		tb.Cells[r] = make([]Cell, tb.Cols)
		for col := 0; col < tb.Cols; col++ {
			cell := &tb.Cells[r][col]
			if r == tb.LoopRow {
				// documented row-loop shape: the first cell opens the loop, the last one closes it, cells hold item fields
				// cells of 1-2 paragraphs, each cut into up to 5 differently formatted runs (cuts inside the markers and
				// the fields), with breaks, pictures and field runs between them and paragraph properties
				np := 1
				if rapid.IntRange(0, 3).Draw(t, "loop-2p") == 0 {
					np = 2
				}
				for pi := 0; pi < np; pi++ {
					text := genTokens(t, fieldNames, 4, false, plainWords)
					if rapid.IntRange(0, 7).Draw(t, "loop-look") == 0 {
						// a field name between braces and blanks is no placeholder: literal text in every generated row
						text += strings.Replace(rapid.SampledFrom(lookVar).Draw(t, "loop-lookv"), "%s", rapid.SampledFrom(fieldNames).Draw(t, "loop-lookn"), 1)
					}
					if col == 0 && pi == 0 {
						text = "{{#each" + blanks(t, "each-ws") + tb.List + "}}" + text
						if rapid.IntRange(0, 4).Draw(t, "each-lead") == 0 {
							text = rapid.SampledFrom(plainWords).Draw(t, "each-leadw") + text // the marker need not open the cell
						}
					}
					if col == tb.Cols-1 && pi == np-1 {
						text += "{{/each}}"
						if rapid.IntRange(0, 4).Draw(t, "each-trail") == 0 {
							text += rapid.SampledFrom(plainWords).Draw(t, "each-trailw")
						}
					}
					p := Para{Runs: cutRuns(t, text, cellPalette, 4, rapid.IntRange(0, 5).Draw(t, "loop-samefmt") == 0)}
					if rapid.IntRange(0, 2).Draw(t, "loop-nontext") == 0 {
						p.Runs = insertNonText(t, p.Runs, []string{"br", "br", "pic", "fld"})
					}
					if rapid.IntRange(0, 3).Draw(t, "loop-sets") == 0 {
						p.Sets = genSets(t, "")
					}
					cell.Paras = append(cell.Paras, p)
				}
				if depth == 0 && rapid.IntRange(0, 9).Draw(t, "loop-nested") == 0 {
					cell.Nested = genTable(t, c, depth+1, true)
				}
				continue
			}
			np := 1
			if rapid.IntRange(0, 4).Draw(t, "cell-2p") == 0 {
				np = 2
			}
			for i := 0; i < np; i++ {
				if depth == 0 && tb.LoopRow < 0 && !inLoopRow && rapid.IntRange(0, 14).Draw(t, "cell-img") == 0 {
					cell.Paras = append(cell.Paras, *genImagePara(t, cellPalette, c))
				} else {
					prefix, suffix := "", ""
					if r == fakeRow && col == 0 && i == 0 {
						prefix = fakeOpen
					}
					if r == fakeRow && col == tb.Cols-1 && i == np-1 {
						suffix = fakeClose
					}
					cell.Paras = append(cell.Paras, genCellPara(t, names, !inLoopRow, prefix, suffix))
				}
			}
			if rapid.IntRange(0, 5).Draw(t, "shade") == 0 {
				cell.Shade = rapid.SampledFrom([]string{"DDEEFF", "FFF2CC"}).Draw(t, "shadec")
			}
			if depth == 0 && rapid.IntRange(0, 7).Draw(t, "nested") == 0 {
				cell.Nested = genTable(t, c, depth+1, inLoopRow)
			}
		}
	}
	// one merge at most, never touching the loop row
	free := func(r int) bool { return r != tb.LoopRow }
	switch rapid.IntRange(0, 5).Draw(t, "merge") {
	case 0:
		if tb.Cols >= 2 {
			r := rapid.IntRange(0, tb.Rows-1).Draw(t, "mh-row")
			if free(r) {
				s := rapid.IntRange(0, tb.Cols-2).Draw(t, "mh-s")
				e := rapid.IntRange(s+1, tb.Cols-1).Draw(t, "mh-e")
				tb.MergeH = [][3]int{{r, s, e}}
			}
		}
	case 1:
		if tb.Rows >= 2 {
			r := rapid.IntRange(0, tb.Rows-2).Draw(t, "mv-row")
			if free(r) && free(r+1) {
				tb.MergeV = [][3]int{{r, r + 1, rapid.IntRange(0, tb.Cols-1).Draw(t, "mv-col")}}
			}
		}
	}
	if rapid.IntRange(0, 3).Draw(t, "hdrrow") == 0 {
		tb.Header = 1
	}
	if rapid.IntRange(0, 3).Draw(t, "rowh") == 0 {
		tb.Height = [2]int{1 + rapid.IntRange(0, tb.Rows-1).Draw(t, "rowh-r"), rapid.IntRange(10, 60).Draw(t, "rowh-h")}
	}
	return tb
}

// genList draws the items of a list (0-3 maps holding a drawn subset of the fields) unless the list has them already.
func genList(t *rapid.T, c *Case, list string) {
	if _, ok := c.Data.Lists[list]; ok {
		return
	}
	n := rapid.IntRange(0, 3).Draw(t, "nitems")
	switch rapid.IntRange(0, 59).Draw(t, "many-items") {
	case 5, 17, 29, 41, 53:
		n = rapid.IntRange(9, 13).Draw(t, "nitems-many") // past ten rows
	case 31:
		n = rapid.IntRange(62, 70).Draw(t, "nitems-huge") // past 64
	}
	items := make([]map[string]string, 0, n)
	for i := 0; i < n; i++ {
		it := map[string]string{}
		for _, f := range fieldNames {
			if rapid.IntRange(0, 4).Draw(t, "field-present") > 0 {
				if rapid.IntRange(0, 5).Draw(t, "field-int") == 0 {
					it[f] = strconv.Itoa(rapid.SampledFrom([]int{0, -1, 7, 10, 100, 65536, -250}).Draw(t, "field-intval"))
				} else {
					it[f] = genValue(t, false)
				}
			}
		}
		items = append(items, it)
	}
	c.Data.Lists[list] = items
}

func genValue(t *rapid.T, control bool) string {
	switch rapid.IntRange(0, 9).Draw(t, "val-kind") {
	case 0:
		return rapid.SampledFrom(valueExtras).Draw(t, "val-b")
	case 1, 2:
		var b strings.Builder
		for i, n := 0, rapid.IntRange(1, 3).Draw(t, "val-substn"); i < n; i++ {
			if rapid.IntRange(0, 2).Draw(t, "val-substw") == 0 {
				b.WriteString(rapid.SampledFrom(plainWords).Draw(t, "val-substword"))
			}
			b.WriteString(rapid.SampledFrom(substWords).Draw(t, "val-subst"))
		}
		return b.String()
	}
	classes := gen.Expressible
	if control {
		classes = append(append([]string{}, gen.Expressible...), gen.ClsControl, gen.ClsControl, gen.ClsControl)
	}
	s, _ := gen.Text(t, "val", classes...)
	for strings.Contains(s, "{{") {
		s = strings.ReplaceAll(s, "{{", "{")
	}
	return s
}

// genTyped draws a value of another Go type than string/int: int64, float64 (exact short decimals: both the shortest and
// the %v rendering give the same text), bool; zero and negative numbers included.
func genTyped(t *rapid.T) Val {
	switch rapid.IntRange(0, 3).Draw(t, "typed-kind") {
	case 0:
		return Val{S: strconv.FormatInt(int64(rapid.SampledFrom([]int{0, -1, 7, 10, 1 << 31, -(1 << 31), 9007199254740993, 1<<62 + 1}).Draw(t, "i64")), 10), K: "i64"}
	case 1:
		return Val{S: strconv.FormatBool(rapid.Bool().Draw(t, "bool")), K: "b"}
	}
	whole := rapid.SampledFrom([]int{0, 1, 2, 9, 10, 100, 1999, 65536}).Draw(t, "f-whole")
	frac := rapid.SampledFrom([]string{"", ".5", ".25", ".75", ".125"}).Draw(t, "f-frac")
	s := strconv.Itoa(whole) + frac
	if (whole != 0 || frac != "") && rapid.IntRange(0, 2).Draw(t, "f-neg") == 0 {
		s = "-" + s
	}
	return Val{S: s, K: "f"}
}

func genCase(t *rapid.T) Case {
	c := Case{Data: Data{Vars: map[string]Val{}, Lists: map[string][]map[string]string{}, Imgs: map[string]gen.Img{}}}
	for _, n := range imgNames {
		if rapid.IntRange(0, 3).Draw(t, "imgdata-"+n) > 0 {
			im := gen.Image(t, "imgdata")
			im.Name = n + ".png"
			c.Data.Imgs[n] = im
		}
	}
	c.Data.TypedItems = rapid.IntRange(0, 2).Draw(t, "typed-items") == 0
	if rapid.IntRange(0, 2).Draw(t, "custom-style") == 0 {
		c.CustomStyle = "VerifStyle"
	}
	nb := rapid.IntRange(1, kit.Scale(6, 9)).Draw(t, "nblocks")
	if rapid.IntRange(0, 39).Draw(t, "manyblocks") == 23 {
		nb = rapid.IntRange(10, 17).Draw(t, "nblocks-many")
	}
	// now and then a base document that already shows many pictures (around ten and beyond): one to three paragraphs of
	// inline pictures standing at a drawn block position
	galleryAt := -1
	if rapid.IntRange(0, 15).Draw(t, "gallery") == 0 {
		galleryAt = rapid.IntRange(0, nb-1).Draw(t, "gallery-at")
	}
	for i := 0; i < nb; i++ {
		if i == galleryAt {
			genGallery(t, &c)
		}
		switch k := rapid.IntRange(0, 9).Draw(t, "block"); {
		case k <= 5:
			c.Blocks = append(c.Blocks, Block{P: genBodyPara(t, c.CustomStyle)})
		case k <= 7:
			c.Blocks = append(c.Blocks, Block{T: genTable(t, &c, 0, false)})
		default:
			c.Blocks = append(c.Blocks, Block{P: genImagePara(t, bodyPalette, &c)})
		}
	}
	// headers / footers: distinct (kind, type) combinations
	seen := map[[2]int]bool{}
	for i, n := 0, rapid.SampledFrom([]int{0, 0, 1, 1, 2, 2, 3, 3, 5, 8}).Draw(t, "nhf"); i < n; i++ {
		h := HF{Footer: rapid.Bool().Draw(t, "footer"), Type: rapid.IntRange(0, 2).Draw(t, "hftype"), PageNum: rapid.IntRange(0, 4).Draw(t, "hfpn")}
		if h.PageNum > 2 {
			h.PageNum = 0
		}
		key := [2]int{0, h.Type}
		if h.Footer {
			key[0] = 1
		}
		if seen[key] {
			continue
		}
		seen[key] = true
		h.Text = genTokens(t, append(append([]string{}, varNames[:3]...), hfNames...), 5, true, litWords)
		c.HFs = append(c.HFs, h)
	}
	if rapid.IntRange(0, 9).Draw(t, "page") < 4 {
		pg := &Page{Size: rapid.IntRange(0, 5).Draw(t, "pgsize"), Landscape: rapid.Bool().Draw(t, "landscape"), DiffFirst: rapid.Bool().Draw(t, "difffirst")}
		if rapid.Bool().Draw(t, "margins") {
			m := func(l string) float64 { return float64(rapid.IntRange(10, 40).Draw(t, l)) }
			pg.Margins = []float64{m("mt"), m("mr"), m("mb"), m("ml")}
		}
		if rapid.IntRange(0, 3).Draw(t, "gutter") == 0 {
			pg.Gutter = float64(rapid.IntRange(1, 15).Draw(t, "gutterw"))
		}
		if rapid.IntRange(0, 2).Draw(t, "grid") == 0 {
			pg.Grid = []int{rapid.IntRange(0, 2).Draw(t, "gridt"), rapid.IntRange(200, 400).Draw(t, "pitch"), rapid.IntRange(0, 100).Draw(t, "cs")}
		}
		c.Page = pg
	}
	if rapid.IntRange(0, 9).Draw(t, "props") < 3 {
		c.Props = []string{rapid.SampledFrom(plainWords).Draw(t, "title"), "Ann <a&b>", "S"}
	}
	// data: a drawn subset of the names
	for _, n := range varNames {
		if rapid.IntRange(0, 9).Draw(t, "supply-"+n) < 6 {
			switch rapid.IntRange(0, 13).Draw(t, "typed") {
			case 0, 1:
				c.Data.Vars[n] = Val{S: strconv.Itoa(rapid.IntRange(-5, 100000).Draw(t, "intval")), I: true}
			case 2:
				c.Data.Vars[n] = genTyped(t)
			default:
				c.Data.Vars[n] = Val{S: genValue(t, false)}
			}
		}
	}
	for _, n := range hfNames {
		if rapid.IntRange(0, 9).Draw(t, "supply-"+n) < 7 {
			c.Data.Vars[n] = Val{S: genValue(t, true)}
		}
	}
	for _, n := range condNames {
		if k := rapid.IntRange(0, 2).Draw(t, "cond-"+n); k > 0 {
			if c.Data.Conds == nil {
				c.Data.Conds = map[string]bool{}
			}
			c.Data.Conds[n] = k == 1
		}
	}
	entry := rapid.IntRange(0, 7).Draw(t, "entry")
	if galleryAt >= 0 && entry > 1 && rapid.Bool().Draw(t, "gallery-file") {
		entry = rapid.IntRange(0, 1).Draw(t, "gallery-entry")
	}
	switch entry {
	case 0:
		c.Entry = 1
	case 1:
		c.Entry = 1
		if len(c.Props) > 0 {
			c.Entry = 2
		}
	}
	if c.Entry >= 1 && rapid.IntRange(0, 2).Draw(t, "foreign") > 0 {
		// the template file in another producer's spelling of the same package
		f := &Foreign{}
		switch rapid.IntRange(0, 3).Draw(t, "foreign-abs") {
		case 0:
			f.AbsHF = true
		case 1:
			f.AbsAll = true
		case 2:
			f.AbsHF, f.AbsPkg = rapid.Bool().Draw(t, "foreign-abshf"), true
		}
		f.Media1 = rapid.IntRange(0, 2).Draw(t, "foreign-media1") == 0
		if k := rapid.IntRange(0, 5).Draw(t, "foreign-relids"); k <= 2 {
			f.RelIDs = k
		}
		// JPEG declared as Word does (Default "jpg", media *.jpg, nothing for "jpeg")
		f.JpgCT = rapid.IntRange(0, 2).Draw(t, "foreign-jpgct") > 0
		if f.any() {
			c.Foreign = f
		}
	}
	switch rapid.IntRange(0, 11).Draw(t, "prior") {
	case 4, 7:
		c.Prior = 1
	case 9:
		c.Prior = 2
	case 5:
		c.Prior = 3
	}
	return c
}

package c18

// The template FILE as another producer may write it. The package saved by the library is rewritten, without the
// library, into an equivalent package that uses other legal OPC spellings: relationship targets as absolute part names
// ("/word/header1.xml" instead of "header1.xml"), media parts numbered from 1 (image1.png is the first picture, as in
// files written by Word). Both denote exactly the same parts and pictures; nothing of the content changes.

import (
	"archive/zip"
	"bytes"
	"encoding/xml"
	"fmt"
	"io"
	"path"
	"regexp"
	"strconv"
	"strings"

	"wzverif/internal/opc"
)

// Foreign selects the spellings. The zero value changes nothing.
type Foreign struct {
	AbsHF  bool `json:"abs_hf,omitempty"`  // header/footer targets of the main part's relationships as absolute part names
	AbsAll bool `json:"abs_all,omitempty"` // every internal target of the main part's relationships as an absolute part name
	AbsPkg bool `json:"abs_pkg,omitempty"` // targets of the package relationships as absolute part names
	Media1 bool `json:"media1,omitempty"`  // word/media/imageN.ext renumbered to image(N+1).ext
	// RelIDs: the relationship ids of the main part as another producer may choose them (ids are arbitrary xsd:ID values):
	// 1 = rIdN with gaps and not in file order (rId7, rId10, rId13, ... assigned from the last relationship to the first),
	// 2 = ids that do not follow the rIdN pattern at all (R1f, R2e, ...). References in the main part follow.
	RelIDs int `json:"rel_ids,omitempty"`
	// JpgCT: JPEG declared the way Word and most producers do it: <Default Extension="jpg" ContentType="image/jpeg"/>
	// (present whether or not the document shows a JPEG picture yet - producers write a fixed set of Defaults), JPEG media
	// parts named *.jpg, no Default for the extension "jpeg".
	JpgCT bool `json:"jpg_ct,omitempty"`
}

func (f *Foreign) any() bool {
	return f != nil && (f.AbsHF || f.AbsAll || f.AbsPkg || f.Media1 || f.RelIDs != 0 || f.JpgCT)
}

var rAttrRe = regexp.MustCompile(`\br:[A-Za-z]+="[^"]*"`)

var mediaNameRe = regexp.MustCompile(`^word/media/image([0-9]{1,6})(\.[A-Za-z0-9]+)$`)

// foreignize returns the rewritten package (or b itself when it cannot be read: the case then runs on the plain file).
func foreignize(b []byte, f *Foreign) []byte {
	if !f.any() {
		return b
	}
	zr, err := zip.NewReader(bytes.NewReader(b), int64(len(b)))
	if err != nil {
		return b
	}
	type entry struct {
		name string
		data []byte
	}
	var entries []entry
	for _, zf := range zr.File {
		rc, err := zf.Open()
		if err != nil {
			return b
		}
		data, err := io.ReadAll(rc)
		rc.Close()
		if err != nil {
			return b
		}
		entries = append(entries, entry{zf.Name, data})
	}
	rename := map[string]string{}
	if f.Media1 || f.JpgCT {
		for _, e := range entries {
			if m := mediaNameRe.FindStringSubmatch(e.name); m != nil {
				n, _ := strconv.Atoi(m[1])
				ext := m[2]
				if f.Media1 {
					n++
				}
				if f.JpgCT && ext == ".jpeg" {
					ext = ".jpg"
				}
				if nn := fmt.Sprintf("word/media/image%d%s", n, ext); nn != e.name {
					rename[e.name] = nn
				}
			}
		}
	}
	newName := func(n string) string {
		if r, ok := rename[n]; ok {
			return r
		}
		return n
	}
	idmap := map[string]string{}
	if f.RelIDs != 0 {
		for _, e := range entries {
			if e.name != "word/_rels/document.xml.rels" {
				continue
			}
			rels, err := opc.ParseRels(e.name, e.data)
			if err != nil {
				return b
			}
			for i, r := range rels {
				k := len(rels) - 1 - i
				if f.RelIDs == 1 {
					idmap[r.ID] = fmt.Sprintf("rId%d", 7+3*k)
				} else {
					idmap[r.ID] = fmt.Sprintf("R%x%c", k+1, 'a'+rune(i%26))
				}
			}
		}
	}
	var buf bytes.Buffer
	zw := zip.NewWriter(&buf)
	for _, e := range entries {
		data := e.data
		if e.name == "word/document.xml" && len(idmap) > 0 {
			data = rAttrRe.ReplaceAllFunc(data, func(m []byte) []byte {
				eq := bytes.IndexByte(m, '=')
				if nv, ok := idmap[string(m[eq+2:len(m)-1])]; ok {
					return []byte(string(m[:eq+2]) + nv + `"`)
				}
				return m
			})
		}
		if e.name == "[Content_Types].xml" && f.JpgCT {
			data = jpgContentTypes(data)
		}
		if opc.IsRelsPart(e.name) {
			rels, err := opc.ParseRels(e.name, e.data)
			if err != nil {
				return b
			}
			src := opc.SourceOf(e.name)
			if src == "word/document.xml" {
				for i := range rels {
					if nv, ok := idmap[rels[i].ID]; ok {
						rels[i].ID = nv
					}
				}
			}
			var x strings.Builder
			x.WriteString(`<?xml version="1.0" encoding="UTF-8" standalone="yes"?>` + "\n")
			x.WriteString(`<Relationships xmlns="` + opc.NSRels + `">`)
			for _, r := range rels {
				target := r.Target
				if !r.External() && !strings.Contains(target, "#") {
					res := newName(r.Resolved)
					abs := false
					switch {
					case src == "":
						abs = f.AbsPkg
					case src == "word/document.xml":
						isHF := strings.HasSuffix(r.Type, "/header") || strings.HasSuffix(r.Type, "/footer")
						abs = f.AbsAll || (f.AbsHF && isHF)
					}
					switch {
					case abs:
						target = "/" + res
					case res != r.Resolved:
						// renamed part: the target relative to the directory of the source part
						dir := path.Dir(src)
						if dir != "." && strings.HasPrefix(res, dir+"/") {
							target = strings.TrimPrefix(res, dir+"/")
						} else {
							target = "/" + res
						}
					}
				}
				x.WriteString(`<Relationship Id="` + escAttr(r.ID) + `" Type="` + escAttr(r.Type) + `" Target="` + escAttr(target) + `"`)
				if r.Mode != "" {
					x.WriteString(` TargetMode="` + escAttr(r.Mode) + `"`)
				}
				x.WriteString(`/>`)
			}
			x.WriteString(`</Relationships>`)
			data = []byte(x.String())
		}
		w, err := zw.Create(newName(e.name))
		if err != nil {
			return b
		}
		if _, err := w.Write(data); err != nil {
			return b
		}
	}
	if zw.Close() != nil {
		return b
	}
	return buf.Bytes()
}

var (
	ctJpegDefaultRe = regexp.MustCompile(`<Default\s+Extension="jpeg"\s+ContentType="image/jpeg"\s*(/>|>\s*</Default>)`)
	ctJpgDefaultRe  = regexp.MustCompile(`<Default\s+Extension="(?i:jpg)"`)
	ctTypesOpenRe   = regexp.MustCompile(`<Types\b[^>]*>`)
)

// jpgContentTypes rewrites [Content_Types].xml: the Default for "jpeg" goes (the parts it covered are renamed to *.jpg),
// a Default jpg = image/jpeg is declared.
func jpgContentTypes(data []byte) []byte {
	data = ctJpegDefaultRe.ReplaceAll(data, nil)
	if ctJpgDefaultRe.Match(data) {
		return data
	}
	loc := ctTypesOpenRe.FindIndex(data)
	if loc == nil {
		return data
	}
	out := append([]byte{}, data[:loc[1]]...)
	out = append(out, `<Default Extension="jpg" ContentType="image/jpeg"/>`...)
	return append(out, data[loc[1]:]...)
}

func escAttr(s string) string {
	var b bytes.Buffer
	xml.EscapeText(&b, []byte(s))
	return b.String()
}

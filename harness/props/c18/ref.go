package c18

// Reference substitution over the independent view of the BASE package, compared in lock-step with the
// view of the RENDERED package. Every failure detail starts with a machine-readable tag
// {ctx=..;sup=..;...} describing the input class of the paragraph/table concerned (computed from the base
// and the data only), which the known-finding triggers read.

import (
	"sort"
	"strings"

	"wzverif/internal/kit"
)

type judge struct {
	res  *kit.Result
	c    *Case
	vars map[string]string // supplied top-level variables
	base *pkgView
	out  *pkgView

	// statistics for labels / non-triviality
	nPlaceholders, nSupplied, nUnsupplied int
	nSplitFmt                             int // placeholders whose characters carry >= 2 different formats in the saved base
	nLoopRows, nLoopItems                 int
	nImgWith, nImgWithout                 int
	nNonText                              int
	nJpegInserted                         int // JPEG picture parts that only the rendered package has
	nEdgeBlankValues                      int // supplied values with white space at an edge that were substituted in the body
	nParas                                int
	ambiguous                             int
	nLenientLoopsItems                    int // ... loop markers among them whose list has items
	nLenientLoops, nLenientImgs           int // directives in an undocumented spelling (white space) met in the base
	nLenientProcessed, nLenientUntouched  int // which reading held

	// condChoice: how the conditional blocks of a paragraph are read (0 left alone, 1 body kept, 2 else part kept, 3 dropped)
	condChoice       int
	nConds, nCondHit int // conditional blocks met / read as processed

	// d25: set while walking blocks that follow, in the same container, an image-placeholder paragraph which expands into
	// several paragraphs when a later block of that container also holds an image placeholder (see KF-C18-image-slice)
	d25 bool
}

func (j *judge) flags() string {
	if j.d25 {
		return ";d25=1"
	}
	return ""
}

// ctag is the tag of failures that are not about one paragraph.
func (j *judge) ctag(ctx string, extra ...string) string {
	return "{ctx=" + ctx + j.flags() + strings.Join(append([]string{""}, extra...), ";") + "}"
}

type pinfo struct {
	ctx          string
	sup, unsup   int
	ustrad       bool // an unsupplied placeholder spans >= 2 different formats
	supStrad     int
	nontext      []string
	formats      int
	loopRowMarks bool
	flags        string
}

func (pi pinfo) tag(extra ...string) string {
	kinds := append([]string(nil), pi.nontext...)
	sort.Strings(kinds)
	parts := []string{"ctx=" + pi.ctx, "sup=" + itoa(pi.sup), "unsup=" + itoa(pi.unsup), "ustrad=" + b01(pi.ustrad),
		"fmts=" + itoa(pi.formats), "nontext=" + strings.Join(uniq(kinds), ",")}
	parts = append(parts, extra...)
	return "{" + strings.Join(parts, ";") + pi.flags + "}"
}

func itoa(n int) string { return sprintf("%d", n) }
func b01(b bool) string {
	if b {
		return "1"
	}
	return "0"
}
func uniq(s []string) []string {
	var out []string
	for i, x := range s {
		if i == 0 || x != s[i-1] {
			out = append(out, x)
		}
	}
	return out
}

// class of an expected text atom
const (
	clsLit    = "lit"
	clsVal    = "val"
	clsUnsup  = "unsup"
	clsUstrad = "ustrad" // inside an unsupplied placeholder that spans >= 2 formats
)

type expPara struct {
	txt   []atom   // expected text atoms
	cls   []string // class per expected text atom
	non   []atom   // expected non-text atoms in order
	pos   []int    // expected number of text atoms before each non-text atom
	info  pinfo
	ambig bool // a non-text atom sits strictly inside a placeholder: the statement does not say what happens
}

// substitute applies the reference substitution to the atoms of a base paragraph.
// scope: name -> value for supplied names; loopRow: also delete {{#each x}} / {{/each}} markers.
func (j *judge) substitute(bp *para, scope map[string]string, loopRow bool, ctx string) *expPara {
	txt, non, pos := splitAtoms(bp.atoms)
	rs := make([]rune, len(txt))
	for i, a := range txt {
		rs[i] = a.ch
	}
	type edit struct {
		span
		repl   string
		remove bool
		sup    bool
		cond   bool // conditional block: the characters [keepS,keepE) stay, the rest of the span goes
		keepS  int
		keepE  int
	}
	var edits []edit
	for _, sp := range scanVars(rs) {
		v, ok := scope[sp.name]
		edits = append(edits, edit{span: sp, repl: v, sup: ok})
	}
	var conds []condSpan
	if !loopRow {
		conds = scanConds(rs)
	}
	if len(conds) > 0 {
		// a conditional block is one unit: placeholders the scanner sees inside it are not judged separately
		kept := edits[:0]
		for _, ed := range edits {
			inside := false
			for _, c := range conds {
				if ed.s < c.e && ed.e > c.s {
					inside = true
				}
			}
			if !inside {
				kept = append(kept, ed)
			}
		}
		edits = kept
		for _, c := range conds {
			ed := edit{span: c.span, cond: true}
			switch {
			case j.condChoice == 1:
				ed.keepS, ed.keepE = c.bodyS, c.bodyE
			case j.condChoice == 2 && c.elseS >= 0:
				ed.keepS, ed.keepE = c.elseS, c.elseE
			case j.condChoice >= 2:
				ed.keepS, ed.keepE = c.s, c.s
			default:
				ed.keepS, ed.keepE = c.s, c.e
			}
			edits = append(edits, ed)
		}
	}
	if loopRow {
		for _, sp := range scanDirective(rs, "each") {
			edits = append(edits, edit{span: sp, remove: true})
		}
		for _, sp := range scanLiteral(rs, "{{/each}}") {
			edits = append(edits, edit{span: sp, remove: true})
		}
	}
	sort.Slice(edits, func(a, b int) bool { return edits[a].s < edits[b].s })
	e := &expPara{info: pinfo{ctx: ctx, formats: distinctFormats(bp.atoms), flags: j.flags()}}
	for _, a := range non {
		e.info.nontext = append(e.info.nontext, a.kind)
	}
	// map old text offsets to new ones
	delta := make([]int, 0, len(edits)) // cumulative shift after each edit
	cur := 0
	shift := 0
	for _, ed := range edits {
		for ; cur < ed.s; cur++ {
			e.txt = append(e.txt, txt[cur])
			e.cls = append(e.cls, clsLit)
		}
		spanFmts := map[string]bool{}
		for k := ed.s; k < ed.e; k++ {
			spanFmts[txt[k].fmt] = true
		}
		switch {
		case ed.cond:
			for k := ed.keepS; k < ed.keepE; k++ {
				e.txt = append(e.txt, txt[k])
				e.cls = append(e.cls, clsLit)
			}
			shift += (ed.keepE - ed.keepS) - (ed.e - ed.s)
		case ed.remove:
			e.info.loopRowMarks = true
			shift -= ed.e - ed.s
		case ed.sup:
			j.nPlaceholders++
			j.nSupplied++
			e.info.sup++
			if len(spanFmts) > 1 {
				e.info.supStrad++
			}
			j.countSplit(bp, ed.s, ed.e, len(spanFmts) > 1)
			if ed.repl != "" && strings.Trim(ed.repl, " \t\r\n") != ed.repl {
				j.nEdgeBlankValues++
			}
			for _, ch := range ed.repl {
				e.txt = append(e.txt, atom{text: true, ch: ch, fmt: txt[ed.s].fmt})
				e.cls = append(e.cls, clsVal)
			}
			shift += len([]rune(ed.repl)) - (ed.e - ed.s)
		default:
			j.nPlaceholders++
			j.nUnsupplied++
			e.info.unsup++
			cl := clsUnsup
			if len(spanFmts) > 1 {
				cl = clsUstrad
				e.info.ustrad = true
			}
			j.countSplit(bp, ed.s, ed.e, len(spanFmts) > 1)
			for k := ed.s; k < ed.e; k++ {
				e.txt = append(e.txt, txt[k])
				e.cls = append(e.cls, cl)
			}
		}
		cur = ed.e
		delta = append(delta, shift)
	}
	for ; cur < len(txt); cur++ {
		e.txt = append(e.txt, txt[cur])
		e.cls = append(e.cls, clsLit)
	}
	for i, a := range non {
		p := pos[i]
		np := p
		for k, ed := range edits {
			if p > ed.s && p < ed.e {
				e.ambig = true
			}
			if ed.e <= p {
				np = p + delta[k]
			}
		}
		e.non = append(e.non, a)
		e.pos = append(e.pos, np)
	}
	return e
}

// countSplit counts placeholders whose characters sit in more than one run of the base paragraph.
// The view has no run boundaries, so "cut across runs with different formats" is what can be observed.
func (j *judge) countSplit(bp *para, s, e int, diffFmt bool) {
	if diffFmt {
		j.nSplitFmt++
	}
}

func clip(s string, n int) string {
	if len(s) > n {
		return s[:n] + "…"
	}
	return s
}

func fmtRuns(as []atom) string {
	// render text atoms as runs of equal format: [fmtA]"text"[fmtB]"text"
	var b strings.Builder
	last := "\x00"
	for _, a := range as {
		if !a.text {
			b.WriteString("<" + a.kind + ">")
			last = "\x00"
			continue
		}
		if a.fmt != last {
			b.WriteString("⟦" + shortFmt(a.fmt) + "⟧")
			last = a.fmt
		}
		b.WriteRune(a.ch)
	}
	return b.String()
}

func shortFmt(f string) string {
	if f == "" {
		return "-"
	}
	f = strings.ReplaceAll(f, "<w:rPr>", "")
	f = strings.ReplaceAll(f, "</>", "")
	f = strings.ReplaceAll(f, "<w:", "")
	f = strings.ReplaceAll(f, ">", " ")
	return strings.TrimSpace(clip(f, 80))
}

// comparePara judges one rendered paragraph against the expectation. Returns false if the text differs.
func (j *judge) comparePara(path string, e *expPara, bp *para, op *para, checkPpr bool) {
	res := j.res
	j.nParas++
	otxt, onon, opos := splitAtoms(op.atoms)
	if e.ambig {
		j.ambiguous++
		res.Count("ambiguous_paragraphs", 1)
		return
	}
	// W1 text
	res.Eval("C18.W1")
	want, got := atomsText(e.txt), atomsText(otxt)
	if want != got {
		res.Fail("C18.W1", "%s %s: text %q, expected %q (base %q)", e.info.tag(), path, got, want, bp.text())
	} else {
		// W2 per-character formatting
		res.Eval("C18.W2")
		classes := map[string]bool{}
		first := -1
		for i := range e.txt {
			if e.txt[i].fmt != otxt[i].fmt {
				classes[e.cls[i]] = true
				if first < 0 {
					first = i
				}
			}
		}
		if first >= 0 {
			var cl []string
			for k := range classes {
				cl = append(cl, k)
			}
			sort.Strings(cl)
			res.Fail("C18.W2", "%s %s: character %d (%q) has format %s, expected %s; rendered %s expected %s",
				e.info.tag("w2="+strings.Join(cl, ",")), path, first, string(e.txt[first].ch), shortFmt(otxt[first].fmt), shortFmt(e.txt[first].fmt),
				clip(fmtRuns(op.atoms), 400), clip(fmtRuns(e.txt), 400))
		}
	}
	// W3 paragraph properties
	if checkPpr {
		res.Eval("C18.W3.ppr")
		if bp.ppr != op.ppr {
			var lost, changed, added []string
			for _, k := range sortedKeys(bp.pprKids) {
				if v, ok := op.pprKids[k]; !ok {
					lost = append(lost, k)
				} else if v != bp.pprKids[k] {
					changed = append(changed, k)
				}
			}
			for _, k := range sortedKeys(op.pprKids) {
				if _, ok := bp.pprKids[k]; !ok {
					added = append(added, k)
				}
			}
			res.Fail("C18.W3.ppr", "%s %s: paragraph properties differ: rendered %s, base %s",
				e.info.tag("pprlost="+strings.Join(lost, ","), "pprchanged="+strings.Join(changed, ","), "ppradded="+strings.Join(added, ",")), path, clip(op.ppr, 500), clip(bp.ppr, 500))
		}
	}
	// W3 non-text runs: kinds, content, order and position among the text
	if len(e.non) > 0 || len(onon) > 0 {
		res.Eval("C18.W3.nontext")
		j.nNonText += len(e.non)
		same := len(e.non) == len(onon)
		if same {
			for i := range e.non {
				if e.non[i].kind != onon[i].kind || e.non[i].sig != onon[i].sig || (want == got && e.pos[i] != opos[i]) {
					same = false
				}
			}
		}
		if !same {
			// which kinds were lost (multiset difference by kind)
			cnt := map[string]int{}
			for _, a := range e.non {
				cnt[a.kind]++
			}
			for _, a := range onon {
				cnt[a.kind]--
			}
			var lost, extra []string
			for k, n := range cnt {
				if n > 0 {
					lost = append(lost, k)
				}
				if n < 0 {
					extra = append(extra, k)
				}
			}
			sort.Strings(lost)
			sort.Strings(extra)
			res.Fail("C18.W3.nontext", "%s %s: non-text runs differ: rendered %s, expected %s (positions %v vs %v)",
				e.info.tag("lost="+strings.Join(lost, ","), "extra="+strings.Join(extra, ",")), path, kindsOf(onon), kindsOf(e.non), opos, e.pos)
		}
	}
}

func kindsOf(as []atom) string {
	var k []string
	for _, a := range as {
		k = append(k, a.kind)
	}
	return "[" + strings.Join(k, " ") + "]"
}

// ---------------------------------------------------------------------------------------------
// blocks

func (j *judge) walkBlocks(path, ctx string, bb, ob []block, scope map[string]string, loopRow bool) {
	res := j.res
	k := 0
	res.Eval("C18.W5.order")
	firstMulti, lastImg := j.imageHazard(bb, scope)
	saved := j.d25
	defer func() { j.d25 = saved }()
	for i, b := range bb {
		if firstMulti >= 0 && i >= firstMulti && lastImg > firstMulti {
			j.d25 = true
		}
		bpath := sprintf("%s/%s[%d]", path, b.kind(), i)
		if b.p != nil {
			rs := []rune(b.p.text())
			if imgs := scanDirective(rs, "image"); len(imgs) > 0 && !loopRow {
				lenient := 0
				for _, sp := range imgs {
					if sp.lenient {
						lenient++
					}
				}
				if lenient == 0 {
					n, ok := j.imageGroup(bpath, ctx, b.p, ob, k, scope, false)
					if !ok {
						return // cannot re-synchronise
					}
					k += n
					continue
				}
				// image placeholders in an undocumented spelling: all of them are pictures, or they are all literal text
				j.nLenientImgs += lenient
				var n [2]int
				var ok [2]bool
				held := j.eitherReading("image", sprintf("the spelling of an image placeholder in %q (%s)", string(rs), bpath),
					func(x *judge) { n[0], ok[0] = x.imageGroup(bpath, ctx, b.p, ob, k, scope, false) },
					func(x *judge) {
						if lenient < len(imgs) {
							n[1], ok[1] = x.imageGroup(bpath, ctx, b.p, ob, k, scope, true)
							return
						}
						if k >= len(ob) || ob[k].p == nil {
							x.res.Eval("C18.W5.order")
							x.res.Fail("C18.W5.order", "%s %s: no paragraph rendered in its place (%d blocks rendered, base has %d)", x.ctag(ctx), bpath, len(ob), len(bb))
							return
						}
						x.comparePara(bpath, x.substitute(b.p, scope, false, ctx), b.p, ob[k].p, true)
						n[1], ok[1] = 1, true
					})
				if !ok[held] {
					return // cannot re-synchronise
				}
				k += n[held]
				continue
			}
		}
		if k >= len(ob) {
			res.Eval("C18.W5.order")
			res.Fail("C18.W5.order", "%s %s: missing in the rendered document (%d blocks rendered, base has %d)", j.ctag(ctx), bpath, len(ob), len(bb))
			return
		}
		o := ob[k]
		if o.kind() != b.kind() {
			res.Eval("C18.W5.order")
			res.Fail("C18.W5.order", "%s %s: rendered block %d is a %s", j.ctag(ctx), bpath, k, o.kind())
			return
		}
		switch {
		case b.p != nil:
			pctx := ctx
			if nc := len(scanConds([]rune(b.p.text()))); nc > 0 && !loopRow {
				j.condPara(bpath, pctx, b.p, o.p, scope, nc)
				break
			}
			e := j.substitute(b.p, scope, loopRow, pctx)
			j.comparePara(bpath, e, b.p, o.p, true)
		case b.t != nil:
			j.compareTable(bpath, ctx, b.t, o.t, scope)
		case b.sect != nil:
			res.Eval("C18.W5.sect")
			if bs, os := j.base.sectSig(b.sect), j.out.sectSig(o.sect); bs != os {
				res.Fail("C18.W5.sect", "%s %s: section settings differ: rendered %s, base %s", j.ctag(ctx), bpath, clip(os, 600), clip(bs, 600))
			}
		default:
			res.Eval("C18.W5.order")
			if b.other != o.other {
				res.Fail("C18.W5.order", "%s %s: element differs: rendered %s, base %s", j.ctag(ctx), bpath, clip(o.other, 300), clip(b.other, 300))
			}
		}
		k++
	}
	if k < len(ob) {
		res.Eval("C18.W5.order")
		res.Fail("C18.W5.order", "%s %s: %d extra rendered block(s), first is a %s", j.ctag(ctx), path, len(ob)-k, ob[k].kind())
	}
}

// imageHazard finds, among the blocks of one container, the first image-placeholder paragraph that is replaced by more
// than one paragraph (text before/after a picture, several pictures) and the last block holding an image placeholder.
func (j *judge) imageHazard(bb []block, scope map[string]string) (firstMulti, lastImg int) {
	firstMulti, lastImg = -1, -1
	var tableHasImg func(t *table) bool
	tableHasImg = func(t *table) bool {
		for _, r := range t.rows {
			for _, c := range r.cells {
				for _, b := range c.blocks {
					if b.p != nil && len(scanDirective([]rune(b.p.text()), "image")) > 0 {
						return true
					}
					if b.t != nil && tableHasImg(b.t) {
						return true
					}
				}
			}
		}
		return false
	}
	for i, b := range bb {
		switch {
		case b.p != nil:
			rs := []rune(b.p.text())
			imgs := scanDirective(rs, "image")
			if len(imgs) == 0 {
				continue
			}
			lastImg = i
			pieces, cur := 0, 0
			for _, sp := range imgs {
				if strings.TrimSpace(string(rs[cur:sp.s])) != "" {
					pieces++
				}
				pieces++
				cur = sp.e
			}
			if strings.TrimSpace(string(rs[cur:])) != "" {
				pieces++
			}
			if pieces > 1 && firstMulti < 0 {
				firstMulti = i
			}
		case b.t != nil:
			if tableHasImg(b.t) {
				lastImg = i
			}
		}
	}
	return
}

// sectSig renders w:sectPr with header/footer reference ids replaced by (relationship type, target part name).
func (v *pkgView) sectSig(n interface{ String() string }) string {
	s := n.String()
	// replace r:id="rIdN" by the resolved target so that equal references compare equal even if ids were renumbered
	for id, r := range v.rels {
		s = strings.ReplaceAll(s, "r:id="+quote(id), "r:id="+quote("->"+r.Resolved))
	}
	return s
}

// imageGroup matches the rendered blocks that replace a base paragraph holding image placeholders.
// strictOnly: only placeholders in the documented spelling are pictures, the others are literal text.
func (j *judge) imageGroup(path, ctx string, bp *para, ob []block, k int, scope map[string]string, strictOnly bool) (consumed int, ok bool) {
	res := j.res
	e := j.substitute(bp, scope, false, "imagepara:"+ctx)
	if len(e.non) > 0 || e.ambig {
		j.ambiguous++
		res.Count("ambiguous_paragraphs", 1)
		return 0, false
	}
	rs := make([]rune, len(e.txt))
	for i, a := range e.txt {
		rs[i] = a.ch
	}
	imgs := scanDirective(rs, "image")
	if strictOnly {
		var doc []span
		for _, sp := range imgs {
			if !sp.lenient {
				doc = append(doc, sp)
			}
		}
		imgs = doc
	}
	withData, without := 0, 0
	for _, sp := range imgs {
		if _, has := j.c.Data.Imgs[sp.name]; has {
			withData++
		} else {
			without++
		}
	}
	j.nImgWith += withData
	j.nImgWithout += without
	res.Eval("C18.W6")
	if without > 0 {
		// the statement only says what happens to image placeholders WITH data. Without data the placeholder must not
		// vanish silently: accepted shape = exactly one paragraph whose text still names the image.
		if len(imgs) != 1 || imgs[0].s != 0 || imgs[0].e != len(rs) {
			j.ambiguous++
			res.Count("ambiguous_paragraphs", 1)
			return 0, false
		}
		if k >= len(ob) || ob[k].p == nil {
			res.Fail("C18.W6", "%s %s: image placeholder %q without data: no paragraph rendered in its place", j.ctag(ctx, "img=nodata"), path, string(rs))
			return 0, false
		}
		if t := ob[k].p.text(); !strings.Contains(t, imgs[0].name) {
			res.Fail("C18.W6", "%s %s: image placeholder %q without data vanished: rendered paragraph text %q", j.ctag(ctx, "img=nodata"), path, string(rs), t)
		}
		return 1, true
	}
	// expected flattened sequence: text atoms with a picture at every placeholder
	type eat struct {
		a   atom
		pic string // non-empty: a picture with these bytes
	}
	var exp []eat
	cur := 0
	for _, sp := range imgs {
		for ; cur < sp.s; cur++ {
			exp = append(exp, eat{a: e.txt[cur]})
		}
		exp = append(exp, eat{pic: "sha1:" + hashOf(imgBytes(j.c.Data.Imgs[sp.name]))})
		cur = sp.e
	}
	for ; cur < len(e.txt); cur++ {
		exp = append(exp, eat{a: e.txt[cur]})
	}
	info := e.info
	pos := 0
	fmtBad := -1
	n := 0
	for pos < len(exp) {
		if k+n >= len(ob) || ob[k+n].p == nil {
			res.Fail("C18.W6", "%s %s: after %d rendered paragraph(s) the text/pictures of %q are incomplete (matched %d of %d items)", info.tag("img=data"), path, n, string(rs), pos, len(exp))
			return 0, false
		}
		op := ob[k+n].p
		hasText := false
		for _, a := range op.atoms {
			if pos >= len(exp) {
				res.Fail("C18.W6", "%s %s: rendered paragraph %d has content beyond the expected %q: %s", info.tag("img=data"), path, n, string(rs), clip(fmtRuns(op.atoms), 300))
				return 0, false
			}
			x := exp[pos]
			switch {
			case x.pic != "":
				if a.text || a.kind != "drawing" || a.pic != x.pic {
					res.Fail("C18.W6", "%s %s: expected the picture %s at item %d of %q, rendered %s (picture bytes %s)", info.tag("img=data"), path, x.pic, pos, string(rs), clip(fmtRuns(op.atoms), 300), a.pic)
					return 0, false
				}
			default:
				if !a.text || a.ch != x.a.ch {
					res.Fail("C18.W6", "%s %s: expected %q at item %d of %q, rendered paragraph %d is %s", info.tag("img=data"), path, string(x.a.ch), pos, string(rs), n, clip(fmtRuns(op.atoms), 300))
					return 0, false
				}
				hasText = true
				if a.fmt != x.a.fmt && fmtBad < 0 {
					fmtBad = pos
				}
			}
			pos++
		}
		if hasText {
			res.Eval("C18.W3.ppr")
			if op.ppr != bp.ppr {
				var lost []string
				for _, kk := range sortedKeys(bp.pprKids) {
					if _, ok := op.pprKids[kk]; !ok {
						lost = append(lost, kk)
					}
				}
				res.Fail("C18.W3.ppr", "%s %s: text paragraph %d around the picture: paragraph properties %s, base %s", info.tag("pprlost="+strings.Join(lost, ","), "pprchanged=", "ppradded="), path, n, clip(op.ppr, 300), clip(bp.ppr, 300))
			}
		}
		n++
	}
	if fmtBad >= 0 {
		res.Eval("C18.W2")
		res.Fail("C18.W2", "%s %s: text around the picture: item %d changed its format; base %s", info.tag("w2=imagepara"), path, fmtBad, clip(fmtRuns(e.txt), 300))
	}
	return n, true
}

// ---------------------------------------------------------------------------------------------
// tables

func loopRowOf(t *table) (idx int, list string, marker span) {
	for ri, r := range t.rows {
		for _, c := range r.cells {
			for _, b := range c.blocks {
				if b.p == nil {
					continue
				}
				if sp := scanDirective([]rune(b.p.text()), "each"); len(sp) > 0 {
					return ri, sp[0].name, sp[0]
				}
			}
		}
	}
	return -1, "", span{}
}

// ---------------------------------------------------------------------------------------------
// readings: a directive in a spelling the documentation does not show (scan.go: lenient) may be taken by the library as
// the directive - then it has to be processed completely, exactly like the documented spelling - or as the literal text
// it is by the documentation - then it has to be left completely alone. Each reading is judged on a fork of the judge;
// the first reading without a failure is adopted. If neither holds (e.g. the row was expanded but its marker is still
// there) the failures of the closer reading are reported.

func (j *judge) attempt(f func(x *judge)) *judge {
	x := *j
	x.res = &kit.Result{}
	f(&x)
	return &x
}

func (j *judge) adopt(x *judge) {
	res := j.res
	res.Failures = append(res.Failures, x.res.Failures...)
	for k, n := range x.res.Clauses {
		for i := 0; i < n; i++ {
			res.Eval(k)
		}
	}
	for k, n := range x.res.Counts {
		res.Count(k, n)
	}
	*j = *x
	j.res = res
}

// eitherReading judges `processed` and, if that fails, `untouched`; what names the directive in a failure report.
// It returns the reading that was adopted (0 processed, 1 untouched).
func (j *judge) eitherReading(kind, what string, processed, untouched func(x *judge)) int {
	a := j.attempt(processed)
	if len(a.res.Failures) == 0 {
		j.res.Count("lenient_"+kind+":processed", 1)
		a.nLenientProcessed++
		j.adopt(a)
		return 0
	}
	b := j.attempt(untouched)
	if len(b.res.Failures) == 0 {
		j.res.Count("lenient_"+kind+":untouched", 1)
		b.nLenientUntouched++
		j.adopt(b)
		return 1
	}
	// the closer reading: the one without a structural mismatch (row / block count), then the one with fewer failures
	score := func(x *judge) int {
		n := len(x.res.Failures)
		for _, f := range x.res.Failures {
			if strings.HasPrefix(f.Clause, "C18.W4.rows") || strings.HasPrefix(f.Clause, "C18.W5.order") || strings.HasPrefix(f.Clause, "C18.W6") {
				n += 1000
			}
		}
		return n
	}
	pick, shown, held := a, "processed", 0
	if score(b) < score(a) {
		pick, shown, held = b, "untouched", 1
	}
	note := sprintf(" [%s is not the documented spelling: it must be processed completely like the documented one or left completely alone; neither reading holds (%d / %d failures), shown: the %s reading]", what, len(a.res.Failures), len(b.res.Failures), shown)
	for i := range pick.res.Failures {
		d := pick.res.Failures[i].Detail
		if len(d) > 1100 {
			d = d[:1100] + "…"
		}
		pick.res.Failures[i].Detail = d + note
	}
	j.adopt(pick)
	return held
}

// condPara judges a paragraph holding conditional blocks. The statement says nothing about conditionals, so nothing is
// demanded about WHICH way a block goes: it may stay as it is, be replaced by its body or by its else part, or vanish (the
// same way for every block of the paragraph). Everything else of the paragraph is judged as usual, and a block that is
// neither intact nor one of its own parts (markers left behind, text outside it touched) fails W1.
func (j *judge) condPara(path, ctx string, bp, op *para, scope map[string]string, n int) {
	var first *judge
	for choice := 0; choice < 4; choice++ {
		x := j.attempt(func(x *judge) {
			x.condChoice = choice
			x.comparePara(path, x.substitute(bp, scope, false, ctx), bp, op, true)
		})
		x.condChoice = j.condChoice
		if len(x.res.Failures) == 0 {
			x.nConds += n
			if choice > 0 {
				x.nCondHit += n
			}
			j.adopt(x)
			return
		}
		if first == nil {
			first = x
		}
	}
	for i := range first.res.Failures {
		d := first.res.Failures[i].Detail
		if len(d) > 1100 {
			d = d[:1100] + "…"
		}
		first.res.Failures[i].Detail = d + " [the paragraph holds a conditional block: no reading of it (left alone, body kept, else part kept, dropped) matches; shown: left alone]"
	}
	first.nConds += n
	j.adopt(first)
}

func (j *judge) compareTable(path, ctx string, bt, ot *table, scope map[string]string) {
	li, list, marker := loopRowOf(bt)
	if li >= 0 && marker.lenient {
		if items, supplied := j.c.Data.Lists[list]; supplied {
			j.nLenientLoops++
			if len(items) > 0 {
				j.nLenientLoopsItems++
			}
			what := sprintf("the loop marker %q of %s/tr[%d]", "{{#each"+markerBlanks(bt, li)+list+"}}", path, li)
			j.eitherReading("loop", what,
				func(x *judge) { x.compareTableAs(path, ctx, bt, ot, scope, li, list) },
				func(x *judge) { x.compareTableAs(path, ctx, bt, ot, scope, -1, "") })
			return
		}
	}
	j.compareTableAs(path, ctx, bt, ot, scope, li, list)
}

// markerBlanks returns the white space between "#each" and the list name of the first loop marker of row li.
func markerBlanks(t *table, li int) string {
	for _, c := range t.rows[li].cells {
		for _, b := range c.blocks {
			if b.p == nil {
				continue
			}
			rs := []rune(b.p.text())
			if sp := scanDirective(rs, "each"); len(sp) > 0 {
				inner := rs[sp[0].s+len("{{#each") : sp[0].e-2]
				return string(inner[:len(inner)-len([]rune(sp[0].name))])
			}
		}
	}
	return " "
}

// compareTableAs judges a table with row li read as the loop row over list (li < 0: no row is a loop row).
func (j *judge) compareTableAs(path, ctx string, bt, ot *table, scope map[string]string, li int, list string) {
	res := j.res
	res.Eval("C18.W4.props")
	if bt.tblPr != ot.tblPr {
		res.Fail("C18.W4.props", "%s %s: table properties differ: rendered %s, base %s", j.ctag(ctx), path, clip(ot.tblPr, 400), clip(bt.tblPr, 400))
	}
	if bt.grid != ot.grid {
		res.Fail("C18.W4.props", "%s %s: table grid differs: rendered %s, base %s", j.ctag(ctx), path, clip(ot.grid, 300), clip(bt.grid, 300))
	}
	type erow struct {
		base  *row
		scope map[string]string
		loop  bool
		ctx   string
		label string
	}
	var exp []erow
	if li < 0 {
		for i := range bt.rows {
			exp = append(exp, erow{&bt.rows[i], scope, false, ctx, sprintf("tr[%d]", i)})
		}
	} else {
		items, supplied := j.c.Data.Lists[list]
		if !supplied {
			// the statement is about loops with items; an absent list is not judged
			res.Count("loop_without_list", 1)
			return
		}
		j.nLoopRows++
		j.nLoopItems += len(items)
		octx := "loopother:" + ctx
		for i := 0; i < li; i++ {
			exp = append(exp, erow{&bt.rows[i], scope, false, octx, sprintf("tr[%d]", i)})
		}
		for n, it := range items {
			exp = append(exp, erow{&bt.rows[li], it, true, "looprow:" + ctx, sprintf("tr[%d]#item%d", li, n)})
		}
		for i := li + 1; i < len(bt.rows); i++ {
			exp = append(exp, erow{&bt.rows[i], scope, false, octx, sprintf("tr[%d]", i)})
		}
	}
	res.Eval("C18.W4.rows")
	if len(exp) != len(ot.rows) {
		res.Fail("C18.W4.rows", "%s %s: %d rows rendered, expected %d (base %d rows, loop row %d over %q)", j.ctag(ctx, "loop="+b01(li >= 0)), path, len(ot.rows), len(exp), len(bt.rows), li, list)
		return
	}
	for i, er := range exp {
		or := &ot.rows[i]
		rp := path + "/" + er.label
		res.Eval("C18.W4.props")
		if er.base.trPr != or.trPr {
			res.Fail("C18.W4.props", "%s %s: row properties differ: rendered %s, base %s", j.ctag(er.ctx), rp, clip(or.trPr, 300), clip(er.base.trPr, 300))
		}
		if len(er.base.cells) != len(or.cells) {
			res.Fail("C18.W4.props", "%s %s: %d cells rendered, base %d", j.ctag(er.ctx), rp, len(or.cells), len(er.base.cells))
			continue
		}
		for ci := range er.base.cells {
			bc, oc := &er.base.cells[ci], &or.cells[ci]
			cp := sprintf("%s/tc[%d]", rp, ci)
			if bc.tcPr != oc.tcPr {
				res.Fail("C18.W4.props", "%s %s: cell properties differ: rendered %s, base %s", j.ctag(er.ctx), cp, clip(oc.tcPr, 300), clip(bc.tcPr, 300))
			}
			if er.loop {
				// paragraphs of the loop row: markers removed, item fields substituted; nested tables: item fields substituted
				j.walkLoopCell(cp, er.ctx, bc.blocks, oc.blocks, er.scope)
			} else {
				cctx := er.ctx
				if !strings.Contains(cctx, "cell") {
					cctx = "cell:" + cctx
				}
				j.walkBlocks(cp, cctx, bc.blocks, oc.blocks, er.scope, false)
			}
		}
	}
}

func (j *judge) walkLoopCell(path, ctx string, bb, ob []block, item map[string]string) {
	res := j.res
	if len(bb) != len(ob) {
		res.Eval("C18.W5.order")
		res.Fail("C18.W5.order", "%s %s: %d blocks rendered, base cell has %d", j.ctag(ctx), path, len(ob), len(bb))
		return
	}
	for i, b := range bb {
		o := ob[i]
		bpath := sprintf("%s/%s[%d]", path, b.kind(), i)
		if o.kind() != b.kind() {
			res.Eval("C18.W5.order")
			res.Fail("C18.W5.order", "%s %s: rendered block is a %s", j.ctag(ctx), bpath, o.kind())
			return
		}
		switch {
		case b.p != nil:
			e := j.substitute(b.p, item, true, ctx)
			j.comparePara(bpath, e, b.p, o.p, true)
		case b.t != nil:
			j.compareTable(bpath, "nested-in-"+ctx, b.t, o.t, item)
		}
	}
}

package c18

import (
	"testing"

	"wzverif/internal/kit"
)

// FuzzC18: coverage-guided search over the generator and oracle of TestC18 (thorough tier; see internal/kit/fuzz.go).
func FuzzC18(f *testing.F) { kit.FuzzVia(f, TestC18) }

package c20

import (
	"pgregory.net/rapid"
)

// wide draws the widened dimensions of a case (wide.go): about a fifth of the cases leave the plain path
// "document built in memory, ExportToString, ConvertString".
func (g *gctx) wide(c *Case) {
	t := g.t
	// three kinds of cases: plain (nothing widened), light (the cheap dimensions only: entry points without files,
	// shared objects, a second document, other option fields) and full (files, documents read from packages)
	kind := rapid.SampledFrom([]string{"plain", "plain", "light", "plain", "plain", "full", "plain", "plain", "plain", "light", "plain", "plain", "plain", "full", "plain", "plain", "plain", "plain", "plain", "plain"}).Draw(t, "widekind")
	if kind == "plain" {
		return
	}
	w := &Wide{}
	c.W = w
	// entry point: the file based ones are the expensive ones (Save + Open per export)
	w.Sink = rapid.SampledFrom([]string{"", "bytes", "file", "", "bytes", "auto", "", "bytes", "batch", "", "bytes", "file", "", "bytes", "", "", "bytes", "", "", "bytes", "", "bytes", "", ""}).Draw(t, "sink")
	w.Src = rapid.SampledFrom([]string{"", "foreign", "saved", "", "foreign", "foreign", "", ""}).Draw(t, "src")
	if kind == "light" {
		if w.fileSink() {
			w.Sink = "bytes"
		}
		w.Src = ""
	}
	w.Shared = rapid.SampledFrom([]bool{true, false, false, true, false, true, false}).Draw(t, "shared")
	w.Conv = oneIn(t, "conv", 5)
	if w.Sink != "auto" {
		w.RT = rapid.SampledFrom([]string{"", "bytes", "", "", "bytes", ""}).Draw(t, "rt")
		if w.fileSink() && rapid.IntRange(0, 1).Draw(t, "rtfile") == 0 {
			w.RT = "file"
		}
	}
	if w.fileSink() {
		w.Names = rapid.SampledFrom([]string{"", "", "upper", "", "dots", "", "unicode", "", "space", ""}).Draw(t, "names")
	}
	if oneIn(t, "extra", 3) {
		x := &Extra{Lang: rapid.SampledFrom([]string{"", "go", "", "text", ""}).Draw(t, "lang"), Callbacks: rapid.Bool().Draw(t, "cb"), ImgDir: rapid.Bool().Draw(t, "imgdir")}
		for i, n := 0, rapid.IntRange(0, 3).Draw(t, "nflip"); i < n; i++ {
			f := rapid.SampledFrom(flippable).Draw(t, "flip")
			dup := false
			for _, y := range x.Flip {
				dup = dup || y == f
			}
			if !dup {
				x.Flip = append(x.Flip, f)
			}
		}
		w.X = x
	}
	// a second document, exported in between through the judged exporter (two documents used alternately)
	if oneIn(t, "otherp", 3) {
		sub := &gctx{t: t, f: g.f, o: g.o, hc: g.hc, hp: g.hp}
		for i, n := 0, rapid.IntRange(1, 4).Draw(t, "nother"); i < n; i++ {
			w.Other = append(w.Other, sub.block(i))
		}
		pos := rapid.IntRange(0, len(c.Hist)).Draw(t, "otherpos")
		hist := append([]Step{}, c.Hist[:pos]...)
		hist = append(hist, Step{K: "otherdoc"})
		c.Hist = append(hist, c.Hist[pos:]...)
	}
	if w.fileSink() && oneIn(t, "badfile", 4) {
		c.Hist = append(c.Hist, Step{K: "badfile"})
	}
	if w.Sink == "batch" {
		n := rapid.SampledFrom([]int{1, 2, 1, 3, 2, 1, 2, 1, 2, 3}).Draw(t, "nbatch")
		if oneIn(t, "nbatchbig", 12) { // the 10th, 11th, 12th input
			n = rapid.SampledFrom([]int{9, 10, 11}).Draw(t, "nbatch2")
		}
		bad := oneIn(t, "batchbad", 5) && ignoresErrors(*c)
		for i := 0; i < n; i++ {
			k := rapid.IntRange(1, len(c.Blocks)).Draw(t, "cut")
			if bad && i == n/2 {
				k = 0
			}
			w.Batch = append(w.Batch, k)
		}
		w.At = rapid.IntRange(0, n).Draw(t, "at")
	}
	if w.Src == "foreign" {
		g.foreign(c, w)
	}
}

// ignoresErrors: the options of the case's judged exports are the caller's own struct with IgnoreErrors set
// (the default of DefaultExportOptions, not flipped), passed to the call itself.
func ignoresErrors(c Case) bool {
	if c.Via != "" {
		return false
	}
	if w := c.wide(); w.X != nil {
		for _, f := range w.X.Flip {
			if f == "IgnoreErrors" {
				return false
			}
		}
	}
	return true
}

// foreign draws the spellings of the foreign writer: document-level ones and the per-block / per-run ones.
func (g *gctx) foreign(c *Case, w *Wide) {
	t := g.t
	one := func(label string, of int) bool { return oneIn(t, label, of) }
	w.F = Foreign{
		Prefix:    rapid.SampledFrom([]string{"", "", "", "ns0", "", "wx", "", ""}).Draw(t, "fprefix"),
		NoBodySec: one("fnobody", 6),
		NoStyles:  one("fnostyles", 4),
		DirEnt:    one("fdirent", 5),
		EmptyPart: one("femptypart", 6),
		AbsTarget: one("fabs", 5),
		BareTable: one("fbare", 4),
		TblHeader: one("ftblhdr", 4),
		Rsid:      one("frsid", 2),
		On:        rapid.SampledFrom([]string{"", "true", "", "1", "", "on", ""}).Draw(t, "fon"),
		Stored:    one("fstored", 6),
		EmptyTbl:  one("femptytbl", 6),
	}
	// the table without rows stands after the first block: what it is between two lines of one piece of code (nothing, an
	// empty line, the end of the piece) no statement says - not generated there
	if len(c.Blocks) > 0 && c.Blocks[0].K == "code" {
		w.F.EmptyTbl = false
	}
	sections := one("fsections", 2)
	offs := one("foffs", 3)
	marks := one("fmarks", 3)
	nonum := one("fnonum", 5)
	splits := one("fsplits", 2)
	cut := func(s string, label string) int {
		n := len([]rune(s))
		if n < 2 || !splits || !one(label, 2) {
			return 0
		}
		return rapid.IntRange(1, n-1).Draw(t, label+"at")
	}
	for i := range c.Blocks {
		b := &c.Blocks[i]
		if b.K == "table" {
			continue
		}
		if sections && one("fsect", 3) {
			b.Sect = true
		}
		if marks && one("fmark", 2) {
			b.MarkFmt = rapid.IntRange(1, 7).Draw(t, "fmarkfmt")
		}
		switch b.K {
		case "p":
			if nonum && one("fnonump", 2) {
				b.NoNum = true
			}
			for j := range b.Runs {
				r := &b.Runs[j]
				if offs && one("foff", 2) {
					r.Off = rapid.IntRange(1, 7).Draw(t, "foffm") &^ r.mask()
				}
				r.Split = cut(r.T, "fsplit")
			}
		case "h", "q", "li", "code":
			if offs && one("foffb", 2) {
				b.Off = rapid.IntRange(1, 7).Draw(t, "foffbm")
			}
			b.Split = cut(b.T, "fsplitb")
		}
	}
	// a section break early in the document (at least two blocks follow) in half of the multi-section documents
	if sections && len(c.Blocks) >= 3 && one("fsectearly", 2) {
		for i := 0; i < len(c.Blocks)-2; i++ {
			if c.Blocks[i].K != "table" {
				c.Blocks[i].Sect = true
				break
			}
		}
	}
}

// oneIn: true with a probability of roughly 0.6/n. (rapid draws the ends of an integer range, 0 above all, far more
// often than the values in between: a rare event must not sit there.)
func oneIn(t *rapid.T, label string, n int) bool {
	if n <= 1 {
		return true
	}
	return rapid.IntRange(0, n-1).Draw(t, label) == n*2/3
}

package c20

import (
	"encoding/json"
	"fmt"
	"os"
	"sort"
	"strings"
	"testing"

	"github.com/zerx-lab/wordZero/pkg/markdown"
)

// TestProbe is a development aid: C20_PROBE=<file with one case or an array of cases> prints what the
// exporter, the reference parser and the round trip make of each case. Skipped in normal runs.
func TestProbe(t *testing.T) {
	p := os.Getenv("C20_PROBE")
	if p == "" {
		t.Skip("C20_PROBE not set")
	}
	if p == "lines" { // the open: lines of KNOWN_FINDINGS.txt for this property
		for _, k := range kfs {
			seen := map[string]bool{}
			var cl []string
			for _, pt := range k.parts {
				for _, x := range strings.Fields(pt.clauses) {
					if !seen[x] {
						seen[x] = true
						cl = append(cl, x)
					}
				}
			}
			sort.Strings(cl)
			fmt.Printf("open:  property=C20 id=%s clause=%s witness=replays/kf/%s.json  %s\n", k.id, strings.Join(cl, ","), k.id, k.desc)
		}
		return
	}
	js, err := os.ReadFile(p)
	if err != nil {
		t.Fatal(err)
	}
	var cs []Case
	if err := json.Unmarshal(js, &cs); err != nil {
		var c Case
		if err := json.Unmarshal(js, &c); err != nil {
			t.Fatal(err)
		}
		cs = []Case{c}
	}
	for i, c := range cs {
		fmt.Printf("=== case %d: %s\n", i, js1(c))
		d, err := build(c)
		if err != nil {
			fmt.Println("build:", err)
			continue
		}
		o := exportOpts(c.O)
		md1, _ := markdown.NewExporter(nil).ExportToString(d, o)
		fmt.Printf("md1: %q\n", md1)
		fmt.Println("want:   ", descrAll(expected(c)))
		fmt.Println("goldmk: ", descrAll(ParseMD(md1)))
		d2, err := markdown.NewConverter(nil).ConvertString(md1, nil)
		if err == nil {
			fmt.Println("back:   ", descrAll(readDoc(d2)))
			md2, _ := markdown.NewExporter(nil).ExportToString(d2, o)
			fmt.Printf("md2: %q\n", md2)
		}
		res := run(c)
		cl, ex := triggered(c)
		fmt.Println("class masks:", cl, "exact masks:", ex)
		for _, f := range res.Failures {
			who := "UNATTRIBUTED"
			for _, k := range findings {
				if k.Trigger(c, f) {
					who = k.ID
					break
				}
			}
			d := f.Detail
			if len(d) > 300 {
				d = d[:300] + "..."
			}
			fmt.Printf("  FAIL %s [%s]: %s\n", f.Clause, who, d)
		}
	}
}

func js1(v interface{}) string { b, _ := json.Marshal(v); return string(b) }

// TestEnumDelims (C20_ENUM=1): exhaustive small space of run-format neighbourhoods; compares which of them
// fail E1-E3 with the class predicates (development aid for keeping the triggers tight).
func TestEnumDelims(t *testing.T) {
	if os.Getenv("C20_ENUM") == "" {
		t.Skip("C20_ENUM not set")
	}
	mk := func(m int, s string) Run { return Run{T: s, B: m&mB != 0, I: m&mI != 0, S: m&mS != 0, C: m&mC != 0} }
	type row struct{ fail, pred int }
	stat := map[string]*row{}
	note := func(key string, c Case) {
		res := run(c)
		fail := false
		for _, f := range res.Failures {
			if f.Clause == "C20.E1" || f.Clause == "C20.E2" || f.Clause == "C20.E3" {
				fail = true
			}
		}
		cl, _ := triggered(c)
		pred := len(cl) > 0
		r := stat[key]
		if r == nil {
			r = &row{}
			stat[key] = r
		}
		if fail {
			r.fail++
		}
		if pred {
			r.pred++
		}
		if fail && !pred {
			fmt.Printf("UNCOVERED %s %s\n", key, js1(c.Blocks))
		}
		if pred && !fail {
			fmt.Printf("BROAD     %s %s %v\n", key, js1(c.Blocks), cl)
		}
	}
	for _, em := range []string{"*", "_"} {
		o := Opts{GFM: true, Bullet: "-", Emph: em, MaxLen: 80}
		for m1 := 0; m1 < 16; m1++ {
			for m2 := 0; m2 < 16; m2++ {
				if m1 == 0 && m2 == 0 {
					continue
				}
				for _, sep := range []string{"", " "} {
					c := Case{Blocks: []Block{{K: "p", Runs: []Run{mk(m1, "a"), mk(m2, sep+"b")}}}, O: o}
					if m2 != 0 && sep == " " {
						continue // edge blank in a formatted run: other class
					}
					note(fmt.Sprintf("pair emph=%s sep=%q", em, sep), c)
				}
			}
		}
		for m := 1; m < 16; m++ {
			for _, l := range []string{"x", "x ", "中", "x."} {
				for _, r := range []string{"y", " y", "文", ".y"} {
					c := Case{Blocks: []Block{{K: "p", Runs: []Run{mk(0, l), mk(m, "a"), mk(0, r)}}}, O: o}
					note(fmt.Sprintf("triple emph=%s", em), c)
				}
			}
		}
	}
	for k, r := range stat {
		fmt.Printf("%s: fail=%d pred=%d\n", k, r.fail, r.pred)
	}
}

func TestEnumPairs(t *testing.T) {
	if os.Getenv("C20_ENUM") == "" {
		t.Skip("C20_ENUM not set")
	}
	mk := func(m int, s string) Run { return Run{T: s, B: m&mB != 0, I: m&mI != 0, S: m&mS != 0, C: m&mC != 0} }
	ms := []int{mB, mI, mB | mI, mS, mB | mS, mI | mS, mB | mI | mS, mC}
	name := func(m int) string {
		s := ""
		for i, ch := range "BISC" {
			if m&(1<<i) != 0 {
				s += string(ch)
			}
		}
		return s
	}
	for _, em := range []string{"*", "_"} {
		o := Opts{GFM: true, Bullet: "-", Emph: em, MaxLen: 80}
		fmt.Printf("emph=%s  rows: first run, cols: second run; X = E1-E3 fail\n      ", em)
		for _, m2 := range ms {
			fmt.Printf("%-4s", name(m2))
		}
		fmt.Println()
		for _, m1 := range ms {
			fmt.Printf("%-6s", name(m1))
			for _, m2 := range ms {
				c := Case{Blocks: []Block{{K: "p", Runs: []Run{mk(m1, "a"), mk(m2, "b")}}}, O: o}
				res := run(c)
				x := "."
				for _, f := range res.Failures {
					if f.Clause == "C20.E1" || f.Clause == "C20.E2" || f.Clause == "C20.E3" {
						x = "X"
					}
				}
				fmt.Printf("%-4s", x)
			}
			fmt.Println()
		}
	}
}

// TestEnumChains (C20_ENUM=1): every chain of 2..4 runs over {plain " x ", plain "x", B, I, BI, S, BS, IS, BIS, C}
// under both emphasis markers; a chain that fails E1-E3 must be inside a class predicate.
func TestEnumChains(t *testing.T) {
	if os.Getenv("C20_ENUM") == "" {
		t.Skip("C20_ENUM not set")
	}
	type rk struct {
		m int
		t string
	}
	alpha := []rk{{0, " x "}, {0, "x"}, {mB, "a"}, {mI, "a"}, {mB | mI, "a"}, {mS, "a"}, {mB | mS, "a"}, {mI | mS, "a"}, {mB | mI | mS, "a"}, {mC, "a"}}
	if os.Getenv("C20_ENUM") == "2" { // with code-font combinations (meaningful once the backticks are innermost)
		alpha = append(alpha, rk{mB | mC, "a"}, rk{mI | mC, "a"}, rk{mS | mC, "a"}, rk{mB | mS | mC, "a"})
	}
	ignore := os.Getenv("C20_ENUM_IGNORE") // a class to leave out of the comparison (its finding is repaired in the copy under test)
	mk := func(k rk) Run { return Run{T: k.t, B: k.m&mB != 0, I: k.m&mI != 0, S: k.m&mS != 0, C: k.m&mC != 0} }
	unc, broad, n, nf := 0, 0, 0, 0
	var rec func(rs []Run, depth int, o Opts)
	rec = func(rs []Run, depth int, o Opts) {
		if len(rs) >= 2 {
			ok := true
			// paragraph edges must not be blank (other class), two plain runs must not touch without meaning
			if rs[0].T == " x " || rs[len(rs)-1].T == " x " {
				ok = false
			}
			if ok {
				c := Case{Blocks: []Block{{K: "p", Runs: append([]Run{}, rs...)}}, O: o}
				res := run(c)
				fail := false
				for _, f := range res.Failures {
					if f.Clause == "C20.E1" || f.Clause == "C20.E2" || f.Clause == "C20.E3" {
						fail = true
					}
				}
				cl0, _ := triggered(c)
				var cl []string
				for _, x := range cl0 {
					if x != ignore {
						cl = append(cl, x)
					}
				}
				n++
				if fail {
					nf++
				}
				if fail && len(cl) == 0 {
					unc++
					if unc < 30 {
						fmt.Printf("UNCOVERED emph=%s %s\n", o.Emph, js1(rs))
					}
				}
				if !fail && len(cl) > 0 {
					broad++
					if broad < 15 {
						fmt.Printf("BROAD emph=%s %s\n", o.Emph, js1(rs))
					}
				}
			}
		}
		if depth == 0 {
			return
		}
		for _, k := range alpha {
			rec(append(rs, mk(k)), depth-1, o)
		}
	}
	for _, em := range []string{"*", "_"} {
		rec(nil, 4, Opts{GFM: true, Bullet: "-", Emph: em, MaxLen: 80})
	}
	fmt.Printf("chains=%d failing=%d uncovered=%d broad=%d\n", n, nf, unc, broad)
}

package c20

import (
	"flag"
	"strconv"

	"encoding/json"
	"fmt"
	"os"
	"pgregory.net/rapid"
	"sort"
	"strings"
	"testing"

	"github.com/zerx-lab/wordZero/pkg/markdown"
)

// TestProbe is a development aid: C20_PROBE=<file with one case or an array of cases> prints what the
// exporter, the reference parser and the round trip make of each case. Skipped in normal runs.
func TestProbe(t *testing.T) {
	p := os.Getenv("C20_PROBE")
	if p == "" {
		t.Skip("C20_PROBE not set")
	}
	defer removeProcScratch()
	if p == "lines" { // the open: lines of KNOWN_FINDINGS.txt for this property
		for _, k := range kfs {
			seen := map[string]bool{}
			var cl []string
			for _, pt := range k.parts {
				for _, x := range strings.Fields(pt.clauses) {
					if !seen[x] {
						seen[x] = true
						cl = append(cl, x)
					}
				}
			}
			sort.Strings(cl)
			fmt.Printf("open:  property=C20 id=%s clause=%s witness=replays/kf/%s.json  %s\n", k.id, strings.Join(cl, ","), k.id, k.desc)
		}
		return
	}
	if p == "fixed" { // which classes the hand-written cases are in, and what fails on them
		for i, c := range fixedCases() {
			cl, ex := triggered(c)
			un, att := openFails(c)
			fmt.Printf("fixed case %d: class masks %v exact masks %v attributed %v unattributed %d\n", i, cl, ex, att, len(un))
		}
		return
	}
	js, err := os.ReadFile(p)
	if err != nil {
		t.Fatal(err)
	}
	var cs []Case
	if err := json.Unmarshal(js, &cs); err != nil {
		var c Case
		if err := json.Unmarshal(js, &c); err != nil {
			t.Fatal(err)
		}
		cs = []Case{c}
	}
	for i, c := range cs {
		fmt.Printf("=== case %d: %s\n", i, js1(c))
		d, err := build(c)
		if err != nil {
			fmt.Println("build:", err)
			continue
		}
		o := exportOpts(c.O)
		md1, _ := markdown.NewExporter(nil).ExportToString(d, o)
		fmt.Printf("md1: %q\n", md1)
		fmt.Println("want:   ", descrAll(expected(c)))
		fmt.Println("goldmk: ", descrAll(ParseMD(md1)))
		d2, err := markdown.NewConverter(nil).ConvertString(md1, nil)
		if err == nil {
			fmt.Println("back:   ", descrAll(readDoc(d2)))
			md2, _ := markdown.NewExporter(nil).ExportToString(d2, o)
			fmt.Printf("md2: %q\n", md2)
		}
		res := run(c)
		cl, ex := triggered(c)
		fmt.Println("class masks:", cl, "exact masks:", ex)
		for _, f := range res.Failures {
			who := "UNATTRIBUTED"
			for _, k := range findings {
				if k.Trigger(c, f) {
					who = k.ID
					break
				}
			}
			d := f.Detail
			if len(d) > 300 {
				d = d[:300] + "..."
			}
			fmt.Printf("  FAIL %s [%s]: %s\n", f.Clause, who, d)
		}
	}
}

func js1(v interface{}) string { b, _ := json.Marshal(v); return string(b) }

// TestEnumDelims (C20_ENUM=1): exhaustive small space of run-format neighbourhoods; compares which of them
// fail E1-E3 with the class predicates (development aid for keeping the triggers tight).
func TestEnumDelims(t *testing.T) {
	if os.Getenv("C20_ENUM") == "" {
		t.Skip("C20_ENUM not set")
	}
	mk := func(m int, s string) Run { return Run{T: s, B: m&mB != 0, I: m&mI != 0, S: m&mS != 0, C: m&mC != 0} }
	type row struct{ fail, pred int }
	stat := map[string]*row{}
	note := func(key string, c Case) {
		res := run(c)
		fail := false
		for _, f := range res.Failures {
			if f.Clause == "C20.E1" || f.Clause == "C20.E2" || f.Clause == "C20.E3" {
				fail = true
			}
		}
		cl, _ := triggered(c)
		pred := len(cl) > 0
		r := stat[key]
		if r == nil {
			r = &row{}
			stat[key] = r
		}
		if fail {
			r.fail++
		}
		if pred {
			r.pred++
		}
		if fail && !pred {
			fmt.Printf("UNCOVERED %s %s\n", key, js1(c.Blocks))
		}
		if pred && !fail {
			fmt.Printf("BROAD     %s %s %v\n", key, js1(c.Blocks), cl)
		}
	}
	for _, em := range []string{"*", "_"} {
		o := Opts{GFM: true, Bullet: "-", Emph: em, MaxLen: 80}
		for m1 := 0; m1 < 16; m1++ {
			for m2 := 0; m2 < 16; m2++ {
				if m1 == 0 && m2 == 0 {
					continue
				}
				for _, sep := range []string{"", " "} {
					c := Case{Blocks: []Block{{K: "p", Runs: []Run{mk(m1, "a"), mk(m2, sep+"b")}}}, O: o}
					if m2 != 0 && sep == " " {
						continue // edge blank in a formatted run: other class
					}
					note(fmt.Sprintf("pair emph=%s sep=%q", em, sep), c)
				}
			}
		}
		for m := 1; m < 16; m++ {
			for _, l := range []string{"x", "x ", "中", "x."} {
				for _, r := range []string{"y", " y", "文", ".y"} {
					c := Case{Blocks: []Block{{K: "p", Runs: []Run{mk(0, l), mk(m, "a"), mk(0, r)}}}, O: o}
					note(fmt.Sprintf("triple emph=%s", em), c)
				}
			}
		}
	}
	for k, r := range stat {
		fmt.Printf("%s: fail=%d pred=%d\n", k, r.fail, r.pred)
	}
}

func TestEnumPairs(t *testing.T) {
	if os.Getenv("C20_ENUM") == "" {
		t.Skip("C20_ENUM not set")
	}
	mk := func(m int, s string) Run { return Run{T: s, B: m&mB != 0, I: m&mI != 0, S: m&mS != 0, C: m&mC != 0} }
	ms := []int{mB, mI, mB | mI, mS, mB | mS, mI | mS, mB | mI | mS, mC}
	name := func(m int) string {
		s := ""
		for i, ch := range "BISC" {
			if m&(1<<i) != 0 {
				s += string(ch)
			}
		}
		return s
	}
	for _, em := range []string{"*", "_"} {
		o := Opts{GFM: true, Bullet: "-", Emph: em, MaxLen: 80}
		fmt.Printf("emph=%s  rows: first run, cols: second run; X = E1-E3 fail\n      ", em)
		for _, m2 := range ms {
			fmt.Printf("%-4s", name(m2))
		}
		fmt.Println()
		for _, m1 := range ms {
			fmt.Printf("%-6s", name(m1))
			for _, m2 := range ms {
				c := Case{Blocks: []Block{{K: "p", Runs: []Run{mk(m1, "a"), mk(m2, "b")}}}, O: o}
				res := run(c)
				x := "."
				for _, f := range res.Failures {
					if f.Clause == "C20.E1" || f.Clause == "C20.E2" || f.Clause == "C20.E3" {
						x = "X"
					}
				}
				fmt.Printf("%-4s", x)
			}
			fmt.Println()
		}
	}
}

// TestEnumChains (C20_ENUM=1): every chain of 2..4 runs over {plain " x ", plain "x", B, I, BI, S, BS, IS, BIS, C}
// under both emphasis markers; a chain that fails E1-E3 must be inside a class predicate.
func TestEnumChains(t *testing.T) {
	if os.Getenv("C20_ENUM") == "" {
		t.Skip("C20_ENUM not set")
	}
	type rk struct {
		m int
		t string
	}
	alpha := []rk{{0, " x "}, {0, "x"}, {mB, "a"}, {mI, "a"}, {mB | mI, "a"}, {mS, "a"}, {mB | mS, "a"}, {mI | mS, "a"}, {mB | mI | mS, "a"}, {mC, "a"}}
	if os.Getenv("C20_ENUM") == "2" { // with code-font combinations (meaningful once the backticks are innermost)
		alpha = append(alpha, rk{mB | mC, "a"}, rk{mI | mC, "a"}, rk{mS | mC, "a"}, rk{mB | mS | mC, "a"})
	}
	ignore := os.Getenv("C20_ENUM_IGNORE") // a class to leave out of the comparison (its finding is repaired in the copy under test)
	mk := func(k rk) Run { return Run{T: k.t, B: k.m&mB != 0, I: k.m&mI != 0, S: k.m&mS != 0, C: k.m&mC != 0} }
	unc, broad, n, nf := 0, 0, 0, 0
	var rec func(rs []Run, depth int, o Opts)
	rec = func(rs []Run, depth int, o Opts) {
		if len(rs) >= 2 {
			ok := true
			// paragraph edges must not be blank (other class), two plain runs must not touch without meaning
			if rs[0].T == " x " || rs[len(rs)-1].T == " x " {
				ok = false
			}
			if ok {
				c := Case{Blocks: []Block{{K: "p", Runs: append([]Run{}, rs...)}}, O: o}
				un, att := openFails(c)
				fail := len(un)+len(att) > 0
				cl0, _ := triggered(c)
				var cl []string
				for _, x := range cl0 {
					if x != ignore {
						cl = append(cl, x)
					}
				}
				n++
				if fail {
					nf++
				}
				if len(un) > 0 {
					unc++
					if unc < 30 {
						fmt.Printf("UNCOVERED emph=%s %s\n", o.Emph, js1(rs))
					}
				}
				if !fail && len(cl) > 0 {
					broad++
					if broad < 1500 {
						fmt.Printf("BROAD emph=%s %s\n", o.Emph, js1(rs))
					}
				}
			}
		}
		if depth == 0 {
			return
		}
		for _, k := range alpha {
			rec(append(rs, mk(k)), depth-1, o)
		}
	}
	for _, em := range []string{"*", "_"} {
		rec(nil, 4, Opts{GFM: true, Bullet: "-", Emph: em, MaxLen: 80})
	}
	fmt.Printf("chains=%d failing=%d uncovered=%d broad=%d\n", n, nf, unc, broad)
}

type failure struct{ clause, detail string }

func openFails(c Case) (un []failure, att []string) {
	res := run(c)
	for _, f := range res.Failures {
		who := ""
		for _, k := range findings {
			if isOpen(k.ID) && k.Trigger(c, f) {
				who = k.ID
				break
			}
		}
		if who == "" {
			un = append(un, failure{f.Clause, f.Detail})
		} else {
			att = append(att, f.Clause+":"+who)
		}
	}
	return
}

// TestEnumHostile (C20_ENUM=h): every hostile token in every block kind / position / option that matters;
// prints the (token, context) pairs with a failure no open finding accounts for.
func TestEnumHostile(t *testing.T) {
	if os.Getenv("C20_ENUM") != "h" {
		t.Skip("C20_ENUM != h")
	}
	verbose := os.Getenv("C20_V") != ""
	toks := append([]string{}, hostileTokens()...)
	type ctx struct {
		name string
		mk   func(tok string) Case
	}
	def := Opts{GFM: true, Bullet: "-", Emph: "*", MaxLen: 80}
	p := func(rs ...Run) Block { return Block{K: "p", Runs: rs} }
	one := func(o Opts, bs ...Block) Case { return Case{Blocks: bs, O: o} }
	var ctxs []ctx
	add := func(name string, mk func(tok string) Case) { ctxs = append(ctxs, ctx{name, mk}) }
	add("p-alone", func(s string) Case { return one(def, p(Run{T: s})) })
	add("p-start", func(s string) Case { return one(def, p(Run{T: s + " beta"})) })
	add("p-mid", func(s string) Case { return one(def, p(Run{T: "alpha " + s + " beta"})) })
	add("p-end", func(s string) Case { return one(def, p(Run{T: "alpha " + s})) })
	add("p-intra", func(s string) Case { return one(def, p(Run{T: "x" + s + "y"})) })
	add("p-twice", func(s string) Case { return one(def, p(Run{T: s + " " + s})) })
	add("p-after-p", func(s string) Case { return one(def, p(Run{T: "alpha"}), p(Run{T: s})) })
	add("p-own-run", func(s string) Case { return one(def, p(Run{T: "alpha "}, Run{T: s}, Run{T: " beta"})) })
	add("p-own-run-touch", func(s string) Case { return one(def, p(Run{T: "alpha"}, Run{T: s}, Run{T: "beta"})) })
	wrap := def
	wrap.Wrap, wrap.MaxLen = true, 1
	add("p-wrap1", func(s string) Case { return one(wrap, p(Run{T: "alpha " + s + " beta " + s})) })
	for _, m := range []int{mB, mI, mS, mB | mI, mB | mS, mB | mI | mS, mC, mC | mB} {
		m := m
		mkr := func(s string) Run { return Run{T: s, B: m&mB != 0, I: m&mI != 0, S: m&mS != 0, C: m&mC != 0} }
		add(fmt.Sprintf("fmt%d-spaced", m), func(s string) Case { return one(def, p(Run{T: "alpha "}, mkr(s), Run{T: " beta"})) })
		add(fmt.Sprintf("fmt%d-inner", m), func(s string) Case { return one(def, p(Run{T: "alpha "}, mkr("k "+s+" q"), Run{T: " beta"})) })
		add(fmt.Sprintf("fmt%d-alone", m), func(s string) Case { return one(def, p(mkr("k "+s+" q"))) })
		add(fmt.Sprintf("fmt%d-wrap1", m), func(s string) Case { return one(wrap, p(Run{T: "alpha "}, mkr("k "+s+" q"), Run{T: " beta"})) })
	}
	us := def
	us.Emph = "_"
	for _, m := range []int{mI, mI | mS, mI | mC, mB | mI} {
		m := m
		mkr := func(s string) Run { return Run{T: s, B: m&mB != 0, I: m&mI != 0, S: m&mS != 0, C: m&mC != 0} }
		add(fmt.Sprintf("us-fmt%d-spaced", m), func(s string) Case { return one(us, p(Run{T: "alpha "}, mkr(s), Run{T: " beta"})) })
		add(fmt.Sprintf("us-fmt%d-alone", m), func(s string) Case { return one(us, p(mkr(s))) })
		add(fmt.Sprintf("us-fmt%d-touch", m), func(s string) Case { return one(us, p(Run{T: "alpha"}, mkr("k "+s+" q"), Run{T: "beta"})) })
	}
	add("cell-plainhdr", func(s string) Case {
		return one(def, Block{K: "table", Cells: [][]string{{s, "alpha " + s}, {"c", s}}})
	})
	add("fmtI_-inner", func(s string) Case {
		return one(us, p(Run{T: "alpha "}, Run{T: "k " + s + " q", I: true}, Run{T: " beta"}))
	})
	for _, lv := range []int{1, 2, 3, 6} {
		lv := lv
		add(fmt.Sprintf("h%d", lv), func(s string) Case { return one(def, Block{K: "h", Level: lv, T: s}, p(Run{T: "after"})) })
		add(fmt.Sprintf("h%d-mid", lv), func(s string) Case {
			return one(def, Block{K: "h", Level: lv, T: "alpha " + s + " beta"}, p(Run{T: "after"}))
		})
		add(fmt.Sprintf("h%d-end", lv), func(s string) Case { return one(def, Block{K: "h", Level: lv, T: "alpha " + s}, p(Run{T: "after"})) })
	}
	se := def
	se.Setext = true
	for _, lv := range []int{1, 2} {
		lv := lv
		add(fmt.Sprintf("setext%d", lv), func(s string) Case {
			return one(se, p(Run{T: "before"}), Block{K: "h", Level: lv, T: s}, p(Run{T: "after"}))
		})
		add(fmt.Sprintf("setext%d-mid", lv), func(s string) Case {
			return one(se, Block{K: "h", Level: lv, T: "alpha " + s + " beta"}, p(Run{T: "after"}))
		})
	}
	for _, b := range []string{"-", "*", "+"} {
		o := def
		o.Bullet = b
		add("li"+b, func(s string) Case {
			return one(o, p(Run{T: "before"}), Block{K: "li", T: s}, Block{K: "li", T: "alpha " + s}, p(Run{T: "after"}))
		})
		add("li"+b+"-start", func(s string) Case { return one(o, Block{K: "li", T: s + " beta"}, p(Run{T: "after"})) })
	}
	add("li-ord", func(s string) Case {
		return one(def, Block{K: "li", Ord: true, T: s}, Block{K: "li", Ord: true, T: s + " beta"})
	})
	add("q", func(s string) Case { return one(def, p(Run{T: "before"}), Block{K: "q", T: s}, p(Run{T: "after"})) })
	add("q-mid", func(s string) Case {
		return one(def, Block{K: "q", T: "alpha " + s + " beta"}, Block{K: "q", T: s + " beta"})
	})
	add("cell-hdr", func(s string) Case {
		return one(def, Block{K: "table", HdrBold: true, Cells: [][]string{{s, "b"}, {"c", "d"}}})
	})
	add("cell-body", func(s string) Case {
		return one(def, Block{K: "table", HdrBold: true, Cells: [][]string{{"a", "b"}, {s, "alpha " + s + " beta"}}})
	})
	add("cell-last", func(s string) Case {
		return one(def, p(Run{T: "before"}), Block{K: "table", HdrBold: true, Cells: [][]string{{"a", "b"}, {"c", s}}}, p(Run{T: "after"}))
	})
	add("cell-1x1", func(s string) Case { return one(def, Block{K: "table", HdrBold: true, Cells: [][]string{{s}}}) })
	add("code", func(s string) Case { return one(def, p(Run{T: "before"}), Block{K: "code", T: s}, p(Run{T: "after"})) })
	add("code-mid", func(s string) Case {
		return one(def, Block{K: "code", T: "alpha " + s + " beta"}, Block{K: "code", T: s + " beta"})
	})
	sg := def
	sg.GFM = false
	add("simple-cell", func(s string) Case {
		return one(sg, p(Run{T: "before"}), Block{K: "table", HdrBold: true, Cells: [][]string{{"a", s}, {s, "d"}}}, p(Run{T: "after"}))
	})
	add("simple-cell-plainhdr", func(s string) Case {
		return one(sg, Block{K: "table", Cells: [][]string{{s, "b"}, {"c", "alpha " + s}}})
	})

	bad := map[string][]string{}
	n := 0
	for _, cx := range ctxs {
		for _, tok := range toks {
			c := cx.mk(tok)
			n++
			un, _ := openFails(c)
			if len(un) == 0 {
				continue
			}
			var cl []string
			for _, f := range un {
				cl = append(cl, strings.TrimPrefix(f.clause, "C20."))
			}
			key := cx.name + " [" + strings.Join(cl, ",") + "]"
			bad[key] = append(bad[key], tok)
			if verbose {
				fmt.Printf("--- %s tok=%q\n    %s\n    %.400s\n", cx.name, tok, js1(c), un[0].detail)
			}
		}
	}
	keys := make([]string, 0, len(bad))
	for k := range bad {
		keys = append(keys, k)
	}
	sort.Strings(keys)
	for _, k := range keys {
		fmt.Printf("%-40s %q\n", k, bad[k])
	}
	fmt.Printf("cases=%d contexts-with-failures=%d\n", n, len(keys))
}

// TestEnumEdges (C20_ENUM=e): formatted runs whose text begins/ends with punctuation of several kinds, between
// plain neighbours that touch them with letters, blanks or punctuation, and pairs/triples of touching formatted
// runs with such texts: every case failing E1-E5 must be inside an open finding's class (UNCOVERED), and the
// classes should not hold passing cases (BROAD).
func TestEnumEdges(t *testing.T) {
	if os.Getenv("C20_ENUM") != "e" {
		t.Skip("C20_ENUM != e")
	}
	mk := func(m int, s string) Run { return Run{T: s, B: m&mB != 0, I: m&mI != 0, S: m&mS != 0, C: m&mC != 0} }
	masks := []int{mB, mI, mB | mI, mS, mB | mS, mI | mS, mB | mI | mS, mC, mB | mC, mI | mC, mS | mC, mB | mS | mC}
	texts := []string{"a", "a.", ".a", "(a)", "*a", "a*", "_a_", "~a", "a~", "`a", "a`", "“a”", "a—", "$a", "a+", "<a>", "&a;", "\\a", "a\\", "1.", "#", "-", "a b", "€a", "a©"}
	lefts := []string{"", "x", "x ", "x.", "x*", "x~", "x\\", "中", "x ", "x—", "x$"}
	rights := []string{"", "y", " y", ".y", "*y", "~y", "\\y", "文", " y", "—y", "$y"}
	unc, broad, n, nf := 0, 0, 0, 0
	note := func(o Opts, rs ...Run) {
		var keep []Run
		for _, r := range rs {
			if r.T != "" {
				keep = append(keep, r)
			}
		}
		c := Case{Blocks: []Block{{K: "p", Runs: keep}}, O: o}
		un, att := openFails(c)
		cl, _ := triggered(c)
		n++
		if len(un) > 0 {
			nf++
			unc++
			if os.Getenv("C20_V") != "" {
				fmt.Printf("UNCOVERED emph=%s %s %s: %.200s\n", o.Emph, js1(keep), un[0].clause, un[0].detail)
			} else {
				var sb strings.Builder
				for _, r := range keep {
					sb.WriteString(fmt.Sprintf("%d%q ", r.mask(), r.T))
				}
				fmt.Printf("UNC %s %s %s\n", o.Emph, strings.TrimPrefix(un[0].clause, "C20."), sb.String())
			}
		} else if len(att) > 0 {
			nf++
		} else if len(cl) > 0 {
			broad++
			if broad <= 25 {
				fmt.Printf("BROAD emph=%s %s\n", o.Emph, js1(keep))
			}
		}
	}
	for _, em := range []string{"*", "_"} {
		o := Opts{GFM: true, Bullet: "-", Emph: em, MaxLen: 80}
		for _, m := range masks {
			for _, tx := range texts {
				for _, l := range lefts {
					for _, r := range rights {
						note(o, mk(0, l), mk(m, tx), mk(0, r))
					}
				}
			}
		}
		// touching formatted pairs with punctuation at the junction
		jt := []string{"a", "a.", ".a", "*a", "a*", "(a)"}
		for _, m1 := range masks {
			for _, m2 := range masks {
				if m1 == m2 {
					continue
				}
				for _, t1 := range jt {
					for _, t2 := range jt {
						note(o, mk(m1, t1), mk(m2, t2))
						note(o, mk(0, "x"), mk(m1, t1), mk(m2, t2), mk(0, "y"))
					}
				}
			}
		}
	}
	fmt.Printf("edges: cases=%d failing=%d uncovered=%d broad=%d\n", n, nf, unc, broad)
}

// TestEnumStars (C20_ENUM=s): chains of 3..5 touching runs over {B, I, BI} (no equal neighbours), alone and
// between touching plain letters: which fail?
func TestEnumStars(t *testing.T) {
	if os.Getenv("C20_ENUM") != "s" {
		t.Skip("C20_ENUM != s")
	}
	o := Opts{GFM: true, Bullet: "-", Emph: "*", MaxLen: 80}
	ms := []int{mB, mI, mB | mI}
	var rec func(seq []int, depth int)
	rec = func(seq []int, depth int) {
		if len(seq) >= 3 {
			for _, wrapd := range []bool{false, true} {
				var rs []Run
				if wrapd {
					rs = append(rs, Run{T: "x"})
				}
				for _, m := range seq {
					rs = append(rs, Run{T: "a", B: m&mB != 0, I: m&mI != 0})
				}
				if wrapd {
					rs = append(rs, Run{T: "y"})
				}
				c := Case{Blocks: []Block{{K: "p", Runs: rs}}, O: o}
				res := run(c)
				st := "ok  "
				if len(res.Failures) > 0 {
					st = "FAIL"
				}
				fmt.Printf("%s wrapped=%v %v\n", st, wrapd, seq)
			}
		}
		if depth == 0 {
			return
		}
		for _, m := range ms {
			if len(seq) > 0 && seq[len(seq)-1] == m {
				continue
			}
			rec(append(append([]int{}, seq...), m), depth-1)
		}
	}
	rec(nil, 5)
}

// TestSurvey (C20_SURVEY=<n>): n generated cases; instead of stopping at the first violation, lists the smallest
// cases with a failure no open finding accounts for, grouped by clause set.
func TestSurvey(t *testing.T) {
	n, _ := strconv.Atoi(os.Getenv("C20_SURVEY"))
	if n <= 0 {
		t.Skip("C20_SURVEY not set")
	}
	type hit struct {
		js, detail string
	}
	groups := map[string][]hit{}
	total, bad := 0, 0
	flag.Set("rapid.checks", strconv.Itoa(n))
	rapid.Check(t, func(rt *rapid.T) {
		c := genCase(rt)
		total++
		un, _ := openFails(c)
		if len(un) == 0 {
			return
		}
		bad++
		var cl []string
		for _, f := range un {
			cl = append(cl, strings.TrimPrefix(f.clause, "C20."))
		}
		k := strings.Join(cl, ",")
		groups[k] = append(groups[k], hit{js1(c), un[0].detail})
	})
	for k, hs := range groups {
		sort.Slice(hs, func(i, j int) bool { return len(hs[i].js) < len(hs[j].js) })
		fmt.Printf("##### clauses %s: %d cases\n", k, len(hs))
		for i := 0; i < len(hs) && i < 6; i++ {
			fmt.Printf("  %s\n    %.500s\n", hs[i].js, hs[i].detail)
		}
	}
	fmt.Printf("survey: cases=%d with-unattributed-failures=%d\n", total, bad)
}

// TestEnumAutolinks (C20_ENUM=a): autolink-like words at the edges of formatted runs and of their plain neighbours,
// in header cells and headings.
func TestEnumAutolinks(t *testing.T) {
	if os.Getenv("C20_ENUM") != "a" {
		t.Skip("C20_ENUM != a")
	}
	mk := func(m int, s string) Run { return Run{T: s, B: m&mB != 0, I: m&mI != 0, S: m&mS != 0, C: m&mC != 0} }
	def := Opts{GFM: true, Bullet: "-", Emph: "*", MaxLen: 80}
	us := def
	us.Emph = "_"
	toks := append(append([]string{}, hostileClasses["autolink"]...), hostileClasses["autolinkx"]...)
	toks = append(toks, "xwww.a.b", "www.a.bx", "http://", "www.", "a@b", "x.a@b.co", "http://a.b/c)", "(http://a.b/c)", "http://a.b/c.", "www.a.b/c~", "a@b.co.", "a@b.co-", "a@b.co_")
	bad := map[string][]string{}
	n := 0
	broad := 0
	note := func(ctx string, tok string, c Case) {
		n++
		un, att := openFails(c)
		if cl, _ := triggered(c); len(un) == 0 && len(att) == 0 && len(cl) > 0 {
			broad++
			if os.Getenv("C20_V") != "" {
				fmt.Printf("BROAD %s %q %s\n", ctx, tok, js1(c.Blocks))
			}
		}
		if len(un) == 0 {
			return
		}
		var cl []string
		for _, f := range un {
			cl = append(cl, strings.TrimPrefix(f.clause, "C20."))
		}
		k := ctx + " [" + strings.Join(cl, ",") + "]"
		bad[k] = append(bad[k], tok)
		if os.Getenv("C20_V") != "" {
			fmt.Printf("--- %s %q: %.300s\n", ctx, tok, un[0].detail)
		}
	}
	for _, o := range []Opts{def, us} {
		for _, m := range []int{mB, mI, mS, mB | mI, mB | mS, mC, mB | mC} {
			for _, tok := range toks {
				p := func(rs ...Run) Case { return Case{Blocks: []Block{{K: "p", Runs: rs}}, O: o} }
				tag := fmt.Sprintf("emph%s m%d ", o.Emph, m)
				note(tag+"plain-tok|fmt", tok, p(mk(0, "see "+tok), mk(m, "a")))
				note(tag+"fmt|tok-plain", tok, p(mk(m, "a"), mk(0, tok+" z")))
				note(tag+"fmt(tok..)", tok, p(mk(0, "see "), mk(m, tok+" a"), mk(0, " z")))
				note(tag+"fmt(..tok)", tok, p(mk(0, "see "), mk(m, "a "+tok), mk(0, " z")))
				note(tag+"fmt(tok)", tok, p(mk(0, "see "), mk(m, tok), mk(0, " z")))
				note(tag+"x|fmt(tok)|y", tok, p(mk(0, "x"), mk(m, tok), mk(0, "y")))
				note(tag+"fmt(..tok)|fmt", tok, p(mk(m, "a "+tok), mk(m^mB^mS, "b")))
				note(tag+"fmt(tok)|y", tok, p(mk(0, "see "), mk(m, tok), mk(0, "y")))
				note(tag+"x|fmt(tok)", tok, p(mk(0, "x"), mk(m, tok), mk(0, " z")))
				note(tag+"fmt|fmt(tok)", tok, p(mk(m^mB^mS, "b"), mk(m, tok)))
				note(tag+"(fmt(tok))", tok, p(mk(0, "see ("), mk(m, tok), mk(0, ") z")))
				// right after a code span (the reader treats the position after a finished inline node like a line start)
				note(tag+"code|x|fmt(tok)", tok, p(mk(mC, "c"), mk(0, "x"), mk(m, tok)))
				note(tag+"code|tok|fmt", tok, p(mk(mC, "c"), mk(0, tok), mk(m, "a")))
				note(tag+"code|fmt(tok)|y", tok, p(mk(mC, "c d"), mk(m&^mC, tok), mk(0, "y")))
				note(tag+"see code|x|fmt(tok)", tok, p(mk(0, "see "), mk(mC, "`"), mk(0, "x"), mk(m, tok), mk(0, " z")))
			}
		}
		for _, tok := range toks {
			note("hdr-cell", tok, Case{Blocks: []Block{{K: "table", HdrBold: true, Cells: [][]string{{tok, "a " + tok}, {tok + " a", "d"}}}}, O: o})
			note("body-cell", tok, Case{Blocks: []Block{{K: "table", HdrBold: true, Cells: [][]string{{"a", "b"}, {tok, "a " + tok}}}}, O: o})
			for _, lv := range []int{1, 3, 6} {
				note(fmt.Sprintf("h%d", lv), tok, Case{Blocks: []Block{{K: "h", Level: lv, T: tok}, {K: "h", Level: lv, T: "a " + tok}, {K: "h", Level: lv, T: tok + " a"}}, O: o})
			}
			note("li", tok, Case{Blocks: []Block{{K: "li", T: tok}, {K: "li", T: "a " + tok}}, O: o})
			note("q", tok, Case{Blocks: []Block{{K: "q", T: tok}, {K: "q", T: "a " + tok}}, O: o})
		}
	}
	keys := make([]string, 0, len(bad))
	for k := range bad {
		keys = append(keys, k)
	}
	sort.Strings(keys)
	for _, k := range keys {
		fmt.Printf("%-44s %q\n", k, bad[k])
	}
	fmt.Printf("autolinks: cases=%d uncovered-contexts=%d broad=%d\n", n, len(keys), broad)
}

// TestEnumLineEnds (C20_ENUM=n): every text of up to 5 characters over {a, b, blank, tab, LF, CR} as heading (ATX and
// setext), paragraph (one run, and cut into a plain and a bold run), item, quote, code paragraph and table cell:
// every case failing a clause must be inside an open finding's class (UNCOVERED), and the class that waives E1-E4
// (brokenByLineEnd) should not hold cases that pass them (BROAD).
func TestEnumLineEnds(t *testing.T) {
	if os.Getenv("C20_ENUM") != "n" {
		t.Skip("C20_ENUM != n")
	}
	alpha := []string{"a", "b", " ", "\t", "\n", "\r"}
	var texts []string
	var rec func(s string, n int)
	rec = func(s string, n int) {
		if strings.ContainsAny(s, "\n\r") && strings.ContainsAny(s, "ab") {
			texts = append(texts, s)
		}
		if n == 0 {
			return
		}
		for _, a := range alpha {
			rec(s+a, n-1)
		}
	}
	rec("", 5)
	unc, broad, n, nf := 0, 0, 0, 0
	uncBy, broadBy := map[string]int{}, map[string]int{}
	defer func() { fmt.Println("uncovered by kind:", uncBy, "broad by kind:", broadBy) }()
	note := func(o Opts, what string, bs ...Block) {
		c := Case{Blocks: append(append([]Block{{K: "p", Runs: []Run{{T: "before"}}}}, bs...), Block{K: "p", Runs: []Run{{T: "after"}}}), O: o}
		u0, b0 := unc, broad
		defer func() { uncBy[what] += unc - u0; broadBy[what] += broad - b0 }()
		un, att := openFails(c)
		n++
		hard := false
		for _, a := range att {
			if !strings.HasPrefix(a, "C20.E5:") {
				hard = true
			}
		}
		switch {
		case len(un) > 0:
			nf++
			unc++
			if uncBy[what] < 4 {
				fmt.Printf("UNCOVERED %s %s %s: %.300s\n", what, js1(bs), un[0].clause, un[0].detail)
			}
		case len(att) > 0:
			nf++
			if !hard && brokenByLineEnd(c) {
				broad++
				if broadBy[what] < 3 {
					fmt.Printf("BROAD %s %s\n", what, js1(bs))
				}
			}
		case brokenByLineEnd(c):
			broad++
			if broadBy[what] < 3 {
				fmt.Printf("BROAD %s %s\n", what, js1(bs))
			}
		}
	}
	def := Opts{GFM: true, Bullet: "-", Emph: "*", MaxLen: 80}
	setext := Opts{GFM: true, Setext: true, Bullet: "-", Emph: "*", MaxLen: 80}
	wrap := Opts{GFM: true, Bullet: "-", Emph: "*", Wrap: true, MaxLen: 1}
	for _, s := range texts {
		note(def, "h1", Block{K: "h", Level: 1, T: s})
		note(setext, "h1=", Block{K: "h", Level: 1, T: s})
		note(setext, "h3", Block{K: "h", Level: 3, T: s})
		note(def, "p", Block{K: "p", Runs: []Run{{T: s}}})
		note(wrap, "pwrap", Block{K: "p", Runs: []Run{{T: s}}})
		if s == strings.TrimSpace(s) { // blanks at the edges of item and quote text are outside the generated domain
			note(def, "li", Block{K: "li", T: s})
			note(def, "li2", Block{K: "li", T: s}, Block{K: "li", T: "next"})
			note(def, "q", Block{K: "q", T: s})
		}
		note(def, "code", Block{K: "code", T: s})
		note(def, "cell", Block{K: "table", HdrBold: true, Cells: [][]string{{"h", s}, {s, "x"}}})
		rs := []rune(s)
		for k := 1; k < len(rs); k++ {
			note(def, "p2", Block{K: "p", Runs: []Run{{T: string(rs[:k])}, {T: string(rs[k:]), B: true}}})
		}
	}
	// code-font runs with a line feed inside (content that cannot be escaped), alone, after a plain word, wrapped
	calpha := []string{"a", " ", "\n", "`", "#", "-", ">"}
	var ctexts []string
	var crec func(s string, n int)
	crec = func(s string, n int) {
		if strings.Contains(strings.TrimSpace(s), "\n") {
			ctexts = append(ctexts, s)
		}
		if n == 0 {
			return
		}
		for _, a := range calpha {
			crec(s+a, n-1)
		}
	}
	crec("", 5)
	for _, s := range ctexts {
		note(def, "code-run", Block{K: "p", Runs: []Run{{T: s, C: true}}})
		note(def, "x code-run y", Block{K: "p", Runs: []Run{{T: "x "}, {T: s, C: true}, {T: " y"}}})
		note(wrap, "x code-run y wrapped", Block{K: "p", Runs: []Run{{T: "x "}, {T: s, C: true, B: true}, {T: " y"}}})
	}
	fmt.Printf("line ends: texts=%d code texts=%d cases=%d failing=%d uncovered=%d broad=%d\n", len(texts), len(ctexts), n, nf, unc, broad)
}

package c20

import (
	"encoding/json"
	"fmt"
	"os"
	"testing"

	"github.com/zerx-lab/wordZero/pkg/markdown"
)

// TestProbe is a development aid: C20_PROBE=<file with one case or an array of cases> prints what the
// exporter, the reference parser and the round trip make of each case. Skipped in normal runs.
func TestProbe(t *testing.T) {
	p := os.Getenv("C20_PROBE")
	if p == "" {
		t.Skip("C20_PROBE not set")
	}
	js, err := os.ReadFile(p)
	if err != nil {
		t.Fatal(err)
	}
	var cs []Case
	if err := json.Unmarshal(js, &cs); err != nil {
		var c Case
		if err := json.Unmarshal(js, &c); err != nil {
			t.Fatal(err)
		}
		cs = []Case{c}
	}
	for i, c := range cs {
		fmt.Printf("=== case %d: %s\n", i, js1(c))
		d, err := build(c)
		if err != nil {
			fmt.Println("build:", err)
			continue
		}
		o := exportOpts(c.O)
		md1, _ := markdown.NewExporter(nil).ExportToString(d, o)
		fmt.Printf("md1: %q\n", md1)
		fmt.Println("want:   ", descrAll(expected(c)))
		fmt.Println("goldmk: ", descrAll(ParseMD(md1)))
		d2, err := markdown.NewConverter(nil).ConvertString(md1, nil)
		if err == nil {
			fmt.Println("back:   ", descrAll(readDoc(d2)))
			md2, _ := markdown.NewExporter(nil).ExportToString(d2, o)
			fmt.Printf("md2: %q\n", md2)
		}
		res := run(c)
		fmt.Println("triggers:", triggered(c))
		for _, f := range res.Failures {
			who := "UNATTRIBUTED"
			for _, k := range findings {
				if k.Trigger(c, f) {
					who = k.ID
					break
				}
			}
			d := f.Detail
			if len(d) > 300 {
				d = d[:300] + "..."
			}
			fmt.Printf("  FAIL %s [%s]: %s\n", f.Clause, who, d)
		}
	}
}

func js1(v interface{}) string { b, _ := json.Marshal(v); return string(b) }

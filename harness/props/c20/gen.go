package c20

import (
	"strings"

	"pgregory.net/rapid"

	"wzverif/internal/kit"
)

// Safe alphabet: letters and digits (ASCII and non-ASCII), single inner blanks. Nothing Markdown gives meaning to.
var safeWords = []string{"alpha", "beta", "Gamma", "delta", "x1", "42", "Lorem", "ipsum", "dolor", "Zed", "q", "k9", "seven", "中文", "日本語", "é", "ñandu", "Ωmega", "straße", "2024", "B"}

// code block lines may carry any punctuation: fenced content is literal
var codeLines = []string{"x := 1", "a*b + c_d", "# not a heading", "- not a list", "if (a < b) { return }", "print(\"hi\")", "1. one", "| a | b |", "**x**", "plain words", "tab\there"}

// hostile classes
var mdWords = []string{"*", "**", "_", "`", "#", "# h", "-", "+ x", "1.", "2) z", ">", "[a](b)", "![i](u)", "~~", "$x$", "\\", "---", "===", "<b>", "&amp;", "a*b*c", "snake_case_name", "``", "[^1]", "|", "www.example.com"}

func words(t *rapid.T, label string, min, max int) string {
	n := rapid.IntRange(min, max).Draw(t, label+"n")
	ws := make([]string, n)
	for i := range ws {
		ws[i] = rapid.SampledFrom(safeWords).Draw(t, label)
	}
	return strings.Join(ws, " ")
}

func hostileWords(t *rapid.T, label string) string {
	n := rapid.IntRange(1, 3).Draw(t, label+"n")
	ws := make([]string, n)
	for i := range ws {
		if rapid.IntRange(0, 2).Draw(t, label+"k") == 0 {
			ws[i] = rapid.SampledFrom(safeWords).Draw(t, label+"s")
		} else {
			ws[i] = rapid.SampledFrom(mdWords).Draw(t, label+"m")
		}
	}
	return strings.Join(ws, " ")
}

// benign features: shapes whose only deviation is the exactly predicted effect of an open finding
// (blanks at run edges and code+emphasis runs belong here since the exporter was repaired for them)
var benignFeats = []string{"list", "list", "list", "code", "code", "empty", "plainhdr", "multifmt", "deephead", "edge", "edge", "codecombo"}
var wildFeats = []string{"md", "adjacent", "uscore", "pipe", "nogfm", "meta", "wrapfmt"}

// blanks for run edges: ASCII, and the Unicode blanks CommonMark counts as whitespace for the flanking rules
// (a delimiter run next to one of them is not flanking, exactly as next to a space)
var edgeBlanks = []string{" ", "", "\u00a0", "  ", "\t", "\u3000", "\u2003", "\u2002", "\u2009", "\u1680", "\u200a", "\u2004", "\u2005", "\u2006", "\u2007", "\u2008", " \u00a0"}

type gctx struct {
	t    *rapid.T
	f    map[string]bool
	o    Opts
	open map[string]bool
}

func genCase(t *rapid.T) Case {
	g := &gctx{t: t, f: map[string]bool{}}
	// rapid favours the first elements of a sample list: the modes are interleaved (measured: ~45/37/18 %)
	mode := rapid.SampledFrom([]string{"clean", "benign", "wild", "benign", "clean", "benign", "clean", "wild", "benign", "clean",
		"benign", "clean", "wild", "clean", "benign", "clean", "benign", "clean", "wild", "clean"}).Draw(t, "mode")
	var feats []string
	pickFrom := func(pool []string, n int, label string) {
		for i := 0; i < n; i++ {
			x := rapid.SampledFrom(pool).Draw(t, label)
			if !g.f[x] {
				g.f[x] = true
				feats = append(feats, x)
			}
		}
	}
	switch mode {
	case "benign":
		pickFrom(benignFeats, rapid.IntRange(1, 3).Draw(t, "nb"), "bf")
	case "wild":
		pickFrom(wildFeats, rapid.IntRange(1, 2).Draw(t, "nw"), "wf")
		pickFrom(benignFeats, rapid.IntRange(0, 1).Draw(t, "nb"), "bf")
	}
	// how the options reach the exporter, and which other exports happen between the judged ones
	via := rapid.SampledFrom([]string{"", "", "default", "", "", "nilexp", "", "", "hq", "", "", ""}).Draw(t, "via")
	var hist []Step
	nh := rapid.SampledFrom([]int{0, 1, 0, 2, 0, 0}).Draw(t, "nhist")
	if via != "" && nh == 0 {
		nh = 1 // options taken from the library's constructors are only interesting with other users of them around
	}
	for i := 0; i < nh; i++ {
		k := rapid.SampledFrom([]string{"mutdefault", "hq", "struct", "mutdefault", "nilexp"}).Draw(t, "hk")
		if via != "" && i == 0 {
			k = rapid.SampledFrom([]string{"mutdefault", "hq", "mutdefault"}).Draw(t, "hk0")
		}
		st := Step{K: k}
		if k == "mutdefault" || k == "struct" {
			st.O = Opts{GFM: rapid.Bool().Draw(t, "hgfm"), Setext: rapid.Bool().Draw(t, "hsetext"), Bullet: rapid.SampledFrom([]string{"+", "*", "-"}).Draw(t, "hbullet"),
				Emph: rapid.SampledFrom([]string{"_", "*"}).Draw(t, "hemph"), Wrap: rapid.Bool().Draw(t, "hwrap"), MaxLen: rapid.SampledFrom([]int{10, 1, 40}).Draw(t, "hmaxlen"),
				Meta: rapid.IntRange(0, 3).Draw(t, "hmeta") > 0}
		}
		hist = append(hist, st)
	}
	g.o = Opts{
		GFM:    !g.f["nogfm"] && rapid.SampledFrom([]bool{true, true, false, true, true, true}).Draw(t, "gfm"),
		Setext: rapid.Bool().Draw(t, "setext"),
		Bullet: rapid.SampledFrom([]string{"-", "*", "+"}).Draw(t, "bullet"),
		Emph:   rapid.SampledFrom([]string{"*", "_"}).Draw(t, "emph"),
		Wrap:   g.f["wrapfmt"] || rapid.IntRange(0, 2).Draw(t, "wrap") == 0,
		MaxLen: rapid.SampledFrom([]int{1, 10, 20, 40, 80}).Draw(t, "maxlen"),
		Meta:   g.f["meta"],
	}
	if g.f["wrapfmt"] {
		g.o.MaxLen = rapid.SampledFrom([]int{1, 10, 20}).Draw(t, "maxlen2")
	}
	if via != "" {
		g.o = viaOpts(via) // the documented values of what the constructor returns
	}
	n := rapid.IntRange(1, kit.Scale(10, 16)).Draw(t, "nblocks")
	interleave := rapid.IntRange(0, 2).Draw(t, "interleave") > 0
	var text, tables []Block
	var blocks []Block
	for i := 0; i < n; i++ {
		b := g.block(i)
		blocks = append(blocks, b)
		if b.K == "table" {
			tables = append(tables, b)
		} else {
			text = append(text, b)
		}
	}
	if !interleave {
		blocks = append(text, tables...)
	}
	// a table directly after a list item (the list has to be closed before the table, whatever the table style)
	if rapid.IntRange(0, 3).Draw(t, "itemtable") == 0 {
		for i, b := range blocks {
			if b.K == "table" {
				it := Block{K: "li", T: words(t, "itt", 1, 2)}
				blocks = append(blocks[:i], append([]Block{it}, blocks[i:]...)...)
				break
			}
		}
	}
	return Case{Mode: mode, Feats: feats, Blocks: blocks, O: g.o, Via: via, Hist: hist}
}

func (g *gctx) block(i int) Block {
	t := g.t
	kinds := []string{"h", "h", "p", "p", "p", "p", "q", "table", "table", "table"}
	if g.f["list"] {
		kinds = append(kinds, "li", "li", "li", "li", "li")
	}
	if g.f["code"] {
		kinds = append(kinds, "code", "code", "code", "code")
	}
	if g.f["empty"] {
		kinds = append(kinds, "empty", "empty", "empty")
	}
	k := rapid.SampledFrom(kinds).Draw(t, "kind")
	txt := func(label string, min, max int) string {
		if g.f["md"] && rapid.IntRange(0, 2).Draw(t, label+"h") == 0 {
			return hostileWords(t, label)
		}
		return words(t, label, min, max)
	}
	switch k {
	case "h":
		s := txt("ht", 1, 3)
		if g.f["edge"] && rapid.IntRange(0, 3).Draw(t, "hedge") == 0 {
			s = rapid.SampledFrom(edgeBlanks).Draw(t, "hel") + s + rapid.SampledFrom(edgeBlanks).Draw(t, "her")
		}
		maxLevel := 6
		if g.f["deephead"] {
			maxLevel = 9
		}
		return Block{K: "h", Level: rapid.IntRange(1, maxLevel).Draw(t, "level"), T: s}
	case "q":
		return Block{K: "q", T: txt("qt", 1, 4)}
	case "li":
		return Block{K: "li", Ord: rapid.IntRange(0, 2).Draw(t, "ord") == 0, T: txt("lt", 1, 3)}
	case "code":
		if rapid.Bool().Draw(t, "codepunct") {
			return Block{K: "code", T: rapid.SampledFrom(codeLines).Draw(t, "cl")}
		}
		return Block{K: "code", T: words(t, "ct", 1, 3)}
	case "empty":
		return Block{K: "empty"}
	case "table":
		rows := rapid.IntRange(1, 5).Draw(t, "rows")
		cols := rapid.IntRange(1, 5).Draw(t, "cols")
		cells := make([][]string, rows)
		for r := range cells {
			cells[r] = make([]string, cols)
			for c := range cells[r] {
				switch {
				case rapid.IntRange(0, 5).Draw(t, "cempty") == 0:
					cells[r][c] = ""
				case g.f["pipe"] && rapid.IntRange(0, 3).Draw(t, "cpipe") == 0:
					cells[r][c] = rapid.SampledFrom([]string{"a|b", "|", "x | y", "a\\|b"}).Draw(t, "cp")
				default:
					cells[r][c] = txt("cell", 1, 2)
				}
			}
		}
		hb := true
		if g.f["plainhdr"] {
			hb = rapid.IntRange(0, 2).Draw(t, "hdrbold") == 0
		}
		return Block{K: "table", Cells: cells, HdrBold: hb}
	}
	return g.para()
}

func (g *gctx) para() Block {
	t := g.t
	n := rapid.IntRange(1, 5).Draw(t, "nruns")
	runs := make([]Run, 0, n)
	prevFmt := false
	for i := 0; i < n; i++ {
		r := Run{}
		formatted := rapid.IntRange(0, 1).Draw(t, "fmt") == 1
		if prevFmt && !g.f["adjacent"] {
			formatted = false
		}
		if formatted {
			switch {
			case g.f["codecombo"] && rapid.IntRange(0, 1).Draw(t, "cc") == 0:
				r.C = true
				r.B = rapid.Bool().Draw(t, "ccb")
				r.I = rapid.Bool().Draw(t, "cci")
				r.S = !r.B && !r.I || rapid.Bool().Draw(t, "ccs")
			case g.f["multifmt"] && rapid.IntRange(0, 1).Draw(t, "mf") == 0:
				m := rapid.SampledFrom([]int{mB | mI, mB | mS, mI | mS, mB | mI | mS}).Draw(t, "mfm")
				r.B, r.I, r.S = m&mB != 0, m&mI != 0, m&mS != 0
			default:
				switch rapid.IntRange(0, 3).Draw(t, "one") {
				case 0:
					r.B = true
				case 1:
					r.I = true
				case 2:
					r.S = true
				default:
					r.C = true
				}
			}
			maxw := 3
			if g.o.Wrap && !g.f["wrapfmt"] {
				maxw = 1 // a wrapped line break inside a formatted run is an open finding's class
			}
			if g.f["wrapfmt"] {
				r.T = words(t, "fw", 2, 4)
			} else {
				r.T = words(t, "fw", 1, maxw)
			}
			if g.f["md"] && rapid.IntRange(0, 2).Draw(t, "fh") == 0 {
				r.T = hostileWords(t, "fhw")
			}
			if g.f["edge"] && rapid.IntRange(0, 1).Draw(t, "fe") == 0 {
				r.T = rapid.SampledFrom(edgeBlanks).Draw(t, "fel") + r.T + rapid.SampledFrom(edgeBlanks).Draw(t, "fer")
			}
		} else {
			if rapid.IntRange(0, 19).Draw(t, "emptyrun") == 0 {
				r.T = ""
			} else {
				r.T = words(t, "pw", 1, 4)
				if g.f["md"] && rapid.IntRange(0, 2).Draw(t, "ph") == 0 {
					r.T = hostileWords(t, "phw")
				}
			}
		}
		prevFmt = formatted || (r.T == "" && prevFmt) // an empty run writes nothing: its neighbours touch
		runs = append(runs, r)
	}
	// blanks at the edges of plain runs that have a neighbour (never at the paragraph's own edges)
	for i := range runs {
		if runs[i].mask() != 0 || runs[i].T == "" {
			continue
		}
		needL := i > 0 && g.o.Emph == "_" && !g.f["uscore"]
		needR := i+1 < len(runs) && g.o.Emph == "_" && !g.f["uscore"]
		if i > 0 && firstNonEmptyBefore(runs, i) && (needL || rapid.IntRange(0, 2).Draw(t, "bl") > 0) {
			runs[i].T = " " + runs[i].T
		}
		if i+1 < len(runs) && nonEmptyAfter(runs, i) && (needR || rapid.IntRange(0, 2).Draw(t, "br") > 0) {
			runs[i].T = runs[i].T + " "
		}
	}
	if g.o.Emph == "_" && !g.f["uscore"] {
		runs = fixUnderscore(runs)
	}
	return Block{K: "p", Runs: runs}
}

func firstNonEmptyBefore(rs []Run, i int) bool {
	for j := i - 1; j >= 0; j-- {
		if rs[j].T != "" {
			return true
		}
	}
	return false
}

func nonEmptyAfter(rs []Run, i int) bool {
	for j := i + 1; j < len(rs); j++ {
		if rs[j].T != "" {
			return true
		}
	}
	return false
}

// fixUnderscore removes empty plain runs that would let an italic run touch a word character
// (empty runs write nothing, so the neighbours of an italic run are the nearest non-empty runs).
func fixUnderscore(rs []Run) []Run {
	var out []Run
	for _, r := range rs {
		if r.T == "" && r.mask() == 0 {
			continue
		}
		out = append(out, r)
	}
	if len(out) == 0 {
		return rs[:1]
	}
	return out
}

// fixedCases: hand-written cases every run executes first.
func fixedCases() []Case {
	def := Opts{GFM: true, Bullet: "-", Emph: "*", MaxLen: 80}
	tbl := Block{K: "table", Cells: [][]string{{"a", "b"}, {"c", ""}}, HdrBold: true}
	return []Case{
		{Mode: "fixed", Blocks: []Block{{K: "h", Level: 1, T: "Title"}, {K: "p", Runs: []Run{{T: "one "}, {T: "two", B: true}, {T: " three "}, {T: "four", I: true}, {T: " five"}}},
			{K: "q", T: "quoted words"}, {K: "p", Runs: []Run{{T: "x", S: true}, {T: " and "}, {T: "y", C: true}}}, tbl}, O: def},
		{Mode: "fixed", Blocks: []Block{{K: "h", Level: 2, T: "Sub"}, {K: "h", Level: 6, T: "Deep"}, {K: "p", Runs: []Run{{T: "only"}}}, tbl, tbl},
			O: Opts{GFM: true, Setext: true, Bullet: "+", Emph: "_", Wrap: true, MaxLen: 10}},
		{Mode: "fixed", Blocks: []Block{{K: "li", T: "item one"}, {K: "li", T: "item two", Ord: true}, {K: "code", T: "x := 1"}, {K: "p", Runs: []Run{{T: "after"}}}}, O: def},
		// every exact mask at once: table between paragraphs, items, code lines, empty paragraph, plain header, nested emphasis, Heading7
		{Mode: "fixed", Blocks: []Block{{K: "p", Runs: []Run{{T: "before "}, {T: "both", B: true, I: true}}}, {K: "table", Cells: [][]string{{"h1", "h2"}, {"c", "d"}}},
			{K: "li", T: "item"}, {K: "code", T: "a*b + c_d"}, {K: "code", T: "# not a heading"}, {K: "empty"}, {K: "h", Level: 7, T: "deep"}, {K: "p", Runs: []Run{{T: "after"}}}},
			O: Opts{GFM: true, Bullet: "*", Emph: "*", MaxLen: 80, Meta: true}},
	}
}

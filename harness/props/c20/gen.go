package c20

import (
	"os"
	"strings"

	"pgregory.net/rapid"

	"wzverif/internal/kit"
)

// Safe alphabet: letters and digits (ASCII and non-ASCII), single inner blanks. Nothing Markdown gives meaning to.
var safeWords = []string{"alpha", "beta", "Gamma", "delta", "x1", "42", "Lorem", "ipsum", "dolor", "Zed", "q", "k9", "seven", "中文", "日本語", "é", "ñandu", "Ωmega", "straße", "2024", "B",
	// words that are prefixes of one another or differ in case only; letters outside the BMP and combining marks at word edges
	"Alpha", "alphabet", "ALPHA", "𝒳", "𝒳𝒴z", "a𐐷", "𠮷野", "e\u0301", "n\u0303o", "१२"}

// code block lines may carry any punctuation: fenced content is literal
var codeLines = []string{"x := 1", "a*b + c_d", "# not a heading", "- not a list", "if (a < b) { return }", "print(\"hi\")", "1. one", "| a | b |", "**x**", "plain words", "tab\there"}

// code block lines that look like fences or contain backtick runs (the fence has to be longer), and other block syntax
var fenceLines = []string{"```", "````", "`````", "~~~", "```go", "``` x", "a ``` b", "x ```` y", "`", "``", "`a`", "``a``", "~~~~", "    indented", "\\", "$$", "---", "===", "<div>", "> q", "[a]: u", "&amp; \\* <b>", "``` ```", "a`", "`a"}

// code-font run texts around backticks (the delimiting backtick string has to be longer than any inside)
var tickWords = []string{"`", "``", "```", "a`b", "`a", "a`", "`a`", "``a``", "a``b", "a ` b", "` `", "a```b", "`` `"}

func words(t *rapid.T, label string, min, max int) string {
	n := rapid.IntRange(min, max).Draw(t, label+"n")
	ws := make([]string, n)
	for i := range ws {
		ws[i] = rapid.SampledFrom(safeWords).Draw(t, label)
	}
	return strings.Join(ws, " ")
}

// hostileToken draws one token: from the classes chosen for the case (2 of 3) or from any class.
func (g *gctx) hostileToken(label string) string {
	t := g.t
	cls := g.hc
	if len(cls) == 0 || rapid.IntRange(0, 2).Draw(t, label+"any") == 0 {
		cls = hostileClassNames()
	}
	return rapid.SampledFrom(hostileClasses[rapid.SampledFrom(cls).Draw(t, label+"c")]).Draw(t, label+"m")
}

// hostileWords: 1-3 words, each a hostile token (2 of 3) or a safe word; a token may be glued to a safe word
// (before, after, inside) so that it is met at word and run edges as well as on its own.
func (g *gctx) hostileWords(label string) string {
	t := g.t
	n := rapid.IntRange(1, 3).Draw(t, label+"n")
	ws := make([]string, n)
	for i := range ws {
		if rapid.IntRange(0, 2).Draw(t, label+"k") == 0 {
			ws[i] = rapid.SampledFrom(safeWords).Draw(t, label+"s")
			continue
		}
		tok := g.hostileToken(label)
		switch rapid.IntRange(0, 7).Draw(t, label+"glue") {
		case 0:
			tok = rapid.SampledFrom(safeWords).Draw(t, label+"gl") + tok
		case 1:
			tok = tok + rapid.SampledFrom(safeWords).Draw(t, label+"gr")
		case 2:
			tok = "x" + tok + "y"
		}
		ws[i] = tok
	}
	return strings.Join(ws, " ")
}

// benign features: shapes that need no hostile text - lists, code blocks, empty paragraphs, plain table headers,
// multi-format and code+emphasis runs, Heading7-9, blanks at run edges, formatted runs that touch each other
// ("adjacent") or a plain neighbour without a blank in between ("touch"), wrapped formatted text
var benignFeats = []string{"list", "list", "list", "code", "code", "empty", "plainhdr", "multifmt", "deephead", "edge", "edge", "codecombo", "adjacent", "adjacent", "touch", "touch", "wrapfmt",
	// widened: blanks other than a space (line ends, tabs, blanks outside Zs) at run edges and between words; headings, items,
	// quotes and code paragraphs without visible text, blank-only runs, page break paragraphs
	"oddblank", "oddblank", "blanktext"}

// wild features: output shapes that are open findings as a whole
var wildFeats = []string{"nogfm", "nogfm", "meta"}

// blanks for run edges: ASCII, and the Unicode blanks CommonMark counts as whitespace for the flanking rules
// (a delimiter run next to one of them is not flanking, exactly as next to a space)
var edgeBlanks = []string{" ", "", "\u00a0", "  ", "\t", "\u3000", "\u2003", "\u2002", "\u2009", "\u1680", "\u200a", "\u2004", "\u2005", "\u2006", "\u2007", "\u2008", " \u00a0"}

// feature "oddblank": line ends and tabs instead of a space, and the characters Go's unicode.IsSpace and CommonMark's
// "Unicode whitespace" (Zs, tab, line feed, form feed, carriage return) classify differently or that are rarely met
var oddBlanks = []string{"\n", "\t", "\r\n", " \n", "\n ", "\t\t", "\u202f", "\u205f", "\u2028", "\u0085", "\u2029", "\r"}

type gctx struct {
	t   *rapid.T
	f   map[string]bool
	o   Opts
	hc  []string // hostile classes chosen for the case
	hp  int      // a text is hostile with probability 1/hp
	big string   // the dimension that goes past the usual sizes ("" = none)
}

func genCase(t *rapid.T) Case {
	g := &gctx{t: t, f: map[string]bool{}, hp: 3}
	// rapid favours the first elements of a sample list: the modes are interleaved
	// (hostile 8, clean 5, benign 5, wild 2 of 20)
	mode := rapid.SampledFrom([]string{"hostile", "clean", "benign", "hostile", "benign", "clean", "wild", "hostile", "benign", "hostile",
		"clean", "hostile", "benign", "hostile", "clean", "hostile", "wild", "benign", "hostile", "clean"}).Draw(t, "mode")
	var feats []string
	pickFrom := func(pool []string, n int, label string) {
		for i := 0; i < n; i++ {
			x := rapid.SampledFrom(pool).Draw(t, label)
			if !g.f[x] {
				g.f[x] = true
				feats = append(feats, x)
			}
		}
	}
	hostile := func() {
		g.f["md"] = true
		feats = append(feats, "md")
		g.hp = rapid.SampledFrom([]int{2, 3, 2, 1}).Draw(t, "hp")
		names := hostileClassNames()
		for i, n := 0, rapid.IntRange(1, 3).Draw(t, "nhc"); i < n; i++ {
			x := rapid.SampledFrom(names).Draw(t, "hc")
			if !g.f["h:"+x] {
				g.f["h:"+x] = true
				g.hc = append(g.hc, x)
				feats = append(feats, "h:"+x)
			}
		}
	}
	switch mode {
	case "benign":
		pickFrom(benignFeats, rapid.IntRange(1, 3).Draw(t, "nb"), "bf")
	case "hostile":
		hostile()
		pickFrom(benignFeats, rapid.IntRange(0, 3).Draw(t, "nb"), "bf")
	case "wild":
		pickFrom(wildFeats, 1, "wf")
		pickFrom(benignFeats, rapid.IntRange(0, 2).Draw(t, "nb"), "bf")
		if rapid.Bool().Draw(t, "wildmd") {
			hostile()
		}
	}
	// how the options reach the exporter, and which other exports happen between the judged ones
	via := rapid.SampledFrom([]string{"", "", "default", "", "", "nilexp", "", "ctor", "hq", "", "literal", "", "", "ctor2", "", ""}).Draw(t, "via")
	fromLibrary := via == "default" || via == "nilexp" || via == "hq"
	var hist []Step
	nh := rapid.SampledFrom([]int{0, 1, 0, 2, 0, 0}).Draw(t, "nhist")
	if fromLibrary && nh == 0 {
		nh = 1 // options taken from the library's constructors are only interesting with other users of them around
	}
	for i := 0; i < nh; i++ {
		k := rapid.SampledFrom([]string{"mutdefault", "hq", "struct", "mutdefault", "nilexp", "literal"}).Draw(t, "hk")
		if fromLibrary && i == 0 {
			k = rapid.SampledFrom([]string{"mutdefault", "hq", "mutdefault"}).Draw(t, "hk0")
		}
		st := Step{K: k}
		if k == "mutdefault" || k == "struct" || k == "literal" {
			st.O = Opts{GFM: rapid.Bool().Draw(t, "hgfm"), Setext: rapid.Bool().Draw(t, "hsetext"), Bullet: rapid.SampledFrom([]string{"+", "*", "-"}).Draw(t, "hbullet"),
				Emph: rapid.SampledFrom([]string{"_", "*"}).Draw(t, "hemph"), Wrap: rapid.Bool().Draw(t, "hwrap"), MaxLen: rapid.SampledFrom([]int{10, 1, 40}).Draw(t, "hmaxlen"),
				Meta: rapid.IntRange(0, 3).Draw(t, "hmeta") > 0}
		}
		hist = append(hist, st)
	}
	g.o = Opts{
		GFM:    !g.f["nogfm"] && (mode == "wild" || rapid.SampledFrom([]bool{true, true, false, true, true, true, true, true}).Draw(t, "gfm")),
		Setext: rapid.Bool().Draw(t, "setext"),
		Bullet: rapid.SampledFrom([]string{"-", "*", "+"}).Draw(t, "bullet"),
		Emph:   rapid.SampledFrom([]string{"*", "_"}).Draw(t, "emph"),
		Wrap:   g.f["wrapfmt"] || rapid.IntRange(0, 2).Draw(t, "wrap") == 0,
		MaxLen: rapid.SampledFrom([]int{1, 10, 20, 40, 80}).Draw(t, "maxlen"),
		Meta:   g.f["meta"],
	}
	if oneIn(t, "maxlenx", 8) { // limits next to the usual ones, none, negative, very large
		g.o.MaxLen = rapid.SampledFrom([]int{0, 2, 79, 81, -1, 3, 1000, 65536, 9, 11}).Draw(t, "maxlen3")
	}
	if g.f["wrapfmt"] {
		g.o.MaxLen = rapid.SampledFrom([]int{1, 10, 20}).Draw(t, "maxlen2")
	}
	if fromLibrary {
		g.o = viaOpts(via) // the documented values of what the constructor returns
	}
	// sizes past the usual ones, with a small probability (one dimension per case)
	if oneIn(t, "bigp", 25) {
		g.big = rapid.SampledFrom([]string{"runs", "cols", "rows", "blocks", "text", "runs", "cols", "rows", "word", "runs", "cols", "rows", "word", "text", "blocks", "runs"}).Draw(t, "big")
		if oneIn(t, "hugep", kit.Scale(40, 12)) {
			g.big = "huge" // a text of more than 64 KiB (expensive: rare; a fixed case has one in every run)
		}
		feats = append(feats, "big:"+g.big)
	}
	n := rapid.IntRange(1, kit.Scale(10, 16)).Draw(t, "nblocks")
	if g.big == "blocks" {
		n = rapid.SampledFrom([]int{17, 33, 20, 17, 65, 24}).Draw(t, "nblocksbig")
	}
	interleave := rapid.IntRange(0, 2).Draw(t, "interleave") > 0
	var text, tables []Block
	var blocks []Block
	for i := 0; i < n; i++ {
		b := g.block(i)
		blocks = append(blocks, b)
		if b.K == "table" {
			tables = append(tables, b)
		} else {
			text = append(text, b)
		}
	}
	if !interleave {
		blocks = append(text, tables...)
	}
	// a table directly after a list item (the list has to be closed before the table, whatever the table style)
	if rapid.IntRange(0, 3).Draw(t, "itemtable") == 0 {
		for i, b := range blocks {
			if b.K == "table" {
				it := Block{K: "li", T: words(t, "itt", 1, 2)}
				blocks = append(blocks[:i], append([]Block{it}, blocks[i:]...)...)
				break
			}
		}
	}
	blocks = g.codePieces(blocks)
	c := Case{Mode: mode, Feats: feats, Blocks: blocks, O: g.o, Via: via, Hist: hist}
	g.wide(&c)
	return c
}

// codePieces: in Word a piece of code is one CodeBlock paragraph per line. Half of the CodeBlock paragraphs of a case get
// 1-4 followers: further lines (CodeBlock paragraphs with text, without text, with blanks only, with indentation), and
// between them paragraphs of other kinds without visible text (empty and page break paragraphs, a blank-only run, a
// heading / quote / item without text), which are empty lines of the code when another line follows.
func (g *gctx) codePieces(blocks []Block) []Block {
	t := g.t
	var out []Block
	for _, b := range blocks {
		out = append(out, b)
		if b.K != "code" || rapid.IntRange(0, 1).Draw(t, "piece") == 0 {
			continue
		}
		for i, n := 0, rapid.IntRange(1, 4).Draw(t, "piecen"); i < n; i++ {
			switch rapid.IntRange(0, 9).Draw(t, "piecek") {
			case 0:
				out = append(out, Block{K: "empty", Brk: rapid.IntRange(0, 3).Draw(t, "piecebrk") == 0})
			case 1:
				out = append(out, rapid.SampledFrom([]Block{{K: "p", Runs: []Run{{T: ""}}}, {K: "p", Runs: []Run{{T: " ", B: true}}}, {K: "q", T: ""}, {K: "h", Level: 2, T: " "},
					{K: "li", T: ""}, {K: "p", Runs: []Run{{T: "\t"}, {T: ""}}}}).Draw(t, "piecegap"))
			case 2:
				out = append(out, Block{K: "code", T: rapid.SampledFrom([]string{"", "", " ", "\t", "    "}).Draw(t, "pieceblank")})
			case 3:
				out = append(out, Block{K: "code", T: rapid.SampledFrom([]string{"    ", "\t", "  ", "\t\t"}).Draw(t, "pieceind") + words(t, "piecew", 1, 3)})
			default:
				out = append(out, g.block1("code"))
			}
		}
	}
	return out
}

// multiLine: a code text of 2-4 lines (line feed or CR LF), among them empty, blank-only and indented ones.
func (g *gctx) multiLine() string {
	t := g.t
	n := rapid.IntRange(2, 4).Draw(t, "mln")
	ls := make([]string, n)
	for i := range ls {
		switch rapid.IntRange(0, 7).Draw(t, "mlk") {
		case 0:
			ls[i] = ""
		case 1:
			ls[i] = rapid.SampledFrom([]string{" ", "\t", "  "}).Draw(t, "mlb")
		case 2:
			ls[i] = rapid.SampledFrom([]string{"  ", "\t", "    "}).Draw(t, "mli") + words(t, "mlw", 1, 2)
		case 3:
			if g.f["md"] {
				ls[i] = rapid.SampledFrom(fenceLines).Draw(t, "mlf")
				break
			}
			fallthrough
		case 4:
			ls[i] = rapid.SampledFrom(codeLines).Draw(t, "mlc")
		default:
			ls[i] = words(t, "mlw", 1, 3)
		}
	}
	return strings.Join(ls, rapid.SampledFrom([]string{"\n", "\n", "\r\n", "\n"}).Draw(t, "mleol"))
}

// txt: text of a heading, item, quote, cell or plain run: safe words, or (feature md) hostile words.
func (g *gctx) txt(label string, min, max int) string {
	if g.f["md"] && rapid.IntRange(1, g.hp).Draw(g.t, label+"h") == 1 {
		return g.hostileWords(label)
	}
	return g.words(label, min, max)
}

// words: safe words; with the feature "oddblank" one of the blanks between them may be a line end, a tab or a blank
// outside Zs; the dimension "text"/"huge"/"word" makes one text of the case long.
func (g *gctx) words(label string, min, max int) string {
	t := g.t
	switch g.big {
	case "text", "huge":
		huge := g.big == "huge"
		g.big = ""
		n := rapid.SampledFrom([]int{300, 1200}).Draw(t, label+"long")
		if huge {
			n = 13000 // > 64 KiB
		}
		ws := make([]string, n)
		for i := range ws {
			ws[i] = safeWords[(i*7+n)%len(safeWords)]
		}
		return strings.Join(ws, " ")
	case "word":
		g.big = ""
		return strings.Repeat(rapid.SampledFrom(safeWords).Draw(t, label+"rep"), rapid.SampledFrom([]int{30, 90, 300}).Draw(t, label+"repn")) + " " + words(t, label, 1, 2)
	}
	s := words(t, label, min, max)
	if g.f["oddblank"] && strings.Contains(s, " ") && rapid.IntRange(0, 2).Draw(t, label+"ob") == 0 {
		s = strings.Replace(s, " ", rapid.SampledFrom(oddBlanks).Draw(t, label+"obk"), 1)
	}
	return s
}

func (g *gctx) block(i int) Block {
	t := g.t
	kinds := []string{"h", "h", "p", "p", "p", "p", "q", "table", "table", "table"}
	if g.f["list"] || g.f["md"] {
		kinds = append(kinds, "li", "li", "li", "li", "li")
	}
	if g.f["code"] || g.f["md"] {
		kinds = append(kinds, "code", "code", "code", "code")
	}
	if g.f["empty"] {
		kinds = append(kinds, "empty", "empty", "empty")
	}
	return g.block1(rapid.SampledFrom(kinds).Draw(t, "kind"))
}

// block1 draws a block of the given kind.
func (g *gctx) block1(k string) Block {
	t := g.t
	if g.f["blanktext"] && oneIn(t, "blankt", 3) {
		// a block of any kind without visible text: nothing of it can appear in the Markdown
		bt := rapid.SampledFrom([]string{"", " ", "\t", "  ", "\u00a0", "\n"}).Draw(t, "blanktt")
		switch k {
		case "h":
			return Block{K: "h", Level: rapid.IntRange(1, 6).Draw(t, "level"), T: bt}
		case "q", "code":
			return Block{K: k, T: bt}
		case "li":
			return Block{K: "li", Ord: rapid.Bool().Draw(t, "ord"), T: bt}
		case "empty":
			return Block{K: "empty", Brk: true}
		case "p":
			rs := []Run{{T: bt}}
			if rapid.Bool().Draw(t, "blankfmt") {
				rs[0].B = true
			}
			if rapid.Bool().Draw(t, "blank2") {
				rs = append(rs, Run{T: " ", I: true})
			}
			return Block{K: "p", Runs: rs}
		}
	}
	switch k {
	case "h":
		s := g.txt("ht", 1, 3)
		if g.f["oddblank"] && rapid.IntRange(0, 3).Draw(t, "hodd") == 0 {
			s = rapid.SampledFrom(oddBlanks).Draw(t, "hol") + s + rapid.SampledFrom(oddBlanks).Draw(t, "hor")
		}
		if g.f["edge"] && rapid.IntRange(0, 3).Draw(t, "hedge") == 0 {
			s = rapid.SampledFrom(edgeBlanks).Draw(t, "hel") + s + rapid.SampledFrom(edgeBlanks).Draw(t, "her")
		}
		maxLevel := 6
		if g.f["deephead"] {
			maxLevel = 9
		}
		return Block{K: "h", Level: rapid.IntRange(1, maxLevel).Draw(t, "level"), T: s}
	case "q":
		return Block{K: "q", T: g.txt("qt", 1, 4)}
	case "li":
		return Block{K: "li", Ord: rapid.IntRange(0, 2).Draw(t, "ord") == 0, T: g.txt("lt", 1, 3)}
	case "code":
		switch c := rapid.IntRange(0, 6).Draw(t, "codek"); {
		case c == 6:
			return Block{K: "code", T: g.multiLine()}
		case g.f["md"] && c <= 1:
			return Block{K: "code", T: rapid.SampledFrom(fenceLines).Draw(t, "cf")}
		case g.f["md"] && c == 2:
			return Block{K: "code", T: g.hostileWords("chw")}
		case c <= 3:
			return Block{K: "code", T: rapid.SampledFrom(codeLines).Draw(t, "cl")}
		}
		return Block{K: "code", T: g.words("ct", 1, 3)}
	case "empty":
		return Block{K: "empty", Brk: rapid.SampledFrom([]bool{false, false, true, false}).Draw(t, "pagebreak")}
	case "table":
		rows := rapid.IntRange(1, 5).Draw(t, "rows")
		cols := rapid.IntRange(1, 5).Draw(t, "cols")
		switch g.big {
		case "cols":
			g.big = ""
			cols = rapid.SampledFrom([]int{6, 9, 10, 11, 12, 17, 33}).Draw(t, "colsbig")
			rows = rapid.IntRange(1, 3).Draw(t, "rowsfew")
		case "rows":
			g.big = ""
			rows = rapid.SampledFrom([]int{6, 9, 10, 11, 12, 17, 33, 65}).Draw(t, "rowsbig")
			cols = rapid.IntRange(1, 3).Draw(t, "colsfew")
		}
		cells := make([][]string, rows)
		for r := range cells {
			cells[r] = make([]string, cols)
			for c := range cells[r] {
				switch {
				case rapid.IntRange(0, 5).Draw(t, "cempty") == 0:
					cells[r][c] = ""
				case g.f["md"] && rapid.IntRange(0, 7).Draw(t, "cpipe") == 0:
					cells[r][c] = rapid.SampledFrom(hostileClasses["pipe"]).Draw(t, "cp")
				default:
					cells[r][c] = g.txt("cell", 1, 2)
				}
			}
		}
		hb := true
		if g.f["plainhdr"] {
			hb = rapid.IntRange(0, 2).Draw(t, "hdrbold") == 0
		}
		return Block{K: "table", Cells: cells, HdrBold: hb}
	}
	return g.para()
}

func (g *gctx) para() Block {
	t := g.t
	n := rapid.IntRange(1, 5).Draw(t, "nruns")
	if g.big == "runs" {
		g.big = ""
		n = rapid.SampledFrom([]int{6, 8, 9, 10, 11, 16, 17, 33, 65, 70}).Draw(t, "nrunsbig")
	}
	runs := make([]Run, 0, n)
	prevFmt := false
	for i := 0; i < n; i++ {
		r := Run{}
		formatted := rapid.IntRange(0, 1).Draw(t, "fmt") == 1
		if prevFmt && !g.f["adjacent"] {
			formatted = false
		}
		if formatted {
			switch {
			case g.f["codecombo"] && rapid.IntRange(0, 1).Draw(t, "cc") == 0:
				r.C = true
				r.B = rapid.Bool().Draw(t, "ccb")
				r.I = rapid.Bool().Draw(t, "cci")
				r.S = !r.B && !r.I || rapid.Bool().Draw(t, "ccs")
			case g.f["multifmt"] && rapid.IntRange(0, 1).Draw(t, "mf") == 0:
				m := rapid.SampledFrom([]int{mB | mI, mB | mS, mI | mS, mB | mI | mS}).Draw(t, "mfm")
				r.B, r.I, r.S = m&mB != 0, m&mI != 0, m&mS != 0
			default:
				switch rapid.IntRange(0, 3).Draw(t, "one") {
				case 0:
					r.B = true
				case 1:
					r.I = true
				case 2:
					r.S = true
				default:
					r.C = true
				}
			}
			if g.f["wrapfmt"] {
				r.T = g.words("fw", 2, 4)
			} else {
				r.T = g.words("fw", 1, 3)
			}
			if g.f["md"] && rapid.IntRange(1, g.hp).Draw(t, "fh") == 1 {
				if r.C && rapid.IntRange(0, 2).Draw(t, "tick") == 0 {
					r.T = rapid.SampledFrom(tickWords).Draw(t, "tw")
				} else {
					r.T = g.hostileWords("fhw")
				}
			}
			if g.f["edge"] && rapid.IntRange(0, 1).Draw(t, "fe") == 0 {
				r.T = rapid.SampledFrom(edgeBlanks).Draw(t, "fel") + r.T + rapid.SampledFrom(edgeBlanks).Draw(t, "fer")
			}
			if g.f["oddblank"] && rapid.IntRange(0, 2).Draw(t, "fo") == 0 {
				l, rr := rapid.SampledFrom(oddBlanks).Draw(t, "fol"), rapid.SampledFrom(oddBlanks).Draw(t, "for")
				switch rapid.IntRange(0, 2).Draw(t, "fos") {
				case 0:
					rr = ""
				case 1:
					l = ""
				}
				r.T = l + r.T + rr
			}
		} else {
			if er := rapid.IntRange(0, 19).Draw(t, "emptyrun"); er == 0 {
				r.T = ""
			} else if er == 1 && g.f["blanktext"] {
				r.T = rapid.SampledFrom([]string{" ", "\t", "  ", "\n"}).Draw(t, "blankrun") // a blank-only run (first, last or in between)
			} else {
				r.T = g.txt("pw", 1, 4)
			}
		}
		prevFmt = formatted || (r.T == "" && prevFmt) // an empty run writes nothing: its neighbours touch
		runs = append(runs, r)
	}
	// blanks at the edges of plain runs that have a neighbour (never at the paragraph's own edges); without
	// the feature "touch" a plain run touches its neighbour in 1 of 6 cases, with it in 2 of 3
	blankOf := 5
	if g.f["touch"] {
		blankOf = 2
	}
	for i := range runs {
		if runs[i].mask() != 0 || runs[i].T == "" {
			continue
		}
		sp := " "
		if g.f["oddblank"] && rapid.IntRange(0, 2).Draw(t, "bodd") == 0 {
			sp = rapid.SampledFrom(oddBlanks).Draw(t, "boddk")
		}
		if blank(runs[i].T) {
			continue
		}
		if i > 0 && firstNonEmptyBefore(runs, i) && rapid.IntRange(0, blankOf).Draw(t, "bl") > 0 != g.f["touch"] {
			runs[i].T = sp + runs[i].T
		}
		if i+1 < len(runs) && nonEmptyAfter(runs, i) && rapid.IntRange(0, blankOf).Draw(t, "br") > 0 != g.f["touch"] {
			runs[i].T = runs[i].T + sp
		}
	}
	return Block{K: "p", Runs: runs}
}

func firstNonEmptyBefore(rs []Run, i int) bool {
	for j := i - 1; j >= 0; j-- {
		if rs[j].T != "" {
			return true
		}
	}
	return false
}

func nonEmptyAfter(rs []Run, i int) bool {
	for j := i + 1; j < len(rs); j++ {
		if rs[j].T != "" {
			return true
		}
	}
	return false
}

// fixedCases: hand-written cases every run executes first.
func fixedCases() []Case {
	def := Opts{GFM: true, Bullet: "-", Emph: "*", MaxLen: 80}
	tbl := Block{K: "table", Cells: [][]string{{"a", "b"}, {"c", ""}}, HdrBold: true}
	cs := []Case{
		{Mode: "fixed", Blocks: []Block{{K: "h", Level: 1, T: "Title"}, {K: "p", Runs: []Run{{T: "one "}, {T: "two", B: true}, {T: " three "}, {T: "four", I: true}, {T: " five"}}},
			{K: "q", T: "quoted words"}, {K: "p", Runs: []Run{{T: "x", S: true}, {T: " and "}, {T: "y", C: true}}}, tbl}, O: def},
		{Mode: "fixed", Blocks: []Block{{K: "h", Level: 2, T: "Sub"}, {K: "h", Level: 6, T: "Deep"}, {K: "p", Runs: []Run{{T: "only"}}}, tbl, tbl},
			O: Opts{GFM: true, Setext: true, Bullet: "+", Emph: "_", Wrap: true, MaxLen: 10}},
		{Mode: "fixed", Blocks: []Block{{K: "li", T: "item one"}, {K: "li", T: "item two", Ord: true}, {K: "code", T: "x := 1"}, {K: "p", Runs: []Run{{T: "after"}}}}, O: def},
		// every exact mask at once: table between paragraphs, items, code lines, empty paragraph, plain header, nested emphasis, Heading7
		{Mode: "fixed", Blocks: []Block{{K: "p", Runs: []Run{{T: "before "}, {T: "both", B: true, I: true}}}, {K: "table", Cells: [][]string{{"h1", "h2"}, {"c", "d"}}},
			{K: "li", T: "item"}, {K: "code", T: "a*b + c_d"}, {K: "code", T: "# not a heading"}, {K: "empty"}, {K: "h", Level: 7, T: "deep"}, {K: "p", Runs: []Run{{T: "after"}}}},
			O: Opts{GFM: true, Bullet: "*", Emph: "*", MaxLen: 80, Meta: true}},
		// pieces of code: one CodeBlock paragraph per line, paragraphs without visible text of every kind between the lines (empty
		// lines of the code), before the first and after the last line (nothing); lines without text, of blanks, with
		// indentation; a text of several lines (LF, CR LF, an empty line, a trailing line end); a quote, a table and an item
		// between two pieces; items of both kinds next to each other and around a paragraph without text
		{Mode: "fixed", Blocks: []Block{{K: "p", Runs: []Run{{T: "intro"}}}, {K: "empty"}, {K: "code", T: "func f() {"}, {K: "code", T: "\treturn 1"}, {K: "empty"}, {K: "h", Level: 3, T: " "},
			{K: "code", T: "}"}, {K: "code", T: ""}, {K: "code", T: "    "}, {K: "code", T: "  g()"}, {K: "empty", Brk: true}, {K: "q", T: "between"}, {K: "code", T: "one\r\ntwo\n\n  four\n"},
			{K: "table", Cells: [][]string{{"k", "v"}}, HdrBold: true}, {K: "code", T: ""}, {K: "p", Runs: []Run{{T: " "}}}, {K: "code", T: "after the table"}, {K: "li", T: ""}, {K: "li", T: "item"},
			{K: "code", T: "last"}, {K: "li", T: "bullet"}, {K: "li", T: "numbered", Ord: true}, {K: "li", T: "second", Ord: true}, {K: "p", Runs: []Run{{T: "end"}}}}, O: def},
		{Mode: "fixed", Blocks: []Block{{K: "code", T: " "}, {K: "empty"}, {K: "code", T: ""}, {K: "h", Level: 1, T: "Only blank code before"}, {K: "code", T: "x"}, {K: "empty"}, {K: "empty"}, {K: "code", T: "y"},
			{K: "empty"}, {K: "code", T: "\t"}, {K: "empty"}}, O: Opts{GFM: true, Setext: true, Bullet: "+", Emph: "_", Wrap: true, MaxLen: 10}, W: &Wide{X: &Extra{Lang: "go"}}},
		{Mode: "fixed", Blocks: hostileDoc(true), O: def},
		{Mode: "fixed", Blocks: hostileDoc(false), O: Opts{GFM: true, Setext: true, Bullet: "*", Emph: "_", Wrap: true, MaxLen: 10}},
		{Mode: "fixed", Blocks: hostileDoc(false), O: Opts{GFM: true, Setext: true, Bullet: "+", Emph: "*", Wrap: true, MaxLen: 1}},
	}
	if os.Getenv("C20_NOHOSTILEDOC") != "" { // development aid: sensitivity of the generated search alone
		cs = cs[:6]
	}
	if os.Getenv("C20_NOWIDEFIXED") == "" {
		cs = append(cs, wideFixed()...)
	}
	return cs
}

// wideFixed: hand-written cases of the widened dimensions (every run executes them): the file based entry points,
// documents of several sections written by another producer, the 10th and 11th input of a batch, sizes past the
// usual ones (a text of more than 64 KiB, 70 runs, 12 columns, 33 rows).
func wideFixed() []Case {
	def := Opts{GFM: true, Bullet: "-", Emph: "*", MaxLen: 80}
	p := func(ws ...string) Block {
		b := Block{K: "p"}
		for i, w := range ws {
			b.Runs = append(b.Runs, Run{T: w, B: i%3 == 1, I: i%5 == 3})
		}
		return b
	}
	tbl := Block{K: "table", Cells: [][]string{{"Key", "Value"}, {"kone", "vone"}}, HdrBold: true}
	sect := func(b Block) Block { b.Sect = true; return b }
	multi := []Block{{K: "h", Level: 1, T: "Title"}, sect(p("first ", "bold", " end")), {K: "h", Level: 2, T: "Part"}, p("second"), tbl, {K: "li", T: "item"}, {K: "q", T: "quoted"}, p("closing")}
	three := []Block{sect(Block{K: "h", Level: 1, T: "One", Split: 1}), p("alpha"), sect(p("beta ", "Gamma", " delta")), tbl, {K: "code", T: "x := 1"}, sect(Block{K: "q", T: "said"}), p("omega")}
	three[2].Runs[0].Split = 2
	three[2].MarkFmt = mB | mI
	var many Block
	many.K = "p"
	for i := 0; i < 70; i++ {
		many.Runs = append(many.Runs, Run{T: safeWords[i%len(safeWords)] + " ", B: i%2 == 1, S: i%7 == 3})
	}
	wideT := Block{K: "table", HdrBold: true, Cells: [][]string{make([]string, 12), make([]string, 12)}}
	for j := 0; j < 12; j++ {
		wideT.Cells[0][j], wideT.Cells[1][j] = "h"+string(rune('a'+j)), "c"+string(rune('a'+j))
	}
	longT := Block{K: "table", HdrBold: true}
	for i := 0; i < 33; i++ {
		longT.Cells = append(longT.Cells, []string{"r" + string(rune('a'+i%26)) + string(rune('a'+i/26)), safeWords[i%len(safeWords)]})
	}
	hugeWords := make([]string, 13000)
	for i := range hugeWords {
		hugeWords[i] = safeWords[(i*7)%21]
	}
	huge := strings.Join(hugeWords, " ")
	var ten []Block
	for i := 0; i < 12; i++ {
		ten = append(ten, p("para"+string(rune('a'+i)), " word"))
	}
	return []Case{
		{Mode: "fixed", Blocks: multi, O: def, W: &Wide{Sink: "file", Src: "foreign"}},
		{Mode: "fixed", Blocks: three, O: Opts{GFM: true, Setext: true, Bullet: "*", Emph: "_", MaxLen: 80}, W: &Wide{Src: "foreign", F: Foreign{Prefix: "ns0", Rsid: true, On: "1", NoStyles: true, DirEnt: true, AbsTarget: true, BareTable: true}, Shared: true}},
		{Mode: "fixed", Blocks: multi, O: def, Via: "ctor", W: &Wide{Sink: "auto", Src: "saved", Names: "upper"}, Hist: []Step{{K: "hq"}}},
		{Mode: "fixed", Blocks: ten, O: def, W: &Wide{Sink: "batch", Batch: []int{1, 2, 3, 4, 5, 6, 7, 8, 9, 10, 11}, At: 11, Shared: true}},
		{Mode: "fixed", Blocks: []Block{{K: "h", Level: 2, T: "Big"}, many, wideT, p("between"), longT, p("after")}, O: Opts{GFM: true, Bullet: "+", Emph: "_", Wrap: true, MaxLen: 40}, W: &Wide{Sink: "bytes", RT: "bytes", Conv: true}},
		{Mode: "fixed", Blocks: []Block{p(huge), {K: "code", T: strings.ReplaceAll(huge, " ", "_")}, {K: "q", T: "end"}}, O: Opts{GFM: true, Bullet: "-", Emph: "*", Wrap: true, MaxLen: 80}},
		{Mode: "fixed", Blocks: multi[:5], O: def, W: &Wide{Sink: "file", RT: "file", Names: "space", Other: []Block{p("another document, longer than the first one: ", "words", " and more words")}, Shared: true},
			Hist: []Step{{K: "otherdoc"}, {K: "badfile"}}},
	}
}

// hostileDoc: every class of Markdown syntax as text of every kind of block. Only with longTicks there are code-font
// runs with a blank, with two backticks in a row or with a backtick first (wrapped code spans are an open finding
// for these).
func hostileDoc(longTicks bool) []Block {
	inline := "*a* _b_ **c** __d__ `e` ``f`` [g](h) ![i](j) [k] [^1] <b> </b> <!-- c --> <x@y.z> &amp; &#35; &copy; & \\ a\\*b \\_ ~~l~~ ~m~ $n$ $$ a|b | snake_case 2*3 a*b*c !! #tag www.example.com http://a.b/c"
	var bs []Block
	bs = append(bs, Block{K: "h", Level: 1, T: "1. " + inline}, Block{K: "h", Level: 2, T: "# h #"}, Block{K: "h", Level: 3, T: "- x"}, Block{K: "h", Level: 2, T: "==="})
	bs = append(bs, Block{K: "p", Runs: []Run{{T: inline + " "}, {T: "# - + 1. 2) > = === --- *** ___ ~~~ ``` | :-: <div> [a]: u", B: true}, {T: " "}, {T: inline, I: true}, {T: " "}, {T: inline, S: true}, {T: " end."}}})
	for _, w := range []string{"#", "##", "# h", "-", "- x", "+", "+ x", "*", "* x", "1.", "1. x", "2) y", "=", "===", "---", "- - -", "***", "___", ">", "> q", "```", "``` go", "~~~", "<div>", "<!-- c -->", "[a]: u", "[ ] todo", "| a | b |", "|---|---|", ":-:", "a | b", "--- | ---", "$$", "\\", "&amp;"} {
		bs = append(bs, Block{K: "p", Runs: []Run{{T: w}}}, Block{K: "li", T: w}, Block{K: "q", T: w})
	}
	bs = append(bs, Block{K: "p", Runs: []Run{{T: "    four blanks first"}}})
	bs = append(bs, Block{K: "li", Ord: true, T: "1. " + inline}, Block{K: "q", T: "> " + inline})
	bs = append(bs, Block{K: "table", HdrBold: true, Cells: [][]string{{"a|b", "*x*", "|"}, {"\\|", "`c` | d", "x\\"}, {"&amp; <b>", "# - 1.", inline}, {"", "---", ":-:"}}})
	bs = append(bs, Block{K: "code", T: "``` fence"}, Block{K: "code", T: "~~~"}, Block{K: "code", T: "a ```` b"}, Block{K: "code", T: inline}, Block{K: "code", T: "`"})
	bs = append(bs, Block{K: "p", Runs: []Run{{T: "see "}, {T: "a`b", C: true}, {T: " and "}, {T: "x`y`z", C: true, S: true}, {T: " and "}, {T: "*not*_em_\\<b>&amp;[l](m)|$#", C: true}, {T: " end"}}})
	if longTicks {
		bs = append(bs, Block{K: "p", Runs: []Run{{T: "see "}, {T: "`", C: true, S: true}, {T: " and "}, {T: "`x`", C: true}, {T: " and "}, {T: "``", C: true}, {T: " and "}, {T: "```", C: true, B: true}, {T: " and "}, {T: "a``b ` c", C: true}, {T: " end"}}})
	}
	return bs
}

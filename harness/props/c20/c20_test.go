package c20

import (
	"fmt"
	"regexp"
	"sort"
	"strings"
	"testing"
	"unicode"

	"github.com/zerx-lab/wordZero/pkg/document"
	"github.com/zerx-lab/wordZero/pkg/markdown"

	"wzverif/internal/kit"
)

func TestMain(m *testing.M) {
	document.SetGlobalLevel(document.LogLevelSilent)
	kit.TestMain(m, 12000, 300000)
}

// ---------------------------------------------------------------------------------------------
// Case: a document as a list of blocks + export options (plain data).

type Run struct {
	T string `json:"t"`
	B bool   `json:"b,omitempty"` // bold
	I bool   `json:"i,omitempty"` // italic
	S bool   `json:"s,omitempty"` // strike
	C bool   `json:"c,omitempty"` // code font
}

func (r Run) mask() int {
	m := 0
	if r.B {
		m |= mB
	}
	if r.I {
		m |= mI
	}
	if r.S {
		m |= mS
	}
	if r.C {
		m |= mC
	}
	return m
}

type Block struct {
	K       string     `json:"k"`                 // h | p | li | q | code | table | empty
	Level   int        `json:"level,omitempty"`   // h: 1..9
	Ord     bool       `json:"ord,omitempty"`     // li: numbered list item
	T       string     `json:"t,omitempty"`       // h, li, q, code
	Runs    []Run      `json:"runs,omitempty"`    // p
	Cells   [][]string `json:"cells,omitempty"`   // table (rectangular)
	HdrBold bool       `json:"hdrbold,omitempty"` // table: first row bold (a header row as Markdown can express it)
}

type Opts struct {
	GFM    bool   `json:"gfm"`
	Setext bool   `json:"setext"`
	Bullet string `json:"bullet"`
	Emph   string `json:"emph"`
	Wrap   bool   `json:"wrap"`
	MaxLen int    `json:"maxlen"`
	Meta   bool   `json:"meta"`
}

// Step is an export made between the judged exports of a case (its output is not judged): the history dimension.
type Step struct {
	K string `json:"k"`           // hq: HighQualityExportOptions(); mutdefault: the struct DefaultExportOptions() returned, customised with O; struct: own struct with O; nilexp: NewExporter(nil), nil options
	O Opts   `json:"o,omitempty"` // mutdefault, struct
}

type Case struct {
	Mode   string   `json:"mode"`  // generator mode (label only)
	Feats  []string `json:"feats"` // generator features (labels only; triggers look at the content)
	Blocks []Block  `json:"blocks"`
	O      Opts     `json:"o"`
	// Via: how the requested options reach the exporter. "" = a struct of the caller's own (a value copy of the
	// defaults with O set); "default" = DefaultExportOptions() as returned; "nilexp" = NewExporter(nil) and nil
	// options; "hq" = HighQualityExportOptions(). For the last three O holds the documented values.
	Via  string `json:"via,omitempty"`
	Hist []Step `json:"hist,omitempty"` // exports with other options between the first export and the repeats
}

// documented defaults (DefaultExportOptions) and what HighQualityExportOptions changes of the fields that shape the output
var defaultOpts = Opts{GFM: true, Setext: false, Bullet: "-", Emph: "*", Wrap: false, MaxLen: 80, Meta: false}

func viaOpts(via string) Opts {
	o := defaultOpts
	if via == "hq" {
		o.Meta = true
	}
	return o
}

func (b Block) paraText() string {
	var s strings.Builder
	for _, r := range b.Runs {
		s.WriteString(r.T)
	}
	return s.String()
}

func (b Block) text() string {
	switch b.K {
	case "p":
		return b.paraText()
	case "table":
		var s strings.Builder
		for _, row := range b.Cells {
			for _, c := range row {
				s.WriteString(c + " ")
			}
		}
		return s.String()
	case "empty":
		return ""
	}
	return b.T
}

func blank(s string) bool { return strings.TrimSpace(s) == "" }

// ---------------------------------------------------------------------------------------------
// Building the document through the public API.

var codeFonts = []string{"Consolas", "Courier New"}

func tf(r Run, i int) *document.TextFormat {
	if r.mask() == 0 {
		return nil
	}
	f := &document.TextFormat{Bold: r.B, Italic: r.I, Strike: r.S}
	if r.C {
		f.FontFamily = codeFonts[i%len(codeFonts)]
	}
	return f
}

func build(c Case) (*document.Document, error) {
	d := document.New()
	for bi, b := range c.Blocks {
		switch b.K {
		case "h":
			d.AddHeadingParagraph(b.T, b.Level)
		case "p":
			var p *document.Paragraph
			for i, r := range b.Runs {
				if i == 0 {
					if f := tf(r, bi+i); f != nil {
						p = d.AddFormattedParagraph(r.T, f)
					} else {
						p = d.AddParagraph(r.T)
					}
					continue
				}
				p.AddFormattedText(r.T, tf(r, bi+i))
			}
			if p == nil {
				d.AddParagraph("")
			}
		case "li":
			if b.Ord {
				d.AddNumberedList(b.T, 0, document.ListTypeDecimal)
			} else {
				d.AddBulletList(b.T, 0, document.BulletTypeDot)
			}
		case "q":
			d.AddParagraph(b.T).SetStyle("Quote")
		case "code":
			d.AddParagraph(b.T).SetStyle("CodeBlock")
		case "empty":
			d.AddParagraph("")
		case "table":
			cfg := &document.TableConfig{Rows: len(b.Cells), Cols: len(b.Cells[0]), Width: 9000, Data: b.Cells}
			if b.HdrBold {
				em := make([][]int, len(b.Cells))
				for i := range em {
					em[i] = make([]int, len(b.Cells[i]))
				}
				for j := range em[0] {
					em[0][j] = 2
				}
				cfg.Emphases = em
			}
			if _, err := d.AddTable(cfg); err != nil {
				return nil, err
			}
		}
	}
	return d, nil
}

func setOpts(e *markdown.ExportOptions, o Opts) *markdown.ExportOptions {
	e.UseGFMTables = o.GFM
	e.UseSetext = o.Setext
	e.BulletListMarker = o.Bullet
	e.EmphasisMarker = o.Emph
	e.WrapLongLines = o.Wrap
	e.MaxLineLength = o.MaxLen
	e.IncludeMetadata = o.Meta
	return e
}

// exportOpts: a struct of the caller's own (value copy of the defaults, every output-shaping field set).
func exportOpts(o Opts) *markdown.ExportOptions {
	e := *markdown.DefaultExportOptions()
	return setOpts(&e, o)
}

// export performs one export the way the case asks for its options.
func export(d *document.Document, via string, o Opts) (string, error) {
	switch via {
	case "default":
		return markdown.NewExporter(nil).ExportToString(d, markdown.DefaultExportOptions())
	case "nilexp":
		return markdown.NewExporter(nil).ExportToString(d, nil)
	case "hq":
		return markdown.NewExporter(nil).ExportToString(d, markdown.HighQualityExportOptions())
	case "mutdefault": // a caller customising the struct it was handed
		return markdown.NewExporter(nil).ExportToString(d, setOpts(markdown.DefaultExportOptions(), o))
	}
	return markdown.NewExporter(nil).ExportToString(d, exportOpts(o))
}

// ---------------------------------------------------------------------------------------------
// Expected block sequence (from the case) and observed block sequence of a document (E4).

func flagsOf(s string, mask int) string {
	var b strings.Builder
	for _, r := range s {
		if !unicode.IsSpace(r) {
			b.WriteByte(byte('0' + mask))
		}
	}
	return b.String()
}

// expected lists the body blocks Markdown can express: blocks without visible text are left out.
func expected(c Case) []Blk {
	var out []Blk
	for _, b := range c.Blocks {
		switch b.K {
		case "table":
			x := Blk{Kind: "table", HdrBold: b.HdrBold}
			for i, row := range b.Cells {
				var ts, fs []string
				for _, cell := range row {
					m := 0
					if i == 0 && b.HdrBold {
						m = mB
					}
					ts = append(ts, cell)
					fs = append(fs, flagsOf(cell, m))
				}
				x.Cells = append(x.Cells, ts)
				x.CellF = append(x.CellF, fs)
			}
			out = append(out, x)
		case "p":
			if blank(b.paraText()) {
				continue
			}
			var f strings.Builder
			for _, r := range b.Runs {
				f.WriteString(flagsOf(r.T, r.mask()))
			}
			out = append(out, Blk{Kind: "p", Text: b.paraText(), Flags: f.String()})
		case "empty":
		default:
			if blank(b.T) {
				continue
			}
			out = append(out, Blk{Kind: b.K, Level: b.Level, Text: b.T})
		}
	}
	return out
}

// readDoc observes a document's body as a block sequence (kinds from paragraph style / numbering / table).
func readDoc(d *document.Document) []Blk {
	var out []Blk
	if d == nil || d.Body == nil {
		return out
	}
	for _, e := range d.Body.Elements {
		switch x := e.(type) {
		case *document.Paragraph:
			var s strings.Builder
			for _, r := range x.Runs {
				s.WriteString(r.Text.Content)
			}
			if blank(s.String()) {
				continue
			}
			b := Blk{Kind: "p", Text: s.String()}
			if x.Properties != nil {
				if x.Properties.NumberingProperties != nil {
					b.Kind = "li"
				}
				if ps := x.Properties.ParagraphStyle; ps != nil {
					switch {
					case strings.HasPrefix(ps.Val, "Heading"):
						b.Kind = "h"
						fmt.Sscanf(ps.Val[len("Heading"):], "%d", &b.Level)
					case ps.Val == "Quote":
						b.Kind = "q"
					case ps.Val == "CodeBlock":
						b.Kind = "code"
					}
				}
			}
			out = append(out, b)
		case *document.Table:
			b := Blk{Kind: "table"}
			for _, row := range x.Rows {
				var ts []string
				for _, cell := range row.Cells {
					var s strings.Builder
					for _, p := range cell.Paragraphs {
						for _, r := range p.Runs {
							s.WriteString(r.Text.Content)
						}
					}
					ts = append(ts, s.String())
				}
				b.Cells = append(b.Cells, ts)
			}
			out = append(out, b)
		}
	}
	return out
}

func descr(b Blk) string {
	if b.Kind == "table" {
		var rows []string
		for _, r := range b.Cells {
			var cs []string
			for _, c := range r {
				cs = append(cs, norm(c))
			}
			rows = append(rows, strings.Join(cs, "|"))
		}
		return "table[" + strings.Join(rows, " / ") + "]"
	}
	if b.Kind == "h" {
		return fmt.Sprintf("h%d(%q)", b.Level, norm(b.Text))
	}
	return fmt.Sprintf("%s(%q)", b.Kind, norm(b.Text))
}

func descrAll(bs []Blk) string {
	var s []string
	for _, b := range bs {
		s = append(s, descr(b))
	}
	return strings.Join(s, " ")
}

// sameBlock compares kind and whitespace-normalised text. Heading levels are compared where Markdown
// can express them (1..6); for Heading7..9 any heading level is accepted.
func sameBlock(want, got Blk) bool {
	if want.Kind != got.Kind {
		return false
	}
	switch want.Kind {
	case "table":
		if len(want.Cells) != len(got.Cells) {
			return false
		}
		for i := range want.Cells {
			if len(want.Cells[i]) != len(got.Cells[i]) {
				return false
			}
			for j := range want.Cells[i] {
				if norm(want.Cells[i][j]) != norm(got.Cells[i][j]) {
					return false
				}
			}
		}
		return true
	case "h":
		if want.Level <= 6 && want.Level != got.Level {
			return false
		}
	}
	return norm(want.Text) == norm(got.Text)
}

func diffSeq(want, got []Blk) string {
	n := len(want)
	if len(got) < n {
		n = len(got)
	}
	for i := 0; i < n; i++ {
		if !sameBlock(want[i], got[i]) {
			return fmt.Sprintf("block %d: body has %s, found %s", i, descr(want[i]), descr(got[i]))
		}
	}
	if len(want) != len(got) {
		return fmt.Sprintf("body has %d blocks, found %d", len(want), len(got))
	}
	return ""
}

// units: the order-insensitive text units of a block sequence (one per block, one per table cell), blanks removed.
func units(bs []Blk, withFlags bool) []string {
	var u []string
	add := func(kind, t, f string) {
		t = strip(t)
		if t == "" {
			return
		}
		if withFlags {
			t += "\x00" + f
		}
		u = append(u, t)
	}
	for _, b := range bs {
		if b.Kind == "table" {
			for i, r := range b.Cells {
				for j, c := range r {
					f := ""
					if withFlags && i < len(b.CellF) && j < len(b.CellF[i]) {
						f = b.CellF[i][j]
					}
					add("cell", c, f)
				}
			}
			continue
		}
		if withFlags && b.Kind != "p" {
			continue // formatting is compared on paragraph runs and table cells
		}
		add(b.Kind, b.Text, b.Flags)
	}
	sort.Strings(u)
	return u
}

func diffUnits(want, got []string) string {
	cnt := map[string]int{}
	for _, w := range want {
		cnt[w]++
	}
	for _, g := range got {
		cnt[g]--
	}
	keys := make([]string, 0, len(cnt))
	for k, v := range cnt {
		if v != 0 {
			keys = append(keys, k)
		}
	}
	sort.Strings(keys)
	var miss, extra []string
	for _, k := range keys {
		if cnt[k] > 0 {
			miss = append(miss, fmt.Sprintf("%q x%d", k, cnt[k]))
		} else {
			extra = append(extra, fmt.Sprintf("%q x%d", k, -cnt[k]))
		}
	}
	if len(miss)+len(extra) == 0 {
		return ""
	}
	return fmt.Sprintf("text units of the body missing in the Markdown: %v; units in the Markdown not in the body: %v", miss, extra)
}

func skeleton(s string) string {
	return strings.Map(func(r rune) rune {
		if unicode.IsLetter(r) || unicode.IsDigit(r) || unicode.IsMark(r) {
			return r
		}
		return -1
	}, s)
}

var reOrderedMarker = regexp.MustCompile(`(?m)^\d+[.)] `)

// diffSkeleton: letters and digits of the Markdown against those of the body text in body order. The order of
// tables relative to text blocks is E1's business: the tables-last order is accepted here as well, and so is
// a numeric list marker where the body has numbered items.
func diffSkeleton(c Case, md string) string {
	var inOrder, text, tables strings.Builder
	ordered := false
	for _, b := range c.Blocks {
		k := skeleton(b.text())
		inOrder.WriteString(k)
		if b.K == "table" {
			tables.WriteString(k)
		} else {
			text.WriteString(k)
		}
		ordered = ordered || (b.K == "li" && b.Ord)
	}
	got := []string{skeleton(md)}
	if ordered {
		got = append(got, skeleton(reOrderedMarker.ReplaceAllString(md, "")))
	}
	for _, g := range got {
		if g == inOrder.String() || g == text.String()+tables.String() {
			return ""
		}
	}
	w := inOrder.String()
	i := 0
	for i < len(w) && i < len(got[0]) && w[i] == got[0][i] {
		i++
	}
	lo := i - 20
	if lo < 0 {
		lo = 0
	}
	cut := func(x string) string {
		hi := i + 20
		if hi > len(x) {
			hi = len(x)
		}
		if lo > len(x) {
			return ""
		}
		return x[lo:hi]
	}
	return fmt.Sprintf("letters and digits of the body text and of the Markdown differ from position %d: body ...%q, markdown ...%q", i, cut(w), cut(got[0]))
}

// diffFormat compares formatting only on units whose text occurs equally often on both sides.
func diffFormat(want, got []string) string {
	split := func(u []string) map[string][]string {
		m := map[string][]string{}
		for _, x := range u {
			i := strings.IndexByte(x, 0)
			m[x[:i]] = append(m[x[:i]], x[i+1:])
		}
		return m
	}
	w, g := split(want), split(got)
	keys := make([]string, 0, len(w))
	for k := range w {
		keys = append(keys, k)
	}
	sort.Strings(keys)
	for _, k := range keys {
		if len(w[k]) != len(g[k]) {
			continue // text disagreement: E2's business
		}
		a, b := append([]string{}, w[k]...), append([]string{}, g[k]...)
		sort.Strings(a)
		sort.Strings(b)
		for i := range a {
			if a[i] != b[i] {
				return fmt.Sprintf("text %q: per-character formatting in the body %s, in the Markdown %s (1=strong 2=em 4=del 8=code, summed)", k, a[i], b[i])
			}
		}
	}
	return ""
}

// ---------------------------------------------------------------------------------------------

func run(c Case) *kit.Result {
	res := &kit.Result{}
	document.VerifResetGlobals()
	describe(c, res)

	var doc *document.Document
	var md1 string
	var err error
	res.Eval("C20.E0")
	if p, st := kit.Try(func() { doc, err = build(c) }); p != nil || err != nil || doc == nil {
		// building through the documented API is a precondition, not the property
		res.Count("build_failed", 1)
		res.Label("build-failed")
		_ = st
		return res
	}
	if p, st := kit.Try(func() { md1, err = export(doc, c.Via, c.O) }); p != nil {
		res.Fail("C20.E0", "ExportToString panicked: %v [%s]", p, st)
		return res
	}
	if err != nil {
		res.Fail("C20.E0", "ExportToString failed on a document built through the public API: %v", err)
		return res
	}

	want := expected(c)
	ref := md1
	if c.O.Meta {
		var ok bool
		if ref, ok = stripFrontMatter(md1); !ok {
			res.Count("meta_without_front_matter", 1)
		}
	}
	got := ParseMD(ref)

	res.Eval("C20.E1")
	if d := diffSeq(want, got); d != "" {
		tag := explain(c, func(e effect) bool { return e.seq1 != nil }, func(sel []effect) bool {
			w := want
			for _, e := range sel {
				w = e.seq1(w)
			}
			return diffSeq(w, got) == ""
		})
		res.Fail("C20.E1", "%sorder: %s | body: %s | markdown blocks: %s | markdown: %q", tag, d, descrAll(want), descrAll(got), md1)
	}
	res.Eval("C20.E2")
	if d := diffUnits(units(want, false), units(got, false)); d != "" {
		tag := explain(c, func(e effect) bool { return e.seq1 != nil }, func(sel []effect) bool {
			w := want
			for _, e := range sel {
				w = e.seq1(w)
			}
			return diffUnits(units(w, false), units(got, false)) == ""
		})
		res.Fail("C20.E2", "%stext: %s | markdown: %q", tag, d, md1)
	}
	// E2r: the same demand on the raw string, independent of any Markdown reading and therefore judged on every
	// case, hostile classes included: delimiters, escapes, markers and fences are punctuation, so the letters and
	// digits of the Markdown must be exactly the letters and digits of the body's text, block after block.
	res.Eval("C20.E2r")
	if d := diffSkeleton(c, ref); d != "" {
		res.Fail("C20.E2r", "text: %s | markdown: %q", d, md1)
	}
	res.Eval("C20.E3")
	if d := diffFormat(units(want, true), units(got, true)); d != "" {
		tag := explain(c, func(e effect) bool { return e.seq1 != nil }, func(sel []effect) bool {
			w := want
			for _, e := range sel {
				w = e.seq1(w)
			}
			return diffFormat(units(w, true), units(got, true)) == ""
		})
		res.Fail("C20.E3", "%sformatting: %s | markdown: %q", tag, d, md1)
	}

	// history: exports of the same document with other options, obtained in the ways callers obtain them
	for i, h := range c.Hist {
		if p, st := kit.Try(func() { _, _ = export(doc, h.K, h.O) }); p != nil {
			res.Fail("C20.E0", "export %d of the history (%s) panicked: %v [%s]", i, h.K, p, st)
			return res
		}
	}

	// round trip through the library's own converter
	var doc2 *document.Document
	if p, st := kit.Try(func() { doc2, err = markdown.NewConverter(nil).ConvertString(md1, nil) }); p != nil {
		res.Fail("C20.E0", "ConvertString(export) panicked: %v [%s]", p, st)
		return res
	}
	if err != nil || doc2 == nil {
		res.Fail("C20.E4", "ConvertString rejects the exported Markdown: %v | markdown: %q", err, md1)
		return res
	}
	res.Eval("C20.E4")
	back := readDoc(doc2)
	if d := diffSeq(want, back); d != "" {
		tag := explain(c, func(e effect) bool { return e.seq4 != nil }, func(sel []effect) bool {
			w := want
			for _, e := range sel {
				w = e.seq4(w)
			}
			return diffSeq(w, back) == ""
		})
		res.Fail("C20.E4", "%sround trip: %s | body: %s | re-imported: %s | markdown: %q", tag, d, descrAll(want), descrAll(back), md1)
	}
	var md2 string
	if p, st := kit.Try(func() { md2, err = export(doc2, c.Via, c.O) }); p != nil {
		res.Fail("C20.E0", "second ExportToString panicked: %v [%s]", p, st)
		return res
	}
	res.Eval("C20.E5")
	if err != nil {
		res.Fail("C20.E5", "second export failed: %v", err)
	} else if md2 != md1 {
		tag := explain(c, func(e effect) bool { return e.norm5 != nil }, func(sel []effect) bool {
			a, b, loose := md1, md2, false
			for _, e := range sel {
				a, b = e.norm5(c, a), e.norm5(c, b)
				loose = loose || (e.loose5 != nil && e.loose5(c))
			}
			if loose {
				a, b = norm(a), norm(b)
			}
			return a == b
		})
		res.Fail("C20.E5", "%sfixpoint: export(convert(export(D))) differs from export(D): first %q, second %q", tag, md1, md2)
	}
	// E6: the same document exported again with the same requested options gives the same bytes, whatever
	// was exported in between (no mask).
	var md3 string
	if p, st := kit.Try(func() { md3, err = export(doc, c.Via, c.O) }); p != nil {
		res.Fail("C20.E0", "repeated ExportToString panicked: %v [%s]", p, st)
		return res
	}
	res.Eval("C20.E6")
	if err != nil {
		res.Fail("C20.E6", "repeated export failed: %v", err)
	} else if md3 != md1 {
		res.Fail("C20.E6", "stability: the same document exported again with the same options (obtained via %q) after %d other exports differs: first %q, again %q", c.Via, len(c.Hist), md1, md3)
	}
	attribute(c, res)
	return res
}

// attribute counts, per clause, the failures that fall into a finding class (evidence only; the verdict is kit's).
func attribute(c Case, res *kit.Result) {
	for _, f := range res.Failures {
		who := "none"
		for _, k := range kfs {
			if k.attributes(c, f) {
				who = k.id
				break
			}
		}
		res.Count("failed:"+f.Clause+":"+who, 1)
	}
}

// describe sets labels, non-triviality and shape from the case content.
func describe(c Case, res *kit.Result) {
	res.Label("mode:" + c.Mode)
	for _, f := range c.Feats {
		res.Label("feat:" + f)
	}
	kinds := map[string]bool{}
	var shape []string
	fmtRuns := 0
	for _, b := range c.Blocks {
		kinds[b.K] = true
		s := b.K
		switch b.K {
		case "p":
			for _, r := range b.Runs {
				s += fmt.Sprintf(".%d", r.mask())
				if r.mask() != 0 && !blank(r.T) {
					fmtRuns++
				}
				if n := bitsSet(r.mask()); n >= 2 {
					res.Label("run:multi-format")
				}
			}
		case "h":
			s += fmt.Sprintf("%d", b.Level)
		case "table":
			s += fmt.Sprintf("%dx%d", len(b.Cells), len(b.Cells[0]))
			if b.HdrBold {
				s += "H"
			}
		case "li":
			if b.Ord {
				s += "#"
				res.Label("list:numbered")
			}
		}
		shape = append(shape, s)
	}
	for k := range kinds {
		res.Label("kind:" + k)
	}
	between := tableBetweenParagraphs(c)
	if between {
		res.Label("table-between-paragraphs")
	}
	if tableBeforeLaterBlock(c) {
		res.Label("table-before-later-block")
	}
	if fmtRuns >= 2 {
		res.Label("formatted-runs>=2")
	}
	if hasEdgeBlankFormatted(c) {
		res.Label("edge-blank")
		if hasUnicodeEdgeBlank(c) {
			res.Label("edge-blank:unicode")
		}
	}
	if !c.O.GFM && listThenTable(c) {
		res.Label("simple-table-after-item")
	}
	hostile := hostilePlaces(c)
	for _, h := range hostile {
		res.Label("hostile:" + h)
	}
	if c.Via == "" {
		res.Label("via:own-struct")
	} else {
		res.Label("via:" + c.Via)
	}
	for _, h := range c.Hist {
		res.Label("hist:" + h.K)
	}
	if len(c.Hist) > 0 {
		res.Label("hist:any")
	}
	o := c.O
	if !o.GFM {
		res.Label("opt:simple-tables")
	}
	if o.Setext {
		res.Label("opt:setext")
	}
	if o.Wrap {
		res.Label("opt:wrap")
	}
	if o.Meta {
		res.Label("opt:metadata")
	}
	res.Label("opt:bullet" + o.Bullet)
	res.Label("opt:emph" + o.Emph)
	class, exact := triggered(c)
	for _, t := range class {
		res.Label("class-mask:" + t)
	}
	for _, t := range exact {
		res.Label("exact-mask:" + t)
	}
	// fully-judged: every clause E1-E5 is decided exactly - either outright, or (for the exact findings the case
	// is in) against the body after exactly the predicted effect; no clause is waived for the case's input class.
	if len(class) == 0 {
		res.Label("fully-judged")
		if between {
			res.Label("fully-judged:table-between-paragraphs")
		}
		if fmtRuns >= 2 {
			res.Label("fully-judged:formatted-runs>=2")
		}
		for _, k := range []string{"li", "q", "code", "h", "table", "empty"} {
			if kinds[k] {
				res.Label("fully-judged:kind:" + k)
			}
		}
		if len(exact) == 0 {
			res.Label("unmasked") // no finding of any kind applies: E1-E5 outright
		}
		for _, h := range hostile {
			res.Label("fully-judged:hostile:" + h)
			if len(exact) == 0 && h == "any" {
				res.Label("unmasked:hostile")
			}
		}
	}
	trig := append(append([]string{}, class...), exact...)
	res.Nontrivial = between && fmtRuns >= 2 && len(kinds) >= 3
	res.Shape = strings.Join(shape, "|") + fmt.Sprintf("|%v%v%s%s%v%d%v", o.GFM, o.Setext, o.Bullet, o.Emph, o.Wrap, o.MaxLen, o.Meta) + "|" + strings.Join(trig, ",")
}

func hasUnicodeEdgeBlank(c Case) bool {
	uni := func(s string) bool {
		r := []rune(s)
		return len(r) > 0 && ((r[0] > 127 && unicode.IsSpace(r[0])) || (r[len(r)-1] > 127 && unicode.IsSpace(r[len(r)-1])))
	}
	for _, b := range c.Blocks {
		if b.K == "h" && uni(b.T) {
			return true
		}
		for _, r := range b.Runs {
			if r.mask() != 0 && uni(r.T) {
				return true
			}
		}
	}
	return false
}

func listThenTable(c Case) bool {
	for i := 1; i < len(c.Blocks); i++ {
		if c.Blocks[i].K == "table" && c.Blocks[i-1].K == "li" && !blank(c.Blocks[i-1].T) {
			return true
		}
	}
	return false
}

func bitsSet(m int) int {
	n := 0
	for ; m != 0; m &= m - 1 {
		n++
	}
	return n
}

func tableBetweenParagraphs(c Case) bool {
	seenP, seenT := false, false
	for _, b := range c.Blocks {
		switch {
		case b.K == "table":
			if seenP {
				seenT = true
			}
		case b.K != "empty" && !blank(b.text()):
			if seenT {
				return true
			}
			seenP = true
		}
	}
	return false
}

func TestC20(t *testing.T) {
	kit.Main(t, kit.Spec[Case]{
		ID: "C20", Level: "exploration",
		Rule: "document of 1-10 (thorough 1-16) blocks drawn from headings 1-9, paragraphs of 1-5 runs (bold/italic/strike/code-font combinations), bullet and numbered list items, Quote and CodeBlock paragraphs, 1-5 x 1-5 tables (bold or plain first row, empty cells) and empty paragraphs, in any interleaving (a list item directly before a table in a quarter of the cases), under every combination of export options (GFM/simple tables, setext, three bullet markers, two emphasis markers, wrapping at 1..80, metadata); the options reach the exporter as the caller's own struct (~78 %) or through DefaultExportOptions(), NewExporter(nil)+nil options, HighQualityExportOptions(); in half of the cases 1-2 other exports (HighQualityExportOptions, a customised copy-by-pointer of what DefaultExportOptions returned, another struct, nil options) run between the judged exports; modes clean (~31 %: safe alphabet, single formats), benign (~21 %: plus lists, code blocks, empty paragraphs, plain table headers, multi-format and code+emphasis runs, Heading7-9, ASCII and Unicode blanks at the edges of formatted runs and headings, formatted runs touching each other or a plain neighbour, wrapped formatted text), hostile (~40 %: the benign shapes with text from 25 classes of Markdown syntax - emphasis/tilde/backtick/backslash runs, brackets and links, angle brackets and HTML, entities, dollar, pipes, '!' , leading '#' '-' '+' '*' '=' '>' ':' and ordered markers, table-like and fence-like lines, task boxes, autolinks with and without syntax characters, punctuation at word edges - on their own, glued before/after/inside a word, in headings, items, quotes, cells (pipes more often), plain, formatted and code-font runs (backtick strings), CodeBlock paragraphs (fence-like lines, backtick runs)) and wild (~8 %: simple tables or metadata, half of them with hostile text); non-trivial = a table between two text blocks, >= 2 formatted runs and >= 3 block kinds; distinct = distinct sequence of (block kind, heading level, run format masks, table size) + options + finding classes the case is in",
		Gen:  genCase, Run: run, Findings: findings, Fixed: fixedCases,
		Assumptions: []string{
			"goldmark v1.7.8 with extension.GFM is the reference reading of the exported Markdown (CommonMark 0.31 + GFM tables/strikethrough/autolinks); backslash escapes and entities are resolved as a renderer would, autolink labels count as text",
			"a leading '---' metadata block is removed before the reference parse when IncludeMetadata is set (front matter is outside CommonMark)",
			"block text is compared after collapsing whitespace runs; paragraphs without visible text are not expected in the Markdown; heading levels 7-9 may come out at any level; ordered vs bullet marker of a list item is not judged",
			"the re-imported document is observed through Body.Elements (paragraph style / numbering properties / tables), default ConvertOptions",
			"exact masks: for the findings with one predictable effect ('• ' paragraphs for items, simple tables read as paragraph text, blank lines of empty paragraphs, bold first table row, Heading7/9 -> italic Heading6, front matter read back as a heading) the failing clause is re-judged against the body after exactly that effect and waived only if it then holds; label fully-judged = no clause of E1-E5 is waived for the case's input class (unmasked = not even an exact mask applies)",
			"text containing Markdown syntax is judged like any other text (E1-E5 exact): the reference reading resolves backslash escapes and character references, so any correct way of escaping passes; class masks remain only for delimiter placement (KF-C20-delimiter-context: flanking, fused delimiter runs, '~~' after a tilde, delimiters inside an autolink word - decided by a model of the documented run merging, validated by exhaustive enumeration) and for line breaks inside code spans (KF-C20-wrap-code-span)",
			"C20.E2r (letters and digits of the raw Markdown = letters and digits of the body text, in order) is judged on every case without any mask",
			"C20.E6 (stability): the document exported again with the same requested options, obtained the same way, after the other exports of the case's history, is byte-identical to the first export; no mask. For options taken from the library's constructors the requested values are the documented ones (defaults; HighQuality = defaults + metadata)",
			"a simple (non-GFM) table is judged against the reference reading of exactly the lines the open finding describes (cell texts written with a backslash before every ASCII punctuation character, which reads the same as any other correct escaping), standing as a block of their own: absorbed into a neighbour, missing rows or a wrong position stay violations; its fixpoint clause compares the two exports without backslash escapes, '*', '_' and line breaks",
		},
		MustSee: map[string]float64{"fully-judged": 0.8, "unmasked": 0.38, "fully-judged:table-between-paragraphs": 0.12, "fully-judged:formatted-runs>=2": 0.25,
			"fully-judged:kind:li": 0.1, "fully-judged:kind:code": 0.04, "fully-judged:kind:q": 0.15, "fully-judged:kind:empty": 0.012,
			"table-between-paragraphs": 0.15, "formatted-runs>=2": 0.3, "opt:setext": 0.3, "opt:wrap": 0.2,
			"opt:simple-tables": 0.06, "opt:metadata": 0.008, "kind:table": 0.4, "run:multi-format": 0.02,
			"class-mask:KF-C20-delimiter-context": 0.01, "class-mask:KF-C20-wrap-code-span": 0.002,
			"hostile:any": 0.3, "fully-judged:hostile:any": 0.27, "unmasked:hostile": 0.07,
			"fully-judged:hostile:in:cell": 0.09, "fully-judged:hostile:in:h": 0.08, "fully-judged:hostile:in:li": 0.07, "fully-judged:hostile:in:q": 0.015,
			"fully-judged:hostile:in:plain-run": 0.09, "fully-judged:hostile:in:formatted-run": 0.06, "fully-judged:hostile:in:code-run": 0.025,
			"fully-judged:hostile:in:code-block": 0.1, "fully-judged:hostile:fence-in-code-block": 0.04, "fully-judged:hostile:backtick-in-code-run": 0.01,
			"fully-judged:hostile:pipe-in-cell": 0.07, "fully-judged:hostile:run-edge": 0.045, "hostile:leading-marker:h": 0.012, "hostile:leading-marker:li": 0.012, "hostile:leading-marker:p": 0.012,
			"edge-blank:unicode": 0.02, "hist:any": 0.3, "hist:mutdefault": 0.15, "hist:hq": 0.08, "via:default": 0.04, "via:nilexp": 0.03, "via:hq": 0.03, "simple-table-after-item": 0.01},
	})
}

package c20

import (
	"fmt"
	"os"
	"path/filepath"
	"regexp"
	"runtime/debug"
	"sort"
	"strings"
	"testing"
	"unicode"

	"github.com/zerx-lab/wordZero/pkg/document"
	"github.com/zerx-lab/wordZero/pkg/markdown"

	"wzverif/internal/kit"
)

func TestMain(m *testing.M) {
	// the cases are small and run one after the other: on a busy machine most of the process's CPU time went into the
	// garbage collector's background workers (a collection every few cases). The setting changes no verdict.
	if os.Getenv("GOGC") == "" {
		debug.SetGCPercent(800)
	}
	document.SetGlobalLevel(document.LogLevelSilent)
	kit.TestMain(m, 8000, 200000)
}

// ---------------------------------------------------------------------------------------------
// Case: a document as a list of blocks + export options (plain data).

type Run struct {
	T string `json:"t"`
	B bool   `json:"b,omitempty"` // bold
	I bool   `json:"i,omitempty"` // italic
	S bool   `json:"s,omitempty"` // strike
	C bool   `json:"c,omitempty"` // code font
	// foreign writer only: formats the run does NOT have, written with an explicit "off" value; the text cut after
	// Split runes into two w:r / two w:t
	Off   int `json:"off,omitempty"`
	Split int `json:"split,omitempty"`
}

func (r Run) mask() int {
	m := 0
	if r.B {
		m |= mB
	}
	if r.I {
		m |= mI
	}
	if r.S {
		m |= mS
	}
	if r.C {
		m |= mC
	}
	return m
}

type Block struct {
	K       string     `json:"k"`                 // h | p | li | q | code | table | empty
	Level   int        `json:"level,omitempty"`   // h: 1..9
	Ord     bool       `json:"ord,omitempty"`     // li: numbered list item
	T       string     `json:"t,omitempty"`       // h, li, q, code
	Runs    []Run      `json:"runs,omitempty"`    // p
	Cells   [][]string `json:"cells,omitempty"`   // table (rectangular)
	HdrBold bool       `json:"hdrbold,omitempty"` // table: first row bold (a header row as Markdown can express it)
	Brk     bool       `json:"brk,omitempty"`     // empty: a page break paragraph (AddPageBreak)
	// foreign writer only
	Off     int  `json:"off,omitempty"`     // h, li, q, code: explicit "off" values on the run
	Split   int  `json:"split,omitempty"`   // h, li, q, code: the text cut into two runs
	Sect    bool `json:"sect,omitempty"`    // the paragraph ends a section (w:sectPr in its w:pPr)
	MarkFmt int  `json:"markfmt,omitempty"` // formatting of the paragraph mark (w:pPr/w:rPr): not a format of any text
	NoNum   bool `json:"nonum,omitempty"`   // p: w:numPr with w:numId 0 ("no numbering")
}

type Opts struct {
	GFM    bool   `json:"gfm"`
	Setext bool   `json:"setext"`
	Bullet string `json:"bullet"`
	Emph   string `json:"emph"`
	Wrap   bool   `json:"wrap"`
	MaxLen int    `json:"maxlen"`
	Meta   bool   `json:"meta"`
}

// Step is an export made between the judged exports of a case (its output is not judged): the history dimension.
type Step struct {
	// hq: HighQualityExportOptions(); mutdefault: the struct DefaultExportOptions() returned, customised with O; struct: own struct with O;
	// nilexp: NewExporter(nil), nil options; literal: struct literal with O; otherdoc: the case's second document through the judged
	// exporter and options (file sinks: into the same .md file); badfile: ExportToFile of a file that does not exist
	K string `json:"k"`
	O Opts   `json:"o,omitempty"` // mutdefault, struct
}

type Case struct {
	Mode   string   `json:"mode"`  // generator mode (label only)
	Feats  []string `json:"feats"` // generator features (labels only; triggers look at the content)
	Blocks []Block  `json:"blocks"`
	O      Opts     `json:"o"`
	// Via: how the requested options reach the exporter. "" = a struct of the caller's own (a value copy of the
	// defaults with O set); "default" = DefaultExportOptions() as returned; "nilexp" = NewExporter(nil) and nil
	// options; "hq" = HighQualityExportOptions(). For the last three O holds the documented values.
	// "ctor" = the caller's struct given to NewExporter, nil options per call; "ctor2" = NewExporter(HighQualityExportOptions())
	// and the caller's struct per call; "literal" = a struct literal of the caller (no copy of the defaults).
	Via  string `json:"via,omitempty"`
	Hist []Step `json:"hist,omitempty"` // exports with other options between the first export and the repeats
	W    *Wide  `json:"w,omitempty"`    // entry point, origin of the document, shared objects (wide.go); nil = ExportToString of the in-memory document
}

// documented defaults (DefaultExportOptions) and what HighQualityExportOptions changes of the fields that shape the output
var defaultOpts = Opts{GFM: true, Setext: false, Bullet: "-", Emph: "*", Wrap: false, MaxLen: 80, Meta: false}

func viaOpts(via string) Opts {
	o := defaultOpts
	if via == "hq" {
		o.Meta = true
	}
	return o
}

func (b Block) paraText() string {
	var s strings.Builder
	for _, r := range b.Runs {
		s.WriteString(r.T)
	}
	return s.String()
}

func (b Block) text() string {
	switch b.K {
	case "p":
		return b.paraText()
	case "table":
		var s strings.Builder
		for _, row := range b.Cells {
			for _, c := range row {
				s.WriteString(c + " ")
			}
		}
		return s.String()
	case "empty":
		return ""
	}
	return b.T
}

// codeLang: the DefaultCodeLang of the judged exports (set only in the caller's own options struct).
func (c Case) codeLang() string {
	if x := c.wide().X; x != nil && (c.Via == "" || c.Via == "literal" || c.Via == "ctor" || c.Via == "ctor2") {
		return x.Lang
	}
	return ""
}

func blank(s string) bool { return strings.TrimSpace(s) == "" }

// ---------------------------------------------------------------------------------------------
// Building the document through the public API.

var codeFonts = []string{"Consolas", "Courier New"}

func tf(r Run, i int) *document.TextFormat {
	if r.mask() == 0 {
		return nil
	}
	f := &document.TextFormat{Bold: r.B, Italic: r.I, Strike: r.S}
	if r.C {
		f.FontFamily = codeFonts[i%len(codeFonts)]
	}
	return f
}

func build(c Case) (*document.Document, error) {
	d := document.New()
	for bi, b := range c.Blocks {
		switch b.K {
		case "h":
			d.AddHeadingParagraph(b.T, b.Level)
		case "p":
			var p *document.Paragraph
			for i, r := range b.Runs {
				if i == 0 {
					if f := tf(r, bi+i); f != nil {
						p = d.AddFormattedParagraph(r.T, f)
					} else {
						p = d.AddParagraph(r.T)
					}
					continue
				}
				p.AddFormattedText(r.T, tf(r, bi+i))
			}
			if p == nil {
				d.AddParagraph("")
			}
		case "li":
			if b.Ord {
				d.AddNumberedList(b.T, 0, document.ListTypeDecimal)
			} else {
				d.AddBulletList(b.T, 0, document.BulletTypeDot)
			}
		case "q":
			d.AddParagraph(b.T).SetStyle("Quote")
		case "code":
			d.AddParagraph(b.T).SetStyle("CodeBlock")
		case "empty":
			if b.Brk {
				d.AddPageBreak()
			} else {
				d.AddParagraph("")
			}
		case "table":
			cfg := &document.TableConfig{Rows: len(b.Cells), Cols: len(b.Cells[0]), Width: 9000, Data: b.Cells}
			if b.HdrBold {
				em := make([][]int, len(b.Cells))
				for i := range em {
					em[i] = make([]int, len(b.Cells[i]))
				}
				for j := range em[0] {
					em[0][j] = 2
				}
				cfg.Emphases = em
			}
			if _, err := d.AddTable(cfg); err != nil {
				return nil, err
			}
		}
	}
	return d, nil
}

func setOpts(e *markdown.ExportOptions, o Opts) *markdown.ExportOptions {
	e.UseGFMTables = o.GFM
	e.UseSetext = o.Setext
	e.BulletListMarker = o.Bullet
	e.EmphasisMarker = o.Emph
	e.WrapLongLines = o.Wrap
	e.MaxLineLength = o.MaxLen
	e.IncludeMetadata = o.Meta
	return e
}

// exportOpts: a struct of the caller's own (value copy of the defaults, every output-shaping field set).
func exportOpts(o Opts) *markdown.ExportOptions {
	e := *markdown.DefaultExportOptions()
	return setOpts(&e, o)
}

// ---------------------------------------------------------------------------------------------
// Expected block sequence (from the case) and observed block sequence of a document (E4).

func flagsOf(s string, mask int) string {
	var b strings.Builder
	for _, r := range s {
		if !unicode.IsSpace(r) {
			b.WriteByte(byte('0' + mask))
		}
	}
	return b.String()
}

// expected lists the body blocks Markdown can express: blocks without visible text are left out, and the CodeBlock
// paragraphs of one piece of code (groupCode) are one code block.
func expected(c Case) []Blk {
	var out []Blk
	for _, b := range c.Blocks {
		switch b.K {
		case "code":
			out = append(out, Blk{Kind: "code", Text: b.T}) // also without visible text: an empty line of the code
		case "empty":
			out = append(out, Blk{Kind: kindGap})
		case "table":
			x := Blk{Kind: "table", HdrBold: b.HdrBold}
			for i, row := range b.Cells {
				var ts, fs []string
				for _, cell := range row {
					m := 0
					if i == 0 && b.HdrBold {
						m = mB
					}
					ts = append(ts, cell)
					fs = append(fs, flagsOf(cell, m))
				}
				x.Cells = append(x.Cells, ts)
				x.CellF = append(x.CellF, fs)
			}
			out = append(out, x)
		case "p":
			if blank(b.paraText()) {
				out = append(out, Blk{Kind: kindGap})
				continue
			}
			var f strings.Builder
			for _, r := range b.Runs {
				f.WriteString(flagsOf(r.T, r.mask()))
			}
			out = append(out, Blk{Kind: "p", Text: b.paraText(), Flags: f.String()})
		default:
			if blank(b.T) {
				out = append(out, Blk{Kind: kindGap})
				continue
			}
			out = append(out, Blk{Kind: b.K, Level: b.Level, Text: b.T})
		}
	}
	return groupCode(out)
}

// kindGap marks, in a raw block sequence, a paragraph of any kind but CodeBlock that has no visible text. Markdown has
// no notation for it; it matters only between two lines of code.
const kindGap = "\x00gap"

// groupCode: in Word every line of a piece of code is a paragraph of its own (style CodeBlock), in Markdown the piece is
// one fenced block. The CodeBlock paragraphs that follow one another - with nothing in between but paragraphs without
// visible text - are therefore ONE code block: its text is the paragraphs' texts, one line each (a text that has line
// feeds of its own is several lines), and every paragraph without visible text between two of them is an empty line.
// Such paragraphs before the first and after the last line belong to nothing. A piece of code without any visible
// character is not expected in the Markdown. In goes the raw sequence (every CodeBlock paragraph a "code" block, every
// other paragraph without visible text a kindGap block), out comes the sequence Markdown can express.
func groupCode(raw []Blk) []Blk {
	var out []Blk
	var lines []string
	gaps := 0
	flush := func() {
		if lines != nil {
			if t := strings.Join(lines, "\n"); !blank(t) {
				out = append(out, Blk{Kind: "code", Text: t})
			}
		}
		lines, gaps = nil, 0
	}
	for _, b := range raw {
		switch b.Kind {
		case "code":
			if lines == nil {
				gaps = 0 // nothing before the first line
			}
			for ; gaps > 0; gaps-- {
				lines = append(lines, "")
			}
			lines = append(lines, b.Text)
		case kindGap:
			gaps++
		default:
			flush()
			out = append(out, b)
		}
	}
	flush()
	return out
}

// linesOfCode: the lines of a code block's text. A carriage return before a line feed belongs to the line terminator.
func linesOfCode(s string) []string {
	ls := strings.Split(s, "\n")
	for i := range ls { // the last line ends with the line terminator the fence needs
		ls[i] = strings.TrimRight(ls[i], "\r")
	}
	return ls
}

func sameCode(want, got string) bool {
	a, b := linesOfCode(want), linesOfCode(got)
	if len(a) != len(b) {
		return false
	}
	for i := range a {
		if a[i] != b[i] {
			return false
		}
	}
	return true
}

// readDoc observes a document's body as a block sequence (kinds from paragraph style / numbering / table).
func readDoc(d *document.Document) []Blk {
	var out []Blk
	if d == nil || d.Body == nil {
		return out
	}
	for _, e := range d.Body.Elements {
		switch x := e.(type) {
		case *document.Paragraph:
			var s strings.Builder
			for _, r := range x.Runs {
				s.WriteString(r.Text.Content)
			}
			b := Blk{Kind: "p", Text: s.String()}
			if x.Properties != nil {
				if x.Properties.NumberingProperties != nil {
					b.Kind = "li"
				}
				if ps := x.Properties.ParagraphStyle; ps != nil {
					switch {
					case strings.HasPrefix(ps.Val, "Heading"):
						b.Kind = "h"
						fmt.Sscanf(ps.Val[len("Heading"):], "%d", &b.Level)
					case ps.Val == "Quote":
						b.Kind = "q"
					case ps.Val == "CodeBlock":
						b.Kind = "code"
					}
				}
			}
			if b.Kind != "code" && blank(b.Text) {
				b = Blk{Kind: kindGap}
			}
			out = append(out, b)
		case *document.Table:
			b := Blk{Kind: "table"}
			for _, row := range x.Rows {
				var ts []string
				for _, cell := range row.Cells {
					var s strings.Builder
					for _, p := range cell.Paragraphs {
						for _, r := range p.Runs {
							s.WriteString(r.Text.Content)
						}
					}
					ts = append(ts, s.String())
				}
				b.Cells = append(b.Cells, ts)
			}
			out = append(out, b)
		}
	}
	return groupCode(out)
}

func descr(b Blk) string {
	if b.Kind == "table" {
		var rows []string
		for _, r := range b.Cells {
			var cs []string
			for _, c := range r {
				cs = append(cs, norm(c))
			}
			rows = append(rows, strings.Join(cs, "|"))
		}
		return "table[" + strings.Join(rows, " / ") + "]"
	}
	if b.Kind == "h" {
		return fmt.Sprintf("h%d(%q)", b.Level, norm(b.Text))
	}
	if b.Kind == "code" {
		return fmt.Sprintf("code(%q)", b.Text) // compared line by line
	}
	return fmt.Sprintf("%s(%q)", b.Kind, norm(b.Text))
}

func descrAll(bs []Blk) string {
	var s []string
	for _, b := range bs {
		s = append(s, descr(b))
	}
	return strings.Join(s, " ")
}

// sameBlock compares kind and whitespace-normalised text; the text of a code block, which is literal, line by line and
// character by character. Heading levels are compared where Markdown can express them (1..6); for Heading7..9 any
// heading level is accepted.
func sameBlock(want, got Blk) bool {
	if want.Kind != got.Kind {
		return false
	}
	switch want.Kind {
	case "table":
		if len(want.Cells) != len(got.Cells) {
			return false
		}
		for i := range want.Cells {
			if len(want.Cells[i]) != len(got.Cells[i]) {
				return false
			}
			for j := range want.Cells[i] {
				if norm(want.Cells[i][j]) != norm(got.Cells[i][j]) {
					return false
				}
			}
		}
		return true
	case "h":
		if want.Level <= 6 && want.Level != got.Level {
			return false
		}
	case "code":
		return sameCode(want.Text, got.Text)
	}
	return norm(want.Text) == norm(got.Text)
}

func diffSeq(want, got []Blk) string {
	n := len(want)
	if len(got) < n {
		n = len(got)
	}
	for i := 0; i < n; i++ {
		if !sameBlock(want[i], got[i]) {
			return fmt.Sprintf("block %d: body has %s, found %s", i, descr(want[i]), descr(got[i]))
		}
	}
	if len(want) != len(got) {
		return fmt.Sprintf("body has %d blocks, found %d", len(want), len(got))
	}
	return ""
}

// units: the order-insensitive text units of a block sequence (one per block, one per table cell), blanks removed.
func units(bs []Blk, withFlags bool) []string {
	var u []string
	add := func(kind, t, f string) {
		t = strip(t)
		if t == "" {
			return
		}
		if withFlags {
			t += "\x00" + f
		}
		u = append(u, t)
	}
	for _, b := range bs {
		if b.Kind == "table" {
			for i, r := range b.Cells {
				for j, c := range r {
					f := ""
					if withFlags && i < len(b.CellF) && j < len(b.CellF[i]) {
						f = b.CellF[i][j]
					}
					add("cell", c, f)
				}
			}
			continue
		}
		if withFlags && b.Kind != "p" {
			continue // formatting is compared on paragraph runs and table cells
		}
		add(b.Kind, b.Text, b.Flags)
	}
	sort.Strings(u)
	return u
}

func diffUnits(want, got []string) string {
	cnt := map[string]int{}
	for _, w := range want {
		cnt[w]++
	}
	for _, g := range got {
		cnt[g]--
	}
	keys := make([]string, 0, len(cnt))
	for k, v := range cnt {
		if v != 0 {
			keys = append(keys, k)
		}
	}
	sort.Strings(keys)
	var miss, extra []string
	for _, k := range keys {
		if cnt[k] > 0 {
			miss = append(miss, fmt.Sprintf("%q x%d", k, cnt[k]))
		} else {
			extra = append(extra, fmt.Sprintf("%q x%d", k, -cnt[k]))
		}
	}
	if len(miss)+len(extra) == 0 {
		return ""
	}
	return fmt.Sprintf("text units of the body missing in the Markdown: %v; units in the Markdown not in the body: %v", miss, extra)
}

func skeleton(s string) string {
	return strings.Map(func(r rune) rune {
		if unicode.IsLetter(r) || unicode.IsDigit(r) || unicode.IsMark(r) {
			return r
		}
		return -1
	}, s)
}

var reOrderedMarker = regexp.MustCompile(`(?m)^\d+[.)] `)

// diffSkeleton: letters and digits of the Markdown against those of the body text in body order. The order of
// tables relative to text blocks is E1's business: the tables-last order is accepted here as well, and so is
// a numeric list marker where the body has numbered items.
func diffSkeleton(c Case, md string) string {
	var inOrder, text, tables strings.Builder
	ordered := false
	lang := skeleton(c.codeLang()) // the info string of every code fence: once per piece of code (groupCode)
	inCode := false                // a piece of code with visible text has begun and no other visible block has followed yet
	for i, b := range c.Blocks {
		k := skeleton(b.text())
		switch {
		case b.K == "code":
			if !inCode && codeVisibleFrom(c.Blocks, i) {
				k = lang + k
				inCode = true
			}
		case b.K == "table" || !blank(b.text()):
			inCode = false
		}
		inOrder.WriteString(k)
		if b.K == "table" {
			tables.WriteString(k)
		} else {
			text.WriteString(k)
		}
		ordered = ordered || (b.K == "li" && b.Ord)
	}
	got := []string{skeleton(md)}
	if ordered {
		got = append(got, skeleton(reOrderedMarker.ReplaceAllString(md, "")))
	}
	for _, g := range got {
		if g == inOrder.String() || g == text.String()+tables.String() {
			return ""
		}
	}
	w := inOrder.String()
	i := 0
	for i < len(w) && i < len(got[0]) && w[i] == got[0][i] {
		i++
	}
	lo := i - 20
	if lo < 0 {
		lo = 0
	}
	cut := func(x string) string {
		hi := i + 20
		if hi > len(x) {
			hi = len(x)
		}
		if lo > len(x) {
			return ""
		}
		return x[lo:hi]
	}
	return fmt.Sprintf("letters and digits of the body text and of the Markdown differ from position %d: body ...%q, markdown ...%q", i, cut(w), cut(got[0]))
}

// codeVisibleFrom: the piece of code that begins with block i (a CodeBlock paragraph not preceded by one of the same
// piece) has visible text.
func codeVisibleFrom(bs []Block, i int) bool {
	for _, b := range bs[i:] {
		switch {
		case b.K == "code":
			if !blank(b.T) {
				return true
			}
		case b.K == "table" || !blank(b.text()):
			return false
		}
	}
	return false
}

// diffFormat compares formatting only on units whose text occurs equally often on both sides.
func diffFormat(want, got []string) string {
	split := func(u []string) map[string][]string {
		m := map[string][]string{}
		for _, x := range u {
			i := strings.IndexByte(x, 0)
			m[x[:i]] = append(m[x[:i]], x[i+1:])
		}
		return m
	}
	w, g := split(want), split(got)
	keys := make([]string, 0, len(w))
	for k := range w {
		keys = append(keys, k)
	}
	sort.Strings(keys)
	for _, k := range keys {
		if len(w[k]) != len(g[k]) {
			continue // text disagreement: E2's business
		}
		a, b := append([]string{}, w[k]...), append([]string{}, g[k]...)
		sort.Strings(a)
		sort.Strings(b)
		for i := range a {
			if a[i] != b[i] {
				return fmt.Sprintf("text %q: per-character formatting in the body %s, in the Markdown %s (1=strong 2=em 4=del 8=code, summed)", k, a[i], b[i])
			}
		}
	}
	return ""
}

// ---------------------------------------------------------------------------------------------

// judgeMD: clauses E1, E2, E2r and E3 on one exported Markdown text of one document. what names the export in the
// failure details ("" for the first export of the case's document).
func judgeMD(c Case, md string, res *kit.Result, what string) {
	want := expected(c)
	ref := md
	if c.O.Meta {
		var ok bool
		if ref, ok = stripFrontMatter(md); !ok {
			res.Count("meta_without_front_matter", 1)
		}
	}
	got := ParseMD(ref)

	res.Eval("C20.E1")
	if d := diffSeq(want, got); d != "" {
		tag := explain(c, func(e effect) bool { return e.seq1 != nil }, func(sel []effect) bool {
			w := want
			for _, e := range sel {
				w = e.seq1(w)
			}
			return diffSeq(w, got) == ""
		})
		res.Fail("C20.E1", "%s%sorder: %s | body: %s | markdown blocks: %s | markdown: %q", tag, what, d, descrAll(want), descrAll(got), md)
	}
	res.Eval("C20.E2")
	if d := diffUnits(units(want, false), units(got, false)); d != "" {
		tag := explain(c, func(e effect) bool { return e.seq1 != nil }, func(sel []effect) bool {
			w := want
			for _, e := range sel {
				w = e.seq1(w)
			}
			return diffUnits(units(w, false), units(got, false)) == ""
		})
		res.Fail("C20.E2", "%s%stext: %s | markdown: %q", tag, what, d, md)
	}
	// E2r: the same demand on the raw string, independent of any Markdown reading and therefore judged on every
	// case, hostile classes included: delimiters, escapes, markers and fences are punctuation, so the letters and
	// digits of the Markdown must be exactly the letters and digits of the body's text, block after block.
	res.Eval("C20.E2r")
	if d := diffSkeleton(c, ref); d != "" {
		res.Fail("C20.E2r", "%stext: %s | markdown: %q", what, d, md)
	}
	res.Eval("C20.E3")
	if d := diffFormat(units(want, true), units(got, true)); d != "" {
		tag := explain(c, func(e effect) bool { return e.seq1 != nil }, func(sel []effect) bool {
			w := want
			for _, e := range sel {
				w = e.seq1(w)
			}
			return diffFormat(units(w, true), units(got, true)) == ""
		})
		res.Fail("C20.E3", "%s%sformatting: %s | markdown: %q", tag, what, d, md)
	}
}

func histVia(k string) string {
	if k == "struct" {
		return ""
	}
	return k
}

func run(c Case) *kit.Result {
	res := &kit.Result{}
	document.VerifResetGlobals()
	describe(c, res)
	w := c.wide()
	e := &env{c: c, w: w}
	defer e.cleanup()
	entry := map[string]string{"": "ExportToString", "bytes": "ExportToBytes", "file": "ExportToFile", "batch": "BatchExport", "auto": "AutoConvert"}[w.Sink]
	what := ""
	if c.W != nil {
		what = fmt.Sprintf("[%s, document %s] ", entry, map[string]string{"": "built in memory", "saved": "saved and opened again", "foreign": "written by another producer"}[w.Src])
	}

	res.Eval("C20.E0")
	main, err := e.makeTarget(c)
	if err != nil {
		if w.Src == "foreign" {
			res.Fail("C20.E0", "%sthe document cannot be opened: %v", what, err)
			return res
		}
		// building (and saving) through the documented API is a precondition, not the property
		res.Count("build_failed", 1)
		res.Label("build-failed")
		return res
	}
	sinkOne := w.Sink // the entry point for single exports
	if sinkOne == "batch" {
		sinkOne = "file"
	}

	// the inputs of a batch
	var inputs []*target
	mainAt := 0
	if w.Sink == "batch" {
		for i, n := range w.Batch {
			if i == w.At {
				inputs = append(inputs, main)
			}
			if n <= 0 {
				p, perr := e.newPath(".docx")
				if perr != nil {
					res.Count("build_failed", 1)
					return res
				}
				os.WriteFile(p, []byte("this is not a zip archive"), 0o644)
				inputs = append(inputs, &target{path: p})
				continue
			}
			cut := c
			if n < len(c.Blocks) {
				cut.Blocks = c.Blocks[:n]
			}
			t, terr := e.makeTarget(cut)
			if terr != nil {
				res.Count("build_failed", 1)
				res.Label("build-failed")
				return res
			}
			inputs = append(inputs, t)
		}
		if w.At >= len(w.Batch) {
			inputs = append(inputs, main)
		}
		for i, t := range inputs {
			if t == main {
				mainAt = i
			}
		}
	}
	exportMain := func(judgeOthers bool) (string, error) {
		if w.Sink != "batch" {
			return e.exportVia(w.Sink, main, c.Via, c.O, true)
		}
		out, err := e.batch(inputs, c.Via, c.O)
		if err != nil {
			return "", err
		}
		for i, t := range inputs {
			if t == main || t.c.Blocks == nil {
				continue
			}
			if judgeOthers {
				judgeMD(t.c, out[i], res, fmt.Sprintf("%sinput %d of %d (the first %d blocks of the document): ", what, i+1, len(inputs), len(t.c.Blocks)))
				if e.batchOut == nil {
					e.batchOut = map[int]string{}
				}
				e.batchOut[i] = out[i]
			} else if out[i] != e.batchOut[i] {
				res.Fail("C20.E6", "%sstability: input %d of the batch exported again with the same options differs: first %q, again %q", what, i+1, e.batchOut[i], out[i])
			}
		}
		return out[mainAt], nil
	}

	var md1 string
	if p, st := kit.Try(func() { md1, err = exportMain(true) }); p != nil {
		res.Fail("C20.E0", "%s%s panicked: %v [%s]", what, entry, p, st)
		return res
	}
	if err != nil {
		res.Fail("C20.E0", "%s%s failed on a document of the domain: %v", what, entry, err)
		return res
	}
	judgeMD(c, md1, res, what)
	want := expected(c)
	if w.Shared {
		// the same Exporter, asked again at once: whatever state the first export left in it must not show
		var again string
		if p, st := kit.Try(func() { again, err = exportMain(false) }); p != nil {
			res.Fail("C20.E0", "%srepeated export panicked: %v [%s]", what, p, st)
			return res
		}
		res.Eval("C20.E6")
		if err != nil {
			res.Fail("C20.E6", "%srepeated export failed: %v", what, err)
		} else if again != md1 {
			res.Fail("C20.E6", "%sstability: the same document exported twice in a row by one Exporter with the same options (obtained via %q) differs: first %q, again %q", what, c.Via, md1, again)
		}
	}

	// history: exports of the same document with other options, obtained in the ways callers obtain them; of the
	// case's second document through the judged exporter; of a file that does not exist
	var other *target
	for i, h := range c.Hist {
		var herr error
		p, st := kit.Try(func() {
			switch h.K {
			case "otherdoc":
				if other == nil {
					oc := c
					oc.Blocks = w.Other
					if other, herr = e.makeTarget(oc); herr != nil {
						other = nil
						return
					}
					other.md = main.md // file sinks: the other document goes into the same .md file
				}
				_, herr = e.exportVia(sinkOne, other, c.Via, c.O, true)
			case "badfile":
				x, arg := e.exporterAndOpts(c.Via, c.O, true)
				d, derr := e.scratch()
				if derr != nil {
					return
				}
				mdp := main.md
				if mdp == "" {
					mdp = filepath.Join(d, "none.md")
				}
				_ = x.ExportToFile(filepath.Join(d, "no-such-file.docx"), mdp, arg)
			default:
				_, herr = e.exportVia(sinkOne, main, histVia(h.K), h.O, false)
			}
		})
		if p != nil {
			res.Fail("C20.E0", "%sexport %d of the history (%s) panicked: %v [%s]", what, i, h.K, p, st)
			return res
		}
		if herr != nil {
			res.Count("history_export_error", 1)
		}
	}

	// round trip through the library's own converter
	rt := w.RT
	if w.Sink == "auto" {
		rt = "auto"
	}
	var doc2 *document.Document
	t2 := &target{c: c}
	if p, st := kit.Try(func() {
		cv := markdown.NewConverter(nil)
		if w.Conv {
			cv.ConvertString(otherMD, nil)
		}
		switch rt {
		case "":
			doc2, err = cv.ConvertString(md1, nil)
		case "bytes":
			buf := []byte(md1)
			doc2, err = cv.ConvertBytes(buf, nil)
			for i := range buf {
				buf[i] = '#' // the caller's buffer is the caller's again
			}
		default: // file, auto
			var mdp, dx string
			if mdp, err = e.newPath(".md"); err != nil {
				return
			}
			if err = os.WriteFile(mdp, []byte(md1), 0o644); err != nil {
				return
			}
			if dx, err = e.newPath(".docx"); err != nil {
				return
			}
			if rt == "auto" {
				err = markdown.NewBidirectionalConverter(nil, nil).AutoConvert(mdp, dx)
			} else {
				err = cv.ConvertFile(mdp, dx, nil)
			}
			if err != nil {
				return
			}
			t2.path = dx
			doc2, err = document.Open(dx)
		}
		if w.Conv {
			cv.ConvertString(otherMD, nil)
			cv.ConvertString(md1+"\n\nappended *words*\n", nil)
		}
	}); p != nil {
		res.Fail("C20.E0", "%sconverting the exported Markdown back (%q) panicked: %v [%s]", what, rt, p, st)
		return res
	}
	if err != nil || doc2 == nil {
		res.Fail("C20.E4", "%sthe converter (%q) rejects the exported Markdown: %v | markdown: %q", what, rt, err, md1)
		return res
	}
	t2.doc = doc2
	res.Eval("C20.E4")
	back := readDoc(doc2)
	if d := diffSeq(want, back); d != "" {
		tag := explain(c, func(e effect) bool { return e.seq4 != nil }, func(sel []effect) bool {
			w := want
			for _, e := range sel {
				w = e.seq4(w)
			}
			return diffSeq(w, back) == ""
		})
		res.Fail("C20.E4", "%s%sround trip: %s | body: %s | re-imported: %s | markdown: %q", tag, what, d, descrAll(want), descrAll(back), md1)
	}
	var md2 string
	if p, st := kit.Try(func() { md2, err = e.exportVia(sinkOne, t2, c.Via, c.O, true) }); p != nil {
		res.Fail("C20.E0", "%ssecond export panicked: %v [%s]", what, p, st)
		return res
	}
	res.Eval("C20.E5")
	if err != nil {
		res.Fail("C20.E5", "%ssecond export failed: %v", what, err)
	} else if md2 != md1 {
		tag := explain(c, func(e effect) bool { return e.norm5 != nil }, func(sel []effect) bool {
			a, b, loose := md1, md2, false
			for _, e := range sel {
				a, b = e.norm5(c, a), e.norm5(c, b)
				loose = loose || (e.loose5 != nil && e.loose5(c))
			}
			if loose {
				a, b = norm(a), norm(b)
			}
			return a == b
		})
		res.Fail("C20.E5", "%s%sfixpoint: export(convert(export(D))) differs from export(D): first %q, second %q", tag, what, md1, md2)
	}
	// E6: the same document exported again with the same requested options gives the same bytes, whatever
	// was exported in between (no mask); and what an earlier export returned is still what it returned.
	var md3 string
	if p, st := kit.Try(func() { md3, err = exportMain(false) }); p != nil {
		res.Fail("C20.E0", "%srepeated export panicked: %v [%s]", what, p, st)
		return res
	}
	res.Eval("C20.E6")
	if err != nil {
		res.Fail("C20.E6", "%srepeated export failed: %v", what, err)
	} else if md3 != md1 {
		res.Fail("C20.E6", "%sstability: the same document exported again with the same options (obtained via %q) after %d other exports differs: first %q, again %q", what, c.Via, len(c.Hist), md1, md3)
	}
	for i, b := range e.retained {
		if string(b) != e.copies[i] {
			res.Fail("C20.E6", "%sstability: the byte slice export %d returned has changed after later exports: it was %q, it is %q", what, i+1, e.copies[i], string(b))
			break
		}
	}
	attribute(c, res)
	return res
}

// attribute counts, per clause, the failures that fall into a finding class (evidence only; the verdict is kit's).
func attribute(c Case, res *kit.Result) {
	for _, f := range res.Failures {
		who := "none"
		for _, k := range kfs {
			if k.attributes(c, f) {
				who = k.id
				break
			}
		}
		res.Count("failed:"+f.Clause+":"+who, 1)
	}
}

// describe sets labels, non-triviality and shape from the case content.
func describe(c Case, res *kit.Result) {
	res.Label("mode:" + c.Mode)
	for _, f := range c.Feats {
		res.Label("feat:" + f)
	}
	kinds := map[string]bool{}
	var shape []string
	fmtRuns := 0
	for _, b := range c.Blocks {
		kinds[b.K] = true
		s := b.K
		switch b.K {
		case "p":
			for _, r := range b.Runs {
				s += fmt.Sprintf(".%d", r.mask())
				if r.mask() != 0 && !blank(r.T) {
					fmtRuns++
				}
				if n := bitsSet(r.mask()); n >= 2 {
					res.Label("run:multi-format")
				}
			}
		case "h":
			s += fmt.Sprintf("%d", b.Level)
		case "table":
			s += fmt.Sprintf("%dx%d", len(b.Cells), len(b.Cells[0]))
			if b.HdrBold {
				s += "H"
			}
		case "li":
			if b.Ord {
				s += "#"
				res.Label("list:numbered")
			}
		}
		shape = append(shape, s)
	}
	for k := range kinds {
		res.Label("kind:" + k)
	}
	describeCode(c, res)
	between := tableBetweenParagraphs(c)
	if between {
		res.Label("table-between-paragraphs")
	}
	if tableBeforeLaterBlock(c) {
		res.Label("table-before-later-block")
	}
	if fmtRuns >= 2 {
		res.Label("formatted-runs>=2")
	}
	if hasEdgeBlankFormatted(c) {
		res.Label("edge-blank")
		if hasUnicodeEdgeBlank(c) {
			res.Label("edge-blank:unicode")
		}
	}
	if !c.O.GFM && listThenTable(c) {
		res.Label("simple-table-after-item")
	}
	hostile := hostilePlaces(c)
	for _, h := range hostile {
		res.Label("hostile:" + h)
	}
	if c.Via == "" {
		res.Label("via:own-struct")
	} else {
		res.Label("via:" + c.Via)
	}
	for _, h := range c.Hist {
		res.Label("hist:" + h.K)
	}
	if len(c.Hist) > 0 {
		res.Label("hist:any")
	}
	o := c.O
	if !o.GFM {
		res.Label("opt:simple-tables")
	}
	if o.Setext {
		res.Label("opt:setext")
	}
	if o.Wrap {
		res.Label("opt:wrap")
	}
	if o.Meta {
		res.Label("opt:metadata")
	}
	res.Label("opt:bullet" + o.Bullet)
	res.Label("opt:emph" + o.Emph)
	// the classes of findings that have been repaired are judged outright: they are input classes (label class:), no masks
	allClass, allExact := triggered(c)
	var class, exact, repaired []string
	for _, t := range allClass {
		if isOpen(t) {
			class = append(class, t)
			res.Label("class-mask:" + t)
		} else {
			repaired = append(repaired, t)
			res.Label("class:" + t)
		}
	}
	for _, t := range allExact {
		if isOpen(t) {
			exact = append(exact, t)
			res.Label("exact-mask:" + t)
		} else {
			repaired = append(repaired, t)
			res.Label("class:" + t)
		}
	}
	// fully-judged: every clause E1-E5 is decided exactly - either outright, or (for the exact findings the case
	// is in) against the body after exactly the predicted effect; no clause is waived for the case's input class.
	if len(class) == 0 {
		res.Label("fully-judged")
		if between {
			res.Label("fully-judged:table-between-paragraphs")
		}
		if fmtRuns >= 2 {
			res.Label("fully-judged:formatted-runs>=2")
		}
		for _, k := range []string{"li", "q", "code", "h", "table", "empty"} {
			if kinds[k] {
				res.Label("fully-judged:kind:" + k)
			}
		}
		if len(exact) == 0 {
			res.Label("unmasked") // no finding of any kind applies: E1-E5 outright
		}
		for _, h := range hostile {
			res.Label("fully-judged:hostile:" + h)
			if len(exact) == 0 && h == "any" {
				res.Label("unmasked:hostile")
			}
		}
	}
	trig := append(append(append([]string{}, class...), exact...), repaired...)
	res.Nontrivial = between && fmtRuns >= 2 && len(kinds) >= 3
	res.Shape = strings.Join(shape, "|") + fmt.Sprintf("|%v%v%s%s%v%d%v", o.GFM, o.Setext, o.Bullet, o.Emph, o.Wrap, o.MaxLen, o.Meta) + "|" + strings.Join(trig, ",") + describeWide(c, res)
}

// describeCode: labels of the pieces of code (groupCode) and of the lists of the case.
func describeCode(c Case, res *kit.Result) {
	paras, gaps, pending := 0, 0, 0
	vis := false
	end := func() {
		if vis && paras >= 2 {
			res.Label("code:piece-of-paragraphs>=2")
			if paras >= 4 {
				res.Label("code:piece-of-paragraphs>=4")
			}
		}
		if vis && gaps > 0 {
			res.Label("code:empty-paragraph-between-lines")
		}
		paras, gaps, pending, vis = 0, 0, 0, false
	}
	prevItem := ""
	for _, b := range c.Blocks {
		switch {
		case b.K == "code":
			if paras > 0 {
				gaps += pending
				if blank(b.T) {
					res.Label("code:line-without-text")
				}
			}
			pending = 0
			paras++
			vis = vis || !blank(b.T)
			if !blank(b.T) && hasLineEnd(b.T) {
				res.Label("code:text-of-several-lines")
				if strings.Contains(b.T, "\r\n") {
					res.Label("code:crlf")
				}
				for _, l := range strings.Split(b.T, "\n") {
					if blank(l) {
						res.Label("code:empty-line-in-text")
					}
				}
			}
		case b.K == "table" || !blank(b.text()):
			end()
		default:
			pending++
		}
		if b.K == "li" && !blank(b.T) {
			kind := "bullet"
			if b.Ord {
				kind = "numbered"
			}
			if prevItem != "" {
				res.Label("list:items>=2")
				if prevItem != kind {
					res.Label("list:bullet-next-to-numbered")
				}
			}
			prevItem = kind
		} else if b.K == "table" || !blank(b.text()) {
			prevItem = ""
		}
	}
	end()
}

// describeWide: labels of the widened dimensions (from the content) and their part of the shape.
func describeWide(c Case, res *kit.Result) string {
	w := c.wide()
	sig := ""
	if c.W != nil {
		res.Label("wide:any")
		sink := w.Sink
		if sink == "" {
			sink = "string"
		}
		res.Label("sink:" + sink)
		src := w.Src
		if src == "" {
			src = "api"
		}
		res.Label("src:" + src)
		if w.fileSink() || w.Src != "" {
			res.Label("document-read-from-package") // the exported document went through Open / OpenFromMemory
		}
		if w.Shared {
			res.Label("shared-exporter")
		}
		if w.RT != "" || w.Sink == "auto" {
			rt := w.RT
			if w.Sink == "auto" {
				rt = "auto"
			}
			res.Label("roundtrip:" + rt)
		}
		if w.Conv {
			res.Label("shared-converter")
		}
		if w.X != nil {
			res.Label("extra-options")
			if c.codeLang() != "" {
				res.Label("extra:code-lang")
			}
		}
		if w.Names != "" {
			res.Label("names:" + w.Names)
		}
		if w.Sink == "batch" {
			n := len(w.Batch) + 1
			if n >= 10 {
				res.Label("batch:inputs>=10")
			}
			for _, k := range w.Batch {
				if k <= 0 {
					res.Label("batch:bad-input")
				}
			}
		}
		sig = fmt.Sprintf("|%s,%s,%v,%s,%v,%d", w.Sink, w.Src, w.Shared, w.RT, w.Conv, len(w.Batch))
		if w.Src == "foreign" {
			f := w.F
			nsect := 0
			for _, b := range c.Blocks {
				if b.Sect {
					nsect++
				}
				if b.MarkFmt != 0 {
					res.Label("foreign:paragraph-mark-format")
				}
				if b.NoNum {
					res.Label("foreign:numId-0")
				}
				if b.Off != 0 {
					res.Label("foreign:off-toggle")
				}
				if b.Split > 0 {
					res.Label("foreign:split-run")
				}
				for _, r := range b.Runs {
					if r.Off != 0 {
						res.Label("foreign:off-toggle")
					}
					if r.Split > 0 {
						res.Label("foreign:split-run")
					}
				}
			}
			if nsect > 0 {
				res.Label("foreign:sections>=2")
				if sectionBreakBeforeLaterBlocks(c) {
					res.Label("foreign:section-break-before-2-blocks")
				}
			}
			if nsect > 1 {
				res.Label("foreign:sections>=3")
			}
			if f.Prefix != "" && f.Prefix != "w" {
				res.Label("foreign:other-prefix")
			}
			if f.On != "" {
				res.Label("foreign:on-with-value")
			}
			for _, kv := range []struct {
				k string
				v bool
			}{{"no-body-sectPr", f.NoBodySec}, {"no-styles", f.NoStyles}, {"dir-entries", f.DirEnt}, {"empty-part", f.EmptyPart},
				{"absolute-target", f.AbsTarget}, {"bare-table", f.BareTable}, {"tblHeader", f.TblHeader}, {"rsid", f.Rsid}, {"stored", f.Stored}, {"table-without-rows", f.EmptyTbl}} {
				if kv.v {
					res.Label("foreign:" + kv.k)
				}
			}
			sig += fmt.Sprintf(",%d,%s,%s", nsect, f.Prefix, f.On)
		}
	}
	for _, h := range c.Hist {
		if h.K == "otherdoc" {
			res.Label("two-documents-alternately")
		}
	}
	// sizes and value classes (from the content, whatever the entry point)
	maxRuns, maxCols, maxRows, maxText := 0, 0, 0, 0
	texts := func(f func(string)) {
		for _, b := range c.Blocks {
			f(b.T)
			for _, r := range b.Runs {
				f(r.T)
			}
			for _, row := range b.Cells {
				for _, cell := range row {
					f(cell)
				}
			}
		}
	}
	for _, b := range c.Blocks {
		if len(b.Runs) > maxRuns {
			maxRuns = len(b.Runs)
		}
		if len(b.Cells) > maxRows {
			maxRows = len(b.Cells)
		}
		if len(b.Cells) > 0 && len(b.Cells[0]) > maxCols {
			maxCols = len(b.Cells[0])
		}
		if b.K == "empty" && b.Brk {
			res.Label("kind:page-break")
		}
		if b.K != "p" && b.K != "table" && b.K != "empty" && blank(b.T) {
			res.Label("blank-text:" + b.K)
		}
	}
	nl, astral, oddBlank := false, false, false
	texts(func(s string) {
		if len(s) > maxText {
			maxText = len(s)
		}
		for _, r := range s {
			switch {
			case r == '\n' || r == '\r':
				nl = true
			case r > 0xFFFF:
				astral = true
			case r == 0x85 || r == 0x2028 || r == 0x2029 || r == 0x202F || r == 0x205F:
				oddBlank = true
			}
		}
	})
	if nl {
		res.Label("text:newline")
	}
	if astral {
		res.Label("text:astral")
	}
	if oddBlank {
		res.Label("text:blank-outside-Zs")
	}
	big := ""
	for _, x := range []struct {
		l string
		v bool
	}{{"runs>5", maxRuns > 5}, {"runs>16", maxRuns > 16}, {"runs>64", maxRuns > 64}, {"cols>5", maxCols > 5}, {"cols>9", maxCols > 9}, {"rows>5", maxRows > 5}, {"rows>9", maxRows > 9},
		{"rows>64", maxRows > 64}, {"blocks>16", len(c.Blocks) > 16}, {"blocks>64", len(c.Blocks) > 64}, {"text>1KiB", maxText > 1024}, {"text>64KiB", maxText > 65536}} {
		if x.v {
			res.Label("big:" + x.l)
			big += "," + x.l
		}
	}
	if big != "" {
		res.Label("big:any")
	}
	if o := c.O; o.MaxLen <= 0 || o.MaxLen > 80 || (o.MaxLen != 1 && o.MaxLen != 10 && o.MaxLen != 20 && o.MaxLen != 40 && o.MaxLen != 80) {
		res.Label("opt:maxlen-other")
		if o.MaxLen <= 0 {
			res.Label("opt:maxlen<=0")
		}
	}
	return sig + big
}

// sectionBreakBeforeLaterBlocks: a paragraph that ends a section is followed by at least two more body blocks.
func sectionBreakBeforeLaterBlocks(c Case) bool {
	for i, b := range c.Blocks {
		if b.Sect && len(c.Blocks)-i-1 >= 2 {
			return true
		}
	}
	return false
}

func hasUnicodeEdgeBlank(c Case) bool {
	uni := func(s string) bool {
		r := []rune(s)
		return len(r) > 0 && ((r[0] > 127 && unicode.IsSpace(r[0])) || (r[len(r)-1] > 127 && unicode.IsSpace(r[len(r)-1])))
	}
	for _, b := range c.Blocks {
		if b.K == "h" && uni(b.T) {
			return true
		}
		for _, r := range b.Runs {
			if r.mask() != 0 && uni(r.T) {
				return true
			}
		}
	}
	return false
}

func listThenTable(c Case) bool {
	for i := 1; i < len(c.Blocks); i++ {
		if c.Blocks[i].K == "table" && c.Blocks[i-1].K == "li" && !blank(c.Blocks[i-1].T) {
			return true
		}
	}
	return false
}

func bitsSet(m int) int {
	n := 0
	for ; m != 0; m &= m - 1 {
		n++
	}
	return n
}

func tableBetweenParagraphs(c Case) bool {
	seenP, seenT := false, false
	for _, b := range c.Blocks {
		switch {
		case b.K == "table":
			if seenP {
				seenT = true
			}
		case b.K != "empty" && !blank(b.text()):
			if seenT {
				return true
			}
			seenP = true
		}
	}
	return false
}

func TestC20(t *testing.T) {
	defer removeProcScratch()
	kit.Main(t, kit.Spec[Case]{
		ID: "C20", Level: "exploration",
		Rule: "document of 1-10 (thorough 1-16) blocks drawn from headings 1-9, paragraphs of 1-5 runs (bold/italic/strike/code-font combinations), bullet and numbered list items, Quote and CodeBlock paragraphs (half of the CodeBlock paragraphs followed by 1-4 further lines of the same piece of code: CodeBlock paragraphs with text, without text, of blanks, with indentation, and - between them, before the first and after the last - paragraphs of other kinds without visible text; one CodeBlock text in seven has 2-4 lines of its own, LF or CR LF, among them empty, blank-only and indented ones), 1-5 x 1-5 tables (bold or plain first row, empty cells) and empty paragraphs, in any interleaving (a list item directly before a table in a quarter of the cases), under every combination of export options (GFM/simple tables, setext, three bullet markers, two emphasis markers, wrapping at 1..80, metadata); the options reach the exporter as the caller's own struct (~78 %) or through DefaultExportOptions(), NewExporter(nil)+nil options, HighQualityExportOptions(); in half of the cases 1-2 other exports (HighQualityExportOptions, a customised copy-by-pointer of what DefaultExportOptions returned, another struct, nil options) run between the judged exports; modes clean (~31 %: safe alphabet, single formats), benign (~21 %: plus lists, code blocks, empty paragraphs, plain table headers, multi-format and code+emphasis runs, Heading7-9, ASCII and Unicode blanks at the edges of formatted runs and headings, formatted runs touching each other or a plain neighbour, wrapped formatted text), hostile (~40 %: the benign shapes with text from 25 classes of Markdown syntax - emphasis/tilde/backtick/backslash runs, brackets and links, angle brackets and HTML, entities, dollar, pipes, '!' , leading '#' '-' '+' '*' '=' '>' ':' and ordered markers, table-like and fence-like lines, task boxes, autolinks with and without syntax characters, punctuation at word edges - on their own, glued before/after/inside a word, in headings, items, quotes, cells (pipes more often), plain, formatted and code-font runs (backtick strings), CodeBlock paragraphs (fence-like lines, backtick runs)) and wild (~8 %: simple tables or metadata, half of them with hostile text); widened (about a fifth of the cases leave the path 'document in memory, ExportToString, ConvertString'): the export is made through ExportToBytes, ExportToFile, BatchExport (1-4 inputs, rarely 10-12, cuts of the document, rarely a file that is no document among them) or BidirectionalConverter.AutoConvert, under file names with upper-case extension, several dots, non-ASCII characters or blanks; the document is built in memory, saved by the library and opened again, or written by an independent writer the way other producers do (several sections, on/off properties with explicit values true/1/on and false/0/off, paragraph mark formatting, numId 0, runs split into several w:r / w:t with rsid attributes, proofErr and bookmarks in between, tables without tblPr/tblGrid or with tblHeader, another namespace prefix, no styles part, directory entries, an empty part, stored entries, absolute targets); one Exporter and one options struct serve every judged export of a case (asked twice in a row, and again after the history), the options are given to NewExporter (nil per call), passed over a constructor holding others, or written as a struct literal; a second document goes through the judged exporter (into the same .md file) in between, a file that does not exist is exported, option fields that cannot concern the document are flipped, DefaultCodeLang set; the way back is ConvertString, ConvertBytes (the buffer overwritten afterwards), ConvertFile or AutoConvert, optionally on a Converter that converts an unrelated text before and after; sizes past the usual ones with a small probability (6-70 runs, 6-33 columns, 6-65 rows, 17-65 blocks, texts of 2-9 KiB and > 64 KiB, words of 300 characters, MaxLineLength 0, -1, 2, 3, 9, 11, 79, 81, 1000, 65536); value classes: line feeds, CR LF, tabs and blanks outside Zs (U+0085, U+2028, U+2029, U+202F, U+205F) at run edges and between words, letters outside the BMP, combining marks, symbols at word edges, words that are prefixes of one another or differ in case, headings / items / quotes / code paragraphs / runs without visible text, page break paragraphs, the bullet and front matter the library itself writes; non-trivial = a table between two text blocks, >= 2 formatted runs and >= 3 block kinds; distinct = distinct sequence of (block kind, heading level, run format masks, table size) + options + finding classes the case is in",
		Gen:  genCase, Run: run, Findings: findings, Fixed: fixedCases,
		Assumptions: []string{
			"goldmark v1.7.8 with extension.GFM is the reference reading of the exported Markdown (CommonMark 0.31 + GFM tables/strikethrough/autolinks); backslash escapes and entities are resolved as a renderer would, autolink labels count as text",
			"a leading '---' metadata block is removed before the reference parse when IncludeMetadata is set (front matter is outside CommonMark)",
			"block text is compared after collapsing whitespace runs; paragraphs without visible text are not expected in the Markdown; heading levels 7-9 may come out at any level; ordered vs bullet marker of a list item is not judged",
			"the re-imported document is observed through Body.Elements (paragraph style / numbering properties / tables), default ConvertOptions",
			"exact masks: for the findings with one predictable effect (simple tables read as paragraph text, bold first table row, front matter read back as a heading, the blank line after an item that is followed by a paragraph without visible text) the failing clause is re-judged against the body after exactly that effect and waived only if it then holds; label fully-judged = no clause of E1-E5 is waived for the case's input class (unmasked = not even an exact mask applies)",
			"text containing Markdown syntax is judged like any other text (E1-E5 exact): the reference reading resolves backslash escapes and character references, so any correct way of escaping passes; class masks remain only for delimiter placement (KF-C20-delimiter-context: flanking, fused delimiter runs, '~~' after a tilde, delimiters inside an autolink word - decided by a model of the documented run merging, validated by exhaustive enumeration) and for line breaks inside code spans (KF-C20-wrap-code-span)",
			"a piece of code is one CodeBlock paragraph per line in the document and one fenced block in Markdown: CodeBlock paragraphs that follow one another with nothing in between but paragraphs without visible text are expected as ONE code block, one line per paragraph (a text with line feeds of its own is several lines), one empty line per paragraph without visible text between two of them; such paragraphs before the first and after the last line are nothing, a piece without any visible character is not expected; the info string (DefaultCodeLang) is expected once per piece. The same reading is applied to the re-imported body. The text of a code block is literal: it is compared line by line and character by character (blanks, tabs, indentation, empty lines included) in E1 and E4; only a carriage return at the end of a line counts as part of the line terminator",
			"list items are judged like every other block in E4/E5: an item comes back as a paragraph with numbering properties, and the second export has the same item lines (bullet vs numbered is not judged in E1/E4; E5 compares the bytes)",
			"the classes of findings that have been repaired are labelled class:<id> and judged outright; class-mask: / exact-mask: labels name open findings only",
			"C20.E2r (letters and digits of the raw Markdown = letters and digits of the body text, in order) is judged on every case without any mask",
			"C20.E6 (stability): the document exported again with the same requested options, obtained the same way, after the other exports of the case's history, is byte-identical to the first export; no mask. For options taken from the library's constructors the requested values are the documented ones (defaults; HighQuality = defaults + metadata)",
			"every entry point is judged by the same clauses on the text it produces (E1-E3 on the file's content for ExportToFile / BatchExport / AutoConvert, on every output of a batch; E4/E5 over ConvertString, ConvertBytes, ConvertFile + Open, AutoConvert; E6 on the second output). The output of input <dir>/<base>.docx of a batch is looked for as <outputDir>/<base>.md (the name the README examples show); a batch holding a file that is no document is judged only when BatchExport returns nil (IgnoreErrors set in the options passed to the call)",
			"a document written by another producer is the same sequence of blocks, texts and run formats as the case: spellings do not change the expectation (an explicit 'off' value is 'not formatted', paragraph mark formatting formats no text, numId 0 is no list item, section breaks are no content)",
			"C20.E6 also demands that a byte slice returned by ExportToBytes is unchanged at the end of the case, and that one Exporter asked twice in a row gives the same bytes",
			"a carriage return without a line feed is no line end (goldmark, the reference reader and the library's parser, reads it so); whitespace of any kind is compared as a blank",
			"a simple (non-GFM) table is judged against the reference reading of exactly the lines the open finding describes (cell texts written with a backslash before every ASCII punctuation character, which reads the same as any other correct escaping), standing as a block of their own: absorbed into a neighbour, missing rows or a wrong position stay violations; its fixpoint clause compares the two exports without backslash escapes, '*', '_' and line breaks",
		},
		MustSee: map[string]float64{"fully-judged": 0.8, "unmasked": 0.38, "fully-judged:table-between-paragraphs": 0.12, "fully-judged:formatted-runs>=2": 0.25,
			"fully-judged:kind:li": 0.1, "fully-judged:kind:code": 0.04, "code:piece-of-paragraphs>=2": 0.05, "code:piece-of-paragraphs>=4": 0.015, "code:empty-paragraph-between-lines": 0.02,
			"code:text-of-several-lines": 0.02, "code:empty-line-in-text": 0.012, "code:line-without-text": 0.012, "code:crlf": 0.003, "list:items>=2": 0.03, "list:bullet-next-to-numbered": 0.01, "fully-judged:kind:q": 0.15, "fully-judged:kind:empty": 0.012,
			"table-between-paragraphs": 0.15, "formatted-runs>=2": 0.3, "opt:setext": 0.3, "opt:wrap": 0.2,
			"opt:simple-tables": 0.06, "opt:metadata": 0.008, "kind:table": 0.4, "run:multi-format": 0.02,
			"class-mask:KF-C20-delimiter-context": 0.01, "class:KF-C20-wrap-code-span": 0.002,
			"hostile:any": 0.3, "fully-judged:hostile:any": 0.27, "unmasked:hostile": 0.07,
			"fully-judged:hostile:in:cell": 0.09, "fully-judged:hostile:in:h": 0.08, "fully-judged:hostile:in:li": 0.07, "fully-judged:hostile:in:q": 0.015,
			"fully-judged:hostile:in:plain-run": 0.09, "fully-judged:hostile:in:formatted-run": 0.06, "fully-judged:hostile:in:code-run": 0.025,
			"fully-judged:hostile:in:code-block": 0.1, "fully-judged:hostile:fence-in-code-block": 0.04, "fully-judged:hostile:backtick-in-code-run": 0.01,
			"fully-judged:hostile:pipe-in-cell": 0.07, "fully-judged:hostile:run-edge": 0.045, "hostile:leading-marker:h": 0.012, "hostile:leading-marker:li": 0.012, "hostile:leading-marker:p": 0.012,
			"wide:any": 0.1, "sink:bytes": 0.03, "sink:file": 0.002, "src:foreign": 0.015, "document-read-from-package": 0.02, "foreign:sections>=2": 0.004, "foreign:section-break-before-2-blocks": 0.003,
			"foreign:split-run": 0.004, "foreign:on-with-value": 0.004, "shared-exporter": 0.04, "two-documents-alternately": 0.02, "roundtrip:bytes": 0.02, "extra-options": 0.02,
			"big:any": 0.006, "text:newline": 0.015, "text:astral": 0.2, "opt:maxlen-other": 0.03, "blank-text:h": 0.004,
			"edge-blank:unicode": 0.02, "hist:any": 0.3, "hist:mutdefault": 0.15, "hist:hq": 0.08, "via:default": 0.04, "via:nilexp": 0.03, "via:hq": 0.03, "simple-table-after-item": 0.01},
	})
}

package c20

// Independent reference reading of a Markdown string: goldmark (CommonMark + GFM) parser only,
// no code of the library under test. Produces the top-level block sequence with per-rune
// inline formatting masks.

import (
	"bytes"
	"strings"
	"unicode"

	"github.com/yuin/goldmark"
	"github.com/yuin/goldmark/ast"
	"github.com/yuin/goldmark/extension"
	extast "github.com/yuin/goldmark/extension/ast"
	"github.com/yuin/goldmark/text"
	"github.com/yuin/goldmark/util"
)

const (
	mB = 1 // strong
	mI = 2 // em
	mS = 4 // del
	mC = 8 // code span
)

// Blk is one observed (or expected) block.
type Blk struct {
	Kind    string     // h | p | li | q | code | table | other
	Level   int        // heading level
	Text    string     // visible text (tables: unused)
	Flags   string     // one byte '0'+mask per non-blank rune of Text
	Cells   [][]string // table: visible text per cell
	CellF   [][]string // table: flags per cell
	HdrBold bool       // table (expected side only): the first row is bold
}

var refMD = goldmark.New(goldmark.WithExtensions(extension.GFM))

type inl struct {
	src  []byte
	text strings.Builder
	flg  strings.Builder
}

func (w *inl) add(s string, mask int) {
	w.text.WriteString(s)
	for _, r := range s {
		if !unicode.IsSpace(r) {
			w.flg.WriteByte(byte('0' + mask))
		}
	}
}

// literal resolves backslash escapes and entity references of a text segment, as a CommonMark renderer does
// (goldmark keeps them raw in the AST and resolves them when it writes text).
func literal(seg []byte) string {
	var out []byte
	for i := 0; i < len(seg); {
		c := seg[i]
		if c == '\\' && i+1 < len(seg) && util.IsPunct(seg[i+1]) {
			out = append(out, seg[i+1])
			i += 2
			continue
		}
		if c == '&' {
			// a character reference is '&' + name of letters and digits, or '#' digits, or '#x' hex digits + ';'
			// (util.Resolve* rewrite every reference inside the slice they are given: hand them one candidate only)
			if j := bytes.IndexByte(seg[i:], ';'); j > 1 && j <= 33 && referenceBody(seg[i+1:i+j]) {
				ent := seg[i : i+j+1]
				r := util.ResolveNumericReferences(ent)
				if bytes.Equal(r, ent) {
					r = util.ResolveEntityNames(ent)
				}
				if !bytes.Equal(r, ent) {
					out = append(out, r...)
					i += j + 1
					continue
				}
			}
		}
		out = append(out, c)
		i++
	}
	return string(out)
}

func referenceBody(b []byte) bool {
	if len(b) > 0 && b[0] == '#' {
		b = b[1:]
	}
	if len(b) == 0 {
		return false
	}
	for _, c := range b {
		if !(c >= '0' && c <= '9' || c >= 'a' && c <= 'z' || c >= 'A' && c <= 'Z') {
			return false
		}
	}
	return true
}

func (w *inl) walk(n ast.Node, mask int) {
	for c := n.FirstChild(); c != nil; c = c.NextSibling() {
		switch x := c.(type) {
		case *ast.Text:
			if mask&mC != 0 || x.IsRaw() {
				w.add(string(x.Segment.Value(w.src)), mask) // code span content is literal
			} else {
				w.add(literal(x.Segment.Value(w.src)), mask)
			}
			if x.SoftLineBreak() || x.HardLineBreak() {
				w.add(" ", mask)
			}
		case *ast.String:
			w.add(string(x.Value), mask)
		case *ast.Emphasis:
			if x.Level >= 2 {
				w.walk(x, mask|mB)
			} else {
				w.walk(x, mask|mI)
			}
		case *extast.Strikethrough:
			w.walk(x, mask|mS)
		case *ast.CodeSpan:
			w.walk(x, mask|mC)
		case *ast.AutoLink:
			w.add(string(x.Label(w.src)), mask) // <http://..> and GFM linkified www./http/e-mail: the visible text is the label
		case *ast.RawHTML:
			for i := 0; i < x.Segments.Len(); i++ {
				s := x.Segments.At(i)
				w.add(string(s.Value(w.src)), mask)
			}
		default:
			w.walk(c, mask) // links, images, autolinks, task boxes, nested blocks: their text
			if c.Type() == ast.TypeBlock {
				w.add(" ", mask)
			}
		}
	}
}

func inlineOf(n ast.Node, src []byte) (string, string) {
	w := &inl{src: src}
	w.walk(n, 0)
	return w.text.String(), w.flg.String()
}

func linesOf(n ast.Node, src []byte) string {
	var b strings.Builder
	for i := 0; i < n.Lines().Len(); i++ {
		s := n.Lines().At(i)
		b.Write(s.Value(src))
	}
	return b.String()
}

// stripFrontMatter removes a leading "---\n...\n---\n" metadata block (a convention outside CommonMark).
func stripFrontMatter(md string) (string, bool) {
	if !strings.HasPrefix(md, "---\n") {
		return md, false
	}
	rest := md[4:]
	i := strings.Index(rest, "\n---\n")
	if i < 0 {
		return md, false
	}
	return rest[i+5:], true
}

// ParseMD returns the top-level block sequence of a Markdown document.
func ParseMD(md string) []Blk {
	src := []byte(md)
	doc := refMD.Parser().Parse(text.NewReader(src))
	var out []Blk
	for n := doc.FirstChild(); n != nil; n = n.NextSibling() {
		switch x := n.(type) {
		case *ast.Heading:
			t, f := inlineOf(x, src)
			out = append(out, Blk{Kind: "h", Level: x.Level, Text: t, Flags: f})
		case *ast.Paragraph:
			t, f := inlineOf(x, src)
			out = append(out, Blk{Kind: "p", Text: t, Flags: f})
		case *ast.TextBlock:
			t, f := inlineOf(x, src)
			out = append(out, Blk{Kind: "p", Text: t, Flags: f})
		case *ast.List:
			for it := x.FirstChild(); it != nil; it = it.NextSibling() {
				t, f := inlineOf(it, src)
				out = append(out, Blk{Kind: "li", Text: t, Flags: f})
			}
		case *ast.Blockquote:
			t, f := inlineOf(x, src)
			out = append(out, Blk{Kind: "q", Text: t, Flags: f})
		case *ast.FencedCodeBlock: // the text without the terminator of its last line
			out = append(out, Blk{Kind: "code", Text: strings.TrimSuffix(linesOf(x, src), "\n")})
		case *ast.CodeBlock:
			out = append(out, Blk{Kind: "code", Text: strings.TrimSuffix(linesOf(x, src), "\n")})
		case *extast.Table:
			b := Blk{Kind: "table"}
			for row := x.FirstChild(); row != nil; row = row.NextSibling() {
				var ts, fs []string
				for c := row.FirstChild(); c != nil; c = c.NextSibling() {
					t, f := inlineOf(c, src)
					ts = append(ts, t)
					fs = append(fs, f)
				}
				b.Cells = append(b.Cells, ts)
				b.CellF = append(b.CellF, fs)
			}
			out = append(out, b)
		case *ast.ThematicBreak:
			out = append(out, Blk{Kind: "other", Text: "<hr>"})
		case *ast.HTMLBlock:
			out = append(out, Blk{Kind: "other", Text: linesOf(x, src)})
		default:
			t, f := inlineOf(n, src)
			out = append(out, Blk{Kind: "other", Text: t, Flags: f})
		}
	}
	return out
}

// norm collapses every whitespace run to one blank and trims.
func norm(s string) string { return strings.Join(strings.Fields(s), " ") }

// strip removes all whitespace.
func strip(s string) string { return strings.Join(strings.Fields(s), "") }

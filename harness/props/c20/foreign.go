package c20

// The document of a case as ANOTHER producer writes it: an independent mini writer (string templates and
// archive/zip; nothing of the library) renders the case's blocks as a WordprocessingML package, using legal
// spellings the library itself never writes: several sections (w:sectPr inside the w:pPr of a section's last
// paragraph), on/off properties with explicit values (w:b w:val="true" / "1" / "on", and w:val="false" / "0" /
// "off" for a format the run does not have), formatting of the paragraph mark (w:pPr/w:rPr), w:numId 0 ("not a
// list item"), runs split the way Word splits them (rsid attributes, w:proofErr, bookmarks and
// w:lastRenderedPageBreak in between, several w:t in one run), tables without w:tblPr / w:tblGrid or with a
// repeated header row (w:tblHeader), a table without rows, another namespace prefix, no styles part, directory entries and an empty part
// in the zip, absolute relationship targets.
//
// The text of every block and the format of every run are exactly those of the case: the expected block sequence
// does not depend on the spelling.

import (
	"archive/zip"
	"bytes"
	"fmt"
	"strings"
)

// Foreign: document-level spellings of the foreign writer.
type Foreign struct {
	Prefix    string `json:"prefix,omitempty"`    // namespace prefix of the main part ("" = w)
	NoBodySec bool   `json:"nobodysec,omitempty"` // no body-level w:sectPr
	NoStyles  bool   `json:"nostyles,omitempty"`  // no styles part
	DirEnt    bool   `json:"dirent,omitempty"`    // directory entries in the zip
	EmptyPart bool   `json:"emptypart,omitempty"` // an empty extra part
	AbsTarget bool   `json:"abstarget,omitempty"` // absolute relationship targets
	BareTable bool   `json:"baretable,omitempty"` // tables without w:tblPr and w:tblGrid
	TblHeader bool   `json:"tblheader,omitempty"` // first table row marked as repeated header row
	Rsid      bool   `json:"rsid,omitempty"`      // rsid attributes, proofErr, bookmarks between the runs
	On        string `json:"on,omitempty"`        // spelling of an on/off property that is on: "" (no attribute) | true | 1 | on
	Stored    bool   `json:"stored,omitempty"`    // zip entries stored, not deflated
	EmptyTbl  bool   `json:"emptytbl,omitempty"`  // a table without rows (legal: no content to export) after the first block
}

const nsW = "http://schemas.openxmlformats.org/wordprocessingml/2006/main"

func xmlEsc(s string) string {
	var b strings.Builder
	for _, r := range s {
		switch r {
		case '<':
			b.WriteString("&lt;")
		case '>':
			b.WriteString("&gt;")
		case '&':
			b.WriteString("&amp;")
		case '"':
			b.WriteString("&quot;")
		case '\r':
			b.WriteString("&#13;")
		case '\n':
			b.WriteString("&#10;")
		case '\t':
			b.WriteString("&#9;")
		default:
			b.WriteRune(r)
		}
	}
	return b.String()
}

type fw struct {
	b    strings.Builder
	p    string // element and attribute prefix incl. colon
	f    Foreign
	bm   int
	rsid int
}

func (w *fw) el(name string, attrs ...string) string { // empty element
	s := "<" + w.p + name
	for i := 0; i+1 < len(attrs); i += 2 {
		s += " " + w.p + attrs[i] + `="` + xmlEsc(attrs[i+1]) + `"`
	}
	return s + "/>"
}

func (w *fw) toggle(name string, on bool) string {
	if !on {
		return ""
	}
	if w.f.On == "" {
		return w.el(name)
	}
	return w.el(name, "val", w.f.On)
}

var offSpellings = []string{"false", "0", "off"}

// rPr of a run: the formats it has, and explicit "off" values for the formats named in off (which it does not have).
func (w *fw) rPr(mask, off, seq int) string {
	var s strings.Builder
	if mask&mC != 0 {
		font := codeFonts[seq%len(codeFonts)]
		s.WriteString(w.el("rFonts", "ascii", font, "hAnsi", font, "cs", font))
	}
	one := func(name string, bit int) {
		switch {
		case mask&bit != 0:
			s.WriteString(w.toggle(name, true))
		case off&bit != 0:
			s.WriteString(w.el(name, "val", offSpellings[(seq+bit)%len(offSpellings)]))
		}
	}
	one("b", mB)
	if mask&mB != 0 && seq%2 == 0 {
		s.WriteString(w.toggle("bCs", true))
	}
	one("i", mI)
	one("strike", mS)
	if s.Len() == 0 {
		return ""
	}
	return "<" + w.p + "rPr>" + s.String() + "</" + w.p + "rPr>"
}

func needsPreserve(s string) bool {
	return s != strings.TrimSpace(s) || strings.Contains(s, "  ") || strings.ContainsAny(s, "\t\n\r")
}

func (w *fw) t(s string) string {
	if needsPreserve(s) || w.f.Rsid {
		return "<" + w.p + `t xml:space="preserve">` + xmlEsc(s) + "</" + w.p + "t>"
	}
	return "<" + w.p + "t>" + xmlEsc(s) + "</" + w.p + "t>"
}

// run writes one run of the case as one or more w:r (split > 0: the text is cut after `split` runes into two
// w:r of equal properties, or - when the run is formatted - into two w:t of one w:r).
func (w *fw) run(text string, mask, off, split, seq int) string {
	rpr := w.rPr(mask, off, seq)
	open := "<" + w.p + "r>"
	if w.f.Rsid {
		w.rsid++
		open = "<" + w.p + "r " + w.p + fmt.Sprintf(`rsidR="00A%05X">`, w.rsid)
	}
	rs := []rune(text)
	if split <= 0 || split >= len(rs) {
		return open + rpr + w.t(text) + "</" + w.p + "r>"
	}
	a, b := string(rs[:split]), string(rs[split:])
	if mask != 0 {
		return open + rpr + w.t(a) + w.el("lastRenderedPageBreak") + w.t(b) + "</" + w.p + "r>"
	}
	mid := ""
	if w.f.Rsid {
		w.bm++
		mid = w.el("proofErr", "type", "spellStart") + w.el("bookmarkStart", "id", fmt.Sprint(w.bm), "name", fmt.Sprintf("_Ref%d", w.bm)) + w.el("bookmarkEnd", "id", fmt.Sprint(w.bm))
	}
	return open + rpr + w.t(a) + "</" + w.p + "r>" + mid + open + rpr + w.t(b) + "</" + w.p + "r>"
}

const sectBreak = `<%[1]ssectPr><%[1]stype %[1]sval="%[2]s"/><%[1]spgSz %[1]sw="11906" %[1]sh="16838"/><%[1]spgMar %[1]stop="1440" %[1]sright="1800" %[1]sbottom="1440" %[1]sleft="1800" %[1]sheader="851" %[1]sfooter="992" %[1]sgutter="0"/></%[1]ssectPr>`

func (w *fw) pPr(b Block, style string, num int) string {
	var s strings.Builder
	if style != "" {
		s.WriteString(w.el("pStyle", "val", style))
	}
	if num >= 0 {
		s.WriteString("<" + w.p + "numPr>" + w.el("ilvl", "val", "0") + w.el("numId", "val", fmt.Sprint(num)) + "</" + w.p + "numPr>")
	}
	if b.MarkFmt != 0 {
		s.WriteString(w.rPr(b.MarkFmt&(mB|mI|mS), 0, 1))
	}
	if b.Sect {
		typ := "nextPage"
		if b.Level%2 == 1 || len(b.T)%2 == 1 {
			typ = "continuous"
		}
		s.WriteString(fmt.Sprintf(sectBreak, w.p, typ))
	}
	if s.Len() == 0 {
		return ""
	}
	return "<" + w.p + "pPr>" + s.String() + "</" + w.p + "pPr>"
}

func (w *fw) para(ppr string, runs string) {
	open := "<" + w.p + "p>"
	if w.f.Rsid {
		w.rsid++
		open = "<" + w.p + "p " + w.p + fmt.Sprintf(`rsidR="00B%05X" `, w.rsid) + w.p + `rsidRDefault="00B00001">`
	}
	w.b.WriteString(open + ppr + runs + "</" + w.p + "p>")
}

func (w *fw) block(bi int, b Block) {
	switch b.K {
	case "h":
		w.para(w.pPr(b, fmt.Sprintf("Heading%d", b.Level), -1), w.run(b.T, 0, b.Off, b.Split, bi))
	case "q":
		w.para(w.pPr(b, "Quote", -1), w.run(b.T, 0, b.Off, b.Split, bi))
	case "code":
		w.para(w.pPr(b, "CodeBlock", -1), w.run(b.T, 0, b.Off, b.Split, bi))
	case "li":
		num := 1
		if b.Ord {
			num = 2
		}
		w.para(w.pPr(b, "ListParagraph", num), w.run(b.T, 0, b.Off, b.Split, bi))
	case "empty":
		if b.Brk {
			w.para(w.pPr(b, "", -1), "<"+w.p+"r>"+w.el("br", "type", "page")+"</"+w.p+"r>")
		} else {
			w.para(w.pPr(b, "", -1), "")
		}
	case "p":
		var rs strings.Builder
		for i, r := range b.Runs {
			if r.T == "" && i%2 == 0 {
				continue // a run without text may be absent altogether
			}
			rs.WriteString(w.run(r.T, r.mask(), r.Off, r.Split, bi+i))
		}
		num := -1
		if b.NoNum {
			num = 0
		}
		w.para(w.pPr(b, "", num), rs.String())
	case "table":
		w.b.WriteString("<" + w.p + "tbl>")
		if !w.f.BareTable {
			w.b.WriteString("<" + w.p + "tblPr>" + w.el("tblStyle", "val", "TableGrid") + w.el("tblW", "w", "0", "type", "auto") + "</" + w.p + "tblPr><" + w.p + "tblGrid>")
			for range b.Cells[0] {
				w.b.WriteString(w.el("gridCol", "w", "1800"))
			}
			w.b.WriteString("</" + w.p + "tblGrid>")
		}
		for i, row := range b.Cells {
			w.b.WriteString("<" + w.p + "tr>")
			if i == 0 && w.f.TblHeader {
				w.b.WriteString("<" + w.p + "trPr>" + w.toggle("tblHeader", true) + "</" + w.p + "trPr>")
			}
			for j, cell := range row {
				w.b.WriteString("<" + w.p + "tc>")
				if !w.f.BareTable {
					w.b.WriteString("<" + w.p + "tcPr>" + w.el("tcW", "w", "1800", "type", "dxa") + "</" + w.p + "tcPr>")
				}
				m := 0
				if i == 0 && b.HdrBold {
					m = mB
				}
				runs := ""
				if cell != "" || j%2 == 0 {
					runs = w.run(cell, m, 0, 0, i+j)
				}
				w.para("", runs)
				w.b.WriteString("</" + w.p + "tc>")
			}
			w.b.WriteString("</" + w.p + "tr>")
		}
		w.b.WriteString("</" + w.p + "tbl>")
	}
}

const bodySect = `<%[1]ssectPr><%[1]spgSz %[1]sw="16838" %[1]sh="11906" %[1]sorient="landscape"/><%[1]spgMar %[1]stop="1800" %[1]sright="1440" %[1]sbottom="1800" %[1]sleft="1440" %[1]sheader="851" %[1]sfooter="992" %[1]sgutter="0"/></%[1]ssectPr>`

func foreignDocumentXML(blocks []Block, f Foreign) string {
	pfx := f.Prefix
	if pfx == "" {
		pfx = "w"
	}
	w := &fw{p: pfx + ":", f: f}
	w.b.WriteString(`<?xml version="1.0" encoding="UTF-8" standalone="yes"?>` + "\n")
	w.b.WriteString("<" + w.p + "document xmlns:" + pfx + `="` + nsW + `" xmlns:r="http://schemas.openxmlformats.org/officeDocument/2006/relationships"><` + w.p + "body>")
	for i, b := range blocks {
		w.block(i, b)
		if i == 0 && f.EmptyTbl {
			w.b.WriteString("<" + w.p + "tbl><" + w.p + "tblPr>" + w.el("tblW", "w", "0", "type", "auto") + "</" + w.p + "tblPr><" + w.p + "tblGrid>" + w.el("gridCol", "w", "1800") + "</" + w.p + "tblGrid></" + w.p + "tbl>")
		}
	}
	if !f.NoBodySec {
		w.b.WriteString(fmt.Sprintf(bodySect, w.p))
	}
	w.b.WriteString("</" + w.p + "body></" + w.p + "document>")
	return w.b.String()
}

const foreignStyles = `<?xml version="1.0" encoding="UTF-8" standalone="yes"?>
<w:styles xmlns:w="` + nsW + `"><w:style w:type="paragraph" w:default="1" w:styleId="Normal"><w:name w:val="Normal"/></w:style>` +
	`<w:style w:type="paragraph" w:styleId="Heading1"><w:name w:val="heading 1"/><w:basedOn w:val="Normal"/><w:pPr><w:outlineLvl w:val="0"/></w:pPr><w:rPr><w:b/><w:sz w:val="32"/></w:rPr></w:style>` +
	`<w:style w:type="paragraph" w:styleId="Heading2"><w:name w:val="heading 2"/><w:basedOn w:val="Normal"/><w:pPr><w:outlineLvl w:val="1"/></w:pPr><w:rPr><w:b/><w:sz w:val="28"/></w:rPr></w:style>` +
	`<w:style w:type="paragraph" w:styleId="Quote"><w:name w:val="Quote"/><w:basedOn w:val="Normal"/><w:rPr><w:i/></w:rPr></w:style>` +
	`<w:style w:type="paragraph" w:styleId="ListParagraph"><w:name w:val="List Paragraph"/><w:basedOn w:val="Normal"/><w:pPr><w:ind w:left="720"/></w:pPr></w:style>` +
	`<w:style w:type="table" w:default="1" w:styleId="TableGrid"><w:name w:val="Table Grid"/></w:style></w:styles>`

const foreignNumbering = `<?xml version="1.0" encoding="UTF-8" standalone="yes"?>
<w:numbering xmlns:w="` + nsW + `"><w:abstractNum w:abstractNumId="0"><w:multiLevelType w:val="hybridMultilevel"/><w:lvl w:ilvl="0"><w:start w:val="1"/><w:numFmt w:val="bullet"/><w:lvlText w:val="&#183;"/><w:lvlJc w:val="left"/></w:lvl></w:abstractNum>` +
	`<w:abstractNum w:abstractNumId="1"><w:multiLevelType w:val="hybridMultilevel"/><w:lvl w:ilvl="0"><w:start w:val="1"/><w:numFmt w:val="decimal"/><w:lvlText w:val="%1."/><w:lvlJc w:val="left"/></w:lvl></w:abstractNum>` +
	`<w:num w:numId="1"><w:abstractNumId w:val="0"/></w:num><w:num w:numId="2"><w:abstractNumId w:val="1"/></w:num></w:numbering>`

// foreignDocx renders the blocks as a complete package.
func foreignDocx(blocks []Block, f Foreign) []byte {
	abs := func(t string) string {
		if f.AbsTarget {
			return "/word/" + t
		}
		return t
	}
	ct := `<?xml version="1.0" encoding="UTF-8" standalone="yes"?>` + "\n" +
		`<Types xmlns="http://schemas.openxmlformats.org/package/2006/content-types"><Default Extension="rels" ContentType="application/vnd.openxmlformats-package.relationships+xml"/><Default Extension="xml" ContentType="application/xml"/>` +
		`<Override PartName="/word/document.xml" ContentType="application/vnd.openxmlformats-officedocument.wordprocessingml.document.main+xml"/>` +
		`<Override PartName="/word/numbering.xml" ContentType="application/vnd.openxmlformats-officedocument.wordprocessingml.numbering+xml"/>`
	docRels := `<?xml version="1.0" encoding="UTF-8" standalone="yes"?>` + "\n" +
		`<Relationships xmlns="http://schemas.openxmlformats.org/package/2006/relationships">`
	rid := 1
	if !f.NoStyles {
		ct += `<Override PartName="/word/styles.xml" ContentType="application/vnd.openxmlformats-officedocument.wordprocessingml.styles+xml"/>`
		docRels += fmt.Sprintf(`<Relationship Id="rId%d" Type="http://schemas.openxmlformats.org/officeDocument/2006/relationships/styles" Target="%s"/>`, rid, abs("styles.xml"))
		rid++
	}
	docRels += fmt.Sprintf(`<Relationship Id="rId%d" Type="http://schemas.openxmlformats.org/officeDocument/2006/relationships/numbering" Target="%s"/>`, rid, abs("numbering.xml"))
	if f.EmptyPart {
		ct += `<Override PartName="/customXml/item1.xml" ContentType="application/xml"/>`
	}
	ct += `</Types>`
	docRels += `</Relationships>`
	target := "word/document.xml"
	if f.AbsTarget {
		target = "/word/document.xml"
	}
	pkgRels := `<?xml version="1.0" encoding="UTF-8" standalone="yes"?>` + "\n" +
		`<Relationships xmlns="http://schemas.openxmlformats.org/package/2006/relationships"><Relationship Id="rId1" Type="http://schemas.openxmlformats.org/officeDocument/2006/relationships/officeDocument" Target="` + target + `"/></Relationships>`

	type entry struct{ name, data string }
	var es []entry
	es = append(es, entry{"[Content_Types].xml", ct})
	if f.DirEnt {
		es = append(es, entry{"_rels/", ""})
	}
	es = append(es, entry{"_rels/.rels", pkgRels})
	if f.DirEnt {
		es = append(es, entry{"word/", ""}, entry{"word/_rels/", ""})
	}
	es = append(es, entry{"word/document.xml", foreignDocumentXML(blocks, f)}, entry{"word/_rels/document.xml.rels", docRels})
	if !f.NoStyles {
		es = append(es, entry{"word/styles.xml", foreignStyles})
	}
	es = append(es, entry{"word/numbering.xml", foreignNumbering})
	if f.EmptyPart {
		es = append(es, entry{"customXml/item1.xml", ""})
	}
	var buf bytes.Buffer
	zw := zip.NewWriter(&buf)
	for _, e := range es {
		method := zip.Deflate
		if f.Stored || strings.HasSuffix(e.name, "/") {
			method = zip.Store
		}
		wr, err := zw.CreateHeader(&zip.FileHeader{Name: e.name, Method: method})
		if err != nil {
			continue
		}
		wr.Write([]byte(e.data))
	}
	zw.Close()
	return buf.Bytes()
}

package c20

import (
	"sort"
	"strings"
	"unicode/utf8"
)

// Hostile text classes: tokens Markdown gives a meaning to. Since the exporter escapes run text
// (R5-MD-6) they are judged exactly by E1-E5 like any other text.
var hostileClasses = map[string][]string{
	"emph":      {"*", "**", "***", "*****", "_", "__", "___", "a*b*c", "*x*", "**x**", "_x_", "__x__", "***x***", "snake_case_name", "2*3", "*x", "x*", "_x", "x_", "* *", "_ _"},
	"tilde":     {"~", "~~", "~~~", "~~~~~", "~~x~~", "a~~b~~c", "~x~", "x~", "~x"},
	"backtick":  {"`", "``", "```", "````", "`x`", "``x``", "a`b", "`x", "x`"},
	"backslash": {"\\", "\\\\", "\\*", "\\n", "a\\b", "x\\", "\\_x\\_", "\\`", "\\#", "\\\\*"},
	"bracket":   {"[", "]", "[a](b)", "![i](u)", "[a]", "[a][b]", "[^1]", "[a]: u", "](", "[[a]]", "[a](<b>)", "(x)", "[a](b \"t\")"},
	"angle":     {"<", ">", "<b>", "</b>", "<br/>", "<!-- c -->", "<http://x.y>", "<a@b.c>", "a<b", "a>b", "<3", "<a href=\"u\">", "<>"},
	"entity":    {"&", "&amp;", "&#35;", "&#x41;", "&copy;", "&nosuch;", "&amp", "a&b", "&;", "&#0;", "AT&T", "&lt;b&gt;", "&&", "&#", "&é;"},
	"dollar":    {"$", "$x$", "$$", "$$x$$", "5$"},
	"pipe":      {"|", "a|b", "||", "|a|", "x | y", "\\|", "a\\|b", "|-|"},
	"bang":      {"!", "!!", "![", "!x", "x!"},
	"hash":      {"#", "##", "######", "#######", "# h", "#h", "h #", "h#", "#1", "# h #"},
	"dash":      {"-", "--", "---", "- x", "-x", "- - -", "----------", "x-", "–", "—"},
	"plus":      {"+", "+ x", "+x", "++", "1+1"},
	"starline":  {"* x", "* * *", "** **"},
	"equals":    {"=", "==", "===", "= x", "a=b", "=x"},
	"ordered":   {"1.", "1)", "2. x", "3) z", "12.", "0.", "123456789.", "1234567890.", "1.x", "1.5", "a.", "-1.", "1.)", "١."},
	"quote":     {"> x", ">x", ">>", "> > x"},
	"colon":     {":", ":-:", ":--", "--:", "a:b", "::", ":-", "-:-"},
	"tablelike": {"--- | ---", "|---|---|", "| a | b |", "|:-:|", "-|-"},
	"autolink":  {"www.example.com", "http://a.b/c", "https://x.y/a", "a@b.co", "mailto:x@y.z", "ftp://h/p", "x@y", "www.x.y."},
	"autolinkx": {"https://x.y/a_b_c", "www.a_b.com", "http://x.y/*z*", "http://x.y/a~b", "a_b@c.de", "www.x.y/[z]", "http://x.y/?a=1&b=2", "http://x.y/&amp;", "www.x.y/a|b", "www.x.y/$1", "www.x.y/a`b", "http://a.b/c\\d", "<https://x.y/a_b>"},
	"task":      {"[ ] todo", "[x] done"},
	"htmlblock": {"<div>", "<pre>", "<script>", "<!DOCTYPE x>", "<![CDATA[x]]>", "</div>", "<?php", "<table>"},
	"punctedge": {"x.", "(y)", "\"q\"", "'s", "a,", "?!", "…", "“x”", "(", ")", ".", "¿x?", "x)", "(x"},
	"fence":     {"```", "~~~", "```go", "~~~ x", "````", "``` x ```"},
	// widened: what the library itself writes, supplied by the caller (the bullet the importer puts in front of an item,
	// the front matter of IncludeMetadata), and symbols outside the BMP / outside ASCII at word edges (punctuation for
	// the flanking rules)
	"libgen":  {"•", "• x", "•x", "title:", "title: \"Document\"", "---", "[^1]:", "image_1.png"},
	"symbols": {"😀", "x😀", "😀x", "😀😀", "©", "™x", "x€", "±1", "→", "x→y", "𝄞", "a𝄞"},
}

func hostileClassNames() []string {
	out := make([]string, 0, len(hostileClasses))
	for k := range hostileClasses {
		out = append(out, k)
	}
	sort.Strings(out)
	return out
}

// hostileTokens: every token once, in a fixed order.
func hostileTokens() []string {
	seen := map[string]bool{}
	var out []string
	for _, k := range hostileClassNames() {
		for _, t := range hostileClasses[k] {
			if !seen[t] {
				seen[t] = true
				out = append(out, t)
			}
		}
	}
	return out
}

// hostilePlaces: where the case carries text Markdown gives a meaning to (labels; from the content).
func hostilePlaces(c Case) []string {
	seen := map[string]bool{}
	var out []string
	add := func(k string) {
		if !seen[k] {
			if len(out) == 0 {
				out = append(out, "any")
			}
			seen[k] = true
			out = append(out, k)
		}
	}
	for _, b := range c.Blocks {
		switch b.K {
		case "p":
			if ws := strings.Fields(b.paraText()); len(ws) > 0 && leadingMarker(ws[0]) {
				add("leading-marker:p")
			}
			for i, r := range b.Runs {
				core := strings.TrimSpace(r.T)
				if core == "" {
					continue
				}
				if syntaxInline(r.T) {
					switch {
					case r.C:
						add("in:code-run")
						if strings.Contains(r.T, "`") {
							add("backtick-in-code-run")
						}
					case r.mask() != 0:
						add("in:formatted-run")
					default:
						add("in:plain-run")
					}
				}
				// punctuation at a run edge that touches a neighbouring run
				f, _ := utf8.DecodeRuneInString(core)
				l, _ := utf8.DecodeLastRuneInString(core)
				if (i > 0 && cmPunct(f) && core[0] == r.T[0]) || (i+1 < len(b.Runs) && cmPunct(l) && core[len(core)-1] == r.T[len(r.T)-1]) {
					add("run-edge")
				}
			}
		case "table":
			for _, row := range b.Cells {
				for _, cell := range row {
					if syntaxInline(cell) {
						add("in:cell")
						if strings.Contains(cell, "|") {
							add("pipe-in-cell")
						}
					}
				}
			}
		case "code":
			if syntaxInline(b.T) {
				add("in:code-block")
			}
			if strings.Contains(b.T, "```") || strings.HasPrefix(strings.TrimSpace(b.T), "~~~") {
				add("fence-in-code-block")
			}
		case "h", "li", "q":
			if syntaxInline(b.T) {
				add("in:" + b.K)
				if leadingMarker(strings.Fields(b.T)[0]) {
					add("leading-marker:" + b.K)
				}
			}
		}
	}
	return out
}

// leadingMarker: the word would open a block at the start of a line ('#', list markers, '=', '>', ordered markers)
func leadingMarker(w string) bool {
	return strings.ContainsRune("#-+*=>", rune(w[0])) || (w[0] >= '0' && w[0] <= '9' && strings.ContainsAny(w, ".)"))
}

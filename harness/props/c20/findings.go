package c20

import (
	"strings"
	"unicode"

	"wzverif/internal/kit"
)

// kf is one open finding: an input class (predicate on the case) and the clauses it may absorb.
type kf struct {
	id      string
	clauses string // space separated clause ids
	desc    string
	pred    func(c Case) bool
}

var kfs = []kf{
	{"KF-C20-order", "C20.E1 C20.E4",
		"the exporter writes all paragraphs before all tables: a table that precedes a later text block in the body comes out after it",
		tableBeforeLaterBlock},
	{"KF-C20-no-escape", "C20.E1 C20.E2 C20.E3 C20.E4 C20.E5",
		"run/cell text is written without escaping: text containing Markdown syntax (emphasis/code/strike delimiters, brackets, entities, '$', '|' in cells, block markers at a line start) changes structure or text",
		hasSyntaxText},
	{"KF-C20-edge-blank", "C20.E1 C20.E2 C20.E3 C20.E4 C20.E5",
		"emphasis delimiters are placed around the blanks at the edges of a formatted run (or bold-styled heading): '** x **' is not emphasis in CommonMark",
		hasEdgeBlankFormatted},
	{"KF-C20-adjacent-format", "C20.E1 C20.E2 C20.E3 C20.E4 C20.E5",
		"the closing delimiter of a formatted run abuts the opening delimiter of the next formatted run ('**a****b**', '`a``b`'): the delimiter runs fuse",
		hasAdjacentFormatted},
	{"KF-C20-underscore-intraword", "C20.E1 C20.E2 C20.E3 C20.E4 C20.E5",
		"EmphasisMarker '_' next to a letter or digit of the neighbouring run ('x_a_y') is not emphasis in CommonMark",
		hasIntrawordUnderscore},
	{"KF-C20-code-combined", "C20.E1 C20.E2 C20.E3 C20.E4 C20.E5",
		"a code-font run that is also bold/italic/strike gets its emphasis delimiters inside the code span ('`**x**`'): they become literal text",
		hasCodeCombined},
	{"KF-C20-nested-flanking", "C20.E1 C20.E2 C20.E3 C20.E4 C20.E5",
		"a strike run that is also bold/italic is written '~~**x**~~'; next to a letter or digit of the neighbouring run the outer '~~' is not a delimiter run by the flanking rule and stays literal",
		hasNestedFlanking},
	{"KF-C20-list-no-blank", "C20.E1 C20.E2 C20.E4 C20.E5",
		"a list item is not followed by a blank line: a following paragraph, table or setext heading is swallowed as a lazy continuation of the item",
		hasListLazy},
	{"KF-C20-simple-table", "C20.E1 C20.E2 C20.E3 C20.E4 C20.E5",
		"with UseGFMTables off a table is written as '**a | b**' lines, which Markdown reads as one paragraph (text gains ' | ', block kind is lost)",
		func(c Case) bool { return !c.O.GFM && hasKind(c, "table") }},
	{"KF-C20-metadata", "C20.E4 C20.E5",
		"the IncludeMetadata front matter is read back by the library's own converter as a thematic break and a heading 'title: \"Document\"'",
		func(c Case) bool { return c.O.Meta }},
	{"KF-C20-list-reimport", "C20.E4 C20.E5",
		"round trip of a list item yields a normal paragraph with a literal bullet character prepended to its text",
		func(c Case) bool { return hasKind(c, "li") }},
	{"KF-C20-codeblock-newline", "C20.E5",
		"round trip of a CodeBlock paragraph keeps the line terminator in the run text: the second export has an extra empty line inside the fence",
		func(c Case) bool { return hasKind(c, "code") }},
	{"KF-C20-empty-paragraph", "C20.E5",
		"an empty paragraph is exported as a bare newline that does not survive the round trip: the second export is shorter",
		hasEmptyParagraph},
	{"KF-C20-table-header", "C20.E5",
		"round trip makes the first table row bold: a table whose first row is not bold re-exports with '**' around its header cells",
		hasPlainHeader},
	{"KF-C20-nested-emphasis", "C20.E5",
		"round trip keeps only the outermost of nested emphasis ('***x***', '~~**x**~~'): the second export has fewer delimiters",
		hasMultiEmphasis},
	{"KF-C20-heading-deep", "C20.E5",
		"Heading7-9 are exported at level 6 and come back as Heading6, whose run formatting differs: the second export gains or loses emphasis delimiters",
		func(c Case) bool {
			for _, b := range c.Blocks {
				if b.K == "h" && b.Level > 6 && !blank(b.T) {
					return true
				}
			}
			return false
		}},
	{"KF-C20-wrap-formatted", "C20.E4 C20.E5",
		"WrapLongLines breaks lines inside a formatted run; on re-import the soft break inside emphasis/code is dropped and the words are glued",
		hasWrappedFormatted},
}

var findings = func() []kit.Finding[Case] {
	var out []kit.Finding[Case]
	for _, k := range kfs {
		k := k
		out = append(out, kit.Finding[Case]{ID: k.id, Clause: "C20.E", Desc: k.desc,
			Trigger: func(c Case, f kit.Failure) bool {
				if !strings.Contains(" "+k.clauses+" ", " "+f.Clause+" ") {
					return false
				}
				return k.pred(c)
			}})
	}
	return out
}()

// triggered lists the finding classes the case falls into (whether or not the finding is open).
func triggered(c Case) []string {
	var out []string
	for _, k := range kfs {
		if k.pred(c) {
			out = append(out, k.id)
		}
	}
	return out
}

// ---------------------------------------------------------------------------------------------
// predicates on the case

func hasKind(c Case, k string) bool {
	for _, b := range c.Blocks {
		if b.K == k {
			return true
		}
	}
	return false
}

func visible(b Block) bool { return b.K == "table" || !blank(b.text()) }

// a table precedes a later block with visible text that is not a table
func tableBeforeLaterBlock(c Case) bool {
	seenT := false
	for _, b := range c.Blocks {
		if b.K == "table" {
			seenT = true
		} else if seenT && visible(b) {
			return true
		}
	}
	return false
}

// syntaxInline: s contains a character Markdown gives inline meaning to, or a token that opens a block
// when it starts a line (the exporter can put any token at a line start when it wraps).
func syntaxInline(s string) bool {
	if strings.ContainsAny(s, "\\`*_~[]<>&$|!") {
		return true
	}
	for _, tok := range strings.Fields(s) {
		switch tok[0] {
		case '#', '-', '+', '=', ':':
			return true
		}
		i := 0
		for i < len(tok) && tok[i] >= '0' && tok[i] <= '9' {
			i++
		}
		if i > 0 && i < len(tok) && (tok[i] == '.' || tok[i] == ')') {
			return true
		}
		if strings.HasPrefix(tok, "http:") || strings.HasPrefix(tok, "https:") || strings.HasPrefix(tok, "www.") || strings.Contains(tok, "@") {
			return true
		}
	}
	return false
}

func hasSyntaxText(c Case) bool {
	for _, b := range c.Blocks {
		switch b.K {
		case "code":
			if strings.Contains(b.T, "```") || strings.Contains(b.T, "~~~") || strings.ContainsAny(b.T, "\n\r") {
				return true
			}
		case "table":
			for _, r := range b.Cells {
				for _, cell := range r {
					if syntaxInline(cell) || strings.ContainsAny(cell, "\n\r") {
						return true
					}
				}
			}
		case "p":
			for _, r := range b.Runs {
				if syntaxInline(r.T) || strings.ContainsAny(r.T, "\n\r") {
					return true
				}
			}
		case "empty":
		default:
			if syntaxInline(b.T) || strings.ContainsAny(b.T, "\n\r") {
				return true
			}
		}
	}
	return false
}

func edgeBlank(s string) bool {
	if s == "" {
		return false
	}
	r := []rune(s)
	return unicode.IsSpace(r[0]) || unicode.IsSpace(r[len(r)-1])
}

func hasEdgeBlankFormatted(c Case) bool {
	for _, b := range c.Blocks {
		switch b.K {
		case "h":
			if edgeBlank(b.T) && !blank(b.T) {
				return true
			}
		case "p":
			for _, r := range b.Runs {
				if r.mask() != 0 && edgeBlank(r.T) {
					return true
				}
			}
		}
	}
	return false
}

// nonEmptyRuns drops runs without text (the exporter writes nothing for them).
func nonEmptyRuns(b Block) []Run {
	var out []Run
	for _, r := range b.Runs {
		if r.T != "" {
			out = append(out, r)
		}
	}
	return out
}

func hasAdjacentFormatted(c Case) bool {
	for _, b := range c.Blocks {
		if b.K != "p" {
			continue
		}
		rs := nonEmptyRuns(b)
		for i := 1; i < len(rs); i++ {
			if rs[i-1].mask() != 0 && rs[i].mask() != 0 {
				return true
			}
		}
	}
	return false
}

func wordChar(r rune) bool { return unicode.IsLetter(r) || unicode.IsDigit(r) || unicode.IsMark(r) }

func hasIntrawordUnderscore(c Case) bool {
	if c.O.Emph != "_" {
		return false
	}
	for _, b := range c.Blocks {
		if b.K != "p" {
			continue
		}
		rs := nonEmptyRuns(b)
		for i, r := range rs {
			if !r.I || r.B { // '_' is used for italic-only runs (also under strike / code)
				continue
			}
			if i > 0 {
				p := []rune(rs[i-1].T)
				if !unicode.IsSpace(p[len(p)-1]) {
					return true
				}
			}
			if i+1 < len(rs) {
				n := []rune(rs[i+1].T)
				if !unicode.IsSpace(n[0]) {
					return true
				}
			}
		}
	}
	return false
}

func hasNestedFlanking(c Case) bool {
	for _, b := range c.Blocks {
		if b.K != "p" {
			continue
		}
		rs := nonEmptyRuns(b)
		for i, r := range rs {
			if !(r.S && (r.B || r.I)) {
				continue
			}
			if i > 0 {
				p := []rune(rs[i-1].T)
				if wordChar(p[len(p)-1]) {
					return true
				}
			}
			if i+1 < len(rs) {
				if wordChar([]rune(rs[i+1].T)[0]) {
					return true
				}
			}
		}
	}
	return false
}

func hasCodeCombined(c Case) bool {
	for _, b := range c.Blocks {
		if b.K != "p" {
			continue
		}
		for _, r := range b.Runs {
			if r.C && (r.B || r.I || r.S) && r.T != "" {
				return true
			}
		}
	}
	return false
}

// a visible list item is directly followed in the output by a block that cannot interrupt a paragraph
// (normal paragraph, table, setext heading). "Directly followed" is evaluated for the body order and for
// the paragraphs-then-tables order of the open order finding.
func hasListLazy(c Case) bool {
	lazy := func(n Block, withTable bool) bool {
		switch n.K {
		case "p":
			return true
		case "table":
			return withTable
		case "h":
			return c.O.Setext && n.Level <= 2
		}
		return false
	}
	for i, it := range c.Blocks {
		if it.K != "li" || blank(it.T) {
			continue
		}
		var next, nextText *Block
		for j := i + 1; j < len(c.Blocks); j++ {
			n := c.Blocks[j]
			if !visible(n) {
				if n.K == "empty" || n.K == "p" {
					break // an empty paragraph is written as a blank line: the item ends there
				}
				continue // blank heading / quote / code / list item: nothing is written
			}
			if next == nil {
				next = &c.Blocks[j]
			}
			if n.K != "table" {
				nextText = &c.Blocks[j]
				break
			}
		}
		if next != nil && lazy(*next, true) {
			return true
		}
		if nextText != nil && lazy(*nextText, false) {
			return true
		}
		if nextText == nil && hasKind(c, "table") {
			// is the item the last text block written? then the first table follows it
			last := true
			for j := i + 1; j < len(c.Blocks); j++ {
				if c.Blocks[j].K != "table" && (visible(c.Blocks[j]) || c.Blocks[j].K == "empty" || c.Blocks[j].K == "p") {
					last = false
				}
			}
			if last {
				return true
			}
		}
	}
	return false
}

func hasEmptyParagraph(c Case) bool {
	for _, b := range c.Blocks {
		if b.K == "empty" || (b.K == "p" && blank(b.paraText())) {
			return true
		}
	}
	return false
}

func hasPlainHeader(c Case) bool {
	if !c.O.GFM {
		return false
	}
	for _, b := range c.Blocks {
		if b.K == "table" && !b.HdrBold {
			for _, cell := range b.Cells[0] {
				if !blank(cell) {
					return true
				}
			}
		}
	}
	return false
}

func hasMultiEmphasis(c Case) bool {
	for _, b := range c.Blocks {
		if b.K != "p" {
			continue
		}
		for _, r := range b.Runs {
			if r.T != "" && bitsSet(r.mask()&(mB|mI|mS)) >= 2 {
				return true
			}
		}
	}
	return false
}

// wrapping is on and a paragraph with a formatted run that has an inner blank is longer than the limit
// (text plus the delimiters Markdown needs for its formatted runs, counted in bytes as an upper bound)
func hasWrappedFormatted(c Case) bool {
	if !c.O.Wrap {
		return false
	}
	for _, b := range c.Blocks {
		if b.K != "p" {
			continue
		}
		multi := false
		n := 0
		for _, r := range b.Runs {
			n += len(r.T)
			if r.mask() == 0 || r.T == "" {
				continue
			}
			if len(strings.Fields(r.T)) >= 2 {
				multi = true
			}
			if r.B {
				n += 4
			}
			if r.I {
				n += 2
			}
			if r.S {
				n += 4
			}
			if r.C {
				n += 2
			}
		}
		if multi && n > c.O.MaxLen {
			return true
		}
	}
	return false
}

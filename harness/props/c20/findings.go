package c20

import (
	"bytes"
	"regexp"
	"strings"
	"sync"
	"unicode"
	"unicode/utf8"

	"github.com/yuin/goldmark/util"

	"wzverif/internal/kit"
)

// Two kinds of masks.
//
//   - class part: the defect destroys the structure of the Markdown for a whole input class (hostile text,
//     delimiter placement, lazy list continuation ...). A failure of one of the listed clauses on a case of
//     the class is attributed wholesale.
//   - exact part: the defect has one predictable effect on otherwise well-behaved documents (tables come
//     last, the first table row comes back bold ...). run()
//     applies the predicted effect of the open findings whose class the case is in and compares again; only
//     if the observation equals the prediction exactly is the failure tagged with the finding's id, and only
//     a tagged failure is attributed. Any other deviation in such a case stays a violation.
type part struct {
	clauses string // space separated clause ids
	pred    func(c Case) bool
	exact   bool
}

type kf struct {
	id    string
	desc  string
	parts []part
}

const (
	idDelimContext = "KF-C20-delimiter-context"
	idSimpleTable  = "KF-C20-simple-table"
	idMetadata     = "KF-C20-metadata"
	idEmptyPara    = "KF-C20-empty-paragraph"
	idTableHeader  = "KF-C20-table-header"
	idHeadingDeep  = "KF-C20-heading-deep"
	idWrapCode     = "KF-C20-wrap-code-span"
	idLineEnd      = "KF-C20-line-end"
	idHeadingStyle = "KF-C20-heading-style-emphasis"
	idToggleOff    = "KF-C20-toggle-off"
	idNumIDZero    = "KF-C20-numid-zero"
	idListTrailing = "KF-C20-list-trailing-blank"
)

const allE = "C20.E1 C20.E2 C20.E3 C20.E4 C20.E5"

var kfs = []kf{
	{idDelimContext, "exporter: the delimiters of a formatted run are written without regard to what they touch (what is left after the merge-runs repair): an outermost delimiter run followed by punctuation - the run's own text beginning/ending with punctuation, or an inner delimiter as in '~~**x**~~', '**`x`**' - next to a letter or digit of the neighbouring text is not flanking and stays literal ('a~~**x**~~b', '**x.**y'); touching runs of different format that share the outer delimiter character fuse ('~~a~~~~**b**~~', '**a****`b`**', '**a*****b****c*'); a '~~' right after a tilde of the text ('x\\~~~a~~') and delimiters inside a word read as an autolink ('http://a.b/c~~x~~', 'x**a@b.co**y') are not read as delimiters by goldmark",
		[]part{{allE, hasDelimiterContext, false}}},
	{idWrapCode, "exporter: WrapLongLines breaks the finished paragraph text at every blank (wrapText, writer.go:634), also inside a code span, whose content cannot be escaped: a word of the code that is block syntax ('#', '-', '>', '=', '<div>', '|-|', '$$', or the '```' delimiter of a span that contains '``') starts a line and is read as a heading, setext underline, quote, HTML block, table or fence ('`a\\n#\\nb`')",
		[]part{{allE, hasWrappedCodeSpan, false}}},
	{idLineEnd, "exporter: a line feed inside the text of a run is copied into the Markdown (only table cells turn it into a blank; Word shows it as a blank): an ATX heading ends at it and the rest becomes a paragraph ('# a\\nb'), two of them with only blanks in between end the paragraph / heading / item (a quote becomes two paragraphs, which the importer glues together), one right after the marker of an item does the same, inside a code span (whose content cannot be escaped) it lets the next line start with the code's own block syntax or turns a span delimited by three backticks into a fence opening; everywhere else it reads as a soft line break, which comes back as a blank, so that the second export has 'a b' where the first had 'a\\nb'",
		[]part{{allE, brokenByLineEnd, false}, {"C20.E5", hasSurvivingLineEnd, false}}},
	{idHeadingStyle, "round trip of a heading whose runs carry no bold/italic of their own (every heading of a document written by Word: the formatting comes from the style): it is exported as '# x'; the importer puts the heading style's bold/italic on the runs themselves (as AddHeadingParagraph does) and the exporter writes run formatting inside a heading as emphasis: the second export has '# **x**'",
		[]part{{"C20.E5", hasStyleOnlyHeading, true}}},
	{idToggleOff, "reader (document.go parseRunProperties): w:b / w:i / w:strike are taken as 'on' whatever their w:val: a run with <w:b w:val=\"false\"/> (\"0\", \"off\": explicitly NOT bold, as Word writes it for plain text inside a bold style) is opened as bold and exported with '**' (ExportToFile, or Open + ExportToString)",
		[]part{{allE, hasOffToggle, false}}},
	{idNumIDZero, "exporter (writer.go isListParagraph): any w:numPr makes a paragraph a list item, also <w:numId w:val=\"0\"/>, which removes numbering from the paragraph: a plain paragraph of a document written by Word is exported as '- text'",
		[]part{{allE, hasNumIDZero, false}}},
	{idSimpleTable, "exporter: with UseGFMTables off a table is written as lines 'a | b' with '**' around the first (writeSimpleTable), which is not a Markdown table: it reads (and comes back) as paragraph text - one paragraph 'a | b c | d' for a full table, split at rows of empty cells, with literal '**' when the first row begins or ends with an empty cell; already bold header cells give '****a** | **b****'",
		[]part{{allE, hasSimpleTable, true}, {"C20.E5", hasRuleTableBetweenCode, false}}},
	{idMetadata, "IncludeMetadata writes a '---' front matter block that the library's own converter (no front matter support) reads back as a thematic break and a setext heading 'title: \"Document\"': the round trip gains a heading, the second export differs",
		[]part{{"C20.E4 C20.E5", func(c Case) bool { return c.O.Meta }, true}}},
	{idListTrailing, "exporter: the blank line that closes a list is written when the next paragraph arrives (closeList is the first statement of writeHeading / writeQuote / writeNormalParagraph / flushCodeBlock), before that paragraph turns out to have no visible text: a list item followed by such a paragraph and then by another item, or by nothing visible, is exported with a blank line after it ('- a\\n\\n- b\\n', '- a\\n\\n' at the end); after the round trip (the paragraph is not in the Markdown) the export has '- a\\n- b\\n', '- a\\n'",
		[]part{{"C20.E5", hasListThenInvisible, true}}},
	{idEmptyPara, "exporter: a paragraph without visible text is written as a bare newline (writer.go:220-222), which Markdown cannot carry back: the second export lacks the extra blank lines",
		[]part{{"C20.E5", hasEmptyParagraph, true}}},
	{idTableHeader, "round trip makes the first table row bold (importer renderer.go:449 gives header cells emphasis 2, exporter writes bold header cells as '**a**'): a table whose first row is not bold re-exports with '**' around its header cells",
		[]part{{"C20.E5", hasPlainHeader, true}}},
	{idHeadingDeep, "Heading7-9 are exported at level 6 (Markdown has no deeper level) and come back as Heading6, whose style formatting (italic) differs from Heading7/Heading9 (none) and is exported as emphasis: the second export has '###### *x*' for '###### x'",
		[]part{{"C20.E5", hasDeepHeading, true}}},
}

func hasClause(list, clause string) bool { return strings.Contains(" "+list+" ", " "+clause+" ") }

const tagOpen = "[exactly the known effect of "

// effectTag marks a failure detail as fully explained by the given findings (first = the one it is attributed to).
func effectTag(ids []string) string { return tagOpen + strings.Join(ids, " + ") + "] " }

func tagFirst(detail string) string {
	if !strings.HasPrefix(detail, tagOpen) {
		return ""
	}
	rest := detail[len(tagOpen):]
	if i := strings.IndexAny(rest, " ]"); i >= 0 {
		return rest[:i]
	}
	return ""
}

func (k kf) attributes(c Case, f kit.Failure) bool {
	for _, p := range k.parts {
		if !hasClause(p.clauses, f.Clause) || !p.pred(c) {
			continue
		}
		// a failure that run() could explain exactly belongs to the finding named first in its tag, and to no class
		if t := tagFirst(f.Detail); (p.exact && t == k.id) || (!p.exact && t == "") {
			return true
		}
	}
	return false
}

var findings = func() []kit.Finding[Case] {
	var out []kit.Finding[Case]
	for _, k := range kfs {
		k := k
		out = append(out, kit.Finding[Case]{ID: k.id, Clause: "C20.E", Desc: k.desc,
			Trigger: func(c Case, f kit.Failure) bool { return k.attributes(c, f) }})
	}
	return out
}()

// triggered lists the finding classes the case falls into (whether or not the finding is open);
// class = those with a class part, exact = those with an exact part only.
func triggered(c Case) (class, exact []string) {
	for _, k := range kfs {
		cl, ex := false, false
		for _, p := range k.parts {
			if p.pred(c) {
				if p.exact {
					ex = true
				} else {
					cl = true
				}
			}
		}
		if cl {
			class = append(class, k.id)
		} else if ex {
			exact = append(exact, k.id)
		}
	}
	return
}

var (
	openOnce sync.Once
	openIDs  map[string]bool
)

func isOpen(id string) bool {
	openOnce.Do(func() { openIDs = kit.OpenFindings("C20") })
	return openIDs[id]
}

// ---------------------------------------------------------------------------------------------
// predicted effects of the exact findings

type effect struct {
	id     string
	active func(c Case) bool
	seq1   func(bs []Blk) []Blk           // E1: reference reading of the Markdown
	seq4   func(bs []Blk) []Blk           // E4: re-imported body
	norm5  func(c Case, md string) string // E5: applied to both exports
	loose5 func(c Case) bool              // E5: the effect also moves line breaks (compare whitespace-insensitively)
}

var effects = []effect{
	{id: idSimpleTable, active: hasSimpleTable, seq1: simpleTableParagraphs,
		seq4:   func(bs []Blk) []Blk { return dropOther(simpleTableParagraphs(bs)) }, // a thematic break comes back as an empty paragraph (an empty line of the code between two code lines)
		norm5:  normSimpleTable,
		loose5: func(c Case) bool { return true }}, // the row lines come back as one line
	{id: idMetadata, active: func(c Case) bool { return c.O.Meta }, norm5: normFrontMatter,
		seq4: func(bs []Blk) []Blk { return append([]Blk{{Kind: "h", Level: 2, Text: `title: "Document"`}}, bs...) }},
	{id: idListTrailing, active: hasListThenInvisible, norm5: normItemGaps},
	{id: idEmptyPara, active: hasEmptyParagraph, norm5: func(_ Case, md string) string { return normBlankLines(md) }},
	{id: idTableHeader, active: hasPlainHeader, norm5: func(_ Case, md string) string { return normHeaderRows(md) }},
	{id: idHeadingDeep, active: hasDeepHeading, norm5: func(_ Case, md string) string { return normDeepHeadings(md) }},
	{id: idHeadingStyle, active: hasStyleOnlyHeading, norm5: func(_ Case, md string) string { return normHeadingEmphasis(md) }},
}

// explain looks for a smallest set of open, active effects under which `same` holds and returns its tag
// ("" if there is none). Every subset is tried (an effect may be listed open and already be repaired).
func explain(c Case, usable func(e effect) bool, same func(sel []effect) bool) string {
	var cand []effect
	for _, e := range effects {
		if isOpen(e.id) && e.active(c) && usable(e) {
			cand = append(cand, e)
		}
	}
	n := len(cand)
	for size := 1; size <= n; size++ {
		for m := 1; m < 1<<n; m++ {
			if bitsSet(m) != size {
				continue
			}
			var sel []effect
			var ids []string
			for i, e := range cand {
				if m&(1<<i) != 0 {
					sel = append(sel, e)
					ids = append(ids, e.id)
				}
			}
			if same(sel) {
				return effectTag(ids)
			}
		}
	}
	return ""
}

func hasSimpleTable(c Case) bool { return !c.O.GFM && hasKind(c, "table") }

// mdEscapeAll writes literal text the most defensive way CommonMark offers: a backslash before every ASCII
// punctuation character. Every reader gives the text back, whatever subset of them an exporter chooses to escape
// (the flanking class of an edge character does not change either: a backslash is punctuation like the character
// it protects).
func mdEscapeAll(s string) string {
	var b strings.Builder
	for _, r := range s {
		if r < 128 && (unicode.IsPunct(r) || unicode.IsSymbol(r)) {
			b.WriteByte('\\')
		}
		b.WriteRune(r)
	}
	return b.String()
}

// simpleTableText: the lines the open simple-table finding describes for one table - the (escaped) cell texts
// joined with " | ", "**" around the first row (bold header cells carry their own "**").
func simpleTableText(b Blk) string {
	var sb strings.Builder
	for i, row := range b.Cells {
		cells := make([]string, len(row))
		for j, c := range row {
			c = mdEscapeAll(strings.TrimSpace(c))
			if i == 0 && b.HdrBold && c != "" {
				c = "**" + c + "**"
			}
			cells[j] = c
		}
		line := strings.Join(cells, " | ")
		if i == 0 {
			line = "**" + line + "**"
		}
		sb.WriteString(line + "\n")
	}
	sb.WriteString("\n")
	return sb.String()
}

// simpleTableParagraphs: every table replaced by what those lines are as a block of their own
// (the reference reading of exactly those lines, standing alone between blank lines).
func simpleTableParagraphs(bs []Blk) []Blk {
	var out []Blk
	for _, b := range bs {
		if b.Kind == "table" {
			out = append(out, ParseMD(simpleTableText(b))...)
		} else {
			out = append(out, b)
		}
	}
	return out
}

// normSimpleTable: '****a** | **b****' comes back as one bold run; a literal '**' (first row beginning or ending
// with an empty cell) and the ' | ' between the cells come back as text, which the second export escapes; and the
// cell texts come back as words of one paragraph, glued to that punctuation, so that word-wise escapes ('1\.',
// '\##') are decided differently. Both exports are compared without backslash escapes and without '*' and '_'.
func normSimpleTable(_ Case, md string) string {
	var b strings.Builder
	for i := 0; i < len(md); i++ {
		c := md[i]
		if c == '\\' && i+1 < len(md) && md[i+1] < 128 && (unicode.IsPunct(rune(md[i+1])) || unicode.IsSymbol(rune(md[i+1]))) {
			i++
			c = md[i]
			if c == '\\' {
				b.WriteByte(c) // an escaped backslash is text
				continue
			}
		}
		if c != '*' && c != '_' {
			b.WriteByte(c)
		}
	}
	return b.String()
}

// dropOther: what is neither text nor table (a thematic break) comes back as a paragraph without visible text - nothing,
// or an empty line of the code when it stands between two pieces of code, which are one piece then.
func dropOther(bs []Blk) []Blk {
	out := make([]Blk, len(bs))
	for i, b := range bs {
		if b.Kind == "other" {
			b = Blk{Kind: kindGap}
		}
		out[i] = b
	}
	return groupCode(out)
}

// hasRuleTableBetweenCode: a simple table whose lines read as no text at all (one column of empty cells: "****", a thematic
// break, which comes back as a paragraph without visible text) stands between two CodeBlock paragraphs with nothing visible
// in between: after the round trip the two pieces of code are one (predicted exactly for E4); the second export has one
// fence, of a length that depends on both texts (E5: waived for this class).
func hasRuleTableBetweenCode(c Case) bool {
	if c.O.GFM {
		return false
	}
	for i, b := range c.Blocks {
		if b.K != "table" {
			continue
		}
		rule := true
		for _, x := range ParseMD(simpleTableText(Blk{Kind: "table", Cells: b.Cells, HdrBold: b.HdrBold})) {
			rule = rule && x.Kind == "other"
		}
		if !rule {
			continue
		}
		near := func(step int) bool {
			for j := i + step; j >= 0 && j < len(c.Blocks); j += step {
				if c.Blocks[j].K == "code" {
					return true
				}
				if visible(c.Blocks[j]) {
					return false
				}
			}
			return false
		}
		if near(-1) && near(1) {
			return true
		}
	}
	return false
}

var (
	reBlankRun  = regexp.MustCompile(`\n{3,}`)
	// any spelling of a GFM delimiter row (the masks must not depend on how the exporter spells it)
	reSeparator = regexp.MustCompile(`^\|[ \t]*:?-+:?[ \t]*(\|[ \t]*:?-+:?[ \t]*)*\|?[ \t]*$`)
)

func normBlankLines(md string) string {
	return reBlankRun.ReplaceAllString(strings.TrimLeft(md, "\n"), "\n\n")
}

// normFrontMatter removes the front matter block and, from a second export, what its re-import left behind:
// the blank line of the thematic-break paragraph and the level-2 heading 'title: "Document"' (ATX or setext,
// with the emphasis of the heading style).
var reFrontHeading = regexp.MustCompile("^(## [*_]{0,3}title: \"Document\"[*_]{0,3}|[*_]{0,3}title: \"Document\"[*_]{0,3}\\n-+)\\n*")

func normFrontMatter(_ Case, md string) string {
	rest, ok := stripFrontMatter(md)
	if !ok {
		return md
	}
	return reFrontHeading.ReplaceAllString(strings.TrimLeft(rest, "\n"), "")
}

// normHeaderRows removes "**" from the row above a GFM separator row.
func normHeaderRows(md string) string {
	lines := strings.Split(md, "\n")
	for i := 0; i+1 < len(lines); i++ {
		if reSeparator.MatchString(lines[i+1]) && strings.HasPrefix(lines[i], "|") {
			lines[i] = strings.ReplaceAll(lines[i], "**", "")
		}
	}
	return strings.Join(lines, "\n")
}

// normDeepHeadings removes emphasis delimiters from level-6 ATX heading lines.
func normDeepHeadings(md string) string {
	lines := strings.Split(md, "\n")
	for i, l := range lines {
		if strings.HasPrefix(l, "###### ") {
			lines[i] = stripChars(l, "*_")
		}
	}
	return strings.Join(lines, "\n")
}

func stripChars(s, set string) string {
	return strings.Map(func(r rune) rune {
		if strings.ContainsRune(set, r) {
			return -1
		}
		return r
	}, s)
}

// ---------------------------------------------------------------------------------------------
// predicates on the case

func hasKind(c Case, k string) bool {
	for _, b := range c.Blocks {
		if b.K == k {
			return true
		}
	}
	return false
}

func visible(b Block) bool { return b.K == "table" || !blank(b.text()) }

// Heading7 and Heading9 carry no bold/italic in the default styles, Heading6 (what they come back as) is italic.
func hasDeepHeading(c Case) bool {
	for _, b := range c.Blocks {
		if b.K == "h" && (b.Level == 7 || b.Level == 9) && !blank(b.T) {
			return true
		}
	}
	return false
}

// a table precedes a later block with visible text that is not a table
func tableBeforeLaterBlock(c Case) bool {
	seenT := false
	for _, b := range c.Blocks {
		if b.K == "table" {
			seenT = true
		} else if seenT && visible(b) {
			return true
		}
	}
	return false
}

// syntaxInline: s contains a character Markdown gives inline meaning to, or a token that opens a block
// when it starts a line (the exporter can put any token at a line start when it wraps).
func syntaxInline(s string) bool {
	if strings.ContainsAny(s, "\\`*_~[]<>&$|!") {
		return true
	}
	for _, tok := range strings.Fields(s) {
		switch tok[0] {
		case '#', '-', '+', '=', ':':
			return true
		}
		i := 0
		for i < len(tok) && tok[i] >= '0' && tok[i] <= '9' {
			i++
		}
		if i > 0 && i < len(tok) && (tok[i] == '.' || tok[i] == ')') {
			return true
		}
		if strings.HasPrefix(tok, "http:") || strings.HasPrefix(tok, "https:") || strings.HasPrefix(tok, "www.") || strings.Contains(tok, "@") {
			return true
		}
	}
	return false
}

func edgeBlank(s string) bool {
	if s == "" {
		return false
	}
	r := []rune(s)
	return unicode.IsSpace(r[0]) || unicode.IsSpace(r[len(r)-1])
}

func hasEdgeBlankFormatted(c Case) bool {
	for _, b := range c.Blocks {
		switch b.K {
		case "h":
			if edgeBlank(b.T) && !blank(b.T) {
				return true
			}
		case "p":
			for _, r := range b.Runs {
				if r.mask() != 0 && edgeBlank(r.T) {
					return true
				}
			}
		}
	}
	return false
}

// ---------------------------------------------------------------------------------------------
// KF-C20-delimiter-context: what is left of it after the merge-runs repair.
//
// The exporter writes a formatted run as lead blanks + opening delimiters + text + closing delimiters + trail
// blanks ('~~' outermost, then '*'/'**'/'***' or '_', a backtick string innermost) and looks at the
// neighbouring run only to (1) merge runs of equal format and (2) avoid an intraword '_'. Whether CommonMark
// reads a delimiter run as opening/closing depends on the characters on both sides of it (flanking rules), so
// what is still not read as written is exactly:
//
//	(a) an outermost opening delimiter run that is followed by punctuation - the run's own text begins with
//	    punctuation (escaped or not), or the next thing is an inner delimiter ('~~**x', '**`x') - and preceded
//	    by a letter or digit of the neighbouring plain run: it is not left-flanking; the mirror image for the
//	    closing delimiter run ('**x.**y', '~~**x**~~y', '**`x`**y');
//	(b) two touching formatted runs of different format whose outermost delimiters use the same character:
//	    '~~' + '~~' is a run of four tildes (never strike-through), '*' runs fuse into one run that has to close
//	    and to open at once, which it cannot when exactly one of its two sides is punctuation ('**a****`b`**');
//	    they also fail when both runs have the same emphasis and differ in the code font only ('**a.****`b`**':
//	    CommonMark's multiple-of-3 rule);
//	(c) a bold-italic run between a touching bold and a touching italic run, all with '*' delimiters
//	    ('**a*****b****c*'): the two fused runs are not matched pairwise although each pair alone parses (every
//	    other chain of up to five touching bold/italic runs parses: TestEnumStars);
//	(d) a '~~' that directly follows a tilde of the text ('x\~~~a~~', '~~a\~~~'): goldmark - the reference reader and
//	    the parser inside the library's own converter - does not open or close strike-through after a '~', escaped
//	    or not, so neither the reading nor the round trip gives the text back.
//
//	(e) delimiters inside a word that is read as an autolink (autolinkContext below).
//
// The model below reproduces the documented merging and decides (a)-(e) from the case alone; it was validated
// against exhaustive enumerations (TestEnumChains: 71 318 chains of up to 4 runs, TestEnumEdges: 91 608 cases with
// punctuation at run edges and junctions - no failing case outside the predicate, none inside it passing in
// TestEnumEdges, 178 chains inside it that happen to read as intended in TestEnumChains).
type mrun struct {
	mask              int
	lead, core, trail string
}

// mergedRuns: the runs of a paragraph as the exporter sees them after its documented merging - runs without
// text are skipped, blank-only runs join their neighbour, neighbours of equal format become one run.
func mergedRuns(b Block) []mrun {
	var rs []Run
	for _, r := range b.Runs {
		if r.T == "" {
			continue
		}
		if n := len(rs); n > 0 {
			if blank(r.T) || rs[n-1].mask() == r.mask() {
				rs[n-1].T += r.T
				continue
			}
			if blank(rs[n-1].T) {
				r.T = rs[n-1].T + r.T
				rs = rs[:n-1]
			}
		}
		rs = append(rs, r)
	}
	out := make([]mrun, len(rs))
	for i, r := range rs {
		core := strings.TrimSpace(r.T)
		m := mrun{mask: r.mask(), core: core}
		if core == "" {
			m.lead = r.T
		} else {
			k := strings.Index(r.T, core)
			m.lead, m.trail = r.T[:k], r.T[k+len(core):]
		}
		out[i] = m
	}
	return out
}

func cmPunct(r rune) bool { return unicode.IsPunct(r) || unicode.IsSymbol(r) }
func cmWord(r rune) bool  { return !unicode.IsSpace(r) && !cmPunct(r) }

// emphasised: the run gets emphasis or strike delimiters (a code-font-only run gets backticks, which bind on their own)
func (m mrun) emphasised() bool { return m.core != "" && m.mask&(mB|mI|mS) != 0 }

// outerAt: the character of the outermost delimiter run of run i. An italic-only run is written with the
// configured marker, but with '*' where a '_' would touch a letter or digit of a plain neighbour.
func outerAt(rs []mrun, i int, emph string) byte {
	m := rs[i]
	switch {
	case m.mask&mS != 0:
		return '~'
	case m.mask&mB == 0 && emph == "_":
		if i > 0 && m.lead == "" && rs[i-1].mask == 0 && rs[i-1].trail == "" && rs[i-1].core != "" && cmWord(rs[i-1].innerLast()) {
			return '*'
		}
		if i+1 < len(rs) && m.trail == "" && rs[i+1].mask == 0 && rs[i+1].lead == "" && rs[i+1].core != "" && cmWord(rs[i+1].innerFirst()) {
			return '*'
		}
		return '_'
	}
	return '*'
}

// innerFirst/innerLast: the character right after the run's outermost opening delimiter run / right before its
// outermost closing one: an inner delimiter or a backtick (punctuation), else the edge character of the text.
func (m mrun) innerFirst() rune {
	if (m.mask&mS != 0 && m.mask&(mB|mI) != 0) || m.mask&mC != 0 {
		return '*'
	}
	r, _ := utf8.DecodeRuneInString(m.core)
	return r
}

func (m mrun) innerLast() rune {
	if (m.mask&mS != 0 && m.mask&(mB|mI) != 0) || m.mask&mC != 0 {
		return '*'
	}
	r, _ := utf8.DecodeLastRuneInString(m.core)
	return r
}

func hasDelimiterContext(c Case) bool {
	for _, b := range c.Blocks {
		if b.K != "p" {
			continue
		}
		if rs := mergedRuns(b); delimiterContext(rs, c.O.Emph) || autolinkContext(rs, c.O.Emph) {
			return true
		}
	}
	return false
}

// (e) delimiters inside a word that GFM reads as an autolink. The paragraph is laid out with marker runes in the
// place of the delimiters ('*' U+E001, '~' U+E002, backtick U+E003, '_' U+E004); every word is then written out the
// way the exporter does (delimiter characters for the markers, a backslash before the characters it escapes,
// code span content raw) and handed to goldmark's own autolink recognisers (the reference reader's and the
// converter's parser): a URL ('http://', 'https://', 'ftp://', 'www.') that starts outside a code span runs on
// through '~', '_' and - once it has a path - backtick characters, an e-mail address takes everything from a word
// start (also after '(' or one of '*', '_', '~') up to the '@' as its local part; if the recognised link covers a
// delimiter, that delimiter is link text ('http://a.b/c~~x~~' is the link 'http://a.b/c~~x' and a literal '~~',
// 'x**a@b.co**y' the link 'x**a@b.co' and a literal '**y').
var (
	// the patterns of goldmark v1.7.8 extension/linkify.go
	gmWWW = regexp.MustCompile(`^www\.[-a-zA-Z0-9@:%._\+~#=]{1,256}\.[a-z]+(?:[/#?][-a-zA-Z0-9@:%_\+.~#!?&/=\(\);,'">\^{}\[\]` + "`" + `]*)?`)
	gmURL = regexp.MustCompile(`^(?:http|https|ftp)://[-a-zA-Z0-9@:%._\+~#=]{1,256}\.[a-z]+(?::\d+)?(?:[/#?][-a-zA-Z0-9@:%_+.~#$!?&/=\(\);,'">\^{}\[\]` + "`" + `]*)?`)
)

// autolinkText: the paragraph written out from its marker layout, with a flag for the bytes that are delimiters
// and one for the bytes inside a code span.
func autolinkText(layout []rune) (out []byte, delim, code []bool) {
	inCode := false
	put := func(s string, d bool) {
		for i := 0; i < len(s); i++ {
			out = append(out, s[i])
			delim = append(delim, d)
			code = append(code, inCode)
		}
	}
	for i, r := range layout {
		switch {
		case r == 0xE001:
			put("*", true)
		case r == 0xE002:
			put("~", true)
		case r == 0xE004:
			put("_", true)
		case r == 0xE003:
			put("`", true)
			inCode = !inCode
		case unicode.IsSpace(r):
			put(" ", false)
		case !inCode && strings.ContainsRune("\\`*_[]<~|$", r):
			put("\\"+string(r), false)
		case !inCode && r == '&' && i+1 < len(layout) && layout[i+1] < 128 && (layout[i+1] == '#' || unicode.IsLetter(layout[i+1]) || unicode.IsDigit(layout[i+1])):
			put("\\&", false)
		default:
			put(string(r), false)
		}
	}
	return
}

// autolinkSwallows: a link goldmark recognises in the written-out paragraph covers a delimiter byte.
func autolinkSwallows(out []byte, delim, code []bool) bool {
	covers := func(from, to int) bool {
		for to > from+1 && strings.IndexByte("?!.,:*_~", out[to-1]) >= 0 { // trailing punctuation is not part of a link
			to--
		}
		for k := from; k < to; k++ {
			if delim[k] {
				return true
			}
		}
		return false
	}
	wordEnd := func(i int) int {
		for i < len(out) && out[i] != ' ' {
			i++
		}
		return i
	}
	for i := range out {
		if code[i] || delim[i] || out[i] == ' ' {
			continue
		}
		rest := out[i:wordEnd(i)]
		var m []int
		switch {
		case bytes.HasPrefix(rest, []byte("http:")), bytes.HasPrefix(rest, []byte("https:")), bytes.HasPrefix(rest, []byte("ftp:")):
			m = gmURL.FindIndex(rest)
		case bytes.HasPrefix(rest, []byte("www.")):
			m = gmWWW.FindIndex(rest)
		}
		if m == nil {
			continue
		}
		end := m[1]
		switch rest[end-1] { // as linkify.go trims the match
		case '.':
			end--
		case ')':
			closing := 0
			for k := end - 1; k >= 0; k-- {
				if rest[k] == ')' {
					closing++
				} else if rest[k] == '(' {
					closing--
				}
			}
			if closing > 0 {
				end -= closing
			}
		}
		if covers(i, i+end) {
			return true
		}
	}
	for s := range out {
		// a word start: the first byte, after a blank, after '(' or a delimiter character, and - the reader looks at
		// the position after any finished inline node as it does at a line start - after the closing backticks of a code span
		if out[s] == ' ' || (s > 0 && strings.IndexByte(" (*_~", out[s-1]) < 0 && !(delim[s-1] && out[s-1] == '`')) || util.IsPunct(out[s]) {
			continue
		}
		line := out[s:wordEnd(s)]
		stop := util.FindEmailIndex(line)
		if stop <= 0 {
			continue
		}
		at := bytes.IndexByte(line, '@')
		if at < 0 || at >= stop || bytes.IndexByte(line[at:stop-1], '.') < 0 {
			continue
		}
		if line[stop-1] == '.' {
			stop--
		}
		if stop < len(line) && (line[stop] == '-' || line[stop] == '_') {
			continue
		}
		if covers(s, s+stop) {
			return true
		}
	}
	return false
}

func autolinkContext(rs []mrun, emph string) bool {
	var layout []rune
	any := false
	for i, r := range rs {
		layout = append(layout, []rune(r.lead)...)
		if r.core != "" {
			var open []rune
			if r.mask&mS != 0 {
				open = append(open, 0xE002)
			}
			if r.mask&(mB|mI) != 0 {
				d := rune(0xE001)
				if r.mask&mS == 0 && outerAt(rs, i, emph) == '_' || r.mask&mS != 0 && r.mask&mB == 0 && emph == "_" {
					d = 0xE004
				}
				open = append(open, d)
			}
			if r.mask&mC != 0 {
				open = append(open, 0xE003)
			}
			any = any || len(open) > 0
			layout = append(layout, open...)
			layout = append(layout, []rune(r.core)...)
			for k := len(open) - 1; k >= 0; k-- {
				layout = append(layout, open[k])
			}
		}
		layout = append(layout, []rune(r.trail)...)
	}
	if !any {
		return false
	}
	return autolinkSwallows(autolinkText(layout))
}

func delimiterContext(rs []mrun, emph string) bool {
	for i, r := range rs {
		if !r.emphasised() {
			continue
		}
		outer := outerAt(rs, i, emph)
		touchPrev := i > 0 && r.lead == "" && rs[i-1].trail == "" && rs[i-1].core != ""
		touchNext := i+1 < len(rs) && r.trail == "" && rs[i+1].lead == "" && rs[i+1].core != ""
		if outer == '*' && r.mask&(mB|mI) == mB|mI && touchPrev && touchNext {
			p, n := rs[i-1], rs[i+1]
			if p.emphasised() && n.emphasised() && outerAt(rs, i-1, emph) == '*' && outerAt(rs, i+1, emph) == '*' {
				if pe, ne := p.mask&(mB|mI), n.mask&(mB|mI); (pe == mB && ne == mI) || (pe == mI && ne == mB) {
					return true // (c)
				}
			}
		}
		if outer == '~' && r.mask == mS && strings.HasSuffix(r.core, "~") {
			return true // (d) the closing '~~' follows an (escaped) tilde of the run's own text
		}
		if touchPrev {
			p := rs[i-1]
			switch {
			case !p.emphasised():
				// a plain or code-font-only neighbour: its edge character (a backtick is punctuation)
				before := p.innerLast()
				if cmWord(before) && cmPunct(r.innerFirst()) {
					return true // (a)
				}
				if outer == '~' && before == '~' {
					return true // (d)
				}
			case outerAt(rs, i-1, emph) == outer:
				if outer != '*' {
					return true // (b) four tildes ('_' + '_': an italic run and an italic code-font run)
				}
				if p.mask&(mB|mI) == r.mask&(mB|mI) || cmPunct(p.innerLast()) != cmPunct(r.innerFirst()) {
					return true // (b) the fused run cannot both close and open
				}
			}
		}
		if touchNext {
			n := rs[i+1]
			if !n.emphasised() {
				after := n.innerFirst()
				if cmWord(after) && cmPunct(r.innerLast()) {
					return true // (a)
				}
			}
		}
	}
	return false
}

// hasWrappedCodeSpan: wrapping is on, a normal paragraph can be longer than the limit (upper bound: every
// character escaped, ten bytes of delimiters per run) and one of its code-font runs has, after a blank, a word
// that means something at a line start - or contains '“', so that the span is delimited by '```', which is
// written as a word of its own.
func hasWrappedCodeSpan(c Case) bool {
	if !c.O.Wrap {
		return false
	}
	for _, b := range c.Blocks {
		if b.K != "p" {
			continue
		}
		n := 0
		for _, r := range b.Runs {
			n += 2*len(r.T) + 10
		}
		if n <= c.O.MaxLen {
			continue
		}
		for _, r := range mergedRuns(b) {
			if r.mask&mC == 0 {
				continue
			}
			if strings.Contains(r.core, "``") {
				return true
			}
			padded := strings.Contains(r.core, "`") // written as "`` text ``": the first word follows a blank as well
			for i, w := range strings.Fields(r.core) {
				if (i > 0 || padded) && lineStartSyntax(w) {
					return true
				}
			}
		}
	}
	return false
}

// lineStartSyntax: the word can begin a block when it is the first of a line: ATX '#', quote '>', list markers and
// thematic breaks and setext underlines '-', '+', '*', '_', '=', ordered markers, fences '`' '~', HTML '<', table
// delimiter rows '|' ':', and '$' (the converter reads a '$$' line as the start of a formula).
func lineStartSyntax(w string) bool {
	if strings.ContainsRune("#>-+*_=`~<|:$", rune(w[0])) {
		return true
	}
	i := 0
	for i < len(w) && w[i] >= '0' && w[i] <= '9' {
		i++
	}
	return i > 0 && i < len(w) && (w[i] == '.' || w[i] == ')')
}

// hasListThenInvisible: a list item with visible text is followed by a block of another kind without visible text, and
// the next block with visible text is a list item again, or there is none.
func hasListThenInvisible(c Case) bool {
	for i, b := range c.Blocks {
		if b.K != "li" || !visible(b) {
			continue
		}
		other := false
		j := i + 1
		for ; j < len(c.Blocks) && !visible(c.Blocks[j]); j++ {
			other = other || c.Blocks[j].K != "li"
		}
		if other && (j == len(c.Blocks) || c.Blocks[j].K == "li") {
			return true
		}
	}
	return false
}

// normItemGaps removes the empty lines between two item lines and after the last item line of the text.
func normItemGaps(c Case, md string) string {
	item := func(l string) bool { return strings.HasPrefix(l, c.O.Bullet+" ") || strings.HasPrefix(l, "1. ") }
	lines := strings.Split(md, "\n")
	var out []string
	for i, l := range lines {
		if l == "" && len(out) > 0 && item(out[len(out)-1]) {
			j := i
			for j < len(lines) && lines[j] == "" {
				j++
			}
			if j == len(lines) || item(lines[j]) {
				continue
			}
		}
		out = append(out, l)
	}
	return strings.Join(out, "\n")
}

func hasEmptyParagraph(c Case) bool {
	for _, b := range c.Blocks {
		if b.K == "empty" || (b.K == "p" && blank(b.paraText())) {
			return true
		}
	}
	return false
}

func hasPlainHeader(c Case) bool {
	if !c.O.GFM {
		return false
	}
	for _, b := range c.Blocks {
		if b.K == "table" && !b.HdrBold {
			for _, cell := range b.Cells[0] {
				if !blank(cell) {
					return true
				}
			}
		}
	}
	return false
}

// ---------------------------------------------------------------------------------------------
// KF-C20-line-end: line ends inside run text.

var reBlankLine = regexp.MustCompile(`\n[ \t\r]*\n`)

// hasLineEnd: a line feed (alone or after a carriage return). A carriage return alone is no line end for goldmark -
// the reference reader and the parser inside the library's converter -, although CommonMark names it as one.
func hasLineEnd(s string) bool { return strings.Contains(s, "\n") }

// inlineText: the text of a block as the exporter writes it on the block's line(s): a heading and a normal paragraph
// without the blanks at its edges, an item and a quote as they are.
func inlineText(b Block) string {
	switch b.K {
	case "h":
		return strings.TrimSpace(b.T)
	case "p":
		return strings.TrimSpace(b.paraText())
	case "li", "q":
		if blank(b.T) {
			return ""
		}
		return b.T
	}
	return ""
}

// brokenByLineEnd: a line end at a place where it ends the block: inside an ATX heading; as a blank line (two line
// ends with only blanks in between) inside a heading, paragraph, item or quote (the quote stays one quote, of two
// paragraphs, which the importer glues together); in an item also before the first visible character (nothing may
// follow the marker's line but indented text).
func brokenByLineEnd(c Case) bool {
	for _, b := range c.Blocks {
		s := inlineText(b)
		if !hasLineEnd(s) {
			continue
		}
		switch b.K {
		case "h":
			if !(c.O.Setext && b.Level <= 2) {
				return true
			}
		case "li":
			if hasLineEnd(s[:len(s)-len(strings.TrimLeftFunc(s, unicode.IsSpace))]) {
				return true
			}
			s = strings.TrimRightFunc(s, unicode.IsSpace) + "\n" // the item's own line end
		case "q":
			s = strings.TrimSpace(s)
		case "p":
			if codeSpanBrokenByLineEnd(b) {
				return true
			}
		}
		if reBlankLine.MatchString(s) {
			return true
		}
	}
	return false
}

// codeSpanBrokenByLineEnd: a code-font run (as merged by the exporter) with a line feed inside, whose content cannot
// be escaped: the span is delimited by three or more backticks (it contains two backticks in a row), so that its first line reads as
// the opening of a fenced code block when it starts a line; or a line after the first starts with block syntax.
func codeSpanBrokenByLineEnd(b Block) bool {
	for _, r := range mergedRuns(b) {
		if r.mask&mC == 0 || !hasLineEnd(r.core) {
			continue
		}
		if strings.Contains(r.core, "``") {
			return true
		}
		for i, line := range strings.Split(r.core, "\n") {
			if ws := strings.Fields(line); i > 0 && len(ws) > 0 && lineStartSyntax(ws[0]) {
				return true
			}
		}
	}
	return false
}

// hasSurvivingLineEnd: some line end of the text reaches the Markdown.
func hasSurvivingLineEnd(c Case) bool {
	for _, b := range c.Blocks {
		switch b.K {
		case "table":
			for _, row := range b.Cells {
				for _, cell := range row {
					if strings.Contains(strings.TrimSpace(cell), "\r\n") {
						return true // only the line feed becomes a blank
					}
				}
			}
		case "code":
			if (hasLineEnd(b.T) || strings.HasSuffix(b.T, "\r")) && !blank(b.T) {
				return true
			}
		default:
			// a carriage return among the blanks at the end of an item or quote forms a CR LF with the line feed the exporter ends the line with
			if s := inlineText(b); hasLineEnd(s) || ((b.K == "li" || b.K == "q") && strings.Contains(s[len(strings.TrimRightFunc(s, unicode.IsSpace)):], "\r")) {
				return true
			}
		}
	}
	return false
}

// ---------------------------------------------------------------------------------------------
// documents written by another producer

func isForeign(c Case) bool { return c.W != nil && c.W.Src == "foreign" }

// hasStyleOnlyHeading: a visible heading of a foreign document (the foreign writer gives heading runs no bold/italic).
func hasStyleOnlyHeading(c Case) bool {
	if !isForeign(c) {
		return false
	}
	for _, b := range c.Blocks {
		if b.K == "h" && !blank(b.T) {
			return true
		}
	}
	return false
}

// hasOffToggle: a run with visible text carries an explicit "off" value for a format it does not have.
func hasOffToggle(c Case) bool {
	if !isForeign(c) {
		return false
	}
	for _, b := range c.Blocks {
		if b.K != "p" && b.K != "table" && b.Off != 0 && !blank(b.T) {
			return true
		}
		for _, r := range b.Runs {
			if r.Off&^r.mask() != 0 && !blank(r.T) {
				return true
			}
		}
	}
	return false
}

func hasNumIDZero(c Case) bool {
	if !isForeign(c) {
		return false
	}
	for _, b := range c.Blocks {
		if b.K == "p" && b.NoNum && !blank(b.paraText()) {
			return true
		}
	}
	return false
}

var (
	reATXLine    = regexp.MustCompile(`^#{1,6} `)
	reSetextLine = regexp.MustCompile(`^(=+|-+)$`)
)

// normHeadingEmphasis removes emphasis delimiters from heading lines (ATX lines and the line above a setext underline,
// whose length is normalised).
func normHeadingEmphasis(md string) string {
	lines := strings.Split(md, "\n")
	for i, l := range lines {
		switch {
		case reATXLine.MatchString(l):
			lines[i] = stripChars(l, "*_")
		case reSetextLine.MatchString(l):
			// an underline is as long as the heading text with its delimiters (both exports are treated alike, so
			// lines that only look like an underline do no harm)
			lines[i] = l[:1]
			if i > 0 {
				lines[i-1] = stripChars(lines[i-1], "*_")
			}
		}
	}
	return strings.Join(lines, "\n")
}

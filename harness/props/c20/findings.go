package c20

import (
	"regexp"
	"strings"
	"sync"
	"unicode"

	"wzverif/internal/kit"
)

// Two kinds of masks.
//
//   - class part: the defect destroys the structure of the Markdown for a whole input class (hostile text,
//     delimiter placement, lazy list continuation ...). A failure of one of the listed clauses on a case of
//     the class is attributed wholesale.
//   - exact part: the defect has one predictable effect on otherwise well-behaved documents (tables come
//     last, a list item comes back as a "• " paragraph, the first table row comes back bold ...). run()
//     applies the predicted effect of the open findings whose class the case is in and compares again; only
//     if the observation equals the prediction exactly is the failure tagged with the finding's id, and only
//     a tagged failure is attributed. Any other deviation in such a case stays a violation.
type part struct {
	clauses string // space separated clause ids
	pred    func(c Case) bool
	exact   bool
}

type kf struct {
	id    string
	desc  string
	parts []part
}

const (
	idOrder        = "KF-C20-order"
	idNoEscape     = "KF-C20-no-escape"
	idEscapeRT     = "KF-C20-escape-roundtrip"
	idEdgeBlank    = "KF-C20-edge-blank"
	idDelimContext = "KF-C20-delimiter-context"
	idCodeCombined = "KF-C20-code-combined"
	idListNoBlank  = "KF-C20-list-no-blank"
	idSimpleTable  = "KF-C20-simple-table"
	idMetadata     = "KF-C20-metadata"
	idListReimport = "KF-C20-list-reimport"
	idCodeNewline  = "KF-C20-codeblock-newline"
	idEmptyPara    = "KF-C20-empty-paragraph"
	idTableHeader  = "KF-C20-table-header"
	idFlatten      = "KF-C20-reimport-flatten"
	idHeadingDeep  = "KF-C20-heading-deep"
)

const allE = "C20.E1 C20.E2 C20.E3 C20.E4 C20.E5"

var kfs = []kf{
	{idNoEscape, "exporter: formatRunText/extractCellText write run text without escaping (writer.go:333): text containing Markdown syntax ('a*b*c', '[a](b)', '&amp;', '<b>', '`', '|' in a cell, '#'/'-'/'1.' at a line start) is read as markup: text lost or invented, block kinds change",
		[]part{{"C20.E1 C20.E2 C20.E3", hasSyntaxText, false}}},
	{idEscapeRT, "round trip of text containing Markdown syntax: export -> ConvertString does not give the text back; today because the exporter does not escape (KF-C20-no-escape), and escaping alone cannot repair it because the importer copies backslash escapes and entities raw (KF-C19-escape-raw) and drops autolinks/inline HTML",
		[]part{{"C20.E4 C20.E5", hasSyntaxText, false}}},
	{idDelimContext, "exporter: each run is wrapped in delimiters without regard to the neighbouring run: delimiters of touching formatted runs fuse ('**a****b**' reads 'a****b'), '_' italic next to a letter or digit ('x_a_y') and the outer '~~' of '~~**x**~~' next to a letter or digit are not delimiter runs by the flanking rules and stay literal",
		[]part{{allE, hasDelimiterContext, false}}},
	{idSimpleTable, "exporter: with UseGFMTables off a table is written as lines 'a | b' with '**' around the first (writeSimpleTable), which is not a Markdown table: it reads (and comes back) as paragraph text - one paragraph 'a | b c | d' for a full table, split at rows of empty cells, with literal '**' when the first row begins or ends with an empty cell; already bold header cells give '****a** | **b****'",
		[]part{{allE, hasSimpleTable, true}}},
	{idMetadata, "IncludeMetadata writes a '---' front matter block that the library's own converter (no front matter support) reads back as a thematic break and a setext heading 'title: \"Document\"': the round trip gains a heading, the second export differs",
		[]part{{"C20.E4 C20.E5", func(c Case) bool { return c.O.Meta }, true}}},
	{idListReimport, "importer (renderer.go:261-268): a list item is converted to a normal paragraph with a literal '• ' prepended (no numbering properties): list items do not survive the round trip, the second export has '• a' paragraphs instead of '- a' items",
		[]part{{"C20.E4 C20.E5", hasVisibleListItem, true}}},
	{idCodeNewline, "importer (renderer.go:309-317, D56): each code line keeps its line terminator in the run text of the CodeBlock paragraph: the second export has an extra empty line before the closing fence",
		[]part{{"C20.E5", hasVisibleCode, true}}},
	{idEmptyPara, "exporter: a paragraph without visible text is written as a bare newline (writer.go:220-222), which Markdown cannot carry back: the second export lacks the extra blank lines",
		[]part{{"C20.E5", hasEmptyParagraph, true}}},
	{idTableHeader, "round trip makes the first table row bold (importer renderer.go:449 gives header cells emphasis 2, exporter writes bold header cells as '**a**'): a table whose first row is not bold re-exports with '**' around its header cells",
		[]part{{"C20.E5", hasPlainHeader, true}}},
	{idFlatten, "importer flattens the content of emphasis/strong/strike spans (KF-C19-nested-inline, renderer.go:173-211 extractTextContent): of '***x***' / '~~**x**~~' (and of '**`x`**' once the exporter nests code spans properly) only the outer flag survives (second export has fewer delimiters), and the soft line break that WrapLongLines puts inside a formatted run is dropped (words glued)",
		[]part{{"C20.E5", hasNestedInline, true}, {"C20.E4 C20.E5", hasWrappedFormatted, false}}},
	{idHeadingDeep, "Heading7-9 are exported at level 6 (Markdown has no deeper level) and come back as Heading6, whose style formatting (italic) differs from Heading7/Heading9 (none) and is exported as emphasis: the second export has '###### *x*' for '###### x'",
		[]part{{"C20.E5", hasDeepHeading, true}}},
}

func kfByID(id string) *kf {
	for i := range kfs {
		if kfs[i].id == id {
			return &kfs[i]
		}
	}
	return nil
}

func hasClause(list, clause string) bool { return strings.Contains(" "+list+" ", " "+clause+" ") }

const tagOpen = "[exactly the known effect of "

// effectTag marks a failure detail as fully explained by the given findings (first = the one it is attributed to).
func effectTag(ids []string) string { return tagOpen + strings.Join(ids, " + ") + "] " }

func tagFirst(detail string) string {
	if !strings.HasPrefix(detail, tagOpen) {
		return ""
	}
	rest := detail[len(tagOpen):]
	if i := strings.IndexAny(rest, " ]"); i >= 0 {
		return rest[:i]
	}
	return ""
}

func (k kf) attributes(c Case, f kit.Failure) bool {
	for _, p := range k.parts {
		if !hasClause(p.clauses, f.Clause) || !p.pred(c) {
			continue
		}
		// a failure that run() could explain exactly belongs to the finding named first in its tag, and to no class
		if t := tagFirst(f.Detail); (p.exact && t == k.id) || (!p.exact && t == "") {
			return true
		}
	}
	return false
}

var findings = func() []kit.Finding[Case] {
	var out []kit.Finding[Case]
	for _, k := range kfs {
		k := k
		out = append(out, kit.Finding[Case]{ID: k.id, Clause: "C20.E", Desc: k.desc,
			Trigger: func(c Case, f kit.Failure) bool { return k.attributes(c, f) }})
	}
	return out
}()

// triggered lists the finding classes the case falls into (whether or not the finding is open);
// class = those with a class part, exact = those with an exact part only.
func triggered(c Case) (class, exact []string) {
	for _, k := range kfs {
		cl, ex := false, false
		for _, p := range k.parts {
			if p.pred(c) {
				if p.exact {
					ex = true
				} else {
					cl = true
				}
			}
		}
		if cl {
			class = append(class, k.id)
		} else if ex {
			exact = append(exact, k.id)
		}
	}
	return
}

var (
	openOnce sync.Once
	openIDs  map[string]bool
)

func isOpen(id string) bool {
	openOnce.Do(func() { openIDs = kit.OpenFindings("C20") })
	return openIDs[id]
}

// ---------------------------------------------------------------------------------------------
// predicted effects of the exact findings

type effect struct {
	id     string
	active func(c Case) bool
	seq1   func(bs []Blk) []Blk           // E1: reference reading of the Markdown
	seq4   func(bs []Blk) []Blk           // E4: re-imported body
	norm5  func(c Case, md string) string // E5: applied to both exports
	loose5 func(c Case) bool              // E5: the effect also moves line breaks (compare whitespace-insensitively)
}

var effects = []effect{
	{id: idListReimport, active: hasVisibleListItem, seq4: bulletParagraphs, norm5: normBullets,
		loose5: func(c Case) bool { return c.O.Wrap }}, // "• text" is a normal paragraph: it is wrapped, the item was not
	{id: idSimpleTable, active: hasSimpleTable, seq1: simpleTableParagraphs,
		seq4:   func(bs []Blk) []Blk { return dropOther(simpleTableParagraphs(bs)) }, // a thematic break comes back as an empty paragraph
		norm5:  func(_ Case, md string) string { return stripChars(md, "*_") },       // '****a** | **b****' comes back as one bold run
		loose5: func(c Case) bool { return true }},                                   // and the row lines as one line
	{id: idMetadata, active: func(c Case) bool { return c.O.Meta }, norm5: normFrontMatter,
		seq4: func(bs []Blk) []Blk { return append([]Blk{{Kind: "h", Level: 2, Text: `title: "Document"`}}, bs...) }},
	{id: idCodeNewline, active: hasVisibleCode, norm5: func(_ Case, md string) string { return strings.ReplaceAll(md, "\n\n```\n\n", "\n```\n\n") }}, // closing fences only (an opening fence is followed by the code line)
	{id: idEmptyPara, active: hasEmptyParagraph, norm5: func(_ Case, md string) string { return normBlankLines(md) }},
	{id: idTableHeader, active: hasPlainHeader, norm5: func(_ Case, md string) string { return normHeaderRows(md) }},
	{id: idFlatten, active: hasNestedInline, norm5: func(_ Case, md string) string { return stripChars(md, "*_~`") },
		loose5: func(c Case) bool { return c.O.Wrap }}, // fewer delimiter bytes: lines break elsewhere
	{id: idHeadingDeep, active: hasDeepHeading, norm5: func(_ Case, md string) string { return normDeepHeadings(md) }},
}

// explain looks for a smallest set of open, active effects under which `same` holds and returns its tag
// ("" if there is none). Every subset is tried (an effect may be listed open and already be repaired).
func explain(c Case, usable func(e effect) bool, same func(sel []effect) bool) string {
	var cand []effect
	for _, e := range effects {
		if isOpen(e.id) && e.active(c) && usable(e) {
			cand = append(cand, e)
		}
	}
	n := len(cand)
	for size := 1; size <= n; size++ {
		for m := 1; m < 1<<n; m++ {
			if bitsSet(m) != size {
				continue
			}
			var sel []effect
			var ids []string
			for i, e := range cand {
				if m&(1<<i) != 0 {
					sel = append(sel, e)
					ids = append(ids, e.id)
				}
			}
			if same(sel) {
				return effectTag(ids)
			}
		}
	}
	return ""
}

func hasSimpleTable(c Case) bool { return !c.O.GFM && hasKind(c, "table") }

// simpleTableText: the lines the open simple-table finding describes for one table - cells joined with " | ",
// "**" around the first row (bold header cells carry their own "**").
func simpleTableText(b Blk) string {
	var sb strings.Builder
	for i, row := range b.Cells {
		cells := make([]string, len(row))
		for j, c := range row {
			c = strings.TrimSpace(c)
			if i == 0 && b.HdrBold && c != "" {
				c = "**" + c + "**"
			}
			cells[j] = c
		}
		line := strings.Join(cells, " | ")
		if i == 0 {
			line = "**" + line + "**"
		}
		sb.WriteString(line + "\n")
	}
	sb.WriteString("\n")
	return sb.String()
}

// simpleTableParagraphs: every table replaced by what those lines are as a block of their own
// (the reference reading of exactly those lines, standing alone between blank lines).
func simpleTableParagraphs(bs []Blk) []Blk {
	var out []Blk
	for _, b := range bs {
		if b.Kind == "table" {
			out = append(out, ParseMD(simpleTableText(b))...)
		} else {
			out = append(out, b)
		}
	}
	return out
}

func dropOther(bs []Blk) []Blk {
	var out []Blk
	for _, b := range bs {
		if b.Kind != "other" {
			out = append(out, b)
		}
	}
	return out
}

func tablesLast(bs []Blk) []Blk {
	var text, tables []Blk
	for _, b := range bs {
		if b.Kind == "table" {
			tables = append(tables, b)
		} else {
			text = append(text, b)
		}
	}
	return append(text, tables...)
}

func bulletParagraphs(bs []Blk) []Blk {
	out := make([]Blk, len(bs))
	for i, b := range bs {
		if b.Kind == "li" {
			b = Blk{Kind: "p", Text: "• " + b.Text}
		}
		out[i] = b
	}
	return out
}

var (
	reItemLine  = regexp.MustCompile(`(?m)^[-*+] (.*)$`)
	reBlankRun  = regexp.MustCompile(`\n{3,}`)
	reSeparator = regexp.MustCompile(`^\|(-----\|)+$`)
)

// normBullets: "- a" item lines become "• a" paragraphs (a paragraph ends with a blank line).
func normBullets(_ Case, md string) string {
	return normBlankLines(reItemLine.ReplaceAllString(md, "• $1\n"))
}

func normBlankLines(md string) string {
	return reBlankRun.ReplaceAllString(strings.TrimLeft(md, "\n"), "\n\n")
}

// normFrontMatter removes the front matter block and, from a second export, what its re-import left behind:
// the blank line of the thematic-break paragraph and the level-2 heading 'title: "Document"' (ATX or setext,
// with the emphasis of the heading style).
var reFrontHeading = regexp.MustCompile("^(## [*_]{0,3}title: \"Document\"[*_]{0,3}|[*_]{0,3}title: \"Document\"[*_]{0,3}\\n-+)\\n\\n")

func normFrontMatter(_ Case, md string) string {
	rest, ok := stripFrontMatter(md)
	if !ok {
		return md
	}
	return reFrontHeading.ReplaceAllString(strings.TrimLeft(rest, "\n"), "")
}

// normHeaderRows removes "**" from the row above a GFM separator row.
func normHeaderRows(md string) string {
	lines := strings.Split(md, "\n")
	for i := 0; i+1 < len(lines); i++ {
		if reSeparator.MatchString(lines[i+1]) && strings.HasPrefix(lines[i], "|") {
			lines[i] = strings.ReplaceAll(lines[i], "**", "")
		}
	}
	return strings.Join(lines, "\n")
}

// normDeepHeadings removes emphasis delimiters from level-6 ATX heading lines.
func normDeepHeadings(md string) string {
	lines := strings.Split(md, "\n")
	for i, l := range lines {
		if strings.HasPrefix(l, "###### ") {
			lines[i] = stripChars(l, "*_")
		}
	}
	return strings.Join(lines, "\n")
}

func stripChars(s, set string) string {
	return strings.Map(func(r rune) rune {
		if strings.ContainsRune(set, r) {
			return -1
		}
		return r
	}, s)
}

// ---------------------------------------------------------------------------------------------
// predicates on the case

func hasKind(c Case, k string) bool {
	for _, b := range c.Blocks {
		if b.K == k {
			return true
		}
	}
	return false
}

func visible(b Block) bool { return b.K == "table" || !blank(b.text()) }

func hasVisibleListItem(c Case) bool {
	for _, b := range c.Blocks {
		if b.K == "li" && !blank(b.T) {
			return true
		}
	}
	return false
}

func hasVisibleCode(c Case) bool {
	for _, b := range c.Blocks {
		if b.K == "code" && !blank(b.T) {
			return true
		}
	}
	return false
}

// Heading7 and Heading9 carry no bold/italic in the default styles, Heading6 (what they come back as) is italic.
func hasDeepHeading(c Case) bool {
	for _, b := range c.Blocks {
		if b.K == "h" && (b.Level == 7 || b.Level == 9) && !blank(b.T) {
			return true
		}
	}
	return false
}

// a table precedes a later block with visible text that is not a table
func tableBeforeLaterBlock(c Case) bool {
	seenT := false
	for _, b := range c.Blocks {
		if b.K == "table" {
			seenT = true
		} else if seenT && visible(b) {
			return true
		}
	}
	return false
}

// syntaxInline: s contains a character Markdown gives inline meaning to, or a token that opens a block
// when it starts a line (the exporter can put any token at a line start when it wraps).
func syntaxInline(s string) bool {
	if strings.ContainsAny(s, "\\`*_~[]<>&$|!") {
		return true
	}
	for _, tok := range strings.Fields(s) {
		switch tok[0] {
		case '#', '-', '+', '=', ':':
			return true
		}
		i := 0
		for i < len(tok) && tok[i] >= '0' && tok[i] <= '9' {
			i++
		}
		if i > 0 && i < len(tok) && (tok[i] == '.' || tok[i] == ')') {
			return true
		}
		if strings.HasPrefix(tok, "http:") || strings.HasPrefix(tok, "https:") || strings.HasPrefix(tok, "www.") || strings.Contains(tok, "@") {
			return true
		}
	}
	return false
}

func hasSyntaxText(c Case) bool {
	for _, b := range c.Blocks {
		switch b.K {
		case "code":
			if strings.Contains(b.T, "```") || strings.Contains(b.T, "~~~") || strings.ContainsAny(b.T, "\n\r") {
				return true
			}
		case "table":
			for _, r := range b.Cells {
				for _, cell := range r {
					if syntaxInline(cell) || strings.ContainsAny(cell, "\n\r") {
						return true
					}
				}
			}
		case "p":
			for _, r := range b.Runs {
				if syntaxInline(r.T) || strings.ContainsAny(r.T, "\n\r") {
					return true
				}
			}
		case "empty":
		default:
			if syntaxInline(b.T) || strings.ContainsAny(b.T, "\n\r") {
				return true
			}
		}
	}
	return false
}

func edgeBlank(s string) bool {
	if s == "" {
		return false
	}
	r := []rune(s)
	return unicode.IsSpace(r[0]) || unicode.IsSpace(r[len(r)-1])
}

func hasEdgeBlankFormatted(c Case) bool {
	for _, b := range c.Blocks {
		switch b.K {
		case "h":
			if edgeBlank(b.T) && !blank(b.T) {
				return true
			}
		case "p":
			for _, r := range b.Runs {
				if r.mask() != 0 && edgeBlank(r.T) {
					return true
				}
			}
		}
	}
	return false
}

// nonEmptyRuns drops runs without text (the exporter writes nothing for them).
func nonEmptyRuns(b Block) []Run {
	var out []Run
	for _, r := range b.Runs {
		if r.T != "" {
			out = append(out, r)
		}
	}
	return out
}

func wordChar(r rune) bool { return unicode.IsLetter(r) || unicode.IsDigit(r) || unicode.IsMark(r) }

// fuse: the closing delimiter run of r1 and the opening delimiter run of r2 meet and are not read as written:
// backtick runs and '~~' runs simply concatenate (code 'a' + code 'b' gives a double backtick in the middle, '~~a~~~~b~~'), and '**a****b**' / '*a**b*' fall under
// CommonMark's multiple-of-3 rule. (Other touching combinations - '**a***b*', '***a******b***', '**a**~~b~~' -
// parse as written; established by exhaustive enumeration of chains of up to 4 runs, see TestEnumChains.)
func fuse(r1, r2 Run) bool {
	if (r1.C && r2.C) || (r1.S && r2.S) {
		return true
	}
	// equal single emphasis on both sides (a code-font run counts with its emphasis: the backticks are innermost)
	e1, e2 := r1.mask()&(mB|mI), r2.mask()&(mB|mI)
	return !r1.S && !r2.S && e1 == e2 && (e1 == mB || e1 == mI)
}

// hasDelimiterContext: a formatted run whose delimiters are not read as delimiters because of what the
// neighbouring run puts next to them:
// (a) two touching formatted runs whose delimiter runs fuse, or three and more touching bold/italic runs (the
//
//	matching of several fused '*' runs is not pairwise: '**a*****b****c*' fails although both pairs parse),
//
// (b) an italic run written '_a_' touching a non-blank character of a plain neighbour (intraword underscore),
// (c) a strike run that is also bold/italic ('~~**x**~~': '~~' followed by punctuation) touching a letter or digit,
// (d) a code-font run that is also bold/italic/strike touching anything but a blank: today it is in the
//
//	code-combined class anyway; once the backticks are innermost ('**`x`**', proposed_fixes/C20-code-inner.patch)
//	its outer delimiters are followed by punctuation and depend on the neighbour like (c),
//
// (e) an emphasised run whose own text begins or ends with punctuation: whether its delimiters are flanking then
//
//	depends on the neighbour ('**x.**y': the closing '**' is not right-flanking) and on the character itself
//	('~~a \\~\\~~~'). Such text is in the no-escape class today whenever the punctuation is Markdown syntax; the
//	case is listed here because it remains once text is escaped,
//
// (f) a formatted run touching punctuation of a plain neighbour ('\\~\\~~~a~~': an escaped '~' before the '~~'),
// (g) a code-font run containing Markdown syntax (a backtick needs a longer fence; code span content cannot be
//
//	escaped, so wrapping can still move a '#' or a fence to a line start).
//	(e)-(g) cost nothing today - all punctuation the generator knows is Markdown syntax, i.e. no-escape class -
//	and keep the check quiet on the residue of proposed_fixes/C20-escape.patch.
func hasDelimiterContext(c Case) bool {
	for _, b := range c.Blocks {
		if b.K != "p" {
			continue
		}
		rs := nonEmptyRuns(b)
		star := 0 // length of the current chain of touching runs whose outer delimiter is '*' or '_'
		for i, r := range rs {
			if r.mask()&(mB|mI) == 0 || r.S {
				star = 0
			} else if star++; star >= 3 {
				return true // (a)
			}
			if r.mask() == 0 {
				continue
			}
			// the characters the run's own delimiters touch: blank at the paragraph edges, punctuation
			// (a delimiter) where the neighbour is formatted, else the neighbour's edge character
			var prev, next rune = ' ', ' '
			if i > 0 {
				if rs[i-1].mask() != 0 {
					if fuse(rs[i-1], r) {
						return true // (a)
					}
					prev = '*'
				} else {
					p := []rune(rs[i-1].T)
					prev = p[len(p)-1]
				}
			}
			if i+1 < len(rs) {
				if rs[i+1].mask() != 0 {
					next = '*'
				} else {
					next = []rune(rs[i+1].T)[0]
				}
			}
			// the run's own edge blanks are written outside its delimiters
			core := strings.TrimSpace(r.T)
			if core == "" {
				continue // a formatted run of blanks only is written as it is
			}
			if core != r.T {
				all := []rune(r.T)
				if unicode.IsSpace(all[0]) {
					prev = ' '
				}
				if unicode.IsSpace(all[len(all)-1]) {
					next = ' '
				}
			}
			plainTouch := func(x rune) bool { return x != '*' && !unicode.IsSpace(x) }
			if c.O.Emph == "_" && r.I && !r.B && !r.S && (plainTouch(prev) || plainTouch(next)) {
				return true // (b)
			}
			if r.S && (r.B || r.I) && (wordChar(prev) || wordChar(next)) {
				return true // (c)
			}
			if r.C && (r.B || r.I || r.S) && (!unicode.IsSpace(prev) || !unicode.IsSpace(next)) {
				return true // (d)
			}
			rt := []rune(core)
			punct := func(x rune) bool { return !wordChar(x) && !unicode.IsSpace(x) }
			if !r.C && (punct(rt[0]) || punct(rt[len(rt)-1])) {
				return true // (e)
			}
			if (prev != '*' && punct(prev)) || (next != '*' && punct(next)) {
				return true // (f)
			}
			if r.C && syntaxInline(core) {
				return true // (g)
			}
		}
	}
	return false
}

func hasEmptyParagraph(c Case) bool {
	for _, b := range c.Blocks {
		if b.K == "empty" || (b.K == "p" && blank(b.paraText())) {
			return true
		}
	}
	return false
}

func hasPlainHeader(c Case) bool {
	if !c.O.GFM {
		return false
	}
	for _, b := range c.Blocks {
		if b.K == "table" && !b.HdrBold {
			for _, cell := range b.Cells[0] {
				if !blank(cell) {
					return true
				}
			}
		}
	}
	return false
}

// a run with two or more of bold/italic/strike/code-font: written as nested spans
// (a code span nested in emphasis only once the exporter puts the backticks innermost)
func hasNestedInline(c Case) bool {
	for _, b := range c.Blocks {
		if b.K != "p" {
			continue
		}
		for _, r := range b.Runs {
			if r.T != "" && bitsSet(r.mask()) >= 2 {
				return true
			}
		}
	}
	return false
}

// wrapping is on and a paragraph with a formatted run that has an inner blank is longer than the limit
// (text plus the delimiters Markdown needs for its formatted runs, counted in bytes as an upper bound)
func hasWrappedFormatted(c Case) bool {
	if !c.O.Wrap {
		return false
	}
	for _, b := range c.Blocks {
		if b.K != "p" {
			continue
		}
		multi := false
		n := 0
		for _, r := range b.Runs {
			n += len(r.T)
			if r.mask() == 0 || r.T == "" {
				continue
			}
			if len(strings.Fields(r.T)) >= 2 {
				multi = true
			}
			if r.B {
				n += 4
			}
			if r.I {
				n += 2
			}
			if r.S {
				n += 4
			}
			if r.C {
				n += 2
			}
		}
		if multi && n > c.O.MaxLen {
			return true
		}
	}
	return false
}

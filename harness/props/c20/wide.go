package c20

// The widened dimensions of a case: which public entry point performs the export (ExportToString, ExportToBytes,
// ExportToFile, BatchExport, BidirectionalConverter.AutoConvert), where the document comes from (built through the
// API in memory, saved by the library and opened again, or written by another producer: foreign.go), which
// objects are shared between the calls of a case (one Exporter for every export, one Converter for several
// conversions, one options struct), which second document is exported in between, and which option fields that
// cannot concern the document are set.

import (
	"bytes"
	"fmt"
	"io"
	"os"
	"path/filepath"
	"sort"
	"strings"
	"sync"

	"github.com/zerx-lab/wordZero/pkg/document"
	"github.com/zerx-lab/wordZero/pkg/markdown"

	"wzverif/internal/kit"
)

// Extra: option fields whose documented meaning cannot concern a document of the generated domain (no pictures,
// footnotes, bookmarks, links, comments, table of contents, no failing conversion), and the info string of code fences.
type Extra struct {
	Flip      []string `json:"flip,omitempty"` // boolean fields set to the opposite of their default
	Lang      string   `json:"lang,omitempty"` // DefaultCodeLang
	Callbacks bool     `json:"cb,omitempty"`   // ErrorCallback and ProgressCallback set
	ImgDir    bool     `json:"imgdir,omitempty"`
}

var flippable = []string{"PreserveFootnotes", "ExtractImages", "ImageRelativePath", "PreserveBookmarks", "ConvertHyperlinks", "PreserveTOC", "StripComments", "StrictMode", "IgnoreErrors"}

type Wide struct {
	Sink   string  `json:"sink,omitempty"`   // "" ExportToString | bytes | file | batch | auto
	Src    string  `json:"src,omitempty"`    // "" built through the API | saved (ToBytes + OpenFromMemory / Save) | foreign
	F      Foreign `json:"f,omitempty"`      // src foreign
	Shared bool    `json:"shared,omitempty"` // one Exporter (and one options struct) for every judged export of the case
	Batch  []int   `json:"batch,omitempty"`  // sink batch: the other inputs - the document cut after its first n blocks (0: a file that is no document)
	At     int     `json:"at,omitempty"`     // sink batch: position of the full document among the inputs
	Other  []Block `json:"other,omitempty"`  // a second document, exported between the judged exports (history step "otherdoc")
	X      *Extra  `json:"x,omitempty"`
	RT     string  `json:"rt,omitempty"`    // round trip: "" ConvertString | bytes ConvertBytes | file ConvertFile (sink auto: AutoConvert)
	Conv   bool    `json:"conv,omitempty"`  // one Converter converts an unrelated Markdown before and after the round trip conversion
	Names  string  `json:"names,omitempty"` // file name class: "" d1.docx | upper | dots | unicode | space
}

func (c Case) wide() Wide {
	if c.W == nil {
		return Wide{}
	}
	return *c.W
}

func (w Wide) fileSink() bool { return w.Sink == "file" || w.Sink == "batch" || w.Sink == "auto" }

// target: one document of a case, as an object and/or as a file.
type target struct {
	c    Case // the case cut to this document (blocks), same options
	doc  *document.Document
	path string // .docx
	md   string // where its Markdown goes (file sinks)
}

type env struct {
	c        Case
	w        Wide
	dir      string
	exp      *markdown.Exporter      // shared exporter
	opts     *markdown.ExportOptions // shared options struct
	nfile    int
	retained [][]byte // slices ExportToBytes returned
	copies   []string // their content at the time they were returned
	progress []int
	batchOut map[int]string // batch: outputs of the other inputs at the first export
	batchErr string
}

func (e *env) cleanup() {
	if e.dir != "" {
		os.RemoveAll(e.dir)
	}
}

// procScratch: one directory per process (the shared scratch directory is a busy place: every entry created there
// waits for the other builders' processes), the cases' directories live inside it; removed at the end of the test.
var (
	procOnce sync.Once
	procDir  string
)

func procScratch() string {
	procOnce.Do(func() {
		if d, err := os.MkdirTemp(kit.Scratch, "c20-"); err == nil {
			procDir = d
		} else {
			procDir = kit.Scratch
		}
	})
	return procDir
}

func removeProcScratch() {
	if procDir != "" && procDir != kit.Scratch {
		os.RemoveAll(procDir)
	}
}

func (e *env) scratch() (string, error) {
	if e.dir == "" {
		d, err := os.MkdirTemp(procScratch(), "case-")
		if err != nil {
			return "", err
		}
		e.dir = d
	}
	return e.dir, nil
}

func (e *env) fileName(ext string) string {
	e.nfile++
	n := e.nfile
	switch e.w.Names {
	case "upper":
		return fmt.Sprintf("D%d%s", n, strings.ToUpper(ext))
	case "dots":
		return fmt.Sprintf("report.v%d.final%s", n, ext)
	case "unicode":
		return fmt.Sprintf("文档%d é%s", n, ext)
	case "space":
		return fmt.Sprintf("my doc (%d)%s", n, ext)
	}
	return fmt.Sprintf("d%d%s", n, ext)
}

func (e *env) newPath(ext string) (string, error) {
	d, err := e.scratch()
	if err != nil {
		return "", err
	}
	return filepath.Join(d, e.fileName(ext)), nil
}

// ensurePath: the document as a file (saved by the library unless it already is one).
func (e *env) ensurePath(t *target) error {
	if t.path != "" {
		return nil
	}
	p, err := e.newPath(".docx")
	if err != nil {
		return err
	}
	var serr error
	if pv, st := kit.Try(func() { serr = t.doc.Save(p) }); pv != nil {
		return fmt.Errorf("Save panicked: %v [%s]", pv, st)
	}
	if serr != nil {
		return serr
	}
	t.path = p
	return nil
}

func (e *env) ensureMD(t *target) error {
	if t.md != "" {
		return nil
	}
	p, err := e.newPath(".md")
	if err != nil {
		return err
	}
	t.md = p
	return nil
}

func openBytes(b []byte) (*document.Document, error) {
	var d *document.Document
	var err error
	if pv, st := kit.Try(func() { d, err = document.OpenFromMemory(io.NopCloser(bytes.NewReader(b))) }); pv != nil {
		return nil, fmt.Errorf("OpenFromMemory panicked: %v [%s]", pv, st)
	}
	return d, err
}

// makeTarget builds the document of (a cut of) the case the way the case asks for: in memory, saved and reopened,
// or written by the foreign writer; as an object for the in-memory sinks, as a file for the others.
func (e *env) makeTarget(c Case) (*target, error) {
	t := &target{c: c}
	switch e.w.Src {
	case "foreign":
		b := foreignDocx(c.Blocks, e.w.F)
		if e.w.fileSink() {
			p, err := e.newPath(".docx")
			if err != nil {
				return nil, err
			}
			if err := os.WriteFile(p, b, 0o644); err != nil {
				return nil, err
			}
			t.path = p
			return t, nil
		}
		d, err := openBytes(b)
		if err != nil {
			return nil, fmt.Errorf("a package written by another producer is rejected: %v", err)
		}
		t.doc = d
		return t, nil
	}
	var d *document.Document
	var err error
	if pv, _ := kit.Try(func() { d, err = build(c) }); pv != nil || err != nil || d == nil {
		return nil, fmt.Errorf("build: %v %v", pv, err)
	}
	t.doc = d
	if e.w.Src == "saved" && !e.w.fileSink() {
		var b []byte
		if pv, _ := kit.Try(func() { b, err = d.ToBytes() }); pv != nil || err != nil {
			return nil, fmt.Errorf("ToBytes: %v %v", pv, err)
		}
		if t.doc, err = openBytes(b); err != nil {
			return nil, err
		}
	}
	if e.w.fileSink() {
		if err := e.ensurePath(t); err != nil {
			return nil, err
		}
	}
	return t, nil
}

// literalOpts: an options struct written as a literal by the caller (no copy of the defaults): the fields that
// shape the output as the case asks for, every other field at its zero value.
func literalOpts(o Opts) *markdown.ExportOptions {
	return &markdown.ExportOptions{UseGFMTables: o.GFM, UseSetext: o.Setext, BulletListMarker: o.Bullet, EmphasisMarker: o.Emph,
		WrapLongLines: o.Wrap, MaxLineLength: o.MaxLen, IncludeMetadata: o.Meta, PreserveCodeStyle: true}
}

func (e *env) applyExtra(x *markdown.ExportOptions) {
	ex := e.w.X
	if ex == nil {
		return
	}
	for _, f := range ex.Flip {
		switch f {
		case "PreserveFootnotes":
			x.PreserveFootnotes = !x.PreserveFootnotes
		case "ExtractImages":
			x.ExtractImages = !x.ExtractImages
		case "ImageRelativePath":
			x.ImageRelativePath = !x.ImageRelativePath
		case "PreserveBookmarks":
			x.PreserveBookmarks = !x.PreserveBookmarks
		case "ConvertHyperlinks":
			x.ConvertHyperlinks = !x.ConvertHyperlinks
		case "PreserveTOC":
			x.PreserveTOC = !x.PreserveTOC
		case "StripComments":
			x.StripComments = !x.StripComments
		case "StrictMode":
			x.StrictMode = !x.StrictMode
		case "IgnoreErrors":
			x.IgnoreErrors = !x.IgnoreErrors
		}
	}
	x.DefaultCodeLang = ex.Lang
	if ex.Callbacks {
		x.ErrorCallback = func(error) {}
		x.ProgressCallback = func(cur, total int) { e.progress = append(e.progress, cur, total) }
	}
	if ex.ImgDir && e.dir != "" {
		x.ImageOutputDir = filepath.Join(e.dir, "img")
	}
}

// ownOpts: the options as the caller's own struct ("" copy of the defaults with the fields set, "literal").
func (e *env) ownOpts(via string, o Opts) *markdown.ExportOptions {
	var x *markdown.ExportOptions
	if via == "literal" {
		x = literalOpts(o)
	} else {
		x = exportOpts(o)
	}
	e.applyExtra(x)
	return x
}

// exporterAndOpts: the Exporter and the options argument of one export, the way `via` says the options reach the
// exporter. judged: an export of the case's judged sequence (they share Exporter and struct when the case says so).
func (e *env) exporterAndOpts(via string, o Opts, judged bool) (*markdown.Exporter, *markdown.ExportOptions) {
	share := judged && e.w.Shared
	if share && e.exp != nil {
		return e.exp, e.opts
	}
	var x *markdown.Exporter
	var arg *markdown.ExportOptions
	switch via {
	case "default":
		x, arg = markdown.NewExporter(nil), markdown.DefaultExportOptions()
	case "nilexp":
		x, arg = markdown.NewExporter(nil), nil
	case "hq":
		x, arg = markdown.NewExporter(nil), markdown.HighQualityExportOptions()
	case "mutdefault":
		x, arg = markdown.NewExporter(nil), setOpts(markdown.DefaultExportOptions(), o)
	case "ctor": // the options are given to the constructor, every call passes nil
		x, arg = markdown.NewExporter(e.ownOpts("", o)), nil
	case "ctor2": // the constructor gets other options than the calls
		x, arg = markdown.NewExporter(markdown.HighQualityExportOptions()), e.ownOpts("", o)
	default:
		x, arg = markdown.NewExporter(nil), e.ownOpts(via, o)
	}
	if share {
		e.exp, e.opts = x, arg
	}
	return x, arg
}

func readFile(p string) (string, error) {
	b, err := os.ReadFile(p)
	return string(b), err
}

// exportVia performs one export of a target through the case's entry point.
func (e *env) exportVia(sink string, t *target, via string, o Opts, judged bool) (md string, err error) {
	x, arg := e.exporterAndOpts(via, o, judged)
	switch sink {
	case "":
		return x.ExportToString(t.doc, arg)
	case "bytes":
		b, err := x.ExportToBytes(t.doc, arg)
		if err != nil {
			return "", err
		}
		if judged {
			e.retained = append(e.retained, b)
			e.copies = append(e.copies, string(b))
		}
		return string(b), nil
	case "auto":
		if err := e.ensurePath(t); err != nil {
			return "", err
		}
		if err := e.ensureMD(t); err != nil {
			return "", err
		}
		// AutoConvert has no options argument: they reach the exporter through the constructor
		var ctor *markdown.ExportOptions
		switch via {
		case "default":
			ctor = markdown.DefaultExportOptions()
		case "nilexp":
			ctor = nil
		case "hq":
			ctor = markdown.HighQualityExportOptions()
		case "mutdefault":
			ctor = setOpts(markdown.DefaultExportOptions(), o)
		default:
			ctor = e.ownOpts(via, o)
		}
		if err := markdown.NewBidirectionalConverter(nil, ctor).AutoConvert(t.path, t.md); err != nil {
			return "", err
		}
		return readFile(t.md)
	}
	// file (and the single exports of a batch case)
	if err := e.ensurePath(t); err != nil {
		return "", err
	}
	if err := e.ensureMD(t); err != nil {
		return "", err
	}
	if err := x.ExportToFile(t.path, t.md, arg); err != nil {
		return "", err
	}
	return readFile(t.md)
}

// batch exports the inputs of a batch case in one BatchExport call and returns the Markdown of input i for
// every input that is a document.
func (e *env) batch(ts []*target, via string, o Opts) (map[int]string, error) {
	d, err := e.scratch()
	if err != nil {
		return nil, err
	}
	e.nfile++
	outDir := filepath.Join(d, fmt.Sprintf("out%d", e.nfile), "md") // does not exist yet
	x, arg := e.exporterAndOpts(via, o, true)
	paths := make([]string, len(ts))
	for i, t := range ts {
		paths[i] = t.path
	}
	if err := x.BatchExport(paths, outDir, arg); err != nil {
		return nil, err
	}
	ents, _ := os.ReadDir(outDir)
	var names []string
	for _, en := range ents {
		if !en.IsDir() {
			names = append(names, en.Name())
		}
	}
	sort.Strings(names)
	out := map[int]string{}
	for i, t := range ts {
		if t.c.Blocks == nil {
			continue // not a document
		}
		base := strings.TrimSuffix(filepath.Base(t.path), filepath.Ext(t.path))
		p := filepath.Join(outDir, base+".md")
		if _, err := os.Stat(p); err != nil {
			return nil, fmt.Errorf("BatchExport of %d inputs into an empty directory returned no error, but there is no %s.md for input %d (%s); the directory holds %v", len(ts), base, i, filepath.Base(t.path), names)
		}
		s, err := readFile(p)
		if err != nil {
			return nil, err
		}
		out[i] = s
	}
	return out, nil
}

// otherMD: an unrelated Markdown text for the shared converter.
const otherMD = "# Other *title*\n\nsome **bold** text and `code`\n\n- item\n\n| a | b |\n|-----|-----|\n| c | d |\n\n```\nx\n```\n"

package c20

import (
	"testing"

	"wzverif/internal/kit"
)

// FuzzC20: coverage-guided search over the generator and oracle of TestC20 (thorough tier; see internal/kit/fuzz.go).
func FuzzC20(f *testing.F) { kit.FuzzVia(f, TestC20) }

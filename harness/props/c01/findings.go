package c01

import (
	"strings"

	"wzverif/internal/kit"
)

var findings = []kit.Finding[Case]{
	{
		ID:     "KF-C01-math-surrogate-charref",
		Clause: "C01.P2",
		Desc: "AddMathFormula writes a formula that contains a numeric character reference to a surrogate code point (&#xD800; .. &#xDFFF;) " +
			"as raw inner XML of m:oMath: encoding/xml, with which isWellFormedMathFragment judges the fragment, reads such a reference as U+FFFD " +
			"without an error, but it violates XML 1.0 4.1 (WFC Legal Character) and word/document.xml is rejected by conforming parsers",
		Trigger: func(c Case, f kit.Failure) bool {
			if !strings.Contains(f.Detail, `"word/document.xml"`) || !strings.Contains(f.Detail, "character reference to an illegal character") {
				return false
			}
			for _, o := range c.Ops {
				if o.K == "math" && len(o.S) > 0 && hasSurrogateRef(o.S[0]) {
					return true
				}
			}
			return false
		},
	},
}

// hasSurrogateRef: s contains a complete numeric character reference (&#N; / &#xH;) whose value is in D800..DFFF.
func hasSurrogateRef(s string) bool {
	for i := 0; i+2 < len(s); i++ {
		if s[i] != '&' || s[i+1] != '#' {
			continue
		}
		j, base := i+2, 10
		if s[j] == 'x' {
			j, base = j+1, 16
		}
		v, n := 0, 0
		for ; j < len(s); j++ {
			d := -1
			switch c := s[j]; {
			case c >= '0' && c <= '9':
				d = int(c - '0')
			case base == 16 && c >= 'a' && c <= 'f':
				d = int(c-'a') + 10
			case base == 16 && c >= 'A' && c <= 'F':
				d = int(c-'A') + 10
			}
			if d < 0 {
				break
			}
			n++
			if v <= 0x10FFFF {
				v = v*base + d
			}
		}
		if n > 0 && j < len(s) && s[j] == ';' && v >= 0xD800 && v <= 0xDFFF {
			return true
		}
	}
	return false
}

package c01

import "wzverif/internal/kit"

var findings = []kit.Finding[Case]{}

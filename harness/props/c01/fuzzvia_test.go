package c01

import (
	"testing"

	"wzverif/internal/kit"
)

// FuzzC01: coverage-guided search over the generator and oracle of TestC01 (thorough tier; see internal/kit/fuzz.go).
func FuzzC01(f *testing.F) { kit.FuzzVia(f, TestC01) }

package c01

import (
	"bytes"
	"crypto/sha256"
	"fmt"
	"io"
	"os"
	"path/filepath"
	"runtime/debug"
	"sort"
	"strings"
	"sync"
	"testing"

	"github.com/zerx-lab/wordZero/pkg/document"
	"pgregory.net/rapid"

	"wzverif/internal/gen"
	"wzverif/internal/kit"
	"wzverif/internal/opc"
	"wzverif/internal/ops"
	"wzverif/internal/xmlwf"
)

func TestMain(m *testing.M) {
	document.SetGlobalLevel(document.LogLevelSilent)
	// the histories allocate many short-lived documents; a larger heap target keeps the collector (and, on a busy
	// machine, the wall time) down - the live heap of a case is a few MB
	debug.SetGCPercent(400)
	kit.TestMain(m, 2000, 30000)
}

type Case struct {
	Ops      []ops.Op `json:"ops"`
	SaveFile bool     `json:"save_file"` // final save through Save(path) in addition to ToBytes
	Nested   bool     `json:"nested"`    // Save into not-yet-existing nested directories
	// Start, when set, is a package written by another producer: the history starts on the document opened from it
	Start *Start `json:"start,omitempty"`
}

var cfg = &ops.Config{Classes: gen.AllClasses, Weights: boosted()}

func boosted() map[string]int {
	w := map[string]int{}
	for k, v := range ops.DefaultWeights {
		w[k] = v
	}
	for _, k := range []string{"reopen", "tpldoc", "tpldoc2", "tplstr", "md", "header", "footer"} {
		w[k] *= 3
	}
	return w
}

// scenario tails: short op sequences that need several cooperating calls to matter
var tails = [][]string{
	{"header", "tpldoc"}, {"footer", "para", "tpldoc"}, {"fheader", "tpldoc", "reopen"}, {"image", "reopen", "image"},
	{"table", "cellimg", "tpldoc"}, {"listitem", "footnote", "reopen", "listitem"}, {"md", "header", "tpldoc"},
	{"tplstr", "image", "reopen"}, {"headerpn", "reopen", "tpldoc"}, {"props", "reopen", "stats"},
	{"image", "tpldoc2"}, {"image", "header", "tpldoc2", "image"}, {"table", "cellimg", "tpldoc2"}, {"imagefile", "tpldoc2", "reopen"},
	// template data of other dynamic types than string (typed.go)
	{"header", "ttpldoc"}, {"footerpn", "para", "ttpldoc"}, {"fheader", "ffooter", "ttpldoc2"}, {"headerpn", "footer", "ttpldoc", "reopen"}, {"para", "ttplstr"},
	// two live documents edited alternately (widen.go)
	{"tpldoc", "para", "swap", "image", "swap"}, {"reopen", "footnote", "swap", "footnote"}, {"image", "tpldoc2", "swap", "image", "swap", "image"},
}

func genCase(t *rapid.T) Case {
	// a quarter of the histories start from a package of another producer (foreignstart.go)
	if rapid.IntRange(0, 3).Draw(t, "foreign-start") == 3 {
		return genForeignCase(t)
	}
	c := genCase0(t)
	c.Ops = widen(t, c.Ops)
	// calls that touch only some parts (read-only accessors, removers, ...) anywhere in the history
	if rapid.IntRange(0, 2).Draw(t, "partial") == 0 {
		n := rapid.IntRange(1, 3).Draw(t, "npartial")
		for i := 0; i < n; i++ {
			o := cfg.C01Op(t, rapid.SampledFrom(c01Kinds).Draw(t, "partialkind"))
			at := rapid.IntRange(0, len(c.Ops)).Draw(t, "partialat")
			c.Ops = append(c.Ops[:at], append([]ops.Op{o}, c.Ops[at:]...)...)
		}
	}
	if rapid.IntRange(0, 3).Draw(t, "tail") == 0 {
		tail := rapid.SampledFrom(tails).Draw(t, "tailsel")
		typedTail := false
		for _, k := range tail {
			typedTail = typedTail || isTyped(k)
		}
		for _, k := range tail {
			o := opOfKind(t, k)
			if typedTail && hfKinds[k] && len(o.S) > 0 {
				placeholderHF(t, &o)
			}
			c.Ops = append(c.Ops, o)
		}
	}
	// header/footer placeholders filled with typed values (typed.go)
	if rapid.IntRange(0, 7).Draw(t, "typed-hf") == 0 {
		c.Ops = append(c.Ops, genTypedHF(t)...)
	}
	// counts past 9 / 10 / 16 / 32 / 64 of one thing
	if rapid.IntRange(0, 15).Draw(t, "bulk") == 0 {
		blk := genBulk(t)
		at := rapid.IntRange(0, len(c.Ops)).Draw(t, "bulkat")
		c.Ops = append(c.Ops[:at:at], append(blk, c.Ops[at:]...)...)
	}
	// the current document and an earlier one used alternately
	if rapid.IntRange(0, 7).Draw(t, "swaps") == 0 {
		n := rapid.IntRange(1, 3).Draw(t, "nswap")
		for i := 0; i < n; i++ {
			at := rapid.IntRange(0, len(c.Ops)).Draw(t, "swapat")
			c.Ops = append(c.Ops[:at:at], append([]ops.Op{genSwap(t)}, c.Ops[at:]...)...)
		}
	}
	return c
}

func genCase0(t *rapid.T) Case {
	return Case{Ops: cfg.History(t, 1, kit.Scale(30, 60)), SaveFile: rapid.Bool().Draw(t, "savefile"), Nested: rapid.Bool().Draw(t, "nested")}
}

// CheckPackage evaluates clauses P1-P4 on saved bytes.
func CheckPackage(res *kit.Result, b []byte, where string) *opc.Package {
	res.Eval("C01.P1")
	pkg, err := opc.Read(b)
	if err != nil {
		res.Fail("C01.P1", "%s: not a readable zip: %v", where, err)
		return nil
	}
	if len(pkg.Dups) > 0 {
		res.Fail("C01.P1", "%s: duplicate zip entries %v", where, pkg.Dups)
	}
	res.Eval("C01.P2")
	for _, name := range pkg.SortedNames() {
		if strings.HasSuffix(name, "/") {
			continue
		}
		if pkg.IsXMLPart(name) {
			// a UTF-8 byte order mark may precede an XML document (XML 1.0, 4.3.3); the checker judges what follows it
			if err := wellFormed(pkg.Parts[name]); err != nil {
				res.Fail("C01.P2", "%s: part %q is not well-formed: %v", where, name, err)
			}
		}
	}
	res.Eval("C01.P3")
	if pkg.CTErr != nil {
		res.Fail("C01.P3", "%s: content types: %v", where, pkg.CTErr)
	}
	if _, ok := pkg.Parts["_rels/.rels"]; !ok {
		res.Fail("C01.P3", "%s: _rels/.rels missing", where)
	} else if e := pkg.RelErr["_rels/.rels"]; e != nil {
		res.Fail("C01.P3", "%s: _rels/.rels: %v", where, e)
	} else {
		mains := pkg.MainParts()
		if len(mains) != 1 {
			res.Fail("C01.P3", "%s: %d officeDocument relationships in _rels/.rels", where, len(mains))
		} else {
			tgt := mains[0].Resolved
			if _, ok := pkg.Parts[tgt]; !ok {
				res.Fail("C01.P3", "%s: main document target %q (resolved %q) is not in the package", where, mains[0].Target, tgt)
			} else if ct, _ := pkg.ContentTypeOf(tgt); !strings.Contains(ct, "wordprocessingml.document.main+xml") && !strings.Contains(ct, "wordprocessingml.template.main+xml") && !strings.Contains(ct, "ms-word.document.macroEnabled.main+xml") {
				res.Fail("C01.P3", "%s: main part %q has content type %q", where, tgt, ct)
			}
		}
	}
	res.Eval("C01.P4")
	for _, name := range pkg.SortedNames() {
		if name == "[Content_Types].xml" || strings.HasSuffix(name, "/") {
			continue
		}
		if _, ok := pkg.ContentTypeOf(name); !ok {
			res.Fail("C01.P4", "%s: part %q has no content type (no override, no default for its extension)", where, name)
		}
	}
	return pkg
}

func run(c Case) *kit.Result {
	res := &kit.Result{}
	document.VerifResetGlobals()
	dir, _ := os.MkdirTemp(kit.Scratch, "c01-")
	defer os.RemoveAll(dir)
	x := ops.NewExec(dir)
	kinds := map[string]bool{}
	hostile, special := false, false
	var shape []string
	okOps, sameRun := 0, 0
	// Every byte slice ToBytes returned stays with the caller (no copy is taken): it must still be the package it was
	// when the later calls of the history - on this and on other documents - have happened. kept remembers the slices
	// and a digest of what they held when they were judged; at the end a slice whose content differs is judged again.
	var kept []heldBytes
	hold := func(where string, b []byte) { kept = append(kept, heldBytes{where, b, digest(b)}) }
	if c.Start != nil {
		in := c.Start.Pkg.Bytes()
		// precondition: the opened package is itself a well-formed package by this very oracle
		pre := &kit.Result{}
		CheckPackage(pre, in, "input")
		if len(pre.Failures) > 0 {
			res.Count("excluded:input-package-rejected-by-oracle", 1)
			res.Label("start:input-rejected")
			res.Shape = "input-rejected"
			return res
		}
		var nd *document.Document
		var oerr error
		p, st := kit.Try(func() {
			if c.Start.File {
				path := filepath.Join(dir, "start.docx")
				if werr := os.WriteFile(path, in, 0o644); werr != nil {
					oerr = werr
					return
				}
				nd, oerr = document.Open(path)
			} else {
				nd, oerr = document.OpenFromMemory(io.NopCloser(bytes.NewReader(in)))
			}
		})
		res.Eval("C01.P0")
		if p != nil {
			res.Fail("C01.P0", "opening the start package panicked: %v [%s]", p, st)
			res.Nontrivial = true
			res.Shape = "panic"
			return res
		}
		if oerr != nil || nd == nil {
			// the library may reject a package; the history then has nothing to edit
			res.Count("start_open_errors", 1)
			res.Label("start:open-error")
			res.Shape = "start-open-error"
			return res
		}
		x.Adopt(nd)
		res.Label("start:foreign")
		for _, l := range c.Start.Shapes {
			res.Label(l)
		}
		shape = append(shape, "foreign["+strings.Join(c.Start.Shapes, ",")+"]")
	}
	for i, op := range c.Ops {
		kinds[op.K] = true
		for _, cl := range op.Cls {
			res.Label("str:" + cl)
			if cl == gen.ClsControl || cl == gen.ClsXMLMeta || cl == gen.ClsTemplate || cl == gen.ClsLong || cl == clsRefs {
				hostile = true
			}
		}
		if op.Img != nil && !strings.HasSuffix(op.Img.Name, ".png") {
			res.Label("img:ext-not-png")
			special = true
		}
		switch op.K {
		case "tplstr", "tpldoc", "tpldoc2", "md", "reopen":
			special = true
			res.Label("op:" + op.K)
		case "ttplstr", "ttpldoc", "ttpldoc2":
			special = true
			for _, l := range typedLabels(op) {
				res.Label(l)
			}
			if op.K != "ttplstr" {
				if hit, tag := hfHit(x.Doc, op); hit {
					res.Label("typed:header-footer-placeholder-gets-non-string-xml-hostile-value")
					res.Label("typed-hf-hit:" + tag)
				}
			}
		}
		if badDim(op) {
			res.Label("img:declared-size-not-positive")
			special = true
		}
		if op.Img != nil && isLibImageName(op.Img.Name) {
			res.Label("img:library-generated-name")
		}
		if op.K == "table" && len(op.I) >= 2 && (op.I[0] >= 9 || op.I[1] >= 9) {
			res.Label("table:9-or-more-rows-or-columns")
		}
		if i > 0 && c.Ops[i-1].K == op.K {
			sameRun++
		} else {
			sameRun = 1
		}
		if sameRun == 10 {
			res.Label("bulk:10-or-more-calls-of-one-kind")
		}
		if sameRun == 33 {
			res.Label("bulk:33-or-more-calls-of-one-kind")
		}
		var err error
		if ops.IsC01(op.K) {
			res.Label("op:partial-touch")
		}
		p, st := kit.Try(func() {
			switch {
			case op.K == "swap":
				if doSwap(x, op) {
					res.Label("op:swap-documents")
					special = true
				}
			case isTyped(op.K):
				err = doTyped(x, op)
			case ops.IsC01(op.K):
				err = x.DoC01(op)
			default:
				err = x.Do(op)
			}
		})
		res.Eval("C01.P0")
		if p != nil {
			res.Fail("C01.P0", "op %d %s panicked: %v [%s]", i, op.K, p, st)
			res.Nontrivial = true
			res.Shape = "panic"
			return res // state after a panic is undefined
		}
		if err != nil && op.K == "reopen" {
			res.Fail("C01.P1", "op %d: the library cannot open its own output: %v", i, err)
		}
		e := "ok"
		if err != nil {
			e = "err"
			if badDim(op) {
				res.Label("img:declared-size-not-positive:call-rejected")
			}
		} else {
			okOps++
		}
		shape = append(shape, op.K+":"+e+":"+strings.Join(op.Cls, ","))
		for j, sv := range x.Saves {
			CheckPackage(res, sv, fmt.Sprintf("intermediate save %d", j))
			hold(fmt.Sprintf("the bytes ToBytes returned at op %d (save %d)", i, j), sv)
		}
		x.Saves = nil
	}
	var b []byte
	var err error
	p, st := kit.Try(func() { b, err = x.Doc.ToBytes() })
	if p != nil {
		res.Fail("C01.P0", "ToBytes panicked: %v [%s]", p, st)
		return res
	}
	if err != nil {
		// a serialisation error is a clean rejection, nothing was produced
		res.Label("tobytes-error")
		res.Count("tobytes_errors", 1)
	} else {
		CheckPackage(res, b, "ToBytes")
		res.Label("entry:ToBytes")
		hold("the bytes ToBytes returned for the final document", b)
	}
	if c.SaveFile {
		path := filepath.Join(dir, "out.docx")
		if c.Nested {
			path = filepath.Join(dir, "a", "b c", "名", "out.docx")
		}
		var serr error
		p, st := kit.Try(func() { serr = x.Doc.Save(path) })
		if p != nil {
			res.Fail("C01.P0", "Save panicked: %v [%s]", p, st)
			return res
		}
		if serr == nil {
			fb, rerr := os.ReadFile(path)
			if rerr != nil {
				res.Fail("C01.P1", "Save returned nil but the file cannot be read: %v", rerr)
			} else {
				fp := CheckPackage(res, fb, "Save")
				res.Label("entry:Save")
				// P5: both entry points agree part-for-part
				if bp, e := opc.Read(b); e == nil && fp != nil && err == nil {
					res.Eval("C01.P5")
					if d := diffParts(bp, fp); d != "" {
						res.Fail("C01.P5", "ToBytes and Save disagree: %s", d)
					}
				}
			}
		} else {
			res.Count("save_errors", 1)
		}
	}
	// documents that were replaced as the current one (template bases, the first of two renders of one template,
	// the object before a reopen) are still valid documents of the caller: they must save to well-formed packages too,
	// also when they are saved only now, after everything that happened since
	for j, sd := range x.Side {
		var sb []byte
		var serr error
		if p, st := kit.Try(func() { sb, serr = sd.ToBytes() }); p != nil {
			res.Fail("C01.P0", "ToBytes of side document %d panicked: %v [%s]", j, p, st)
			continue
		}
		if serr == nil {
			CheckPackage(res, sb, fmt.Sprintf("side document %d (saved at the end)", j))
			res.Label("side-document-saved")
			hold(fmt.Sprintf("the bytes ToBytes returned for side document %d", j), sb)
		}
	}
	if len(kept) >= 2 {
		res.Label("tobytes-result-held-across-later-tobytes")
	}
	for _, h := range kept {
		if digest(h.b) != h.sum {
			CheckPackage(res, h.b, h.where+", read again after the later calls of the history (its content is no longer what was returned)")
		}
	}
	ks := make([]string, 0, len(kinds))
	for k := range kinds {
		ks = append(ks, k)
	}
	sort.Strings(ks)
	res.Nontrivial = len(ks) >= 3 && (hostile || special)
	if c.Start != nil {
		// a history on another producer's package: at least one part in a shape the library does not write itself
		// and at least one successful call before the save
		nl := false
		for _, l := range c.Start.Shapes {
			if l == "fp:non-library-shape" {
				nl = true
			}
		}
		res.Nontrivial = nl && okOps >= 1
	}
	res.Shape = strings.Join(shape, "|")
	if hostile {
		res.Label("hostile-string")
	}
	return res
}

// wellFormed is xmlwf.Check with a memo: the verdict is a pure function of the bytes, and most parts of a case
// (styles, the parts Save and ToBytes both write, the parts a rendered document shares with its template) recur.
var (
	wfMu    sync.Mutex
	wfCache = map[[sha256.Size]byte]error{}
)

func wellFormed(part []byte) error {
	k := sha256.Sum256(part)
	wfMu.Lock()
	e, ok := wfCache[k]
	wfMu.Unlock()
	if ok {
		return e
	}
	// a UTF-8 byte order mark may precede an XML document (XML 1.0, 4.3.3); the checker judges what follows it
	e = xmlwf.Check(stripBOM(part))
	wfMu.Lock()
	if len(wfCache) >= 4096 {
		wfCache = map[[sha256.Size]byte]error{}
	}
	wfCache[k] = e
	wfMu.Unlock()
	return e
}

type heldBytes struct {
	where string
	b     []byte
	sum   [sha256.Size]byte
}

func digest(b []byte) [sha256.Size]byte { return sha256.Sum256(b) }

func isLibImageName(n string) bool {
	for _, x := range libImageNames {
		if x == n {
			return true
		}
	}
	return false
}

func diffParts(a, b *opc.Package) string {
	for _, n := range a.SortedNames() {
		bb, ok := b.Parts[n]
		if !ok {
			return "part " + n + " only in ToBytes"
		}
		if n == "docProps/core.xml" || n == "docProps/app.xml" {
			continue
		}
		if string(bb) != string(a.Parts[n]) {
			return "part " + n + " differs"
		}
	}
	for _, n := range b.SortedNames() {
		if _, ok := a.Parts[n]; !ok {
			return "part " + n + " only in Save"
		}
	}
	return ""
}

func TestC01(t *testing.T) {
	if err := xmlwf.SelfTest(); err != nil {
		t.Fatalf("oracle self-test: %v", err)
	}
	if err := selfTestShapes(); err != nil {
		t.Fatalf("generator self-test: %v", err)
	}
	kit.Main(t, kit.Spec[Case]{
		ID: "C01", Level: "exploration",
		Rule: "history of 1-30 (thorough 1-60) generated API calls over the whole public API with strings from all classes; non-trivial = >=3 distinct op kinds and at least one of {hostile string class (control, XML meta, template look-alike, long), image with non-.png name, template op, markdown op, reopen}; a quarter of the histories START on a document opened from a package of another producer (internal/foreign) whose footnotes/endnotes/numbering/settings parts come in the shapes other producers write (self-closing / empty / white-space-only root, other prefix, default namespace, XML declaration variants or none, BOM, comments and PIs around the root) and continue with 1-5 calls biased to those that touch only some parts (read-only accessors, one note kind, list items, note config, removers, save/reopen/render as template): non-trivial there = at least one part in a non-library shape and at least one successful call; distinct = distinct sequence of (start shapes, op kind, outcome, string classes). Widened corners (small probabilities): template data whose values are not plain strings (named string type, fmt.Stringer by value and by pointer, error, fmt.Formatter, []string, []interface{}, map, struct, template.HTML, []byte, ints/floats of several widths incl. zero, negative and large, bool, nil) handed over by SetVariable / SetVariables / FromStruct / Merge and rendered by TemplateEngine or by TemplateRenderer on a template file - half of them aimed at header/footer placeholders with text that cannot stand raw in XML; blocks of 10..65 calls of one kind (the 10th/11th/17th/33rd/65th image, note, list item, header call, style, table row/column ...); tables created with 9..65 rows or columns; image file names and argument strings equal to names the library generates itself (image10.png, header1.xml, Heading1, _Toc1, rId1 ...); 'swap' = the current document and one replaced earlier (template base, first render, the object before a reopen) are edited alternately. Every byte slice ToBytes returned is kept without copying and looked at again when the history is over. Round 5 (refs.go): a third of the AddMathFormula arguments and a thirtieth of the other free-text arguments are made of character / entity references (predefined, HTML/MathML names, unknown names, numeric references to legal, illegal and out-of-range code points, unterminated ones) as plain text, inside m:t or inside an attribute value of an OMML fragment; a sixth of the AddImageFromData calls declare a pixel width and/or height of 0 or below (the data stays a real image of the declared format) - a call the library rejects is not one of the calls that built the document, and the history goes on after it",
		Gen:  genCase, Run: run, Findings: findings,
		Assumptions: []string{"well-formedness is decided by the harness's own checker (encoding/xml strict + raw-token pass + attribute scanner), not by a schema validator",
			"image data given to AddImageFromData really is of the declared format; the declared pixel size may be 0 or negative (dimensions the caller could not determine): whether the library accepts or rejects such a call, the document saved after it is judged by the same clauses",
			"bytes returned by ToBytes belong to the caller: a slice whose content is no longer what was returned when the history ends is judged again by the same clauses (an unchanged slice keeps its verdict); the well-formedness verdict of a part is memoised by the SHA-256 of its bytes",
			"a start package of another producer is judged by the same oracle before it is opened (a rejected one is excluded and counted); every part shape the generator can emit is proven well-formed by the checker before the search starts; a UTF-8 byte order mark before an XML document is legal and skipped before the part is judged"},
		MustSee: map[string]float64{"img:ext-not-png": 0.1, "str:control": 0.2, "op:reopen": 0.1, "op:tpldoc": 0.1, "op:md": 0.1, "entry:Save": 0.3, "op:tpldoc2": 0.05, "side-document-saved": 0.3,
			"op:typed-data": 0.1, "typed:header-footer-placeholder-gets-non-string-xml-hostile-value": 0.03, "tobytes-result-held-across-later-tobytes": 0.3,
			"bulk:10-or-more-calls-of-one-kind": 0.02, "op:swap-documents": 0.02, "img:library-generated-name": 0.01, "img:declared-size-not-positive": 0.01, "str:char-or-entity-reference": 0.1,
			"start:foreign": 0.15, "fp:selfclosing-root": 0.08, "fp:prefix:other": 0.04, "fp:prefix:default-ns": 0.04, "fp:bom": 0.03, "fp:decl:none": 0.03, "op:partial-touch": 0.2},
	})
}

package c01

// Two more corners of the argument domain (round 5):
//
//   * strings that carry character and entity REFERENCES: the five predefined entities, named references that exist
//     in HTML / MathML but not in XML (&nbsp; &times; &alpha; ...), unknown names, numeric references to legal,
//     illegal and out-of-range code points, references without the closing ';' and look-alikes. A consumer with an
//     entity table larger than XML's reads them differently from a strict XML parser, so a place where the library
//     decides "this text may stand raw" with a lenient reader shows only with this class. They go to the formula
//     argument of AddMathFormula (plain, inside m:t of an OMML fragment, inside an attribute value of one) with a
//     high probability and to every other free-text argument with a small one.
//
//   * AddImageFromData called with declared pixel dimensions the caller could not determine (0) or got wrong
//     (negative). The image data itself stays a real image of the declared format. Whatever the library does with
//     such a call - accept it, or reject it with an error - the document the caller goes on editing must still
//     save to a well-formed package; a call that returned an error is not one of the calls that built the document
//     and must not have left a part behind.

import (
	"strings"

	"pgregory.net/rapid"

	"wzverif/internal/ops"
)

const clsRefs = "char-or-entity-reference"

var refWords = []string{
	// predefined
	"&amp;", "&lt;", "&gt;", "&quot;", "&apos;",
	// named references of HTML / MathML, not of XML
	"&nbsp;", "&times;", "&alpha;", "&beta;", "&copy;", "&eacute;", "&le;", "&infin;", "&InvisibleTimes;", "&AMP;", "&LT;",
	// unknown names, names with odd characters
	"&unknown;", "&x;", "&x:y;", "&a-b;", "&_;", "&a b;", "&1;",
	// numeric references: legal, illegal in XML 1.0, out of range, malformed
	"&#65;", "&#x41;", "&#xD;", "&#10;", "&#x1F600;", "&#0;", "&#x0;", "&#1;", "&#x1f;", "&#xD800;", "&#xFFFE;", "&#x110000;", "&#99999999999;", "&#x;", "&#;", "&#xZZ;", "&#-1;",
	// unterminated and look-alikes
	"&amp", "&nbsp", "&#65", "&;", "& ;", "&&", "&amp;nbsp;", "&amp;#0;", "&", ";",
}

// refText draws a text made of references and a few plain pieces.
func refText(t *rapid.T) string {
	n := rapid.IntRange(1, 4).Draw(t, "refn")
	var b strings.Builder
	for i := 0; i < n; i++ {
		if rapid.IntRange(0, 3).Draw(t, "refplain") == 0 {
			b.WriteString(rapid.SampledFrom([]string{"a", " ", "2 ", " 3", "x", "中"}).Draw(t, "refp"))
		} else {
			b.WriteString(rapid.SampledFrom(refWords).Draw(t, "refw"))
		}
	}
	return b.String()
}

// refFormula draws a formula argument with references: plain text, text of an OMML run, attribute value of an OMML
// element, or an OMML run followed by loose text.
func refFormula(t *rapid.T) string {
	s := refText(t)
	switch rapid.IntRange(0, 5).Draw(t, "refform") {
	case 0, 1:
		return s
	case 2, 3:
		return "<m:r><m:t>" + s + "</m:t></m:r>"
	case 4:
		return `<m:r><m:rPr><m:sty m:val="` + strings.ReplaceAll(s, `"`, "") + `"/></m:rPr><m:t>x</m:t></m:r>`
	}
	return "<m:r><m:t>x</m:t></m:r>" + s
}

// kinds besides the formula ones whose first string is free text for the API
func refTextKind(k string) bool {
	return libNameKinds[k] || hfKinds[k] || k == "fpara" || k == "cellpara" || k == "addtext" || k == "md" || k == "mathlatex"
}

var badDims = []int{0, 0, 0, -1, -48}

// widenRefs post-processes a drawn history (called by widen).
func widenRefs(t *rapid.T, out []ops.Op) {
	for i := range out {
		o := &out[i]
		switch {
		case o.K == "math" && len(o.S) > 0:
			if rapid.IntRange(0, 2).Draw(t, "mathref") == 0 {
				o.S = []string{refFormula(t)}
				o.Cls = append(append([]string{}, o.Cls...), clsRefs)
			}
		case o.K == "image" && o.Img != nil:
			if rapid.IntRange(0, 5).Draw(t, "baddim") == 0 {
				im := *o.Img
				switch rapid.IntRange(0, 2).Draw(t, "baddimwhich") {
				case 0:
					im.W = rapid.SampledFrom(badDims).Draw(t, "baddimv")
				case 1:
					im.H = rapid.SampledFrom(badDims).Draw(t, "baddimv")
				default:
					im.W = rapid.SampledFrom(badDims).Draw(t, "baddimv")
					im.H = rapid.SampledFrom(badDims).Draw(t, "baddimv2")
				}
				o.Img = &im
			}
		case refTextKind(o.K) && len(o.S) > 0:
			if rapid.IntRange(0, 29).Draw(t, "textref") == 0 {
				o.S = append([]string{}, o.S...)
				at := 0
				if o.K != "md" && o.K != "mathlatex" && !hfKinds[o.K] {
					at = rapid.IntRange(0, len(o.S)-1).Draw(t, "textrefat")
				}
				if o.K == "md" {
					o.S[at] += refText(t) + "\n"
				} else {
					o.S[at] = refText(t)
				}
				o.Cls = append(append([]string{}, o.Cls...), clsRefs)
			}
		}
	}
}

func badDim(o ops.Op) bool {
	return o.K == "image" && o.Img != nil && (o.Img.W <= 0 || o.Img.H <= 0)
}

package c01

// Histories that START from a package written by another producer.
//
// The package is drawn with internal/foreign (an independent mini writer); its notes / numbering / settings
// parts are then replaced by parts in the shapes other producers write them: root element self-closing
// ("<w:footnotes .../>", with and without a blank before "/>"), empty with an end tag, only white space inside,
// separators only, with entries; element prefix w: / another prefix / default namespace; with, without and
// with differently spelt XML declaration; UTF-8 byte order mark; comments, processing instructions and
// line ends around the root element; extra namespace declarations on the root. Every shape is a well-formed
// XML document (selfTestShapes proves it with the oracle's own checker before the search starts).
// The history that follows is biased to calls that touch only SOME of the parts: read-only accessors, adders
// and removers of ONE note kind, list items, note configuration, save / reopen / render as template.

import (
	"fmt"
	"strings"

	"pgregory.net/rapid"

	"wzverif/internal/foreign"
	"wzverif/internal/ops"
	"wzverif/internal/xmlwf"
)

// Start is the opened package a history begins with.
type Start struct {
	Pkg    foreign.Package `json:"pkg"`
	File   bool            `json:"file,omitempty"`   // document.Open(path) instead of OpenFromMemory
	Shapes []string        `json:"shapes,omitempty"` // labels of the part shapes that were put in (informative)
}

const bom = "\xef\xbb\xbf"

// partShape describes how one notes / numbering / settings part is spelt.
type partShape struct {
	Kind    string // footnotes | endnotes | numbering | settings
	Prefix  string // w | ns0 | "" (default namespace for elements)
	Decl    int    // index into shapeDecls
	BOM     bool
	Content string // one of shapeContents
	Pre     int    // index into shapePre (between declaration and root)
	Post    int    // index into shapePost (after the root element)
	MC      bool   // markup-compatibility declarations on the root, as Word writes them
}

var shapeDecls = []string{
	`<?xml version="1.0" encoding="UTF-8" standalone="yes"?>` + "\n",
	`<?xml version="1.0" encoding="UTF-8"?>`,
	"<?xml version='1.0' encoding='utf-8'?>\n",
	"",
	`<?xml version="1.0"?>` + "\r\n",
}
var shapeDeclNames = []string{"decl:std", "decl:no-standalone", "decl:single-quotes", "decl:none", "decl:version-only"}
var shapePre = []string{"", "", "<!-- written by another producer 1.0 -->\n", "\n\n", `<?mso-application progid="Word.Document"?>`}
var shapePost = []string{"", "\n", "\r\n", "<!-- end -->", "\n<!-- end -->\n"}
var shapeContents = []string{"selfclose", "selfclose-blank", "selfclose-newline", "empty", "whitespace", "separators", "entries"}
var shapeKinds = []string{"footnotes", "endnotes", "numbering", "settings"}
var shapePrefixes = []string{"w", "w", "ns0", ""}

func (s partShape) labels() []string {
	l := []string{"fp:" + s.Kind, "fp:" + s.Kind + ":" + s.Content, "fp:" + shapeDeclNames[s.Decl]}
	if strings.HasPrefix(s.Content, "selfclose") {
		l = append(l, "fp:selfclosing-root")
	}
	switch s.Prefix {
	case "w":
	case "":
		l = append(l, "fp:prefix:default-ns")
	default:
		l = append(l, "fp:prefix:other")
	}
	if s.BOM {
		l = append(l, "fp:bom")
	}
	if shapePre[s.Pre] != "" || shapePost[s.Post] != "" {
		l = append(l, "fp:misc-around-root")
	}
	return l
}

// nonLibrary reports whether the part differs from how the library itself would have written it in more than content.
func (s partShape) nonLibrary() bool {
	return s.Prefix != "w" || s.Decl != 0 || s.BOM || strings.HasPrefix(s.Content, "selfclose") || s.Content == "empty" || s.Content == "whitespace" ||
		shapePre[s.Pre] != "" || shapePost[s.Post] != "" || s.MC
}

// hasUserEntries: the part defines footnote/endnote id 2 resp. numbering instance 1.
func (s partShape) hasUserEntries() bool { return s.Content == "entries" }

// xml renders the part.
func (s partShape) xml() string {
	e, a := s.Prefix+":", s.Prefix+":" // element / attribute prefix
	decls := ` xmlns:` + s.Prefix + `="` + foreign.NSW + `"`
	if s.Prefix == "" {
		e, a = "", "w:"
		decls = ` xmlns="` + foreign.NSW + `" xmlns:w="` + foreign.NSW + `"`
	}
	if s.MC {
		decls += ` xmlns:mc="http://schemas.openxmlformats.org/markup-compatibility/2006" xmlns:w14="http://schemas.microsoft.com/office/word/2010/wordml" mc:Ignorable="w14"`
	}
	el := func(name string, attrs ...string) string { // <e:name a:k="v" ...
		b := "<" + e + name
		for i := 0; i+1 < len(attrs); i += 2 {
			b += " " + a + attrs[i] + `="` + attrs[i+1] + `"`
		}
		return b
	}
	end := func(name string) string { return "</" + e + name + ">" }
	sepNote := func(local, typ, id, mark string) string {
		return el(local, "type", typ, "id", id) + ">" + el("p") + ">" + el("r") + ">" + el(mark) + "/>" + end("r") + end("p") + end(local)
	}
	var inner string
	switch s.Kind {
	case "footnotes", "endnotes":
		local := strings.TrimSuffix(s.Kind, "s")
		seps := sepNote(local, "separator", "-1", "separator") + sepNote(local, "continuationSeparator", "0", "continuationSeparator")
		switch s.Content {
		case "separators":
			inner = seps
		case "entries":
			inner = seps + el(local, "id", "2") + ">" + el("p") + ">" + el("r") + ">" + el(local+"Ref") + "/>" + end("r") + el("r") + ">" +
				"<" + e + `t xml:space="preserve"> note of another producer &amp; co</` + e + "t>" + end("r") + end("p") + end(local)
		}
	case "numbering":
		switch s.Content {
		case "separators": // for numbering: abstract definitions only, no instance
			inner = el("abstractNum", "abstractNumId", "0") + ">" + el("lvl", "ilvl", "0") + ">" + el("numFmt", "val", "decimal") + "/>" + end("lvl") + end("abstractNum")
		case "entries":
			inner = el("abstractNum", "abstractNumId", "0") + ">" + el("multiLevelType", "val", "hybridMultilevel") + "/>" + el("lvl", "ilvl", "0") + ">" + el("start", "val", "3") + "/>" +
				el("numFmt", "val", "upperRoman") + "/>" + el("lvlText", "val", "%1)") + "/>" + el("lvlJc", "val", "left") + "/>" + end("lvl") + end("abstractNum") +
				el("num", "numId", "1") + ">" + el("abstractNumId", "val", "0") + "/>" + end("num")
		}
	case "settings":
		switch s.Content {
		case "separators": // for settings: a few simple settings
			inner = el("zoom", "percent", "120") + "/>" + el("defaultTabStop", "val", "708") + "/>"
		case "entries": // with note properties
			inner = el("zoom", "percent", "120") + "/>" + el("footnotePr") + ">" + el("numFmt", "val", "lowerRoman") + "/>" + end("footnotePr") +
				el("endnotePr") + ">" + el("numFmt", "val", "decimal") + "/>" + end("endnotePr") + el("compat") + ">" +
				el("compatSetting", "name", "compatibilityMode", "uri", "http://schemas.microsoft.com/office/word", "val", "15") + "/>" + end("compat")
		}
	}
	root := "<" + e + s.Kind + decls
	var body string
	switch s.Content {
	case "selfclose":
		body = root + "/>"
	case "selfclose-blank":
		body = root + " />"
	case "selfclose-newline":
		body = root + "\n/>"
	case "empty":
		body = root + ">" + end(s.Kind)
	case "whitespace":
		body = root + ">\n  \n" + end(s.Kind)
	default:
		body = root + ">" + inner + end(s.Kind)
	}
	out := shapeDecls[s.Decl] + shapePre[s.Pre] + body + shapePost[s.Post]
	if s.BOM {
		out = bom + out
	}
	return out
}

var shapeMeta = map[string][2]string{ // kind -> content type, relationship type
	"footnotes": {"application/vnd.openxmlformats-officedocument.wordprocessingml.footnotes+xml", foreign.RelFootnotes},
	"endnotes":  {"application/vnd.openxmlformats-officedocument.wordprocessingml.endnotes+xml", foreign.RelEndnotes},
	"numbering": {"application/vnd.openxmlformats-officedocument.wordprocessingml.numbering+xml", foreign.RelNumbering},
	"settings":  {"application/vnd.openxmlformats-officedocument.wordprocessingml.settings+xml", foreign.RelSettings},
}

func genShape(t *rapid.T, kind string) partShape {
	return partShape{Kind: kind,
		Prefix:  rapid.SampledFrom(shapePrefixes).Draw(t, "fp-prefix"),
		Decl:    rapid.SampledFrom([]int{0, 0, 1, 2, 3, 4}).Draw(t, "fp-decl"),
		BOM:     rapid.SampledFrom([]bool{false, false, false, false, true}).Draw(t, "fp-bom"),
		Content: rapid.SampledFrom(shapeContents).Draw(t, "fp-content"),
		Pre:     rapid.IntRange(0, len(shapePre)-1).Draw(t, "fp-pre"),
		Post:    rapid.IntRange(0, len(shapePost)-1).Draw(t, "fp-post"),
		MC:      rapid.SampledFrom([]bool{false, false, true}).Draw(t, "fp-mc"),
	}
}

// genStart draws the opened package.
func genStart(t *rapid.T) *Start {
	// the generator's own (fixed-shape) notes / numbering / settings parts are switched off; ours are put in instead
	p := foreign.GenOpt(t, foreign.Opt{MaxBlocks: 3, No: map[string]bool{foreign.FNotes: true, foreign.FNumbering: true, foreign.FSettings: true}})
	st := &Start{File: rapid.Bool().Draw(t, "openfile")}
	used := map[string]bool{}
	for _, r := range p.DocRels {
		used[r.ID] = true
	}
	n := 0
	for _, kind := range shapeKinds {
		if rapid.IntRange(0, 9).Draw(t, "has-"+kind) < 3 { // present in 70 % (small values = absent: a failing case shrinks to the parts that matter)
			continue
		}
		s := genShape(t, kind)
		n++
		id := fmt.Sprintf("rId%d", 40+n)
		for used[id] {
			id += "x"
		}
		used[id] = true
		m := shapeMeta[kind]
		p.Parts = append(p.Parts, foreign.Part{Name: "word/" + kind + ".xml", CT: m[0], Override: true, XML: s.xml(), Kind: kind})
		p.DocRels = append(p.DocRels, foreign.Rel{ID: id, Type: m[1], Target: kind + ".xml"})
		p.NoDocRels = false
		st.Shapes = append(st.Shapes, s.labels()...)
		if s.nonLibrary() {
			st.Shapes = append(st.Shapes, "fp:non-library-shape")
		}
		// keep the package consistent: the body uses what the part defines
		if s.hasUserEntries() {
			switch kind {
			case "footnotes":
				p.Body = append(p.Body, foreign.Block{K: "p", Inlines: []foreign.Inline{{K: "r", Run: &foreign.Run{Pieces: []foreign.Piece{{K: "t", Text: "see"}, {K: "fnref", N: 2}}}}}})
			case "numbering":
				p.Body = append(p.Body, foreign.Block{K: "p", NumID: 1, Inlines: []foreign.Inline{{K: "r", Run: &foreign.Run{Pieces: []foreign.Piece{{K: "t", Text: "item"}}}}}})
			}
		}
	}
	st.Pkg = p
	return st
}

// partial-touch history after the open: weights of the kinds
var partialWeights = map[string]int{
	"fncount": 4, "encount": 4, "restartnum": 2, "rmfootnote": 1, "rmendnote": 1, "headings": 1, "getprops": 1, "getpage": 1, "getparts": 1, "multilist": 1,
	"footnote": 4, "endnote": 4, "notecfg": 3, "listitem": 3, "bullet": 1, "numbered": 1,
	"para": 2, "header": 1, "footer": 1, "image": 1, "props": 1, "title": 1, "stats": 1, "pagesize": 1, "customstyle": 1, "table": 1,
	"save": 2, "reopen": 3, "tpldoc": 3, "tpldoc2": 1,
}
var partialKinds = func() []string {
	var out []string
	for k, w := range partialWeights {
		for i := 0; i < w; i++ {
			out = append(out, k)
		}
	}
	// deterministic order (map iteration is random)
	for i := 1; i < len(out); i++ {
		for j := i; j > 0 && out[j] < out[j-1]; j-- {
			out[j], out[j-1] = out[j-1], out[j]
		}
	}
	return out
}()

func opOfKind(t *rapid.T, k string) ops.Op {
	if k == "swap" {
		return genSwap(t)
	}
	if isTyped(k) {
		return typedOp(t, cfg.OpOf(t, typedBase(k)))
	}
	if ops.IsC01(k) {
		return cfg.C01Op(t, k)
	}
	return cfg.OpOf(t, k)
}

var c01Kinds = func() []string {
	var out []string
	for _, k := range partialKinds {
		if ops.IsC01(k) {
			out = append(out, k)
		}
	}
	return out
}()

func genForeignCase(t *rapid.T) Case {
	c := Case{Start: genStart(t), SaveFile: rapid.Bool().Draw(t, "savefile"), Nested: rapid.Bool().Draw(t, "nested")}
	n := rapid.IntRange(1, 5).Draw(t, "npartial")
	for i := 0; i < n; i++ {
		c.Ops = append(c.Ops, opOfKind(t, rapid.SampledFrom(partialKinds).Draw(t, "pkind")))
	}
	if rapid.IntRange(0, 3).Draw(t, "general-tail") == 0 {
		c.Ops = append(c.Ops, cfg.History(t, 1, 8)...)
	}
	c.Ops = widen(t, c.Ops)
	return c
}

func stripBOM(b []byte) []byte {
	if len(b) >= 3 && string(b[:3]) == bom {
		return b[3:]
	}
	return b
}

// selfTestShapes: every part shape the generator can put into a package is a well-formed XML document
// (decided by the oracle's own checker), so that an ill-formed part in the output is never an ill-formed input.
func selfTestShapes() error {
	n := 0
	for _, kind := range shapeKinds {
		for _, prefix := range []string{"w", "ns0", ""} {
			for _, content := range shapeContents {
				for decl := range shapeDecls {
					for around := range shapePre { // shapePre and shapePost are independent of each other: walk them in step
						for _, b := range []bool{false, true} {
							for _, mc := range []bool{false, true} {
								s := partShape{Kind: kind, Prefix: prefix, Decl: decl, BOM: b, Content: content, Pre: around, Post: around % len(shapePost), MC: mc}
								if err := xmlwf.Check(stripBOM([]byte(s.xml()))); err != nil {
									return fmt.Errorf("part shape %+v is not well-formed: %v\n%s", s, err, s.xml())
								}
								n++
							}
						}
					}
				}
			}
		}
	}
	if n == 0 {
		return fmt.Errorf("no shapes")
	}
	return nil
}

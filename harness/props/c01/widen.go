package c01

// Corners of the domain that a uniformly drawn history of 1-30 calls practically never reaches:
//   * counts past 9 / 10 / 16 / 32 / 64 of one thing (the 10th and 11th image, footnote, list item, header call,
//     custom style, table row or column ...): "bulk" blocks repeat a few drawn calls of one kind n times;
//   * tables created with 9..65 rows or columns;
//   * argument strings and image file names equal to names the library itself generates (image10.png, header1.xml,
//     Heading1, _Toc..., rId1 ...);
//   * two live documents edited alternately: "swap" makes one of the documents that were replaced earlier (template
//     base, first render, the object before a reopen) the current one again and keeps the current one on the side.
// All of it with small probabilities so that the quick tier stays cheap.

import (
	"pgregory.net/rapid"

	"wzverif/internal/ops"
)

// bulkKinds: kind -> a table has to exist first
var bulkKinds = []string{"image", "image", "imagefile", "cellimg", "footnote", "endnote", "listitem", "numbered", "bullet", "heading", "headingbm",
	"table", "para", "header", "footer", "headerpn", "footerpn", "customstyle", "approw", "appcol", "inscol", "insrow", "math", "mathlatex", "addtext", "celllist", "nested",
	"multilist", "toc", "autotoc", "props", "pborder", "pagebreak"}

var needsTable = map[string]bool{"cellimg": true, "approw": true, "appcol": true, "inscol": true, "insrow": true, "celllist": true, "nested": true}

var bulkCounts = []int{10, 10, 11, 11, 12, 16, 17, 17, 32, 33, 64, 65}

// genBulk draws a block: [table] kind x n [follow-up].
func genBulk(t *rapid.T) []ops.Op {
	k := rapid.SampledFrom(bulkKinds).Draw(t, "bulkkind")
	n := rapid.SampledFrom(bulkCounts).Draw(t, "bulkn")
	var out []ops.Op
	if needsTable[k] {
		out = append(out, cfg.OpOf(t, "table"))
	}
	m := rapid.IntRange(1, 3).Draw(t, "bulkdistinct")
	protos := make([]ops.Op, m)
	for i := range protos {
		protos[i] = opOfKind(t, k)
		if needsTable[k] && len(protos[i].I) > 0 {
			protos[i].I[0] = 0 // all on the same table (tables are selected modulo their number)
		}
	}
	for i := 0; i < n; i++ {
		out = append(out, protos[i%m])
	}
	switch rapid.IntRange(0, 4).Draw(t, "bulkafter") {
	case 1:
		out = append(out, cfg.OpOf(t, "reopen"), protos[0])
	case 2:
		out = append(out, cfg.OpOf(t, "tpldoc"), protos[0])
	case 3:
		out = append(out, cfg.OpOf(t, "save"), protos[0])
	case 4:
		out = append(out, cfg.OpOf(t, "tpldoc2"), protos[0], cfg.OpOf(t, "reopen"))
	}
	return out
}

var bigDims = []int{9, 10, 11, 12, 16, 17, 33, 64, 65}

// names the library generates itself (media and part names, style ids, bookmark and relationship ids)
var libImageNames = []string{"image10.png", "image11.jpeg", "image2.gif", "image1.jpeg", "image9.png", "image12.PNG", "image1", "header1.xml", "document.xml", "rId1.png", "image01.png"}
var libNames = []string{"Heading1", "Heading9", "Heading10", "Normal", "Title", "TOC1", "TOC9", "TOCHeading", "ListParagraph", "FootnoteText", "FootnoteReference", "Hyperlink",
	"_Toc1", "_Toc_a", "_Toc11693_WPSOffice_Type3", "rId1", "rId10", "image1.png", "header1.xml", "footer1.xml", "word/document.xml", "1", "0", "10", "-1"}

// kinds whose string arguments are free text / names for the API
var libNameKinds = map[string]bool{"para": true, "heading": true, "headingbm": true, "headingbm2": true, "pstyle": true, "customstyle": true, "footnote": true, "endnote": true,
	"title": true, "author": true, "props": true, "header": true, "footer": true, "listitem": true, "toc": true, "autotoc": true, "celltext": true, "imgalt": true, "imgtitle": true, "tblstyle": true}

// widen post-processes a drawn history.
func widen(t *rapid.T, in []ops.Op) []ops.Op {
	out := in
	for i := range out {
		o := &out[i]
		switch {
		case o.K == "table" && len(o.I) >= 2:
			if rapid.IntRange(0, 19).Draw(t, "bigtable") == 0 {
				which := rapid.IntRange(0, 1).Draw(t, "bigdim")
				o.I = append([]int{}, o.I...)
				o.I[which] = rapid.SampledFrom(bigDims).Draw(t, "bign")
				if o.I[1-which] == 0 {
					o.I[1-which] = 1
				}
			}
		case (o.K == "image" || o.K == "imagefile" || o.K == "cellimg") && o.Img != nil:
			if rapid.IntRange(0, 11).Draw(t, "libimgname") == 0 {
				im := *o.Img
				im.Name = rapid.SampledFrom(libImageNames).Draw(t, "libimgnamev")
				o.Img = &im
			}
		case libNameKinds[o.K] && len(o.S) > 0:
			if rapid.IntRange(0, 24).Draw(t, "libname") == 0 {
				o.S = append([]string{}, o.S...)
				o.S[rapid.IntRange(0, len(o.S)-1).Draw(t, "libnameat")] = rapid.SampledFrom(libNames).Draw(t, "libnamev")
				o.Cls = append(append([]string{}, o.Cls...), "library-generated-name")
			}
		case hfKinds[o.K] && len(o.S) > 0:
			// header/footer text is rendered by the document-template path through substitution in the raw XML of
			// the part: more of them carry a placeholder than ops' own generator gives (a third)
			if rapid.IntRange(0, 3).Draw(t, "hfph2") == 0 {
				placeholderHF(t, o)
			}
		case o.K == "tpldoc" || o.K == "tpldoc2" || o.K == "tplstr":
			if rapid.Bool().Draw(t, "typed") {
				*o = typedOp(t, *o)
			}
		}
	}
	// character / entity references in text arguments, declared image dimensions <= 0 (refs.go)
	widenRefs(t, out)
	return out
}

var hfKinds = map[string]bool{"header": true, "footer": true, "headerpn": true, "footerpn": true, "fheader": true, "ffooter": true}

var hfPlaceholders = []string{"{{x}}", "A {{x}} B", "{{name}}{{x}}", "p {{title}} q {{nope}}", "{{title}}", "<{{name}}> & {{v1}}", "{{a}}{{#if a}}y{{/if}}"}

// placeholderHF makes the text of a header/footer op one with variable placeholders.
func placeholderHF(t *rapid.T, o *ops.Op) {
	o.S = append([]string{}, o.S...)
	o.S[0] = rapid.SampledFrom(hfPlaceholders).Draw(t, "hfph2v")
	o.Cls = []string{"hf-placeholder"}
}

func genSwap(t *rapid.T) ops.Op {
	return ops.Op{K: "swap", I: []int{rapid.IntRange(0, 3).Draw(t, "swapsel")}}
}

// doSwap: the current document goes to the side, a side document becomes the current one.
func doSwap(x *ops.Exec, o ops.Op) bool {
	x.NOps++
	if len(x.Side) == 0 {
		return false
	}
	i := ops.In(opI(o, 0), len(x.Side))
	s := x.Side[i]
	x.Side[i] = x.Doc
	x.Adopt(s)
	return true
}

package c01

// Template data whose values are NOT plain strings.
//
// TemplateData.SetVariable / SetVariables / FromStruct / list items take interface{}: callers pass named string
// types, fmt.Stringer values, errors, slices, maps, structs, numbers of every width, nil ... The property quantifies
// over "whatever ... template data" was passed in, so the rendered document has to save to a well-formed package
// for every dynamic type, not only for string. The kinds "ttpldoc", "ttpldoc2" and "ttplstr" are the typed twins of
// ops' "tpldoc", "tpldoc2" and "tplstr": the texts come from Op.Data / Op.Data2 as before, the dynamic type of
// every value is given by a tag ("x=stringer", "l.name=named" in Op.S[1:]; Op.S[0] is the template source of
// ttplstr), Op.I[0] selects how the data reaches the TemplateData object (SetVariable, SetVariables, FromStruct,
// Merge) and Op.I[1] selects the entry point (TemplateEngine, or TemplateRenderer on a template file).
// ops.go's interpreter is closed, so these kinds are executed here (doTyped).

import (
	"errors"
	"fmt"
	"html/template"
	"io"
	"path/filepath"
	"sort"
	"strings"
	"time"

	"github.com/zerx-lab/wordZero/pkg/document"
	"pgregory.net/rapid"

	"wzverif/internal/gen"
	"wzverif/internal/ops"
)

type namedText string // a named string type (typed configuration values, enums)

type textStringer struct{ s string }

func (v textStringer) String() string { return v.s }

type ptrStringer struct{ s string }

func (v *ptrStringer) String() string { return v.s }

type textFormatter struct{ s string }

func (v textFormatter) Format(f fmt.State, _ rune) { io.WriteString(f, v.s) }

type plainStruct struct {
	Name string
	N    int
}

// typeTags: index 0 is the plain string (what a failing case shrinks to when the type does not matter).
// The first group carries the text into the formatted value, the second group is numbers and the like.
var textTags = []string{"string", "named", "stringer", "pstringer", "error", "formatter", "strs", "ifaces", "map", "struct", "html"}
var otherTags = []string{"bytes", "int", "int64", "float64", "bool", "nil", "uint", "int32", "float32", "duration", "negint", "zero", "negfloat", "bigfloat"}

func carriesText(tag string) bool {
	for _, x := range textTags {
		if x == tag {
			return true
		}
	}
	return false
}

// typedValue builds the Go value of the given dynamic type around text.
func typedValue(tag, text string) interface{} {
	n := len(text)
	switch tag {
	case "named":
		return namedText(text)
	case "stringer":
		return textStringer{text}
	case "pstringer":
		return &ptrStringer{text}
	case "error":
		return errors.New(text)
	case "formatter":
		return textFormatter{text}
	case "strs":
		return []string{text[:n/2], text[n/2:]}
	case "ifaces":
		return []interface{}{text, n, n%2 == 0}
	case "map":
		return map[string]string{"k": text}
	case "struct":
		return plainStruct{Name: text, N: n}
	case "html":
		return template.HTML(text)
	case "bytes":
		return []byte(text)
	case "int":
		return n
	case "int64":
		return int64(n) << 33
	case "float64":
		return float64(n) / 8
	case "bool":
		return n%2 == 0
	case "nil":
		return nil
	case "uint":
		return uint(n)
	case "int32":
		return int32(n)
	case "float32":
		return float32(n) / 4
	case "duration":
		return time.Duration(n) * time.Millisecond
	case "negint":
		return -n - 1
	case "zero":
		return 0
	case "negfloat":
		return -float64(n) - 0.5
	case "bigfloat":
		return float64(n+1) * 1e21
	}
	return text
}

func isTyped(kind string) bool { return kind == "ttpldoc" || kind == "ttpldoc2" || kind == "ttplstr" }

func typedBase(kind string) string { return kind[1:] }

func typedTags(o ops.Op) map[string]string {
	m := map[string]string{}
	for i := 1; i < len(o.S); i++ {
		if k, v, ok := strings.Cut(o.S[i], "="); ok {
			m[k] = v
		}
	}
	return m
}

// variableStruct is what a caller hands to TemplateData.FromStruct (field names are lower-cased by the library).
type variableStruct struct {
	X, Name, A, Title, V1 interface{}
}

// typedTD builds the TemplateData object.
func typedTD(d *ops.Data, tags map[string]string, via int) *document.TemplateData {
	td := document.NewTemplateData()
	if d == nil {
		return td
	}
	names := make([]string, 0, len(d.Vars))
	for k := range d.Vars {
		names = append(names, k)
	}
	sort.Strings(names)
	vals := map[string]interface{}{}
	for _, k := range names {
		vals[k] = typedValue(tags[k], d.Vars[k])
	}
	switch ops.In(via, 4) {
	case 0:
		for _, k := range names {
			td.SetVariable(k, vals[k])
		}
	case 1:
		td.SetVariables(vals)
	case 2:
		// sets all five names; a name without a value gets nil
		if err := td.FromStruct(variableStruct{X: vals["x"], Name: vals["name"], A: vals["a"], Title: vals["title"], V1: vals["v1"]}); err != nil {
			for _, k := range names {
				td.SetVariable(k, vals[k])
			}
		}
	case 3:
		other := document.NewTemplateData()
		for _, k := range names {
			other.SetVariable(k, vals[k])
		}
		td.Merge(other)
	}
	for k, v := range d.Conds {
		td.SetCondition(k, v)
	}
	lnames := make([]string, 0, len(d.Lists))
	for k := range d.Lists {
		lnames = append(lnames, k)
	}
	sort.Strings(lnames)
	for _, k := range lnames {
		items := make([]interface{}, 0, len(d.Lists[k]))
		for _, m := range d.Lists[k] {
			it := map[string]interface{}{}
			for kk, vv := range m {
				it[kk] = typedValue(tags[k+"."+kk], vv)
			}
			items = append(items, it)
		}
		td.SetList(k, items)
	}
	for k, im := range d.Imgs {
		td.SetImageFromData(k, im.Bytes(), nil)
	}
	return td
}

func keepSide(x *ops.Exec, d *document.Document) {
	if d == nil {
		return
	}
	x.Side = append(x.Side, d)
	if len(x.Side) > 4 {
		x.Side = x.Side[len(x.Side)-4:]
	}
}

// doTyped executes one typed template op.
func doTyped(x *ops.Exec, o ops.Op) error {
	x.NOps++
	err := doTyped0(x, o)
	if err != nil {
		x.Errs++
	}
	return err
}

func opI(o ops.Op, i int) int {
	if i < len(o.I) {
		return o.I[i]
	}
	return 0
}

func opB(o ops.Op, i int) bool { return i < len(o.B) && o.B[i] }

func doTyped0(x *ops.Exec, o ops.Op) error {
	d := x.Doc
	tags := typedTags(o)
	via := opI(o, 0)
	switch o.K {
	case "ttplstr":
		src := ""
		if len(o.S) > 0 {
			src = o.S[0]
		}
		te := document.NewTemplateEngine()
		if _, err := te.LoadTemplate("t", src); err != nil {
			return err
		}
		nd, err := te.RenderToDocument("t", typedTD(o.Data, tags, via))
		if err != nil {
			return err
		}
		keepSide(x, d)
		x.Adopt(nd)
	case "ttpldoc":
		td := typedTD(o.Data, tags, via)
		var nd *document.Document
		if opI(o, 1)%3 == 1 {
			// the template is a .docx file: TemplateRenderer.LoadTemplateFromFile + RenderTemplate
			path := filepath.Join(x.Dir, "template.docx")
			if err := d.Save(path); err != nil {
				return err
			}
			tr := document.NewTemplateRenderer()
			tr.SetLogging(false)
			if _, err := tr.LoadTemplateFromFile("t", path); err != nil {
				return err
			}
			var err error
			if nd, err = tr.RenderTemplate("t", td); err != nil {
				return err
			}
		} else {
			te := document.NewTemplateEngine()
			if _, err := te.LoadTemplateFromDocument("t", d); err != nil {
				return err
			}
			var err error
			if nd, err = te.RenderTemplateToDocument("t", td); err != nil {
				return err
			}
		}
		keepSide(x, d)
		x.Adopt(nd)
	case "ttpldoc2":
		if opB(o, 0) {
			d.AddParagraph("{{#image p}}")
		}
		te := document.NewTemplateEngine()
		if _, err := te.LoadTemplateFromDocument("t", d); err != nil {
			return err
		}
		td1 := typedTD(o.Data, tags, via)
		first, err := te.RenderTemplateToDocument("t", td1)
		if err != nil {
			return err
		}
		td2 := typedTD(o.Data2, tags, via+1)
		if opB(o, 1) {
			td2 = td1
		}
		second, err := te.RenderTemplateToDocument("t", td2)
		if err != nil {
			return err
		}
		keepSide(x, d)
		keepSide(x, first)
		x.Adopt(second)
	default:
		panic("c01: unknown typed op kind " + o.K)
	}
	return nil
}

// tag generator: text-carrying non-string types are the interesting ones
var tagGen = rapid.Custom(func(t *rapid.T) string {
	switch rapid.IntRange(0, 9).Draw(t, "tagcls") {
	case 0, 1:
		return "string"
	case 2:
		return rapid.SampledFrom(otherTags).Draw(t, "tag-other")
	}
	return rapid.SampledFrom(textTags[1:]).Draw(t, "tag-text")
})

// typedOp turns a drawn tpldoc / tpldoc2 / tplstr op into its typed twin.
func typedOp(t *rapid.T, o ops.Op) ops.Op {
	return typedOpAim(t, o, rapid.Bool().Draw(t, "aim-hf"))
}

func typedOpAim(t *rapid.T, o ops.Op, aim bool) ops.Op {
	src := ""
	if o.K == "tplstr" && len(o.S) > 0 {
		src = o.S[0]
	}
	o.K = "t" + o.K
	o.S = []string{src}
	// half of the typed ops aim at the places where values are substituted into raw XML (header/footer parts): the
	// variables the header/footer placeholders name all get a value, with text that cannot stand raw in XML
	if aim {
		for _, d := range []*ops.Data{o.Data, o.Data2} {
			if d == nil {
				continue
			}
			vars := map[string]string{}
			for k, v := range d.Vars {
				vars[k] = v
			}
			for _, k := range []string{"x", "name", "title"} {
				s, cls := gen.Text(t, "aimv", gen.ClsXMLMeta, gen.ClsControl, gen.ClsXMLMeta, gen.ClsLong)
				o.Cls = append(append([]string{}, o.Cls...), cls)
				vars[k] = s
			}
			d2 := *d
			d2.Vars = vars
			if d == o.Data {
				o.Data = &d2
			} else {
				o.Data2 = &d2
			}
		}
	}
	seen := map[string]bool{}
	add := func(k string) {
		if !seen[k] {
			seen[k] = true
			o.S = append(o.S, k+"="+tagGen.Draw(t, "tag"))
		}
	}
	for _, d := range []*ops.Data{o.Data, o.Data2} {
		if d == nil {
			continue
		}
		for _, k := range []string{"x", "name", "a", "title", "v1"} {
			if _, ok := d.Vars[k]; ok {
				add(k)
			}
		}
		if len(d.Lists["l"]) > 0 {
			add("l.name")
			add("l.v")
		}
	}
	o.I = []int{rapid.IntRange(0, 3).Draw(t, "via"), rapid.IntRange(0, 2).Draw(t, "renderer")}
	return o
}

var hfKindList = []string{"header", "footer", "headerpn", "footerpn", "fheader", "ffooter"}

// genTypedHF draws the scenario "a header/footer with placeholders, a few calls, render the document as a template
// with typed values aimed at the placeholders".
func genTypedHF(t *rapid.T) []ops.Op {
	var out []ops.Op
	n := rapid.IntRange(1, 2).Draw(t, "thf-n")
	for i := 0; i < n; i++ {
		o := cfg.OpOf(t, rapid.SampledFrom(hfKindList).Draw(t, "thf-kind"))
		placeholderHF(t, &o)
		out = append(out, o)
	}
	out = append(out, cfg.History(t, 0, 2)...)
	out = append(out, typedOpAim(t, cfg.OpOf(t, rapid.SampledFrom([]string{"tpldoc", "tpldoc", "tpldoc2"}).Draw(t, "thf-render")), true))
	return out
}

// hfHit reports whether a header/footer part of d has a placeholder of a variable whose typed value is not a plain
// string, carries its text and has text that cannot stand raw in XML (evidence label only).
func hfHit(d *document.Document, o ops.Op) (hit bool, tag string) {
	if d == nil || o.Data == nil {
		return false, ""
	}
	tags := typedTags(o)
	names := make([]string, 0, len(tags))
	for k := range tags {
		names = append(names, k)
	}
	sort.Strings(names)
	parts := d.GetParts()
	pn := make([]string, 0, len(parts))
	for n := range parts {
		if strings.HasPrefix(n, "word/header") || strings.HasPrefix(n, "word/footer") {
			pn = append(pn, n)
		}
	}
	sort.Strings(pn)
	for _, n := range pn {
		for _, k := range names {
			if tags[k] != "string" && carriesText(tags[k]) && hostileForXML(o.Data.Vars[k]) && strings.Contains(string(parts[n]), "{{"+k+"}}") {
				return true, tags[k]
			}
		}
	}
	return false, ""
}

// hostileForXML: the text has a character that must not appear raw in XML character data.
func hostileForXML(s string) bool {
	return strings.ContainsAny(s, "<&>") || !gen.XMLExpressible(s)
}

// typedLabels reports what the typed op exercises.
func typedLabels(o ops.Op) []string {
	l := []string{"op:typed-data", "op:" + typedBase(o.K)}
	tags := typedTags(o)
	keys := make([]string, 0, len(tags))
	for k := range tags {
		keys = append(keys, k)
	}
	sort.Strings(keys)
	nonString, hostile := false, false
	for _, k := range keys {
		tag := tags[k]
		l = append(l, "typed:"+tag)
		if tag == "string" {
			continue
		}
		nonString = true
		if !carriesText(tag) || strings.HasPrefix(k, "l.") {
			continue
		}
		for _, d := range []*ops.Data{o.Data, o.Data2} {
			if d != nil && hostileForXML(d.Vars[k]) {
				hostile = true
			}
		}
	}
	if nonString {
		l = append(l, "typed:non-string-value")
	}
	if hostile {
		l = append(l, "typed:non-string-value-with-xml-hostile-text")
	}
	switch {
	case o.K == "ttpldoc" && opI(o, 1)%3 == 1:
		l = append(l, "typed:via-TemplateRenderer-file")
	}
	l = append(l, "typed:via:"+[]string{"SetVariable", "SetVariables", "FromStruct", "Merge"}[ops.In(opI(o, 0), 4)])
	return l
}

package c05

// Widened input domain of C05: where the saved document comes from (other producers' packages, the library's own rich
// packages reopened from memory or from a path, objects left behind by reopen/template/Markdown calls), which target
// path Save gets (relative, bare, symbolic links, very long / non-ASCII names, the file the document was opened from,
// existing shorter / longer / package files, several kinds of unusable targets), a second Document object saved
// alternately with the judged one, and edits that push counts and sizes over 10 / 32 / 64 items and 64 KiB.

import (
	"archive/zip"
	"bytes"
	"fmt"
	"io"
	"os"
	"path/filepath"
	"strings"

	"github.com/zerx-lab/wordZero/pkg/document"
	"pgregory.net/rapid"

	"wzverif/internal/foreign"
	"wzverif/internal/gen"
	"wzverif/internal/kit"
	"wzverif/internal/ops"
)

// ---------------------------------------------------------------------------------------------
// targets

// target is one argument of Save together with what the harness expects of it.
type target struct {
	kind    string
	arg     string // the argument of Save
	cwd     string // working directory during the call ("" = unchanged); for relative arguments
	read    string // absolute path at which the written file is found afterwards
	wantErr bool   // the target cannot hold the file: Save must return an error
}

var homeDir, _ = os.Getwd()

var targetKinds = []string{"plain", "plain", "plain", "nested", "nested", "existing", "existing", "existing-short", "existing-docx",
	"devfull", "parent-is-file", "is-dir", "symlink", "symlink-dangling", "relative", "bare", "dotdot", "longname",
	"name-too-long", "empty", "unicode", "inplace", "procfs",
	// names Save has to take literally: white space at the outer ends of the path or of a component, no / another extension
	"ws-trailing", "ws-leading", "ws-newline", "ws-component", "noext", "otherext"}

func plainTarget(dir string) target {
	p := filepath.Join(dir, "out.docx")
	return target{kind: "plain", arg: p, read: p}
}

// fsProbe: properties of the scratch file system the targets rely on, found without the library.
var fsProbe struct {
	done             bool
	name255, symlink bool
	name256fails     bool
	procfs           bool
}

func probeFS() {
	if fsProbe.done {
		return
	}
	fsProbe.done = true
	d, err := os.MkdirTemp(kit.Scratch, "c05probe-")
	if err != nil {
		return
	}
	defer os.RemoveAll(d)
	fsProbe.name255 = os.WriteFile(filepath.Join(d, strings.Repeat("n", 250)+".docx"), []byte("x"), 0o644) == nil
	fsProbe.name256fails = os.WriteFile(filepath.Join(d, strings.Repeat("m", 251)+".docx"), []byte("x"), 0o644) != nil
	os.WriteFile(filepath.Join(d, "t"), []byte("x"), 0o644)
	fsProbe.symlink = os.Symlink("t", filepath.Join(d, "l")) == nil
	if _, err := os.Stat("/proc/self"); err == nil {
		fsProbe.procfs = os.MkdirAll("/proc/c05-no-such-dir", 0o755) != nil
	}
}

// mkTarget prepares the target of a save (creating what has to exist beforehand). src is the path the document was
// opened from ("" when it was not opened from a path). A kind the file system cannot offer falls back to plain.
func mkTarget(kind, dir, src string) target {
	probeFS()
	t := plainTarget(dir)
	abs := func(p string) target { return target{kind: kind, arg: p, read: p} }
	switch kind {
	case "nested":
		t = abs(filepath.Join(dir, "n1", "n 2", "名", "out.docx"))
	case "existing":
		t.kind = kind
		os.WriteFile(t.arg, []byte(strings.Repeat("old content ", 20000)), 0o644)
	case "existing-short":
		t.kind = kind
		os.WriteFile(t.arg, []byte("short"), 0o644)
	case "existing-docx":
		// a complete, larger package of another document is at the path
		od := document.New()
		od.AddParagraph(bigText(96, 4242, false))
		if b, err := od.ToBytes(); err == nil {
			t.kind = kind
			os.WriteFile(t.arg, b, 0o644)
		}
	case "devfull":
		t = target{kind: kind, arg: "/dev/full", wantErr: true}
	case "parent-is-file":
		os.WriteFile(filepath.Join(dir, "f"), []byte("x"), 0o644)
		t = target{kind: kind, arg: filepath.Join(dir, "f", "out.docx"), wantErr: true}
	case "is-dir":
		os.MkdirAll(filepath.Join(dir, "d.docx"), 0o755)
		t = target{kind: kind, arg: filepath.Join(dir, "d.docx"), wantErr: true}
	case "symlink", "symlink-dangling":
		if !fsProbe.symlink {
			break
		}
		real := filepath.Join(dir, "linked to.docx")
		if kind == "symlink" {
			os.WriteFile(real, []byte(strings.Repeat("previous content of the link's file ", 3000)), 0o644)
		}
		link := filepath.Join(dir, "link.docx")
		os.Remove(link)
		if os.Symlink(filepath.Base(real), link) == nil {
			t = abs(link)
		}
	case "relative":
		t = target{kind: kind, arg: filepath.Join("rel dir", "sub", "out.docx"), cwd: dir}
		t.read = filepath.Join(dir, t.arg)
	case "bare":
		t = target{kind: kind, arg: "bare.docx", cwd: dir, read: filepath.Join(dir, "bare.docx")}
	case "dotdot":
		os.MkdirAll(filepath.Join(dir, "sub"), 0o755)
		t = target{kind: kind, arg: dir + "/sub/.././dd.docx", read: filepath.Join(dir, "dd.docx")}
	case "longname":
		if fsProbe.name255 {
			t = abs(filepath.Join(dir, strings.Repeat("n", 250)+".docx"))
		}
	case "name-too-long":
		if fsProbe.name256fails {
			t = target{kind: kind, arg: filepath.Join(dir, strings.Repeat("m", 251)+".docx"), wantErr: true}
		}
	case "empty":
		t = target{kind: kind, arg: "", cwd: dir, wantErr: true}
	case "unicode":
		t = abs(filepath.Join(dir, "données 文档 \U0001F600 ß.docx"))
	case "ws-trailing": // e.g. a name taken from a configuration line with a blank at its end
		t = abs(filepath.Join(dir, "ws") + "/report.docx ")
	case "ws-leading": // a relative path in new directories that begins with a blank
		t = target{kind: kind, arg: " drafts/v1/report.docx", cwd: dir, read: dir + "/ drafts/v1/report.docx"}
	case "ws-newline": // a name read from a file together with its line end; a tab in front
		t = abs(dir + "/\tout.docx\n")
	case "ws-component": // white space at the ends of inner components and of the file name
		t = abs(dir + "/ a /b\t/ out .docx")
	case "noext":
		t = abs(filepath.Join(dir, "report"))
	case "otherext":
		t = abs(filepath.Join(dir, "Report.v1.DOCX.tmp"))
	case "inplace":
		if src != "" {
			t = abs(src)
		}
	case "procfs":
		if fsProbe.procfs {
			t = target{kind: kind, arg: "/proc/c05-no-such-dir/out.docx", wantErr: true}
		}
	}
	return t
}

// ---------------------------------------------------------------------------------------------
// sources

// extraData gives the bytes of a foreign entry.
func extraData(e Extra) []byte {
	if strings.HasSuffix(e.Name, "/") {
		return nil
	}
	if e.Size > 0 {
		n := e.Size
		if n > 1<<20 {
			n = 1 << 20
		}
		b := []byte(bigText((n+1023)/1024, len(e.Name)*31+n, false))
		return b[:n]
	}
	return []byte(e.Data)
}

// withExtra adds the extra entries to a package (after the original ones, which are copied as they are: method,
// flags and order of another producer's entries stay).
func withExtra(b []byte, extra []Extra) ([]byte, error) {
	if len(extra) == 0 {
		return b, nil
	}
	zr, err := zip.NewReader(bytes.NewReader(b), int64(len(b)))
	if err != nil {
		return nil, err
	}
	var out bytes.Buffer
	zw := zip.NewWriter(&out)
	have := map[string]bool{}
	for _, f := range zr.File {
		if have[f.Name] {
			continue
		}
		if err := zw.Copy(f); err != nil {
			return nil, err
		}
		have[f.Name] = true
	}
	for _, e := range extra {
		if have[e.Name] {
			continue
		}
		have[e.Name] = true
		w, err := zw.Create(e.Name)
		if err != nil {
			return nil, err
		}
		if d := extraData(e); len(d) > 0 {
			w.Write(d)
		}
	}
	if err := zw.Close(); err != nil {
		return nil, err
	}
	return out.Bytes(), nil
}

// openPackage opens package bytes the way the case says: from memory, or written to a file and opened by path.
// It returns the document and the path it was opened from ("" for memory).
func openPackage(b []byte, via, dir string) (*document.Document, string) {
	var od *document.Document
	var oerr error
	src := ""
	if via == "path" {
		src = filepath.Join(dir, "source.docx")
		if os.WriteFile(src, b, 0o644) != nil {
			return nil, ""
		}
		if p, _ := kit.Try(func() { od, oerr = document.Open(src) }); p != nil || oerr != nil {
			return nil, ""
		}
	} else {
		if p, _ := kit.Try(func() { od, oerr = document.OpenFromMemory(io.NopCloser(bytes.NewReader(b))) }); p != nil || oerr != nil {
			return nil, ""
		}
	}
	return od, src
}

func rehandle(x *ops.Exec) {
	x.Paras, x.Tables, x.Images = nil, nil, nil
	if x.Doc != nil && x.Doc.Body != nil {
		x.Paras = x.Doc.Body.GetParagraphs()
		x.Tables = x.Doc.Body.GetTables()
	}
}

// ---------------------------------------------------------------------------------------------
// edits that cross counts and sizes

// bigText gives kb*1024 characters of deterministic, poorly compressible text; multi: every 7th character is a
// 2-, 3- or 4-byte character (the text is then longer than kb KiB in bytes).
func bigText(kb, pat int, multi bool) string {
	const alpha = "abcdefghijklmnopqrstuvwxyzABCDEFGHIJKLMNOPQRSTUVWXYZ0123456789 ."
	wide := []rune{'é', 'ß', '文', '档', '\U0001F600', '\U00020000', 'Ω'}
	v := uint32(pat)*2654435761 + 12345
	var sb strings.Builder
	sb.Grow(kb*1024 + 16)
	for i := 0; i < kb*1024; i++ {
		v ^= v << 13
		v ^= v >> 17
		v ^= v << 5
		if multi && i%7 == 3 {
			sb.WriteRune(wide[int(v>>8)%len(wide)])
		} else {
			sb.WriteByte(alpha[v&63])
		}
	}
	return sb.String()
}

func opInt(op ops.Op, i, def int) int {
	if i < len(op.I) {
		return op.I[i]
	}
	return def
}

// doOp executes one edit: the local kinds here, everything else through the shared interpreter.
func doOp(x *ops.Exec, op ops.Op) {
	d := x.Doc
	switch op.K {
	case "c05big":
		kb, pat := opInt(op, 0, 8), opInt(op, 1, 0)
		if kb < 1 || kb > 256 {
			kb = 8
		}
		x.Paras = append(x.Paras, d.AddParagraph(bigText(kb, pat, opInt(op, 2, 0) == 1)))
	case "c05rmlast":
		if n := len(d.Body.Elements); n > 0 {
			d.RemoveElementAt(n - 1)
			x.Paras = d.Body.GetParagraphs()
			x.Tables = d.Body.GetTables()
		}
	case "c05rmnote":
		if len(op.S) > 1 {
			if op.S[0] == "endnote" {
				d.RemoveEndnote(op.S[1])
			} else {
				d.RemoveFootnote(op.S[1])
			}
		}
	case "c05imgs": // n small, different pictures in one go: media parts image0 ... image<n-1> (or following the ones present)
		n, pat := opInt(op, 0, 10), opInt(op, 1, 0)
		if n < 1 || n > 80 {
			n = 10
		}
		for i := 0; i < n; i++ {
			im := gen.Img{Fmt: "png", W: 2 + i%5, H: 2 + (i/5)%5, Pat: pat + i, Name: fmt.Sprintf("pic%d.png", i)}
			d.AddImageFromData(im.Bytes(), im.Name, document.ImageFormatPNG, im.W, im.H, nil)
		}
		x.Paras = d.Body.GetParagraphs()
	case "c05notes": // n footnotes / endnotes: ids past 9
		n := opInt(op, 0, 10)
		if n < 1 || n > 80 {
			n = 10
		}
		for i := 0; i < n; i++ {
			if opInt(op, 1, 0) == 1 {
				d.AddEndnote(fmt.Sprintf("text %d", i), fmt.Sprintf("endnote %d", i))
			} else {
				d.AddFootnote(fmt.Sprintf("text %d", i), fmt.Sprintf("footnote %d", i))
			}
		}
		x.Paras = d.Body.GetParagraphs()
	case "c05paras": // n short paragraphs: the body slice grows past 64 / 128 entries
		n := opInt(op, 0, 70)
		if n < 1 || n > 300 {
			n = 70
		}
		for i := 0; i < n; i++ {
			x.Paras = append(x.Paras, d.AddParagraph(fmt.Sprintf("p%d", i)))
		}
	default:
		x.Do(op)
	}
}

// genCountOp draws one of the count / size edits. Counts past 16 are rare (they make the package and so the fault
// enumeration larger).
func genCountOp(t *rapid.T) ops.Op {
	counts := []int{10, 10, 11, 11, 12, 9, 10, 11, 17, 33, 65}
	switch rapid.IntRange(0, 4).Draw(t, "countk") {
	case 0, 1:
		return ops.Op{K: "c05imgs", I: []int{rapid.SampledFrom(counts).Draw(t, "nimgs"), rapid.IntRange(0, 999).Draw(t, "imgpat")}}
	case 2:
		return ops.Op{K: "c05notes", I: []int{rapid.SampledFrom(counts).Draw(t, "nnotes"), rapid.IntRange(0, 1).Draw(t, "notekind")}}
	case 3:
		return ops.Op{K: "c05paras", I: []int{rapid.SampledFrom([]int{10, 33, 65, 70, 129}).Draw(t, "nparas")}}
	}
	// a text longer than 64 KiB, every 7th character multi-byte in half of the draws
	return ops.Op{K: "c05big", I: []int{rapid.SampledFrom([]int{63, 64, 65, 66, 100, 130}).Draw(t, "hugekb"), rapid.IntRange(0, 999).Draw(t, "bigpat"), rapid.IntRange(0, 1).Draw(t, "bigmulti")}}
}

// ---------------------------------------------------------------------------------------------
// generator of the widened parts of a case

var extraNamesWide = []string{
	// names that differ only in case, names that are prefixes of one another
	"customXml/Item1.xml", "customXml/item1.xml.bak", "customXml/item1", "word/Media/", "word/media/Image1.PNG", "docProps/Custom.xml", "WORD/document.xml", "word/Document.xml",
	// names the library generates itself, supplied by another producer (numbers around 9/10)
	"word/media/image0.png", "word/media/image9.png", "word/media/image10.png", "word/header1.xml", "word/footer2.xml", "word/footnotes.xml", "word/numbering.xml", "docProps/core.xml",
	// non-ASCII, blanks, deep paths, relationship parts of unknown parts
	"word/media/图片 1.png", "customXml/données é.xml", "a/b/c/d/e/f/g.bin", "customXml/_rels/item1.xml.rels", "[trash]/0000.dat", "word/embeddings/Microsoft_Excel_Sheet1.xlsx",
}

// extraDatas: contents of foreign parts. Next to empty / plain / binary ones, the forms of legal XML text whose first or
// last bytes a writer might be tempted to normalise: a UTF-8 byte order mark (with and without a declaration, alone),
// UTF-16 with its mark, white space or line ends around the document, CRLF line ends, a NUL at the end.
var extraDatas = []string{"", "", "<?xml version=\"1.0\"?><a/>", "\x00\x01binary\xff", " ", "\t\n", "\ufeff<a/>",
	"\ufeff<?xml version=\"1.0\" encoding=\"UTF-8\" standalone=\"yes\"?>\r\n<a>\r\n</a>\r\n", "\ufeff", "\ufeff\ufeff<a/>",
	"\xff\xfe<\x00a\x00/\x00>\x00", "\n  <a/>\n\n", "<a/>\x00", "<a> x </a> \t"}

func genExtras(t *rapid.T, wide bool) []Extra {
	n := rapid.IntRange(1, 5).Draw(t, "nextra")
	many := false
	if wide && rapid.IntRange(0, 11).Draw(t, "manyextra") == 0 {
		n, many = rapid.SampledFrom([]int{33, 65, 70}).Draw(t, "nmany"), true
	}
	var out []Extra
	for i := 0; i < n; i++ {
		if many && i >= 5 {
			out = append(out, Extra{Name: fmt.Sprintf("customXml/item%d.xml", i), Data: fmt.Sprintf("<i n=\"%d\"/>", i)})
			continue
		}
		names := extraNames
		if wide && rapid.Bool().Draw(t, "xwide") {
			names = extraNamesWide
		}
		e := Extra{Name: rapid.SampledFrom(names).Draw(t, "xname")}
		if !strings.HasSuffix(e.Name, "/") {
			e.Data = rapid.SampledFrom(extraDatas).Draw(t, "xdata")
			if wide && rapid.IntRange(0, 7).Draw(t, "xbig") == 0 {
				// sizes around the zip writer's 4 KiB buffer and past 64 KiB
				e.Size = rapid.SampledFrom([]int{4095, 4096, 4097, 65535, 65536, 70000}).Draw(t, "xsize")
			}
		}
		out = append(out, e)
	}
	return out
}

// genSource draws where the document comes from.
func genSource(t *rapid.T, c *Case) {
	switch rapid.SampledFrom([]string{"new", "new", "new", "new", "min", "min", "own", "own", "foreign", "foreign", "foreign"}).Draw(t, "source") {
	case "min": // the library's minimal package + foreign entries (as before the widening)
		c.Extra = genExtras(t, rapid.Bool().Draw(t, "widenames"))
	case "own": // the package the library writes for a generated document, reopened
		c.Base = "own"
		c.Pre = cfg.History(t, 1, 10)
		if rapid.Bool().Draw(t, "ownextra") {
			c.Extra = genExtras(t, true)
		}
	case "foreign": // a package of another producer
		c.Base = "foreign"
		p := foreign.Gen(t)
		c.Foreign = &p
		if rapid.Bool().Draw(t, "foreignextra") {
			c.Extra = genExtras(t, true)
		}
	}
	if c.Base != "" || len(c.Extra) > 0 {
		c.OpenVia = rapid.SampledFrom([]string{"", "path", "path"}).Draw(t, "openvia")
	}
}

package c05

import "wzverif/internal/kit"

var findings = []kit.Finding[Case]{}

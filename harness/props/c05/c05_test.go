package c05

import (
	"archive/zip"
	"bytes"
	"fmt"
	"io"
	"os"
	"os/signal"
	"path/filepath"
	"sort"
	"strings"
	"syscall"
	"testing"

	"github.com/zerx-lab/wordZero/pkg/document"
	"pgregory.net/rapid"

	"wzverif/internal/gen"
	"wzverif/internal/kit"
	"wzverif/internal/opc"
	"wzverif/internal/ops"
)

func TestMain(m *testing.M) {
	document.SetGlobalLevel(document.LogLevelSilent)
	signal.Ignore(syscall.SIGXFSZ)
	kit.TestMain(m, 15, 120)
}

// Case: a document (op list), a size band, and how the fault offsets are chosen.
type Case struct {
	Ops    []ops.Op `json:"ops"`
	Blob   int      `json:"blob"`   // extra incompressible image payload: 0 none, else pixel side of a large png (size band)
	Sample []int    `json:"sample"` // drawn offsets (permille of L) used when L is too large for full enumeration
	Target string   `json:"target"` // plain | nested | existing | devfull | parent-is-file | is-dir
	// Extra, when non-empty, makes the document an OPENED one: a library-written package is extended with these zip
	// entries (as another producer might have written them: directory entries, zero-length parts, unknown parts),
	// opened with OpenFromMemory, and the ops are applied to the opened document.
	Extra []Extra `json:"extra,omitempty"`
	// Stages is the save history of the SAME document object before the judged final save and the fault enumeration:
	// stage i saves the object to a path (judged like every save), then applies its edits. The final save therefore sees
	// an object that was saved before and has changed since (parts added, body grown or shrunk).
	Stages []Stage `json:"stages,omitempty"`
	// NoBefore: no ToBytes call between the last edit and the final save (the file is compared with ToBytes taken right after).
	NoBefore bool `json:"nobefore,omitempty"`
}

// Stage is one earlier save of the same object followed by edits.
type Stage struct {
	Path     string   `json:"path"`               // main: the path of the final save (when that is a plain file path) | prev: the path of the previous stage | new: a path not used before | newdir: a new path in new directories
	Fault    int      `json:"fault,omitempty"`    // 0: no injected fault; k>0: this save runs with a write fault at (k-1) permille of the package size and is then repeated without a fault on the same path
	NoBefore bool     `json:"nobefore,omitempty"` // no ToBytes call before this save (compared with ToBytes taken right after only); ignored for a fault stage
	Ops      []ops.Op `json:"ops,omitempty"`      // edits applied after this save (shared op kinds plus the local kinds c05big, c05rmlast, c05rmnote)
}

type Extra struct {
	Name string `json:"name"` // a name ending in "/" is a directory entry
	Data string `json:"data"` // "" = zero-length part
}

var extraNames = []string{"word/", "customXml/", "customXml/item1.xml", "customXml/itemProps1.xml", "word/theme/theme1.xml", "word/fontTable.xml", "docProps/custom.xml",
	"word/media/", "word/embeddings/oleObject1.bin", "word/vbaProject.bin", "word/glossary/document.xml", "META-INF/", "mimetype", "word/webSettings.xml", "extra.dat"}

// withExtra re-zips a package adding the extra entries (after the original ones).
func withExtra(b []byte, extra []Extra) ([]byte, error) {
	zr, err := zip.NewReader(bytes.NewReader(b), int64(len(b)))
	if err != nil {
		return nil, err
	}
	var out bytes.Buffer
	zw := zip.NewWriter(&out)
	have := map[string]bool{}
	for _, f := range zr.File {
		rc, err := f.Open()
		if err != nil {
			return nil, err
		}
		data, _ := io.ReadAll(rc)
		rc.Close()
		w, _ := zw.Create(f.Name)
		w.Write(data)
		have[f.Name] = true
	}
	for _, e := range extra {
		if have[e.Name] {
			continue
		}
		have[e.Name] = true
		w, err := zw.Create(e.Name)
		if err != nil {
			return nil, err
		}
		if !strings.HasSuffix(e.Name, "/") {
			w.Write([]byte(e.Data))
		}
	}
	if err := zw.Close(); err != nil {
		return nil, err
	}
	return out.Bytes(), nil
}

var cfg = &ops.Config{Classes: gen.AllClasses, Weights: weights()}

func weights() map[string]int {
	w := map[string]int{}
	for k, v := range ops.DefaultWeights {
		w[k] = v
	}
	for _, k := range []string{"reopen", "tpldoc", "tpldoc2", "tplstr", "md", "save", "rmpara", "rmparaat", "rmelemat"} {
		delete(w, k)
	}
	return w
}

// stageCfg: the edits between two saves of one object. Weighted towards calls that create a package part the object
// did not have at the previous save (header/footer parts, footnotes/endnotes, settings, media, numbering, docProps,
// styles) next to calls that grow or shrink the main part.
var stageCfg = &ops.Config{Classes: gen.AllClasses, Weights: map[string]int{
	"header": 3, "footer": 3, "headerpn": 1, "footerpn": 1, "fheader": 1, "ffooter": 1, "difffirst": 1,
	"footnote": 3, "endnote": 3, "notecfg": 2,
	"image": 3, "imagefile": 1, "table": 2, "cellimg": 1,
	"listitem": 2, "bullet": 1, "numbered": 1,
	"props": 2, "title": 1, "author": 1, "stats": 1,
	"customstyle": 1, "tblstyle": 1, "pagesize": 1,
	"para": 2, "heading": 1, "addtext": 1,
	"rmpara": 1, "rmparaat": 1, "rmelemat": 2,
}}

// genStageOp draws one edit between two saves.
func genStageOp(t *rapid.T) ops.Op {
	switch rapid.IntRange(0, 19).Draw(t, "stagek") {
	case 0, 1: // a large paragraph (4-48 KB of poorly compressible text): the package grows by several KB
		return ops.Op{K: "c05big", I: []int{rapid.IntRange(4, 48).Draw(t, "bigkb"), rapid.IntRange(0, 999).Draw(t, "bigpat")}}
	case 2, 3, 4: // drop the last body element: the package shrinks
		return ops.Op{K: "c05rmlast"}
	case 5:
		return ops.Op{K: "c05rmnote", S: []string{rapid.SampledFrom([]string{"footnote", "endnote"}).Draw(t, "rmnk"), fmt.Sprint(rapid.IntRange(1, 4).Draw(t, "rmnid"))}}
	}
	return stageCfg.Op(t)
}

func genStages(t *rapid.T) []Stage {
	n := rapid.SampledFrom([]int{0, 0, 1, 1, 1, 2, 2, 3, 4}).Draw(t, "nstages")
	var out []Stage
	for i := 0; i < n; i++ {
		st := Stage{Path: rapid.SampledFrom([]string{"main", "main", "main", "prev", "new", "new", "newdir"}).Draw(t, "spath")}
		if rapid.IntRange(0, 3).Draw(t, "sfault") == 0 {
			st.Fault = 1 + rapid.IntRange(0, 999).Draw(t, "sfaultpm")
		}
		st.NoBefore = rapid.Bool().Draw(t, "snobefore")
		k := rapid.IntRange(0, 4).Draw(t, "snops")
		for j := 0; j < k; j++ {
			st.Ops = append(st.Ops, genStageOp(t))
		}
		out = append(out, st)
	}
	return out
}

func genCase(t *rapid.T) Case {
	c := Case{Ops: cfg.History(t, 0, 12)}
	switch rapid.IntRange(0, 3).Draw(t, "band") {
	case 2:
		c.Blob = rapid.IntRange(40, 90).Draw(t, "blob")
	case 3:
		c.Blob = rapid.IntRange(100, kit.Scale(220, 500)).Draw(t, "blob")
	}
	n := rapid.IntRange(8, 40).Draw(t, "nsample")
	for i := 0; i < n; i++ {
		c.Sample = append(c.Sample, rapid.IntRange(0, 999).Draw(t, "permille"))
	}
	c.Target = rapid.SampledFrom([]string{"plain", "plain", "nested", "existing", "devfull", "parent-is-file", "is-dir"}).Draw(t, "target")
	if rapid.IntRange(0, 2).Draw(t, "opened") == 0 {
		n := rapid.IntRange(1, 5).Draw(t, "nextra")
		for i := 0; i < n; i++ {
			e := Extra{Name: rapid.SampledFrom(extraNames).Draw(t, "xname")}
			if !strings.HasSuffix(e.Name, "/") {
				e.Data = rapid.SampledFrom([]string{"", "", "<?xml version=\"1.0\"?><a/>", "\x00\x01binary\xff", " "}).Draw(t, "xdata")
			}
			c.Extra = append(c.Extra, e)
		}
	}
	c.Stages = genStages(t)
	c.NoBefore = rapid.Bool().Draw(t, "nobefore")
	return c
}

func partMap(b []byte) (map[string]string, error) {
	p, err := opc.Read(b)
	if err != nil {
		return nil, err
	}
	if len(p.Dups) > 0 {
		return nil, fmt.Errorf("duplicate entries %v", p.Dups)
	}
	m := map[string]string{}
	for k, v := range p.Parts {
		m[k] = string(v)
	}
	return m, nil
}

func sameParts(a, b map[string]string) string {
	for k, v := range a {
		w, ok := b[k]
		if !ok {
			return "part " + k + " missing in the file"
		}
		if v != w {
			return "part " + k + " differs"
		}
	}
	for k := range b {
		if _, ok := a[k]; !ok {
			return "part " + k + " only in the file"
		}
	}
	return ""
}

var (
	faultPoints, closeOnly, writeFaults, controls int
)

// trailing returns the number of bytes of a file that follow the end of the zip package (the end-of-central-directory
// record including its comment): a complete package written by Save ends the file. -1: no end record found.
func trailing(b []byte) int {
	for p := len(b) - 22; p >= 0 && p >= len(b)-22-65535; p-- {
		if b[p] == 'P' && b[p+1] == 'K' && b[p+2] == 5 && b[p+3] == 6 {
			end := p + 22 + int(b[p+20]) + int(b[p+21])<<8
			if end <= len(b) {
				return len(b) - end
			}
		}
	}
	return -1
}

// bigText gives kb*1024 characters of deterministic, poorly compressible text.
func bigText(kb, pat int) string {
	const alpha = "abcdefghijklmnopqrstuvwxyzABCDEFGHIJKLMNOPQRSTUVWXYZ0123456789 ."
	v := uint32(pat)*2654435761 + 12345
	b := make([]byte, kb*1024)
	for i := range b {
		v ^= v << 13
		v ^= v >> 17
		v ^= v << 5
		b[i] = alpha[v&63]
	}
	return string(b)
}

// doOp executes one edit: the local kinds here, everything else through the shared interpreter.
func doOp(x *ops.Exec, op ops.Op) {
	d := x.Doc
	switch op.K {
	case "c05big":
		kb, pat := 8, 0
		if len(op.I) > 1 {
			kb, pat = op.I[0], op.I[1]
		}
		if kb < 1 || kb > 256 {
			kb = 8
		}
		x.Paras = append(x.Paras, d.AddParagraph(bigText(kb, pat)))
	case "c05rmlast":
		if n := len(d.Body.Elements); n > 0 {
			d.RemoveElementAt(n - 1)
			x.Paras = d.Body.GetParagraphs()
			x.Tables = d.Body.GetTables()
		}
	case "c05rmnote":
		if len(op.S) > 1 {
			if op.S[0] == "endnote" {
				d.RemoveEndnote(op.S[1])
			} else {
				d.RemoveFootnote(op.S[1])
			}
		}
	default:
		x.Do(op)
	}
}

// judgedSave is one Save without an injected fault, judged by F3 (nil) and F1 (the file is a complete package - nothing
// follows its end record - whose part map equals the part map of ToBytes taken immediately before and after).
// It returns the file size and the part map; ok=false when the case cannot go on.
func judgedSave(res *kit.Result, doc *document.Document, path, what string, noBefore bool) (L int64, want map[string]string, ok bool) {
	// noBefore: ToBytes is NOT called before this Save (a ToBytes call refreshes the serialised parts the object keeps,
	// which would hide a Save that relies on them); the file is then compared with ToBytes taken right after only.
	if !noBefore {
		before, err := doc.ToBytes()
		if err != nil {
			res.Label("tobytes-error")
			return 0, nil, false
		}
		want, err = partMap(before)
		if err != nil {
			res.Label("tobytes-unreadable") // C01's business
			return 0, nil, false
		}
	} else {
		what += ", no ToBytes call before it"
		res.Label("oracle:tobytes-after-only")
	}
	serr, pan := saveWithLimit(doc, path, -1)
	controls++
	if pan != nil {
		res.Fail("C05.F0", "%s: Save panicked: %v", what, pan)
		return 0, nil, false
	}
	res.Eval("C05.F3")
	if serr != nil {
		res.Fail("C05.F3", "%s: Save without any fault returned %v", what, serr)
		return 0, nil, false
	}
	fb, _ := os.ReadFile(path)
	after, err := doc.ToBytes()
	if err != nil {
		if want == nil {
			res.Label("tobytes-error")
			return 0, nil, false
		}
		after = nil
	}
	var am map[string]string
	if after != nil {
		if am, err = partMap(after); err != nil {
			if want == nil {
				res.Label("tobytes-unreadable")
				return 0, nil, false
			}
			am = nil
		}
	}
	res.Eval("C05.F1")
	good := true
	ref, when := want, "before"
	if ref == nil {
		ref, when = am, "right after"
	}
	if got, err := partMap(fb); err != nil {
		res.Fail("C05.F1", "%s: Save returned nil but the file is not a readable package: %v", what, err)
		good = false
	} else if d := sameParts(ref, got); d != "" {
		res.Fail("C05.F1", "%s: Save returned nil but the file differs from ToBytes taken %s: %s", what, when, d)
		good = false
	} else if tr := trailing(fb); tr != 0 {
		res.Fail("C05.F1", "%s: Save returned nil but the file is not just the package: %d bytes follow its end record (-1: no end record at the end of the file)", what, tr)
		good = false
	}
	if want != nil && am != nil {
		if d := sameParts(want, am); d != "" {
			res.Fail("C05.F1", "%s: ToBytes before and after Save disagree: %s", what, d)
			good = false
		}
	}
	return int64(len(fb)), ref, good
}

// saveWithLimit runs Save with the soft RLIMIT_FSIZE set to n (n<0: no limit).
func saveWithLimit(doc *document.Document, path string, n int64) (err error, panicked interface{}) {
	var old syscall.Rlimit
	if n >= 0 {
		if e := syscall.Getrlimit(syscall.RLIMIT_FSIZE, &old); e != nil {
			return nil, "getrlimit: " + e.Error()
		}
		lim := old
		lim.Cur = uint64(n)
		if e := syscall.Setrlimit(syscall.RLIMIT_FSIZE, &lim); e != nil {
			return nil, "setrlimit: " + e.Error()
		}
		defer syscall.Setrlimit(syscall.RLIMIT_FSIZE, &old)
	}
	p, st := kit.Try(func() { err = doc.Save(path) })
	if p != nil {
		panicked = fmt.Sprintf("%v [%s]", p, st)
	}
	return
}

func run(c Case) *kit.Result {
	res := &kit.Result{}
	document.VerifResetGlobals()
	dir, _ := os.MkdirTemp(kit.Scratch, "c05-")
	defer os.RemoveAll(dir)
	x := ops.NewExec(dir)
	if len(c.Extra) > 0 {
		// an opened document: the library's own minimal package + foreign entries
		seed := document.New()
		seed.AddParagraph("opened")
		sb, err := seed.ToBytes()
		if err != nil {
			res.Label("tobytes-error")
			return res
		}
		fb, err := withExtra(sb, c.Extra)
		if err != nil {
			res.Label("extra-unzippable")
			return res
		}
		var od *document.Document
		var oerr error
		if p, _ := kit.Try(func() { od, oerr = document.OpenFromMemory(io.NopCloser(bytes.NewReader(fb))) }); p != nil || oerr != nil || od == nil {
			res.Label("open-rejected") // C06's business; nothing to save
			return res
		}
		x.Doc = od
		res.Label("source:opened")
		for _, e := range c.Extra {
			if strings.HasSuffix(e.Name, "/") {
				res.Label("extra:directory-entry")
			} else if e.Data == "" {
				res.Label("extra:zero-length-part")
			}
		}
	} else {
		res.Label("source:new")
	}
	for _, op := range c.Ops {
		if p, _ := kit.Try(func() { doOp(x, op) }); p != nil {
			res.Label("build-panicked")
			return res // C01/C09 report panics of the build ops; here the document is just an input
		}
	}
	if c.Blob > 0 {
		im := gen.Img{Fmt: "png", W: c.Blob, H: c.Blob, Pat: c.Blob*7 + len(c.Ops), Name: "blob.png"}
		x.Doc.AddImageFromData(im.Bytes(), im.Name, document.ImageFormatPNG, im.W, im.H, nil)
	}
	doc := x.Doc
	// the target of the final save
	path := filepath.Join(dir, "out.docx")
	expectErr := false
	switch c.Target {
	case "nested":
		path = filepath.Join(dir, "n1", "n 2", "名", "out.docx")
	case "devfull":
		path = "/dev/full"
		expectErr = true
	case "parent-is-file":
		os.WriteFile(filepath.Join(dir, "f"), []byte("x"), 0o644)
		path = filepath.Join(dir, "f", "out.docx")
		expectErr = true
	case "is-dir":
		os.MkdirAll(filepath.Join(dir, "d.docx"), 0o755)
		path = filepath.Join(dir, "d.docx")
		expectErr = true
	}
	res.Label("target:" + c.Target)

	// the save history of this object before the final save
	mainPath := filepath.Join(dir, "out.docx")
	prevPath := mainPath
	sizeAt := map[string]int64{}    // path -> size of the file the last successful save left there
	var lastNames map[string]string // part map of the last successful save
	noteSave := func(p string, L int64, want map[string]string) {
		if old, ok := sizeAt[p]; ok {
			res.Label("history:same-path-again")
			if L < old {
				res.Label("history:smaller-file-over-larger")
			}
		}
		sizeAt[p] = L
		if lastNames != nil {
			for k := range want {
				if _, ok := lastNames[k]; !ok {
					res.Label("history:parts-added-between-saves")
					break
				}
			}
		}
		lastNames = want
	}
	if len(c.Stages) == 0 {
		res.Label("history:first-save")
	} else {
		res.Label("history:multi-save")
	}
	for i, st := range c.Stages {
		sp := mainPath
		switch st.Path {
		case "prev":
			sp = prevPath
		case "new":
			sp = filepath.Join(dir, fmt.Sprintf("s%d.docx", i))
		case "newdir":
			sp = filepath.Join(dir, fmt.Sprintf("d%d", i), "sub dir", "s.docx")
		}
		prevPath = sp
		what := fmt.Sprintf("save %d of the same object (%s path)", i+1, st.Path)
		if st.Fault > 0 {
			// a save that hits a write fault, then the same save again without the fault (same path)
			res.Label("history:fault-on-earlier-save")
			before, err := doc.ToBytes()
			if err != nil {
				res.Label("tobytes-error")
				return res
			}
			want, err := partMap(before)
			if err != nil {
				res.Label("tobytes-unreadable")
				return res
			}
			N := int64(len(before)) * int64(st.Fault-1) / 1000
			ferr, pan := saveWithLimit(doc, sp, N)
			faultPoints++
			if pan != nil {
				res.Fail("C05.F0", "%s: Save panicked with a write fault at offset %d: %v", what, N, pan)
				return res
			}
			faulty, _ := os.ReadFile(sp)
			L, w2, ok := judgedSave(res, doc, sp, what+", repeated after the faulty attempt", false)
			if !ok {
				return res
			}
			res.Eval("C05.F2")
			switch {
			case ferr == nil && N < L:
				res.Fail("C05.F2", "%s: write fault at byte offset %d of %d: Save returned nil (file on disk had %d bytes)", what, N, L, len(faulty))
				return res
			case ferr == nil:
				// the limit was not below the file size: an ordinary successful save
				if got, err := partMap(faulty); err != nil {
					res.Fail("C05.F1", "%s (limit %d >= size %d): Save returned nil but the file is not a readable package: %v", what, N, L, err)
					return res
				} else if d := sameParts(want, got); d != "" {
					res.Fail("C05.F1", "%s (limit %d >= size %d): Save returned nil but the file differs from ToBytes taken before: %s", what, N, L, d)
					return res
				}
			case N >= L:
				res.Fail("C05.F3", "%s: Save with a size limit of %d >= file size %d failed: %v", what, N, L, ferr)
				return res
			default:
				if strings.Contains(ferr.Error(), "close") || strings.Contains(ferr.Error(), "关闭") {
					closeOnly++
				} else {
					writeFaults++
				}
			}
			noteSave(sp, L, w2)
		} else {
			L, want, ok := judgedSave(res, doc, sp, what, st.NoBefore)
			if !ok {
				return res
			}
			noteSave(sp, L, want)
		}
		for _, op := range st.Ops {
			if p, _ := kit.Try(func() { doOp(x, op) }); p != nil {
				res.Label("build-panicked")
				return res
			}
		}
	}

	if c.Target == "existing" {
		os.WriteFile(path, []byte(strings.Repeat("old content ", 20000)), 0o644)
	}
	if expectErr {
		serr, pan := saveWithLimit(doc, path, -1)
		controls++
		if pan != nil {
			res.Fail("C05.F0", "Save panicked: %v", pan)
			return res
		}
		res.Eval("C05.F2")
		if serr == nil {
			res.Fail("C05.F2", "Save to %s target %q returned nil although the target cannot hold the file", c.Target, path)
		}
		if c.Target != "devfull" {
			return res
		}
		path = filepath.Join(dir, "out.docx")
	}
	L, want, ok := judgedSave(res, doc, path, "final save", c.NoBefore)
	if !ok {
		return res
	}
	noteSave(path, L, want)
	// fault points
	var offs []int64
	if L <= 16384 {
		// thorough: every offset. quick: every offset of the first 32 and the last 1024 bytes (last entries, central
		// directory, end record - where a fault is seen only by the closing calls), the middle with a stride that keeps
		// it to about 300 points (stride 1 up to L ~ 1350, at most 51 at 16 KB).
		step, head, tail := int64(1), int64(0), L
		if kit.Tier != "thorough" {
			head, tail = 32, L-1024
			step = (tail - head + 299) / 300
			if step < 1 {
				step = 1
			}
		}
		for n := int64(0); n < L; {
			offs = append(offs, n)
			if n < head || n >= tail {
				n++
			} else {
				n += step
				if n > tail {
					n = tail
				}
			}
		}
		offs = append(offs, L-1)
		res.Label("enumeration:exhaustive")
	} else {
		seen := map[int64]bool{}
		add := func(n int64) {
			if n >= 0 && n < L && !seen[n] {
				seen[n] = true
				offs = append(offs, n)
			}
		}
		add(0)
		add(1)
		add(L - 1)
		add(L - 2)
		stride := int64(4096)
		for L/stride > 200 {
			stride *= 2
		}
		for n := stride; n < L; n += stride {
			add(n - 1)
			add(n)
			add(n + 1)
		}
		for _, pm := range c.Sample {
			add(L * int64(pm) / 1000)
		}
		sort.Slice(offs, func(i, j int) bool { return offs[i] < offs[j] })
		res.Label("enumeration:sampled")
	}
	band := "small(<4096)"
	if L >= 4096 {
		band = "medium"
	}
	if L >= 65536 {
		band = "large(>=64K)"
	}
	res.Label("band:" + band)
	fpath := filepath.Join(dir, "fault.docx")
	bad := 0
	for _, n := range offs {
		os.Remove(fpath)
		serr, pan := saveWithLimit(doc, fpath, n)
		faultPoints++
		res.Eval("C05.F2")
		if pan != nil {
			res.Fail("C05.F0", "Save panicked with a write fault at offset %d: %v", n, pan)
			break
		}
		st, _ := os.Stat(fpath)
		if serr == nil {
			size := int64(-1)
			if st != nil {
				size = st.Size()
			}
			if bad < 3 {
				res.Fail("C05.F2", "write fault at byte offset %d of %d: Save returned nil (file on disk has %d bytes)", n, L, size)
			}
			bad++
		} else {
			if strings.Contains(serr.Error(), "close") || strings.Contains(serr.Error(), "关闭") {
				closeOnly++
			} else {
				writeFaults++
			}
		}
	}
	if bad > 0 {
		res.Count("fault_points_with_nil_error", bad)
	}
	// no-fault controls at and beyond L
	for _, n := range []int64{L, L + 1, L + 4096} {
		os.Remove(fpath)
		serr, pan := saveWithLimit(doc, fpath, n)
		controls++
		res.Eval("C05.F3")
		if pan != nil || serr != nil {
			res.Fail("C05.F3", "Save with a size limit of %d >= file size %d failed: %v %v", n, L, serr, pan)
			continue
		}
		fb, _ := os.ReadFile(fpath)
		if got, err := partMap(fb); err != nil {
			res.Fail("C05.F1", "Save (limit %d, no fault) returned nil but file unreadable: %v", n, err)
		} else if d := sameParts(want, got); d != "" {
			res.Fail("C05.F1", "Save (limit %d, no fault) differs from ToBytes: %s", n, d)
		}
	}
	res.Nontrivial = len(offs) > 2
	res.Shape = fmt.Sprintf("%s|%s|ops=%d|L/512=%d|earlier-saves=%d", band, c.Target, len(c.Ops), L/512, len(c.Stages))
	return res
}

func TestC05(t *testing.T) {
	kit.Main(t, kit.Spec[Case]{
		ID: "C05", Level: "fault_enumeration",
		Rule: "per generated document (0-12 API ops on a new document or, in one case of three, on a document opened from a library-written package extended with 1-5 foreign zip entries - directory entries, zero-length parts, unknown parts; optionally a large incompressible image: three size bands) one unrestricted Save (L = file size) and one Save per fault point with the soft RLIMIT_FSIZE set to N: every N in [0,L) when L<=16384 (quick: every N of the first 32 and last 1024 bytes, about 300 evenly spaced ones between), else 0,1,L-2,L-1, every multiple of a 4096*2^k stride +-1 and 8-40 drawn offsets; controls N in {L, L+1, L+4096}; targets: plain, nested new directories, existing larger file, /dev/full, parent is a regular file, path is a directory. Save history: in about 3 of 4 cases the SAME object was saved 1-4 times before the final save (to the final path, the previous path, a fresh path or fresh directories; one stage in four first hits a write fault at a drawn offset and is then repeated on the same path), each earlier save followed by 0-4 edits drawn mostly from the calls that create package parts (headers/footers of all kinds, footnotes/endnotes, note settings, pictures, lists, document properties, custom/table styles) plus body growth (incl. 4-48 KB paragraphs) and shrinkage (remove paragraph/element/last element, remove note); every save of the history is judged like the final one. A case is non-trivial when it has >2 fault points with 0<=N<L; distinct = (size band, target kind, op count, L/512).",
		Gen:  genCase, Run: run, Findings: findings, CaseLimit: 120e9,
		MustSee: map[string]float64{"history:multi-save": 0.3, "history:parts-added-between-saves": 0.15, "history:same-path-again": 0.15, "history:first-save": 0.1},
		Fixed: func() []Case {
			para := ops.Op{K: "para", S: []string{"hello"}}
			return []Case{
				{Ops: nil, Target: "plain"},
				{Ops: []ops.Op{para}, Target: "devfull"},
				{Ops: []ops.Op{para}, Blob: 60, Target: "existing", Sample: []int{3, 500, 999}},
				{Ops: []ops.Op{para}, Blob: 200, Target: "nested", Sample: []int{1, 250, 777}},
				{Ops: []ops.Op{para}, Target: "parent-is-file"},
				{Ops: []ops.Op{para}, Target: "plain", Extra: []Extra{{Name: "word/"}, {Name: "customXml/"}, {Name: "customXml/item1.xml"}, {Name: "extra.dat", Data: "x"}}},
				// one object saved several times: parts appear between the saves (same path, other paths), a faulty save in between
				{Ops: []ops.Op{para}, Target: "plain", Stages: []Stage{
					{Path: "main", Ops: []ops.Op{{K: "header", I: []int{0}, S: []string{"head"}}, {K: "footnote", S: []string{"t", "note"}}}},
					{Path: "new", Fault: 501, Ops: []ops.Op{{K: "footer", I: []int{1}, S: []string{"foot"}}, {K: "listitem", S: []string{"item"}, I: []int{1, 0, 1, 0}}, {K: "props", S: []string{"T", "S", "C", "K", "D", "en", "cat", "1", "2"}}}},
					{Path: "prev", NoBefore: true, Ops: []ops.Op{{K: "endnote", S: []string{"t", "end"}}, {K: "notecfg", I: []int{1, 1}}, {K: "image", Img: &gen.Img{Fmt: "png", W: 9, H: 7, Pat: 5, Name: "p.png"}, I: []int{0, 0, 0, 0}, F: []float64{10, 10}, S: []string{"", "", ""}}}},
				}},
				// grow, save, shrink, save to the same path: the second file is shorter than the one it replaces
				{Ops: []ops.Op{para, {K: "c05big", I: []int{40, 7}}}, Target: "plain", NoBefore: true, Stages: []Stage{
					{Path: "main", Ops: []ops.Op{{K: "c05rmlast"}}},
					{Path: "main", NoBefore: true, Ops: []ops.Op{{K: "c05big", I: []int{1, 3}}, {K: "c05rmlast"}, {K: "c05rmlast"}}},
				}},
			}
		},
		Assumptions: []string{"write failures are modelled as 'the N-th byte of the output file cannot be written' (EFBIG through RLIMIT_FSIZE, ENOSPC through /dev/full); media errors on already written bytes and fsync failures are out of scope (the library never syncs)",
			"zip entry order is map-iteration order and is not compared; parts are compared as a name->bytes map",
			"a complete package ends the file: bytes after the end-of-central-directory record (leftovers of a longer file that was at the path) make a file unfaithful even when a lenient zip reader still finds the parts",
			"after a Save that returned an error nothing is demanded of the target file; the object must still save faithfully afterwards"},
		Extra: func() map[string]interface{} {
			return map[string]interface{}{"fault_points": faultPoints, "faults_surfacing_at_close": closeOnly, "faults_surfacing_in_write": writeFaults, "no_fault_controls": controls}
		},
	})
}

package c05

import (
	"archive/zip"
	"bytes"
	"fmt"
	"io"
	"os"
	"os/signal"
	"path/filepath"
	"sort"
	"strings"
	"syscall"
	"testing"

	"github.com/zerx-lab/wordZero/pkg/document"
	"pgregory.net/rapid"

	"wzverif/internal/gen"
	"wzverif/internal/kit"
	"wzverif/internal/opc"
	"wzverif/internal/ops"
)

func TestMain(m *testing.M) {
	document.SetGlobalLevel(document.LogLevelSilent)
	signal.Ignore(syscall.SIGXFSZ)
	kit.TestMain(m, 15, 60)
}

// Case: a document (op list), a size band, and how the fault offsets are chosen.
type Case struct {
	Ops    []ops.Op `json:"ops"`
	Blob   int      `json:"blob"`   // extra incompressible image payload: 0 none, else pixel side of a large png (size band)
	Sample []int    `json:"sample"` // drawn offsets (permille of L) used when L is too large for full enumeration
	Target string   `json:"target"` // plain | nested | existing | devfull | parent-is-file | is-dir
	// Extra, when non-empty, makes the document an OPENED one: a library-written package is extended with these zip
	// entries (as another producer might have written them: directory entries, zero-length parts, unknown parts),
	// opened with OpenFromMemory, and the ops are applied to the opened document.
	Extra []Extra `json:"extra,omitempty"`
}

type Extra struct {
	Name string `json:"name"` // a name ending in "/" is a directory entry
	Data string `json:"data"` // "" = zero-length part
}

var extraNames = []string{"word/", "customXml/", "customXml/item1.xml", "customXml/itemProps1.xml", "word/theme/theme1.xml", "word/fontTable.xml", "docProps/custom.xml",
	"word/media/", "word/embeddings/oleObject1.bin", "word/vbaProject.bin", "word/glossary/document.xml", "META-INF/", "mimetype", "word/webSettings.xml", "extra.dat"}

// withExtra re-zips a package adding the extra entries (after the original ones).
func withExtra(b []byte, extra []Extra) ([]byte, error) {
	zr, err := zip.NewReader(bytes.NewReader(b), int64(len(b)))
	if err != nil {
		return nil, err
	}
	var out bytes.Buffer
	zw := zip.NewWriter(&out)
	have := map[string]bool{}
	for _, f := range zr.File {
		rc, err := f.Open()
		if err != nil {
			return nil, err
		}
		data, _ := io.ReadAll(rc)
		rc.Close()
		w, _ := zw.Create(f.Name)
		w.Write(data)
		have[f.Name] = true
	}
	for _, e := range extra {
		if have[e.Name] {
			continue
		}
		have[e.Name] = true
		w, err := zw.Create(e.Name)
		if err != nil {
			return nil, err
		}
		if !strings.HasSuffix(e.Name, "/") {
			w.Write([]byte(e.Data))
		}
	}
	if err := zw.Close(); err != nil {
		return nil, err
	}
	return out.Bytes(), nil
}

var cfg = &ops.Config{Classes: gen.AllClasses, Weights: weights()}

func weights() map[string]int {
	w := map[string]int{}
	for k, v := range ops.DefaultWeights {
		w[k] = v
	}
	for _, k := range []string{"reopen", "tpldoc", "tpldoc2", "tplstr", "md", "save", "rmpara", "rmparaat", "rmelemat"} {
		delete(w, k)
	}
	return w
}

func genCase(t *rapid.T) Case {
	c := Case{Ops: cfg.History(t, 0, 12)}
	switch rapid.IntRange(0, 3).Draw(t, "band") {
	case 2:
		c.Blob = rapid.IntRange(40, 90).Draw(t, "blob")
	case 3:
		c.Blob = rapid.IntRange(100, kit.Scale(220, 500)).Draw(t, "blob")
	}
	n := rapid.IntRange(8, 40).Draw(t, "nsample")
	for i := 0; i < n; i++ {
		c.Sample = append(c.Sample, rapid.IntRange(0, 999).Draw(t, "permille"))
	}
	c.Target = rapid.SampledFrom([]string{"plain", "plain", "nested", "existing", "devfull", "parent-is-file", "is-dir"}).Draw(t, "target")
	if rapid.IntRange(0, 2).Draw(t, "opened") == 0 {
		n := rapid.IntRange(1, 5).Draw(t, "nextra")
		for i := 0; i < n; i++ {
			e := Extra{Name: rapid.SampledFrom(extraNames).Draw(t, "xname")}
			if !strings.HasSuffix(e.Name, "/") {
				e.Data = rapid.SampledFrom([]string{"", "", "<?xml version=\"1.0\"?><a/>", "\x00\x01binary\xff", " "}).Draw(t, "xdata")
			}
			c.Extra = append(c.Extra, e)
		}
	}
	return c
}

func partMap(b []byte) (map[string]string, error) {
	p, err := opc.Read(b)
	if err != nil {
		return nil, err
	}
	if len(p.Dups) > 0 {
		return nil, fmt.Errorf("duplicate entries %v", p.Dups)
	}
	m := map[string]string{}
	for k, v := range p.Parts {
		m[k] = string(v)
	}
	return m, nil
}

func sameParts(a, b map[string]string) string {
	for k, v := range a {
		w, ok := b[k]
		if !ok {
			return "part " + k + " missing in the file"
		}
		if v != w {
			return "part " + k + " differs"
		}
	}
	for k := range b {
		if _, ok := a[k]; !ok {
			return "part " + k + " only in the file"
		}
	}
	return ""
}

var (
	faultPoints, closeOnly, writeFaults, controls int
)

// saveWithLimit runs Save with the soft RLIMIT_FSIZE set to n (n<0: no limit).
func saveWithLimit(doc *document.Document, path string, n int64) (err error, panicked interface{}) {
	var old syscall.Rlimit
	if n >= 0 {
		if e := syscall.Getrlimit(syscall.RLIMIT_FSIZE, &old); e != nil {
			return nil, "getrlimit: " + e.Error()
		}
		lim := old
		lim.Cur = uint64(n)
		if e := syscall.Setrlimit(syscall.RLIMIT_FSIZE, &lim); e != nil {
			return nil, "setrlimit: " + e.Error()
		}
		defer syscall.Setrlimit(syscall.RLIMIT_FSIZE, &old)
	}
	p, st := kit.Try(func() { err = doc.Save(path) })
	if p != nil {
		panicked = fmt.Sprintf("%v [%s]", p, st)
	}
	return
}

func run(c Case) *kit.Result {
	res := &kit.Result{}
	document.VerifResetGlobals()
	dir, _ := os.MkdirTemp(kit.Scratch, "c05-")
	defer os.RemoveAll(dir)
	x := ops.NewExec(dir)
	if len(c.Extra) > 0 {
		// an opened document: the library's own minimal package + foreign entries
		seed := document.New()
		seed.AddParagraph("opened")
		sb, err := seed.ToBytes()
		if err != nil {
			res.Label("tobytes-error")
			return res
		}
		fb, err := withExtra(sb, c.Extra)
		if err != nil {
			res.Label("extra-unzippable")
			return res
		}
		var od *document.Document
		var oerr error
		if p, _ := kit.Try(func() { od, oerr = document.OpenFromMemory(io.NopCloser(bytes.NewReader(fb))) }); p != nil || oerr != nil || od == nil {
			res.Label("open-rejected") // C06's business; nothing to save
			return res
		}
		x.Doc = od
		res.Label("source:opened")
		for _, e := range c.Extra {
			if strings.HasSuffix(e.Name, "/") {
				res.Label("extra:directory-entry")
			} else if e.Data == "" {
				res.Label("extra:zero-length-part")
			}
		}
	} else {
		res.Label("source:new")
	}
	for _, op := range c.Ops {
		if p, _ := kit.Try(func() { x.Do(op) }); p != nil {
			res.Label("build-panicked")
			return res // C01/C09 report panics of the build ops; here the document is just an input
		}
	}
	if c.Blob > 0 {
		im := gen.Img{Fmt: "png", W: c.Blob, H: c.Blob, Pat: c.Blob*7 + len(c.Ops), Name: "blob.png"}
		x.Doc.AddImageFromData(im.Bytes(), im.Name, document.ImageFormatPNG, im.W, im.H, nil)
	}
	doc := x.Doc
	before, err := doc.ToBytes()
	if err != nil {
		res.Label("tobytes-error")
		return res
	}
	want, err := partMap(before)
	if err != nil {
		res.Label("tobytes-unreadable") // C01's business
		return res
	}
	// F3 + control: unrestricted save to the requested kind of target
	path := filepath.Join(dir, "out.docx")
	expectErr := false
	switch c.Target {
	case "nested":
		path = filepath.Join(dir, "n1", "n 2", "名", "out.docx")
	case "existing":
		os.WriteFile(path, []byte(strings.Repeat("old content ", 20000)), 0o644)
	case "devfull":
		path = "/dev/full"
		expectErr = true
	case "parent-is-file":
		os.WriteFile(filepath.Join(dir, "f"), []byte("x"), 0o644)
		path = filepath.Join(dir, "f", "out.docx")
		expectErr = true
	case "is-dir":
		os.MkdirAll(filepath.Join(dir, "d.docx"), 0o755)
		path = filepath.Join(dir, "d.docx")
		expectErr = true
	}
	res.Label("target:" + c.Target)
	serr, pan := saveWithLimit(doc, path, -1)
	controls++
	if pan != nil {
		res.Fail("C05.F0", "Save panicked: %v", pan)
		return res
	}
	if expectErr {
		res.Eval("C05.F2")
		if serr == nil {
			res.Fail("C05.F2", "Save to %s target %q returned nil although the target cannot hold the file", c.Target, path)
		}
		if c.Target != "devfull" {
			return res
		}
		path = filepath.Join(dir, "out.docx")
		if serr, pan = saveWithLimit(doc, path, -1); pan != nil || serr != nil {
			res.Fail("C05.F3", "plain Save failed: %v %v", serr, pan)
			return res
		}
	} else {
		res.Eval("C05.F3")
		if serr != nil {
			res.Fail("C05.F3", "Save without any fault returned %v", serr)
			return res
		}
	}
	fb, _ := os.ReadFile(path)
	L := int64(len(fb))
	res.Eval("C05.F1")
	if got, err := partMap(fb); err != nil {
		res.Fail("C05.F1", "Save returned nil but the file is not a readable package: %v", err)
	} else if d := sameParts(want, got); d != "" {
		res.Fail("C05.F1", "Save returned nil but the file differs from ToBytes taken before: %s", d)
	}
	after, err := doc.ToBytes()
	if err == nil {
		if am, e := partMap(after); e == nil {
			if d := sameParts(want, am); d != "" {
				res.Fail("C05.F1", "ToBytes before and after Save disagree: %s", d)
			}
		}
	}
	// fault points
	var offs []int64
	if L <= 16384 {
		step := int64(1)
		if kit.Tier != "thorough" && L > 6000 {
			step = 3
		}
		for n := int64(0); n < L; n += step {
			offs = append(offs, n)
		}
		offs = append(offs, L-1)
		res.Label("enumeration:exhaustive")
	} else {
		seen := map[int64]bool{}
		add := func(n int64) {
			if n >= 0 && n < L && !seen[n] {
				seen[n] = true
				offs = append(offs, n)
			}
		}
		add(0)
		add(1)
		add(L - 1)
		add(L - 2)
		stride := int64(4096)
		for L/stride > 200 {
			stride *= 2
		}
		for n := stride; n < L; n += stride {
			add(n - 1)
			add(n)
			add(n + 1)
		}
		for _, pm := range c.Sample {
			add(L * int64(pm) / 1000)
		}
		sort.Slice(offs, func(i, j int) bool { return offs[i] < offs[j] })
		res.Label("enumeration:sampled")
	}
	band := "small(<4096)"
	if L >= 4096 {
		band = "medium"
	}
	if L >= 65536 {
		band = "large(>=64K)"
	}
	res.Label("band:" + band)
	fpath := filepath.Join(dir, "fault.docx")
	bad := 0
	for _, n := range offs {
		os.Remove(fpath)
		serr, pan := saveWithLimit(doc, fpath, n)
		faultPoints++
		res.Eval("C05.F2")
		if pan != nil {
			res.Fail("C05.F0", "Save panicked with a write fault at offset %d: %v", n, pan)
			break
		}
		st, _ := os.Stat(fpath)
		if serr == nil {
			size := int64(-1)
			if st != nil {
				size = st.Size()
			}
			if bad < 3 {
				res.Fail("C05.F2", "write fault at byte offset %d of %d: Save returned nil (file on disk has %d bytes)", n, L, size)
			}
			bad++
		} else {
			if strings.Contains(serr.Error(), "close") || strings.Contains(serr.Error(), "关闭") {
				closeOnly++
			} else {
				writeFaults++
			}
		}
	}
	if bad > 0 {
		res.Count("fault_points_with_nil_error", bad)
	}
	// no-fault controls at and beyond L
	for _, n := range []int64{L, L + 1, L + 4096} {
		os.Remove(fpath)
		serr, pan := saveWithLimit(doc, fpath, n)
		controls++
		res.Eval("C05.F3")
		if pan != nil || serr != nil {
			res.Fail("C05.F3", "Save with a size limit of %d >= file size %d failed: %v %v", n, L, serr, pan)
			continue
		}
		fb, _ := os.ReadFile(fpath)
		if got, err := partMap(fb); err != nil {
			res.Fail("C05.F1", "Save (limit %d, no fault) returned nil but file unreadable: %v", n, err)
		} else if d := sameParts(want, got); d != "" {
			res.Fail("C05.F1", "Save (limit %d, no fault) differs from ToBytes: %s", n, d)
		}
	}
	res.Nontrivial = len(offs) > 2
	res.Shape = fmt.Sprintf("%s|%s|ops=%d|L/512=%d", band, c.Target, len(c.Ops), L/512)
	return res
}

func TestC05(t *testing.T) {
	kit.Main(t, kit.Spec[Case]{
		ID: "C05", Level: "fault_enumeration",
		Rule: "per generated document (0-12 API ops on a new document or, in one case of three, on a document opened from a library-written package extended with 1-5 foreign zip entries - directory entries, zero-length parts, unknown parts; optionally a large incompressible image: three size bands) one unrestricted Save (L = file size) and one Save per fault point with the soft RLIMIT_FSIZE set to N: every N in [0,L) when L<=16384 (quick: every 3rd above 6000), else 0,1,L-2,L-1, every multiple of a 4096*2^k stride +-1 and 8-40 drawn offsets; controls N in {L, L+1, L+4096}; targets: plain, nested new directories, existing larger file, /dev/full, parent is a regular file, path is a directory. A case is non-trivial when it has >2 fault points with 0<=N<L; distinct = (size band, target kind, op count, L/512).",
		Gen:  genCase, Run: run, Findings: findings, CaseLimit: 120e9,
		Fixed: func() []Case {
			para := ops.Op{K: "para", S: []string{"hello"}}
			return []Case{
				{Ops: nil, Target: "plain"},
				{Ops: []ops.Op{para}, Target: "devfull"},
				{Ops: []ops.Op{para}, Blob: 60, Target: "existing", Sample: []int{3, 500, 999}},
				{Ops: []ops.Op{para}, Blob: 200, Target: "nested", Sample: []int{1, 250, 777}},
				{Ops: []ops.Op{para}, Target: "parent-is-file"},
				{Ops: []ops.Op{para}, Target: "plain", Extra: []Extra{{Name: "word/"}, {Name: "customXml/"}, {Name: "customXml/item1.xml"}, {Name: "extra.dat", Data: "x"}}},
			}
		},
		Assumptions: []string{"write failures are modelled as 'the N-th byte of the output file cannot be written' (EFBIG through RLIMIT_FSIZE, ENOSPC through /dev/full); media errors on already written bytes and fsync failures are out of scope (the library never syncs)",
			"zip entry order is map-iteration order and is not compared; parts are compared as a name->bytes map"},
		Extra: func() map[string]interface{} {
			return map[string]interface{}{"fault_points": faultPoints, "faults_surfacing_at_close": closeOnly, "faults_surfacing_in_write": writeFaults, "no_fault_controls": controls}
		},
	})
}
